(* props/C20.v - property C20: Digest and element conversions are lossless, order-preserving and strict.
   Only statements, each closed by `exact`, each followed by Print Assumptions.
   Model: model/DigestConv.v (field values in [0,P); a digest is the list of its five values;
   strings and byte strings are lists of byte codes; a Rust Err is None). *)
From Coq Require Import ZArith Bool List.
From TF Require Import BFieldGen DigestConv DigestConvProofs.
Import ListNotations.
Open Scope Z_scope.

(* ---------------------------------------------------------------- Digest <-> [u8; 40] / &[u8] *)
Theorem C20_bytes_roundtrip : forall d, wf_digest d ->
  digest_try_from_slice (digest_to_bytes d) = Some d.
Proof. exact digest_bytes_roundtrip. Qed.
Print Assumptions C20_bytes_roundtrip.

Theorem C20_bytes_shape : forall d, wf_digest d ->
  length (digest_to_bytes d) = 40%nat /\ byte_list (digest_to_bytes d).
Proof. exact digest_to_bytes_40. Qed.
Print Assumptions C20_bytes_shape.

(* lossless, strict and unique at once: an input is accepted iff it is the encoding of a well-formed digest *)
Theorem C20_bytes_accept_iff : forall l d, byte_list l ->
  (digest_try_from_slice l = Some d <-> wf_digest d /\ digest_to_bytes d = l).
Proof. exact digest_bytes_accept_iff. Qed.
Print Assumptions C20_bytes_accept_iff.

Theorem C20_bytes_wrong_length : forall l, length l <> 40%nat -> digest_try_from_slice l = None.
Proof. exact digest_bytes_wrong_length. Qed.
Print Assumptions C20_bytes_wrong_length.

(* an 8-byte word >= p at any element position is rejected, not reduced *)
Theorem C20_bytes_noncanonical_element : forall n pre c post,
  length pre = (8 * n)%nat -> length c = 8%nat -> byte_list c -> P <= from_le_bytes c ->
  digest_try_from_slice (pre ++ c ++ post) = None.
Proof. exact digest_bytes_noncanon. Qed.
Print Assumptions C20_bytes_noncanonical_element.

Theorem C20_bytes_array_is_slice : forall l, length l = 40%nat ->
  digest_try_from_slice l = digest_try_from_array l.
Proof. exact digest_slice_array_agree. Qed.
Print Assumptions C20_bytes_array_is_slice.

(* ---------------------------------------------------------------- hex *)
Theorem C20_hex_roundtrip : forall d, wf_digest d ->
  digest_try_from_hex (digest_to_hex d) = Some d /\ digest_try_from_hex (digest_to_hex_upper d) = Some d.
Proof. exact digest_hex_roundtrip_both. Qed.
Print Assumptions C20_hex_roundtrip.

Theorem C20_hex_shape : forall d, wf_digest d ->
  length (digest_to_hex d) = 80%nat /\ Forall lower_hex_char (digest_to_hex d).
Proof. exact digest_to_hex_shape. Qed.
Print Assumptions C20_hex_shape.

(* accepted hex: 80 hex characters, a well-formed digest, and a lowercase input is exactly to_hex of the result *)
Theorem C20_hex_accept : forall s d, digest_try_from_hex s = Some d ->
  length s = 80%nat /\ Forall hex_char s /\ wf_digest d /\ (Forall lower_hex_char s -> digest_to_hex d = s).
Proof. exact digest_hex_accept. Qed.
Print Assumptions C20_hex_accept.

Theorem C20_hex_wrong_length : forall s, length s <> 80%nat -> digest_try_from_hex s = None.
Proof. exact digest_hex_wrong_length. Qed.
Print Assumptions C20_hex_wrong_length.

Theorem C20_hex_invalid_digit : forall s c, In c s -> ~ hex_char c -> digest_try_from_hex s = None.
Proof. exact digest_hex_invalid. Qed.
Print Assumptions C20_hex_invalid_digit.

Theorem C20_hex_noncanonical_element : forall up n pre c post,
  length pre = (8 * n)%nat -> length c = 8%nat -> byte_list pre -> byte_list c -> byte_list post ->
  P <= from_le_bytes c -> digest_try_from_hex (hex_encode up (pre ++ c ++ post)) = None.
Proof. exact digest_hex_noncanon. Qed.
Print Assumptions C20_hex_noncanonical_element.

(* ---------------------------------------------------------------- decimal strings *)
(* Display -> FromStr on the model of the CURRENT tree (`digest_elem_to_string` in model/DigestConv.v).
   Pinned tree: Digest::fmt goes through BFieldElement's Display, which prints "-k" for the last 256
   values; u64::from_str rejects it.  Witness: [p-1; 0; 0; 0; 0] prints as "-1,0,0,0,0".
   AFTER Digest::fmt IS REPAIRED: change `digest_elem_to_string` in the model to `digest_elem_canonical v`
   (or `digest_elem_nonneg v`) and replace this theorem by
     Theorem C20_display_roundtrip : forall d, wf_digest d -> digest_from_str (digest_to_string d) = Some d.
     Proof. exact (digest_string_roundtrip_if_canonical (fun v => eq_refl)). Qed.
   (resp. digest_string_roundtrip_if_nonneg). *)
Theorem C20_display_roundtrip : forall d, wf_digest d -> digest_from_str (digest_to_string d) = Some d.
Proof. exact (digest_string_roundtrip_if_canonical (fun v => eq_refl)). Qed.
Print Assumptions C20_display_roundtrip.

(* the positive theorems for the two candidate repairs of Digest::fmt (independent of the switch above) *)
Theorem C20_display_roundtrip_repaired_canonical : forall d, wf_digest d ->
  digest_from_str (digest_to_string_with digest_elem_canonical d) = Some d.
Proof. exact digest_string_roundtrip_canonical. Qed.
Print Assumptions C20_display_roundtrip_repaired_canonical.

Theorem C20_display_roundtrip_repaired_nonneg : forall d, wf_digest d ->
  digest_from_str (digest_to_string_with digest_elem_nonneg d) = Some d.
Proof. exact digest_string_roundtrip_nonneg. Qed.
Print Assumptions C20_display_roundtrip_repaired_nonneg.

(* what does hold for the element Display: exact below p - 256, rejected from there on *)
Theorem C20_display_roundtrip_below_cutoff : forall d, length d = 5%nat ->
  Forall (fun v => 0 <= v < P - 256) d -> digest_from_str (digest_to_string_with bfe_display d) = Some d.
Proof. exact digest_string_roundtrip_display_below. Qed.
Print Assumptions C20_display_roundtrip_below_cutoff.

Theorem C20_bfe_display_parse : forall v,
  (0 <= v < P - 256 -> bfe_from_str (bfe_display v) = Some v) /\
  (P - 256 <= v -> bfe_from_str (bfe_display v) = None).
Proof. exact bfe_display_parse. Qed.
Print Assumptions C20_bfe_display_parse.

(* FromStr for Digest is strict: exactly five comma-separated fields, each a u64 literal below p *)
Theorem C20_from_str_iff : forall s d,
  digest_from_str s = Some d <->
  length (split_on 44 s) = 5%nat /\
  Forall2 (fun f v => u64_from_str f = Some v /\ v < P) (split_on 44 s) d.
Proof. exact digest_from_str_iff. Qed.
Print Assumptions C20_from_str_iff.

Theorem C20_from_str_wf : forall s d, digest_from_str s = Some d -> wf_digest d.
Proof. exact digest_from_str_wf. Qed.
Print Assumptions C20_from_str_wf.

Theorem C20_from_str_wrong_count : forall s, length (split_on 44 s) <> 5%nat -> digest_from_str s = None.
Proof. exact digest_from_str_wrong_count. Qed.
Print Assumptions C20_from_str_wrong_count.

Theorem C20_from_str_bad_field : forall s f, In f (split_on 44 s) ->
  (forall v, u64_from_str f = Some v -> P <= v) -> digest_from_str s = None.
Proof. exact digest_from_str_bad_field. Qed.
Print Assumptions C20_from_str_bad_field.

(* the modelled grammar of u64::from_str, made explicit: [+] digit+ with value < 2^64 *)
Theorem C20_u64_from_str_grammar : forall s v,
  u64_from_str s = Some v <->
  exists ds, (s = ds \/ s = 43 :: ds) /\ ds <> [] /\ Forall digit_char ds /\ dec_fold ds 0 = v /\ v < 2 ^ 64.
Proof. exact u64_from_str_iff. Qed.
Print Assumptions C20_u64_from_str_grammar.

Theorem C20_u64_from_str_invalid_digit : forall s c, In c s -> ~ digit_char c -> c <> 43 -> u64_from_str s = None.
Proof. exact u64_from_str_invalid_digit. Qed.
Print Assumptions C20_u64_from_str_invalid_digit.

(* ---------------------------------------------------------------- BigUint *)
Theorem C20_big_is_positional_value : forall d, digest_to_big d = big_value d.
Proof. exact digest_to_big_value. Qed.
Print Assumptions C20_big_is_positional_value.

Theorem C20_big_range : forall d, wf_digest d -> 0 <= digest_to_big d < P ^ 5.
Proof. exact digest_big_range. Qed.
Print Assumptions C20_big_range.

Theorem C20_big_roundtrip : forall d, wf_digest d -> digest_try_from_big (digest_to_big d) = Some d.
Proof. exact digest_big_roundtrip. Qed.
Print Assumptions C20_big_roundtrip.

Theorem C20_big_accept_iff : forall v d, 0 <= v ->
  (digest_try_from_big v = Some d <-> wf_digest d /\ digest_to_big d = v).
Proof. exact digest_big_accept_iff. Qed.
Print Assumptions C20_big_accept_iff.

Theorem C20_big_overflow : forall v, P ^ 5 <= v -> digest_try_from_big v = None.
Proof. exact digest_big_overflow. Qed.
Print Assumptions C20_big_overflow.

Theorem C20_big_in_range : forall v, 0 <= v < P ^ 5 -> exists d, digest_try_from_big v = Some d.
Proof. exact digest_big_in_range. Qed.
Print Assumptions C20_big_in_range.

(* ---------------------------------------------------------------- order *)
(* mixed-radix lemma: the digest order is the numeric order of the base-p value, for all digests *)
Theorem C20_cmp_is_big_order : forall d1 d2, wf_digest d1 -> wf_digest d2 ->
  digest_cmp d1 d2 = (digest_to_big d1 ?= digest_to_big d2).
Proof. exact digest_cmp_big. Qed.
Print Assumptions C20_cmp_is_big_order.

Theorem C20_cmp_eq_iff : forall d1 d2, wf_digest d1 -> wf_digest d2 -> (digest_cmp d1 d2 = Eq <-> d1 = d2).
Proof. exact digest_cmp_eq_iff. Qed.
Print Assumptions C20_cmp_eq_iff.

Theorem C20_reversed_involutive : forall d, length d = 5%nat -> digest_reversed (digest_reversed d) = d.
Proof. exact digest_reversed_involutive. Qed.
Print Assumptions C20_reversed_involutive.

(* ---------------------------------------------------------------- Vec<BFieldElement> *)
Theorem C20_vec_roundtrip : forall d, length d = 5%nat -> digest_try_from_vec (digest_to_vec d) = Some d.
Proof. exact digest_vec_roundtrip. Qed.
Print Assumptions C20_vec_roundtrip.

Theorem C20_vec_wrong_length : forall l, length l <> 5%nat -> digest_try_from_vec l = None.
Proof. exact digest_vec_wrong_length. Qed.
Print Assumptions C20_vec_wrong_length.

(* ---------------------------------------------------------------- serde *)
(* human readable: a JSON string holding to_hex; only such strings deserialise *)
Theorem C20_json_is_hex_string : forall d, digest_ser_json d = JStr (digest_to_hex d).
Proof. exact digest_json_is_hex_string. Qed.
Print Assumptions C20_json_is_hex_string.

Theorem C20_json_roundtrip : forall d, wf_digest d -> digest_de_json (digest_ser_json d) = Some d.
Proof. exact digest_json_roundtrip. Qed.
Print Assumptions C20_json_roundtrip.

Theorem C20_json_strict : forall j d, digest_de_json j = Some d ->
  exists s, j = JStr s /\ digest_try_from_hex s = Some d.
Proof. exact digest_json_strict. Qed.
Print Assumptions C20_json_strict.

(* not human readable: the five u64 values (= the 40-byte form); a stored u64 >= p is reduced *)
Theorem C20_bincode_is_element_array : forall d, digest_ser_bincode d = digest_to_bytes d.
Proof. exact digest_bincode_is_bytes. Qed.
Print Assumptions C20_bincode_is_element_array.

Theorem C20_bincode_roundtrip : forall d, wf_digest d -> digest_de_bincode (digest_ser_bincode d) = Some d.
Proof. exact digest_bincode_roundtrip. Qed.
Print Assumptions C20_bincode_roundtrip.

Theorem C20_bincode_reduces : forall ws, length ws = 5%nat -> Forall u64_val ws ->
  digest_de_bincode (flat_map (le_bytes 8) ws) = Some (map (fun w => w mod P) ws).
Proof. exact digest_bincode_reduces. Qed.
Print Assumptions C20_bincode_reduces.

Theorem C20_bincode_short : forall l, (length l < 40)%nat -> digest_de_bincode l = None.
Proof. exact digest_bincode_short. Qed.
Print Assumptions C20_bincode_short.

(* ---------------------------------------------------------------- BFieldElement *)
Theorem C20_bfe_bytes_roundtrip : forall v, canon_val v -> bfe_try_from_slice (bfe_to_bytes v) = Some v.
Proof. exact bfe_bytes_roundtrip. Qed.
Print Assumptions C20_bfe_bytes_roundtrip.

Theorem C20_bfe_bytes_accept : forall l v, byte_list l -> bfe_try_from_slice l = Some v ->
  length l = 8%nat /\ canon_val v /\ l = bfe_to_bytes v.
Proof. exact bfe_bytes_accept. Qed.
Print Assumptions C20_bfe_bytes_accept.

Theorem C20_bfe_bytes_wrong_length : forall l, length l <> 8%nat -> bfe_try_from_slice l = None.
Proof. exact bfe_bytes_wrong_length. Qed.
Print Assumptions C20_bfe_bytes_wrong_length.

Theorem C20_bfe_bytes_noncanonical : forall l, byte_list l -> P <= from_le_bytes l -> bfe_try_from_slice l = None.
Proof. exact bfe_bytes_noncanon. Qed.
Print Assumptions C20_bfe_bytes_noncanonical.

(* canonical decimal string = value().to_string() *)
Theorem C20_bfe_dec_roundtrip : forall v, canon_val v -> bfe_from_str (u64_to_string v) = Some v.
Proof. exact bfe_dec_roundtrip. Qed.
Print Assumptions C20_bfe_dec_roundtrip.

Theorem C20_bfe_from_str_iff : forall s v, bfe_from_str s = Some v <-> u64_from_str s = Some v /\ v < P.
Proof. exact bfe_from_str_iff. Qed.
Print Assumptions C20_bfe_from_str_iff.

Theorem C20_bfe_json_roundtrip : forall v, canon_val v -> bfe_de_json (bfe_ser_json v) = Some v.
Proof. exact bfe_json_roundtrip. Qed.
Print Assumptions C20_bfe_json_roundtrip.

Theorem C20_bfe_json_reduces : forall n, u64_val n -> bfe_de_json (JNum n) = Some (n mod P).
Proof. exact bfe_json_reduces. Qed.
Print Assumptions C20_bfe_json_reduces.

Theorem C20_bfe_bincode_roundtrip : forall v, canon_val v -> bfe_de_bincode (bfe_ser_bincode v) = Some v.
Proof. exact bfe_bincode_roundtrip. Qed.
Print Assumptions C20_bfe_bincode_roundtrip.

Theorem C20_bfe_bincode_reduces : forall w, u64_val w -> bfe_de_bincode (le_bytes 8 w) = Some (w mod P).
Proof. exact bfe_bincode_reduces. Qed.
Print Assumptions C20_bfe_bincode_reduces.

(* ---------------------------------------------------------------- XFieldElement <-> Digest *)
Theorem C20_xfe_roundtrip : forall x, xfe_try_from_digest (digest_from_xfe x) = Some x.
Proof. exact xfe_digest_roundtrip. Qed.
Print Assumptions C20_xfe_roundtrip.

Theorem C20_xfe_digest_iso : forall d x, length d = 5%nat ->
  (xfe_try_from_digest d = Some x <-> d = digest_from_xfe x).
Proof. exact xfe_digest_iff. Qed.
Print Assumptions C20_xfe_digest_iso.

(* invertible exactly on digests whose last two elements are zero *)
Theorem C20_xfe_defined_iff : forall d, length d = 5%nat ->
  ((exists x, xfe_try_from_digest d = Some x) <-> nth 3 d 0 = 0 /\ nth 4 d 0 = 0).
Proof. exact xfe_digest_defined_iff. Qed.
Print Assumptions C20_xfe_defined_iff.
