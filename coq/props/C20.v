From Coq Require Import ZArith Bool List.
From TF Require Import BFieldGen DigestConv DigestConvProofs.
Theorem C20_stub : True. Proof. exact stub_true. Qed.
Print Assumptions C20_stub.
