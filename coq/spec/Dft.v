(* spec/Dft.v - the discrete Fourier transform over an abstract field (lib/FieldTheory.v), the statement
   side of C06.  Nothing here refers to the model.

     dft w v   = [ sum_{j<n} v_j * w^(i*j) ]_{i<n}          (n = length v)
               = the evaluations of the polynomial sum_j v_j X^j at w^0, w^1, ..., w^(n-1)
     idft w v  = [ n^-1 * sum_{j<n} v_j * (w^-1)^(i*j) ]_{i<n}
     bitrev_list l v = [ v_(rev_l i) ]_{i<2^l}, rev_l = reversal of the l low bits (the "documented
                 reordering" of ntt_noswap / bitreverse_order)

   For vectors over K^3 (the extension field as a 3-dimensional space over the base field, with base-field
   twiddles) the transform is the same formula with the scalar action; dft3 states it and
   NttProofs.dft3_coords shows that it is the coordinate-wise dft. *)
From Coq Require Import ZArith List.
From TF Require Import FieldOps FieldTheory.
Import ListNotations.

Section Dft.
  Context {K : Type} (fk : fieldK K).

  Definition dft_at (w : K) (v : list K) (i : nat) : K :=
    ksum fk (fun j => kmul fk (nth j v (k0 fk)) (kpow fk w (i * j))) (length v).
  Definition dft (w : K) (v : list K) : list K := map (dft_at w v) (seq 0 (length v)).
  Definition idft (w : K) (v : list K) : list K :=
    map (fun y => kmul fk y (kinv fk (kofZ fk (Z.of_nat (length v))))) (dft (kinv fk w) v).

  (* w is a primitive n-th root of unity, n = 2^l a power of two: w^n = 1 and w^(n/2) = -1 *)
  Definition prim_root_pow2 (w : K) (l : nat) : Prop :=
    match l with O => w = k1 fk | S l' => kpow fk w (2 ^ l') = kopp fk (k1 fk) end.

  (* K^3 with scalars in K *)
  Definition K3 : Type := (K * K * K)%type.
  Definition k3zero : K3 := (k0 fk, k0 fk, k0 fk).
  Definition k3add (a b : K3) : K3 :=
    let '(a0, a1, a2) := a in let '(b0, b1, b2) := b in (kadd fk a0 b0, kadd fk a1 b1, kadd fk a2 b2).
  Definition k3scale (a : K3) (c : K) : K3 :=
    let '(a0, a1, a2) := a in (kmul fk a0 c, kmul fk a1 c, kmul fk a2 c).
  Fixpoint k3sum (f : nat -> K3) (n : nat) : K3 :=
    match n with O => k3zero | S m => k3add (k3sum f m) (f m) end.
  Definition dft3_at (w : K) (v : list K3) (i : nat) : K3 :=
    k3sum (fun j => k3scale (nth j v k3zero) (kpow fk w (i * j))) (length v).
  Definition dft3 (w : K) (v : list K3) : list K3 := map (dft3_at w v) (seq 0 (length v)).
  Definition idft3 (w : K) (v : list K3) : list K3 :=
    map (fun y => k3scale y (kinv fk (kofZ fk (Z.of_nat (length v))))) (dft3 (kinv fk w) v).
End Dft.

(* reversal of the l low bits of i, and the induced reordering of a list of length 2^l *)
Fixpoint bitrev_nat (l i : nat) : nat :=
  match l with O => 0 | S l' => (i mod 2) * 2 ^ l' + bitrev_nat l' (i / 2) end.
Definition bitrev_list {A : Type} (l : nat) (d : A) (v : list A) : list A :=
  map (fun i => nth (bitrev_nat l i) v d) (seq 0 (2 ^ l)).
