(* spec/Forest.v - SPECIFICATION for property C16: the Merkle mountain range with n leafs as the explicit
   forest of perfect binary trees whose nodes are numbered in post-order.

   Nothing here uses bit tricks (no xor, popcount, leading zeros, shifts): sizes are defined by structural
   recursion on the height, the forest by the greedy decomposition of the leaf count into perfect trees (largest
   first), and every question about a node or a leaf is answered by walking down the tree that contains it.
   Everything is executable (the oracle of ./check C16 runs these functions next to the model).

   Layout.  A perfect tree of height h placed at node offset o and first leaf index l
     - has tsize h = 2^(h+1)-1 nodes, which are the node indices o+1 .. o + tsize h, and tleafs h = 2^h leafs,
       which are the leaf indices l .. l + tleafs h - 1;
     - for h = S h': its left subtree is the perfect tree of height h' at (o, l), its right subtree the perfect
       tree of height h' at (o + tsize h', l + tleafs h'), and its root is the LAST index o + tsize h
       (post-order), i.e. one more than the root of its right subtree.
   The MMR with n leafs is the list of perfect trees of the heights of the binary digits of n, highest first,
   laid out one after the other (node offsets and leaf offsets accumulate). *)
From Coq Require Import ZArith Bool List.
Import ListNotations.
Open Scope Z_scope.

(* ------------------------------------------------------------------ sizes, by recursion on the height *)
Fixpoint tsize (h : nat) : Z := match h with O => 1 | S h' => 2 * tsize h' + 1 end.
Fixpoint tleafs (h : nat) : Z := match h with O => 1 | S h' => 2 * tleafs h' end.

(* ------------------------------------------------------------------ a placed perfect tree *)
Record ptree := PTree { pt_height : nat; pt_offset : Z; pt_first_leaf : Z }.
Definition pt_root (t : ptree) : Z := pt_offset t + tsize (pt_height t).
Definition pt_has_node (t : ptree) (x : Z) : bool := (pt_offset t <? x) && (x <=? pt_root t).
Definition pt_has_leaf (t : ptree) (i : Z) : bool :=
  (pt_first_leaf t <=? i) && (i <? pt_first_leaf t + tleafs (pt_height t)).

(* ------------------------------------------------------------------ the forest of n leafs *)
(* trees of height < k for a remaining leaf count n, next free node offset o, next free leaf index l *)
Fixpoint forest_from (k : nat) (n o l : Z) : list ptree :=
  match k with
  | O => []
  | S k' =>
      if tleafs k' <=? n
      then PTree k' o l :: forest_from k' (n - tleafs k') (o + tsize k') (l + tleafs k')
      else forest_from k' n o l
  end.
(* 64 digits: every n < 2^64 is decomposed completely *)
Definition forest (n : Z) : list ptree := forest_from 64 n 0 0.

Definition spec_peak_heights (n : Z) : list Z := map (fun t => Z.of_nat (pt_height t)) (forest n).
Definition spec_peak_node_indices (n : Z) : list Z := map pt_root (forest n).
Definition spec_node_count (n : Z) : Z := fold_right (fun t acc => tsize (pt_height t) + acc) 0 (forest n).
Definition spec_leaf_count_of_forest (n : Z) : Z := fold_right (fun t acc => tleafs (pt_height t) + acc) 0 (forest n).

(* ------------------------------------------------------------------ nodes *)
Record nodeinfo := NodeInfo {
  ni_height : Z;             (* height of the node; 0 for a leaf *)
  ni_rll : Z;                (* right lineage length: how many of the node, its parent, its grandparent, ...
                                are right children, counting upwards from the node until the first one that
                                is not *)
  ni_is_right : bool;        (* the node is a right child *)
  ni_parent : option Z;      (* None for the root of its tree (a peak) *)
  ni_sibling : option Z;     (* None for a peak *)
  ni_children : option (Z * Z);  (* (left child, right child); None for a leaf *)
  ni_first_leaf : Z          (* leaf index of the leftmost leaf below the node; of the node itself if a leaf *)
}.

(* walk down the perfect tree (h, o, l) to node x.  rll/isr/par/sib describe the root of the current subtree. *)
Fixpoint t_locate (h : nat) (o l x : Z) (rll : Z) (isr : bool) (par sib : option Z) : option nodeinfo :=
  let root := o + tsize h in
  match h with
  | O => if x =? root then Some (NodeInfo 0 rll isr par sib None l) else None
  | S h' =>
      let lroot := o + tsize h' in          (* root of the left subtree *)
      let rroot := lroot + tsize h' in      (* root of the right subtree; root = rroot + 1 *)
      if x =? root then Some (NodeInfo (Z.of_nat h) rll isr par sib (Some (lroot, rroot)) l)
      else if x <=? lroot then t_locate h' o l x 0 false (Some root) (Some rroot)
      else t_locate h' lroot (l + tleafs h') x (rll + 1) true (Some root) (Some lroot)
  end.

(* find the tree of the forest that contains node x; pk counts the trees passed *)
Fixpoint f_locate_in (ts : list ptree) (x pk : Z) : option (Z * ptree * nodeinfo) :=
  match ts with
  | [] => None
  | t :: r =>
      if pt_has_node t x then
        match t_locate (pt_height t) (pt_offset t) (pt_first_leaf t) x 0 false None None with
        | Some ni => Some (pk, t, ni)
        | None => None
        end
      else f_locate_in r x (pk + 1)
  end.
(* node x of the MMR with n leafs: (peak index of its tree, its tree, facts about the node) *)
Definition f_locate (n x : Z) : option (Z * ptree * nodeinfo) := f_locate_in (forest n) x 0.

(* ------------------------------------------------------------------ leafs *)
(* node index of leaf i inside the perfect tree (h, o, l) *)
Fixpoint t_leaf_node (h : nat) (o l i : Z) : Z :=
  match h with
  | O => o + 1
  | S h' => if i <? l + tleafs h' then t_leaf_node h' o l i
            else t_leaf_node h' (o + tsize h') (l + tleafs h') i
  end.
(* Merkle tree index of leaf i inside the perfect tree (h, _, l): the root has index m = 1, the children of
   the node with index m have indices 2m (left) and 2m+1 (right) *)
Fixpoint t_leaf_mt (h : nat) (l i m : Z) : Z :=
  match h with
  | O => m
  | S h' => if i <? l + tleafs h' then t_leaf_mt h' l i (2 * m)
            else t_leaf_mt h' (l + tleafs h') i (2 * m + 1)
  end.
Fixpoint f_find_leaf (ts : list ptree) (i pk : Z) : option (Z * ptree) :=
  match ts with
  | [] => None
  | t :: r => if pt_has_leaf t i then Some (pk, t) else f_find_leaf r i (pk + 1)
  end.

(* leaf index -> node index, in the MMR with n leafs (n > i) *)
Definition spec_leaf_index_to_node_index (n i : Z) : option Z :=
  match f_find_leaf (forest n) i 0 with
  | Some (_, t) => Some (t_leaf_node (pt_height t) (pt_offset t) (pt_first_leaf t) i)
  | None => None
  end.
(* leaf index -> (Merkle tree index inside its tree, peak index of its tree) *)
Definition spec_mt_index_and_peak_index (n i : Z) : option (Z * Z) :=
  match f_find_leaf (forest n) i 0 with
  | Some (pk, t) => Some (t_leaf_mt (pt_height t) (pt_first_leaf t) i 1, pk)
  | None => None
  end.
(* node index -> leaf index: Some (Some i) for the node of leaf i, Some None for an inner node, None if x is
   not a node of the MMR with n leafs *)
Definition spec_node_index_to_leaf_index (n x : Z) : option (option Z) :=
  match f_locate n x with
  | Some (_, _, ni) => if ni_height ni =? 0 then Some (Some (ni_first_leaf ni)) else Some None
  | None => None
  end.
(* right lineage length of the node of leaf i *)
Definition spec_leaf_rll (n i : Z) : option Z :=
  match spec_leaf_index_to_node_index n i with
  | Some x => match f_locate n x with Some (_, _, ni) => Some (ni_rll ni) | None => None end
  | None => None
  end.

(* ------------------------------------------------------------------ append *)
(* the nodes on the right edge of the perfect tree (h, o), from its last leaf up to its root *)
Fixpoint right_spine (h : nat) (o : Z) : list Z :=
  match h with
  | O => [o + 1]
  | S h' => right_spine h' (o + tsize h') ++ [o + tsize h]
  end.
(* nodes that exist in the MMR with n+1 leafs but not in the MMR with n leafs: the new leaf and the parents
   created by the merges, i.e. the right edge of the last tree of forest (n+1), bottom-up *)
Definition spec_added_by_append (n : Z) : list Z :=
  match rev (forest (n + 1)) with
  | t :: _ => right_spine (pt_height t) (pt_offset t)
  | [] => []
  end.

(* ------------------------------------------------------------------ authentication paths *)
(* (node, sibling) pairs on the way from x up to (excluding) the root of the perfect tree (h, o); bottom-up *)
Fixpoint t_path (h : nat) (o x : Z) (acc : list (Z * Z)) : option (list (Z * Z)) :=
  let root := o + tsize h in
  if x =? root then Some acc else
  match h with
  | O => None
  | S h' =>
      let lroot := o + tsize h' in
      let rroot := lroot + tsize h' in
      if x <=? lroot then t_path h' o x ((lroot, rroot) :: acc)
      else t_path h' lroot x ((rroot, lroot) :: acc)
  end.
(* siblings collected while climbing from the head of the path until `target` is reached *)
Fixpoint climb (path : list (Z * Z)) (root target : Z) : option (list Z) :=
  match path with
  | [] => if root =? target then Some [] else None
  | (nd, sib) :: rest =>
      if nd =? target then Some [] else
      match climb rest root target with Some l => Some (sib :: l) | None => None end
  end.
(* siblings needed to compute the digest of `target` from the digest of `start`; Some None if target is not
   an ancestor (or self) of start; None if start is not a node of the MMR with n leafs *)
Definition spec_auth_path (n start target : Z) : option (option (list Z)) :=
  match f_locate n start with
  | Some (_, t, _) =>
      match t_path (pt_height t) (pt_offset t) start [] with
      | Some p => Some (climb p (pt_root t) target)
      | None => None
      end
  | None => None
  end.

(* ------------------------------------------------------------------ materialised forest (small n only) *)
(* explicit tree with every node carrying its index; leafs also carry their leaf index *)
Inductive mtree := MLeaf (node leaf : Z) | MNode (node : Z) (lt rt : mtree).
Fixpoint materialise (h : nat) (o l : Z) : mtree :=
  match h with
  | O => MLeaf (o + 1) l
  | S h' => MNode (o + tsize h) (materialise h' o l) (materialise h' (o + tsize h') (l + tleafs h'))
  end.
Definition mforest (n : Z) : list mtree :=
  map (fun t => materialise (pt_height t) (pt_offset t) (pt_first_leaf t)) (forest n).
Definition m_node (t : mtree) : Z := match t with MLeaf x _ => x | MNode x _ _ => x end.
Fixpoint m_height (t : mtree) : Z := match t with MLeaf _ _ => 0 | MNode _ a _ => 1 + m_height a end.
Fixpoint m_first_leaf (t : mtree) : Z := match t with MLeaf _ i => i | MNode _ a _ => m_first_leaf a end.
(* post-order listing of node indices, and left-to-right listing of (leaf index, node index) *)
Fixpoint m_postorder (t : mtree) : list Z :=
  match t with MLeaf x _ => [x] | MNode x a b => m_postorder a ++ m_postorder b ++ [x] end.
Fixpoint m_leafs (t : mtree) : list (Z * Z) :=
  match t with MLeaf x i => [(i, x)] | MNode _ a b => m_leafs a ++ m_leafs b end.
(* every (node, nodeinfo) of the tree by plain traversal: rll/isr/par/sib of the root are passed down *)
Fixpoint m_infos (t : mtree) (rll : Z) (isr : bool) (par sib : option Z) : list (Z * nodeinfo) :=
  match t with
  | MLeaf x i => [(x, NodeInfo 0 rll isr par sib None i)]
  | MNode x a b =>
      m_infos a 0 false (Some x) (Some (m_node b)) ++ m_infos b (rll + 1) true (Some x) (Some (m_node a))
      ++ [(x, NodeInfo (m_height t) rll isr par sib (Some (m_node a, m_node b)) (m_first_leaf t))]
  end.

(* ------------------------------------------------------------------ the forest grown leaf by leaf *)
(* rightmost tree first.  Appending a leaf: place a height-0 tree after the last node; while the two rightmost
   trees have equal height, replace them by their parent (whose root is the next free node index). *)
Fixpoint merge_in (t : ptree) (rf : list ptree) : list ptree :=
  match rf with
  | t' :: rest =>
      if Nat.eqb (pt_height t') (pt_height t)
      then merge_in (PTree (S (pt_height t)) (pt_offset t') (pt_first_leaf t')) rest
      else t :: rf
  | [] => [t]
  end.
Definition append_leaf (rf : list ptree) : list ptree :=
  match rf with
  | [] => [PTree 0 0 0]
  | t :: _ => merge_in (PTree 0 (pt_root t) (pt_first_leaf t + tleafs (pt_height t))) rf
  end.
Fixpoint grow (n : nat) : list ptree := match n with O => [] | S n' => append_leaf (grow n') end.
