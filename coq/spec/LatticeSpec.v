(* spec/LatticeSpec.v - what property C18 says, independent of the model of lattice.rs:
   the cyclotomic ring Z_p[X] / (X^64 + 1), its product as a negacyclic convolution (O(n^2) definitions),
   module (matrix) products built from it, polynomial evaluation, and the 64 roots of X^64 + 1. *)
From Coq Require Import ZArith List.
From TF Require Import BFieldGen.
Import ListNotations.
Open Scope Z_scope.

(* polynomials over Z as coefficient lists, lowest degree first *)
Fixpoint zpoly_add (a b : list Z) : list Z :=
  match a, b with
  | [], _ => b
  | _, [] => a
  | x :: a', y :: b' => (x + y) :: zpoly_add a' b'
  end.
Definition zpoly_scale (c : Z) (a : list Z) : list Z := map (Z.mul c) a.
(* schoolbook product *)
Fixpoint zpoly_mul (a b : list Z) : list Z :=
  match a with
  | [] => []
  | x :: a' => zpoly_add (zpoly_scale x b) (0 :: zpoly_mul a' b)
  end.
(* reduction modulo X^n + 1 of a polynomial of degree < 2n:  X^(n + k) = - X^k *)
Definition nega_fold (n : nat) (d : list Z) : list Z := zpoly_add (firstn n d) (map Z.opp (skipn n d)).

(* the ring product: schoolbook product in Z[X], reduced modulo X^64 + 1, coefficients reduced modulo p *)
Definition negacyclic (a b : list Z) : list Z :=
  map (fun c => c mod P) (nega_fold 64 (zpoly_mul a b)).

(* the same coefficient by coefficient:  c_k = sum_{i+j=k} a_i b_j - sum_{i+j=k+64} a_i b_j  (mod p) *)
Definition negacyclic_coeff (a b : list Z) (k : nat) : Z :=
  (fold_left (fun s i => if (i <=? k)%nat then s + nth i a 0 * nth (k - i) b 0
                         else s - nth i a 0 * nth (k + 64 - i) b 0) (seq 0 64) 0) mod P.
Definition negacyclic_explicit (a b : list Z) : list Z := map (negacyclic_coeff a b) (seq 0 64).

(* ring sum and matrix product over the ring (row-major LHS_H x INNER times INNER x RHS_W) *)
Definition ring_add (a b : list Z) : list Z := map (fun xy => (fst xy + snd xy) mod P) (combine a b).
Definition ring_zero : list Z := repeat 0 64%nat.
Definition module_product (lhs_h rhs_w inner : nat) (lhs rhs : list (list Z)) : list (list Z) :=
  flat_map (fun h => map (fun w =>
    fold_left (fun acc i => ring_add acc (negacyclic (nth (h * inner + i) lhs []) (nth (i * rhs_w + w) rhs [])))
              (seq 0 inner) ring_zero) (seq 0 rhs_w)) (seq 0 lhs_h).

(* evaluation a(r) over Z (Horner) *)
Fixpoint zeval (a : list Z) (r : Z) : Z :=
  match a with
  | [] => 0
  | c :: a' => c + r * zeval a' r
  end.
Fixpoint pow_mod (r : Z) (n : nat) : Z :=
  match n with
  | O => 1 mod P
  | S n' => (r * pow_mod r n') mod P
  end.
(* reversal of the low `bits` bits of k *)
Fixpoint bitrev_go (bits k acc : nat) : nat :=
  match bits with
  | O => acc
  | S b => bitrev_go b (Nat.div2 k) (2 * acc + (if Nat.odd k then 1 else 0))
  end.
Definition bitrev (bits k : nat) : nat := bitrev_go bits k 0.
(* the evaluation point of output slot k of the coset NTT: psi^(2 * bitrev6(k) + 1), an odd power of a
   primitive 128th root of unity psi, i.e. a root of X^64 + 1 *)
Definition ntt_root (psi : Z) (k : nat) : Z := pow_mod psi (2 * bitrev 6 k + 1).

(* well-formed ring elements / module elements: 64 canonical field values *)
Definition canonical (x : Z) : Prop := 0 <= x < P.
Definition ring_elem (a : list Z) : Prop := length a = 64%nat /\ Forall canonical a.
Definition module_elem (n : nat) (m : list (list Z)) : Prop := length m = n /\ Forall ring_elem m.
Definition byte (x : Z) : Prop := 0 <= x < 256.
