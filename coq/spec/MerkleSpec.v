(* spec/MerkleSpec.v - what C04 / C10 say, independent of the model's algorithms.
   Only the result type [outcome], the proof record [iproof] and the free term algebra are shared
   with model/Merkle.v. *)
From Coq Require Import ZArith List Bool.
From TF Require Import Merkle.
Import ListNotations.
Open Scope Z_scope.

(* sibling of a node index >= 2, written without bit operations *)
Definition spec_sibling (x : Z) : Z := if Z.even x then x + 1 else x - 1.

(* x is a proper-or-improper ancestor of node y (heap numbering: parent of y is y / 2) *)
Definition ancestor (x y : Z) : Prop := exists k, 0 <= k /\ x = y / 2 ^ k.
Definition ancestor_b (x y : Z) : bool :=
  let k := Z.log2 y - Z.log2 x in (0 <=? k) && (y / 2 ^ k =? x).

(* For a tree with n leafs and revealed leaf indices idxs:
   computable = the nodes other than the root on the path from a revealed leaf to the root;
   needed     = the siblings of those;   minimal = needed \ computable. *)
Definition computable (n : Z) (idxs : list Z) (x : Z) : Prop :=
  1 < x /\ exists i, In i idxs /\ ancestor x (n + i).
Definition needed (n : Z) (idxs : list Z) (x : Z) : Prop := computable n idxs (spec_sibling x).
Definition minimal (n : Z) (idxs : list Z) (x : Z) : Prop := needed n idxs x /\ ~ computable n idxs x.

Definition computable_b (n : Z) (idxs : list Z) (x : Z) : bool :=
  (1 <? x) && existsb (fun i => ancestor_b x (n + i)) idxs.
Definition minimal_b (n : Z) (idxs : list Z) (x : Z) : bool :=
  computable_b n idxs (spec_sibling x) && negb (computable_b n idxs x).

(* 2n-1, 2n-2, ..., 2 *)
Fixpoint down_from (x : Z) (c : nat) : list Z :=
  match c with O => [] | S c' => x :: down_from (x - 1) c' end.
(* the documented authentication structure: the minimal set in descending node order *)
Definition minimal_list (n : Z) (idxs : list Z) : list Z :=
  filter (minimal_b n idxs) (down_from (2 * n - 1) (Z.to_nat (2 * n - 2))).

Fixpoint find_leaf {D} (L : list (Z * D)) (i : Z) : option D :=
  match L with
  | [] => None
  | (j, d) :: r => if i =? j then Some d else find_leaf r i
  end.
Fixpoint pos_of (x : Z) (l : list Z) : option nat :=
  match l with
  | [] => None
  | y :: r => if x =? y then Some O else option_map S (pos_of x r)
  end.

Section Spec.
  Variable D : Type.
  Variable H : D -> D -> D.
  Variable dflt : D.

  (* ---------------------------------------------------------------- the Merkle tree of a leaf list *)
  Fixpoint pair_up (l : list D) : list D :=
    match l with
    | a :: b :: r => H a b :: pair_up r
    | _ => []
    end.
  (* nodes 1 .. 2^(h+1)-1 of the tree over 2^h leafs, level by level *)
  Fixpoint levels (h : nat) (l : list D) : list D :=
    match h with
    | O => l
    | S h' => levels h' (pair_up l) ++ l
    end.
  Definition spec_tree (leafs : list D) : list D :=
    dflt :: levels (Z.to_nat (Z.log2 (zlen leafs))) leafs.

  Definition znth (l : list D) (i : Z) : D := nth (Z.to_nat i) l dflt.

  (* the defining equations (shown to hold for, and to determine, [spec_tree]) *)
  Definition tree_ok (leafs nodes : list D) : Prop :=
    let n := zlen leafs in
    zlen nodes = 2 * n /\ znth nodes 0 = dflt /\
    (forall j, 0 <= j < n -> znth nodes (n + j) = znth leafs j) /\
    (forall i, 1 <= i < n -> znth nodes i = H (znth nodes (2 * i)) (znth nodes (2 * i + 1))).

  (* ---------------------------------------------------------------- verification *)
  (* digest of node x determined by the claim L and the supplied structure A, for a tree of n leafs;
     k = number of levels below x *)
  Fixpoint val_in (M : list Z) (n : Z) (L : list (Z * D)) (A : list D) (k : nat) (x : Z) : D :=
    match find_leaf L (x - n) with
    | Some d => d
    | None =>
        match pos_of x M with
        | Some j => nth j A dflt
        | None => match k with
                  | O => dflt
                  | S k' => H (val_in M n L A k' (2 * x)) (val_in M n L A k' (2 * x + 1))
                  end
        end
    end.
  (* M is always the minimal list of the claimed indices (a separate argument only so that the
     executable form computes it once) *)
  Definition val (n : Z) (L : list (Z * D)) (A : list D) (k : nat) (x : Z) : D :=
    val_in (minimal_list n (map fst L)) n L A k x.

  Definition consistent (L : list (Z * D)) : Prop :=
    forall i d d', In (i, d) L -> In (i, d') L -> d = d'.

  (* the proof has the shape of a proof for a tree of height h: height supported, indices in range,
     exactly as many supplied digests as the minimal set has nodes, repeated leafs agree *)
  Definition structure_ok (p : iproof D) : Prop :=
    let h := ip_height p in
    let n := 2 ^ h in
    let idxs := map fst (ip_leafs p) in
    h <= 31 /\ (forall i, In i idxs -> i < n) /\
    length (ip_auth p) = length (minimal_list n idxs) /\
    consistent (ip_leafs p).

  Definition verify_spec (p : iproof D) (root : D) : Prop :=
    is_trivial D p = true \/
    (structure_ok p /\
     val (2 ^ ip_height p) (ip_leafs p) (ip_auth p) (Z.to_nat (ip_height p)) 1 = root).

  (* inputs are usize values *)
  Definition wf_proof (p : iproof D) : Prop :=
    0 <= ip_height p /\ forall i, In i (map fst (ip_leafs p)) -> 0 <= i.

  (* the authentication path of leaf i in the partial tree: siblings from the leaf level upwards *)
  Fixpoint sibling_path_in (M : list Z) (n : Z) (L : list (Z * D)) (A : list D) (h : nat) (x : Z) (lvl : nat) : list D :=
    match lvl with
    | O => []
    | S l' => val_in M n L A (h - lvl) (spec_sibling x) :: sibling_path_in M n L A h (x / 2) l'
    end.
  Definition sibling_path (n : Z) (L : list (Z * D)) (A : list D) (h : nat) (x : Z) (lvl : nat) : list D :=
    sibling_path_in (minimal_list n (map fst L)) n L A h x lvl.

  (* a collision of the pair hash *)
  Definition collision : Prop := exists a b c d, (a, b) <> (c, d) /\ H a b = H c d.

  (* the sibling path of node x in a full tree (list of nodes) *)
  Fixpoint tree_path (t : list D) (x : Z) (lvl : nat) : list D :=
    match lvl with
    | O => []
    | S l' => znth t (spec_sibling x) :: tree_path t (x / 2) l'
    end.

  (* ---------------------------------------------------------------- executable forms (oracle) *)
  Variable Deqb : D -> D -> bool.
  Fixpoint consistent_b (L : list (Z * D)) : bool :=
    match L with
    | [] => true
    | (i, d) :: r =>
        forallb (fun jd => negb (i =? fst jd) || Deqb d (snd jd)) r && consistent_b r
    end.
  Definition structure_ok_b (p : iproof D) : bool :=
    let h := ip_height p in
    let n := 2 ^ h in
    let idxs := map fst (ip_leafs p) in
    (h <=? 31) && forallb (fun i => i <? n) idxs &&
    Nat.eqb (length (ip_auth p)) (length (minimal_list n idxs)) && consistent_b (ip_leafs p).
  Definition verify_spec_b (p : iproof D) (root : D) : bool :=
    is_trivial D p ||
    (structure_ok_b p &&
     Deqb (val (2 ^ ip_height p) (ip_leafs p) (ip_auth p) (Z.to_nat (ip_height p)) 1) root).
  Definition paths_spec (p : iproof D) : option (list (list D)) :=
    if structure_ok_b p then
      let h := ip_height p in
      let M := minimal_list (2 ^ h) (map fst (ip_leafs p)) in
      Some (map (fun i => sibling_path_in M (2 ^ h) (ip_leafs p) (ip_auth p) (Z.to_nat h) (2 ^ h + i) (Z.to_nat h))
                (map fst (ip_leafs p)))
    else None.
End Spec.
