(* MmrSpec.v - what the MMR properties C05 / C11 / C12 talk about, independent of the model.

   The MMR of a leaf list `ls` is the forest of perfect binary Merkle trees over consecutive chunks of
   `ls` whose sizes are the powers of two in the binary expansion of `length ls`, largest first.
   Nothing here uses node indices or bit tricks: everything is recursion over the bit positions from
   the top (position 63 down to 0; leaf counts are u64). *)
From Coq Require Import ZArith List Bool.
From TF Require Import Word.
Import ListNotations.
Open Scope Z_scope.

Definition pw (k : nat) : nat := Z.to_nat (2 ^ Z.of_nat k).
Definition zlength {A : Type} (l : list A) : Z := Z.of_nat (length l).

Fixpoint upd_nat {A : Type} (ls : list A) (n : nat) (d : A) : list A :=
  match ls, n with
  | [], _ => []
  | _ :: r, O => d :: r
  | x :: r, S n' => x :: upd_nat r n' d
  end.
Definition upd {A : Type} (ls : list A) (i : Z) (d : A) : list A := upd_nat ls (Z.to_nat i) d.

Fixpoint distinctb (l : list Z) : bool :=
  match l with [] => true | x :: r => negb (existsb (Z.eqb x) r) && distinctb r end.

Section Spec.
Variable D : Type.
Variable H : D -> D -> D.
Variable deq : D -> D -> bool.
Variable dflt : D.
Variable hash0 : D.

(* root of the perfect tree of height h over the 2^h leaves ls *)
Fixpoint root (h : nat) (ls : list D) : D :=
  match h with
  | O => hd dflt ls
  | S h' => H (root h' (firstn (pw h') ls)) (root h' (skipn (pw h') ls))
  end.

(* sibling digests of leaf j (0 <= j < 2^h), from the leaf upwards *)
Fixpoint tree_path (h : nat) (ls : list D) (j : Z) : list D :=
  match h with
  | O => []
  | S h' =>
    if j <? 2 ^ Z.of_nat h'
    then tree_path h' (firstn (pw h') ls) j ++ [root h' (skipn (pw h') ls)]
    else tree_path h' (skipn (pw h') ls) (j - 2 ^ Z.of_nat h') ++ [root h' (firstn (pw h') ls)]
  end.

(* peaks for the bit positions below k; meaningful when length ls < 2^k *)
Fixpoint peaks_at (k : nat) (ls : list D) : list D :=
  match k with
  | O => []
  | S k' =>
    if 2 ^ Z.of_nat k' <=? zlength ls
    then root k' (firstn (pw k') ls) :: peaks_at k' (skipn (pw k') ls)
    else peaks_at k' ls
  end.
Definition peaks_spec (ls : list D) : list D := peaks_at 64 ls.

Fixpoint path_at (k : nat) (ls : list D) (i : Z) : list D :=
  match k with
  | O => []
  | S k' =>
    if 2 ^ Z.of_nat k' <=? zlength ls
    then (if i <? 2 ^ Z.of_nat k' then tree_path k' (firstn (pw k') ls) i
          else path_at k' (skipn (pw k') ls) (i - 2 ^ Z.of_nat k'))
    else path_at k' ls i
  end.
(* authentication path of leaf i: siblings from the leaf up to (excluding) its peak *)
Definition path (ls : list D) (i : Z) : list D := path_at 64 ls i.

(* which tree holds leaf i of an MMR with n leafs: (position of its peak, its height, index of the
   leaf inside the tree); meaningful for 0 <= i < n < 2^k *)
Fixpoint locate_at (k : nat) (n i : Z) : Z * Z * Z :=
  match k with
  | O => (0, 0, 0)
  | S k' =>
    let p := 2 ^ Z.of_nat k' in
    if p <=? n
    then (if i <? p then (0, Z.of_nat k', i)
          else let '(pk, h, j) := locate_at k' (n - p) (i - p) in (pk + 1, h, j))
    else locate_at k' n i
  end.
Definition locate (n i : Z) : Z * Z * Z := locate_at 64 n i.

(* number of trees *)
Fixpoint popcount_at (k : nat) (n : Z) : Z :=
  match k with
  | O => 0
  | S k' => let p := 2 ^ Z.of_nat k' in if p <=? n then 1 + popcount_at k' (n - p) else popcount_at k' n
  end.
Definition num_peaks (n : Z) : Z := popcount_at 64 n.

(* hashing a node up a path: idx is the position of the node in its layer (even = left child) *)
Fixpoint fold_up (idx : Z) (acc : D) (p : list D) : D :=
  match p with
  | [] => acc
  | s :: r => fold_up (idx / 2) (if Z.even idx then H acc s else H s acc) r
  end.

(* the documented bagging: right-to-left fold; the peak itself for one peak; hash0 for none *)
Fixpoint bag_spec (peaks : list D) : D :=
  match peaks with
  | [] => hash0
  | [p] => p
  | p :: r => H p (bag_spec r)
  end.

(* C05: what membership verification has to decide *)
Definition mp_verify_spec (ap : list D) (i : Z) (leaf : D) (peaks : list D) (n : Z) : bool :=
  (0 <=? i) && (i <? n) && (zlength peaks =? num_peaks n) &&
  (let '(pk, h, j) := locate n i in
   (zlength ap =? h) && deq (nth (Z.to_nat pk) peaks dflt) (fold_up j leaf ap)).

(* histories *)
Inductive op : Type :=
| OpAppend (d : D)
| OpMutate (i : Z) (d : D)
| OpBatch (ms : list (Z * D)).

Definition apply_muts (ls : list D) (ms : list (Z * D)) : list D :=
  fold_left (fun l m => upd l (fst m) (snd m)) ms ls.

Definition apply (ls : list D) (o : op) : list D :=
  match o with
  | OpAppend d => ls ++ [d]
  | OpMutate i d => upd ls i d
  | OpBatch ms => apply_muts ls ms
  end.

Definition in_range (ls : list D) (i : Z) : bool := (0 <=? i) && (i <? zlength ls).

Definition op_valid (ls : list D) (o : op) : bool :=
  match o with
  | OpAppend _ => zlength ls + 1 <? 2 ^ 63
  | OpMutate i _ => in_range ls i
  | OpBatch ms => distinctb (map fst ms) && forallb (fun m => in_range ls (fst m)) ms
  end.

Fixpoint run (ls : list D) (ops : list op) : list D :=
  match ops with [] => ls | o :: r => run (apply ls o) r end.
Fixpoint run_valid (ls : list D) (ops : list op) : bool :=
  match ops with [] => true | o :: r => op_valid ls o && run_valid (apply ls o) r end.

(* C12: what successor verification has to decide.  For every old peak (bit positions of the old
   count from the top; `offset` = index of its first leaf) the covering new tree is located, the next
   (new height - old height) digests of the proof are consumed and must hash the old peak into the
   covering new peak; nothing may be left over. *)
Fixpoint succ_loop (k : nat) (old_peaks : list D) (old_rem offset : Z) (paths : list D)
         (new_count : Z) (new_peaks : list D) : bool :=
  match k with
  | O => match old_peaks, paths with [], [] => true | _, _ => false end
  | S k' =>
    let p := 2 ^ Z.of_nat k' in
    if p <=? old_rem then
      match old_peaks with
      | [] => false
      | pk :: r =>
        let '(npk, hh, j) := locate new_count offset in
        let seglen := hh - Z.of_nat k' in
        (0 <=? seglen) && (seglen <=? zlength paths) &&
        deq (nth (Z.to_nat npk) new_peaks dflt) (fold_up (j / p) pk (firstn (Z.to_nat seglen) paths)) &&
        succ_loop k' r (old_rem - p) (offset + p) (skipn (Z.to_nat seglen) paths) new_count new_peaks
      end
    else succ_loop k' old_peaks old_rem offset paths new_count new_peaks
  end.

Definition succ_verify_spec (paths : list D) (old new : Z * list D) : bool :=
  (fst old <=? fst new) && (zlength (snd new) =? num_peaks (fst new)) &&
  (zlength (snd old) =? num_peaks (fst old)) &&
  succ_loop 64 (snd old) (fst old) 0 paths (fst new) (snd new).

End Spec.
