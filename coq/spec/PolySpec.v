(* spec/PolySpec.v - WHAT a raw coefficient list denotes: the polynomial ring K[X] over an abstract field.

   CHOICE (C08 / C09 follow this): option (a), standard library only, no mathcomp.
     * a polynomial is a `list K` (lowest degree first) over `fk : fieldK K` (lib/FieldTheory.v);
     * its meaning is its coefficient function `coeff p i = nth i p 0`;
     * two lists denote the same polynomial iff `peq p q := forall i, coeff p i = coeff q i`
       (so stored leading zeros - trailing zeros of the list - are invisible by construction);
     * the ring operations `padd psub popp pscale pmul ppow pprod` are the schoolbook definitions on lists,
       characterised by their coefficient functions:  coeff_padd,  coeff_pscale,  coeff_pmul
           coeff (pmul p q) k = ksum (fun i => coeff p i * coeff q (k - i)) (S k)         (convolution)
       and K[X] is a commutative ring up to `peq` (padd_comm .. pmul_assoc, pmul_padd_distr_l ...);
       `peq` is an Equivalence and all operations are Proper for it (setoid rewriting works);
     * `pnorm p` is THE normal form (no trailing zero): `peq p q <-> pnorm p = pnorm q`; `pdeg p : Z` = degree, -1 for 0;
       `plead p` leading coefficient; `pdeg_pmul` (integral domain);
     * `peval p x` (Horner) is a ring morphism compatible with peq;
     * `pXn n` = X^n, `pshift n p` = X^n * p, `pcompscale p a` = p(a X), `pderiv p` formal derivative.
   The denotation of a MODEL list `l : list F` under `field_ok o fk ok den` is `map den l : list K`;
   model theorems read  `peq (map den (f a b)) (pmul (map den a) (map den b))`. *)
From Coq Require Import ZArith Lia List Bool Ring Field Setoid Morphisms.
From TF Require Import FieldOps FieldTheory.
Import ListNotations.

Section PolySpec.
  Context {K : Type} (fk : fieldK K).
  Local Notation "0" := (k0 fk).
  Local Notation "1" := (k1 fk).
  Local Infix "+" := (kadd fk).
  Local Infix "*" := (kmul fk).
  Local Infix "-" := (ksub fk).
  Local Notation "- x" := (kopp fk x).
  Add Field kfield_PolySpec : (kFT fk).

  (* ---------------------------------------------------------------- coefficient function, equality *)
  Definition coeff (p : list K) (i : nat) : K := nth i p 0.
  (* an Inductive wrapper (not a Definition) so that `rewrite H` with `H : peq p q` is SETOID rewriting;
     use `apply peq_intro; intros i` to prove a peq goal pointwise and `peq_elim H i` to use one pointwise *)
  Inductive peq (p q : list K) : Prop := peq_intro : (forall i, coeff p i = coeff q i) -> peq p q.
  Lemma peq_elim p q : peq p q -> forall i, coeff p i = coeff q i.
  Proof. intros [H]. exact H. Qed.
  Definition pzero (p : list K) : Prop := forall i, coeff p i = 0.

  Lemma coeff_nil i : coeff [] i = 0. Proof. destruct i; reflexivity. Qed.
  Lemma coeff_cons_0 a p : coeff (a :: p) O = a. Proof. reflexivity. Qed.
  Lemma coeff_cons_S a p i : coeff (a :: p) (S i) = coeff p i. Proof. reflexivity. Qed.
  Lemma coeff_overflow p i : (length p <= i)%nat -> coeff p i = 0.
  Proof. intros H. apply nth_overflow. exact H. Qed.
  Lemma coeff_app_l p q i : (i < length p)%nat -> coeff (p ++ q) i = coeff p i.
  Proof. intros H. apply app_nth1. exact H. Qed.
  Lemma coeff_app_r p q i : (length p <= i)%nat -> coeff (p ++ q) i = coeff q (i - length p).
  Proof. intros H. apply app_nth2. lia. Qed.
  Lemma coeff_repeat0 n i : coeff (repeat 0 n) i = 0.
  Proof. revert i. induction n; intros [|i]; cbn; try reflexivity. apply IHn. Qed.
  Lemma coeff_map {A} (f : A -> K) (d : A) l i : f d = 0 -> coeff (map f l) i = f (nth i l d).
  Proof. intros Hd. unfold coeff. rewrite <- Hd. apply map_nth. Qed.
  Lemma coeff_firstn p n i : coeff (firstn n p) i = if (i <? n)%nat then coeff p i else 0.
  Proof.
    revert n i. induction p as [|a p IH]; intros n i.
    - rewrite firstn_nil, coeff_nil. destruct (i <? n)%nat; reflexivity.
    - destruct n; [cbn [firstn]; rewrite coeff_nil; reflexivity|]. destruct i; [reflexivity|].
      cbn [firstn]. rewrite !coeff_cons_S, IH. reflexivity.
  Qed.
  Lemma coeff_skipn p n i : coeff (skipn n p) i = coeff p (n + i).
  Proof.
    revert p. induction n; intros p; [reflexivity|]. destruct p; [rewrite !coeff_nil; reflexivity|].
    cbn [skipn Nat.add]. rewrite coeff_cons_S. apply IHn.
  Qed.

  Lemma peq_refl p : peq p p. Proof. apply peq_intro; intros i. reflexivity. Qed.
  Lemma peq_sym p q : peq p q -> peq q p. Proof. intros [H]. apply peq_intro; intros i. symmetry. apply H. Qed.
  Lemma peq_trans p q r : peq p q -> peq q r -> peq p r.
  Proof. intros [H1] [H2]. apply peq_intro; intros i. rewrite H1. apply H2. Qed.
  #[global] Instance peq_Equivalence : Equivalence peq.
  Proof. split; [exact peq_refl|exact peq_sym|exact peq_trans]. Qed.
  Lemma peq_cons a b p q : a = b -> peq p q -> peq (a :: p) (b :: q).
  Proof. intros -> [H]. apply peq_intro; intros [|i]; [reflexivity|apply H]. Qed.
  Lemma peq_cons_inv a b p q : peq (a :: p) (b :: q) -> a = b /\ peq p q.
  Proof. intros [H]. split; [exact (H O)|apply peq_intro; intros i; exact (H (S i))]. Qed.
  Lemma peq_nil_pzero p : peq p [] <-> pzero p.
  Proof.
    split; [intros [H] i; rewrite H; apply coeff_nil|intros H; apply peq_intro; intros i; rewrite H, coeff_nil; reflexivity].
  Qed.
  Lemma pzero_cons a p : pzero (a :: p) <-> a = 0 /\ pzero p.
  Proof.
    split.
    - intros H. split; [exact (H O)|intros i; exact (H (S i))].
    - intros [-> H] [|i]; [reflexivity|apply H].
  Qed.
  (* stored leading zeros are invisible *)
  Lemma peq_app_zeros p n : peq (p ++ repeat 0 n) p.
  Proof.
    apply peq_intro; intros i. destruct (Nat.lt_ge_cases i (length p)) as [H|H].
    - apply coeff_app_l. exact H.
    - rewrite coeff_app_r by exact H. rewrite coeff_repeat0, coeff_overflow by exact H. reflexivity.
  Qed.

  (* ---------------------------------------------------------------- ring operations on lists *)
  Fixpoint padd (p q : list K) : list K :=
    match p, q with
    | [], _ => q
    | _, [] => p
    | a :: p', b :: q' => (a + b) :: padd p' q'
    end.
  Definition pscale (c : K) (p : list K) : list K := map (fun a => c * a) p.
  Definition popp (p : list K) : list K := map (fun a => - a) p.
  Definition psub (p q : list K) : list K := padd p (popp q).
  Fixpoint pmul (p q : list K) : list K :=
    match p with
    | [] => []
    | a :: p' => padd (pscale a q) (0 :: pmul p' q)
    end.
  Definition pone : list K := [1].
  Definition pconst (c : K) : list K := [c].
  Definition pXn (n : nat) : list K := repeat 0 n ++ [1].
  Definition pshift (n : nat) (p : list K) : list K := repeat 0 n ++ p.
  Fixpoint ppow (p : list K) (n : nat) : list K :=
    match n with O => pone | S m => pmul p (ppow p m) end.
  Definition pprod (l : list (list K)) : list K := fold_right pmul pone l.
  (* Horner evaluation *)
  Fixpoint peval (p : list K) (x : K) : K :=
    match p with [] => 0 | a :: p' => a + x * peval p' x end.
  (* p(a X): coefficient i multiplied by a^i *)
  Fixpoint pcompscale_go (p : list K) (a pw : K) : list K :=
    match p with [] => [] | c :: p' => (c * pw) :: pcompscale_go p' a (pw * a) end.
  Definition pcompscale (p : list K) (a : K) : list K := pcompscale_go p a 1.
  (* formal derivative: coefficient i of p' is (i+1) p_{i+1} *)
  Fixpoint pderiv_go (p : list K) (i : nat) : list K :=
    match p with [] => [] | c :: p' => (kofZ fk (Z.of_nat i) * c) :: pderiv_go p' (S i) end.
  Definition pderiv (p : list K) : list K := tl (pderiv_go p O).

  (* ---------------------------------------------------------------- coefficient characterisations *)
  Lemma coeff_padd p q i : coeff (padd p q) i = coeff p i + coeff q i.
  Proof.
    revert q i. induction p as [|a p IH]; intros q i.
    - cbn [padd]. rewrite coeff_nil. ring.
    - destruct q as [|b q]; [cbn [padd]; rewrite coeff_nil; ring|].
      destruct i; cbn [padd]; [reflexivity|]. rewrite !coeff_cons_S. apply IH.
  Qed.
  Lemma coeff_pscale c p i : coeff (pscale c p) i = c * coeff p i.
  Proof.
    revert i. induction p as [|a p IH]; intros i.
    - cbn [pscale popp map]. rewrite !coeff_nil. ring.
    - destruct i; [reflexivity|]. cbn [pscale map]. rewrite !coeff_cons_S. apply IH.
  Qed.
  Lemma coeff_popp p i : coeff (popp p) i = - coeff p i.
  Proof.
    revert i. induction p as [|a p IH]; intros i.
    - cbn [pscale popp map]. rewrite !coeff_nil. ring.
    - destruct i; [reflexivity|]. cbn [popp map]. rewrite !coeff_cons_S. apply IH.
  Qed.
  Lemma coeff_psub p q i : coeff (psub p q) i = coeff p i - coeff q i.
  Proof. unfold psub. rewrite coeff_padd, coeff_popp. ring. Qed.
  Lemma coeff_pmul_nil q i : coeff (pmul [] q) i = 0.
  Proof. apply coeff_nil. Qed.
  Lemma coeff_pmul_cons a p q k :
    coeff (pmul (a :: p) q) k = a * coeff q k + match k with O => 0 | S k' => coeff (pmul p q) k' end.
  Proof. cbn [pmul]. rewrite coeff_padd, coeff_pscale. destruct k; reflexivity. Qed.

  Lemma ksum_S_l (f : nat -> K) n : ksum fk f (S n) = f O + ksum fk (fun i => f (S i)) n.
  Proof.
    induction n; [cbn [ksum]; ring|].
    change (ksum fk f (S (S n))) with (ksum fk f (S n) + f (S n)). rewrite IHn. cbn [ksum]. ring.
  Qed.
  (* the convolution formula *)
  Lemma coeff_pmul p q k :
    coeff (pmul p q) k = ksum fk (fun i => coeff p i * coeff q (k - i)) (S k).
  Proof.
    revert k. induction p as [|a p IH]; intros k.
    - rewrite coeff_pmul_nil. rewrite (ksum_ext fk _ (fun _ => 0)), ksum_0; [reflexivity|].
      intros j _. rewrite coeff_nil. ring.
    - rewrite coeff_pmul_cons, ksum_S_l, coeff_cons_0, Nat.sub_0_r. f_equal.
      destruct k; [reflexivity|]. rewrite IH. apply ksum_ext. intros j _. reflexivity.
  Qed.

  (* ---------------------------------------------------------------- congruence *)
  Lemma padd_peq p p' q q' : peq p p' -> peq q q' -> peq (padd p q) (padd p' q').
  Proof. intros [H1] [H2]. apply peq_intro; intros i. rewrite !coeff_padd, H1, H2. reflexivity. Qed.
  Lemma pscale_peq c p p' : peq p p' -> peq (pscale c p) (pscale c p').
  Proof. intros [H]. apply peq_intro; intros i. rewrite !coeff_pscale, H. reflexivity. Qed.
  Lemma popp_peq p p' : peq p p' -> peq (popp p) (popp p').
  Proof. intros [H]. apply peq_intro; intros i. rewrite !coeff_popp, H. reflexivity. Qed.
  Lemma psub_peq p p' q q' : peq p p' -> peq q q' -> peq (psub p q) (psub p' q').
  Proof. intros [H1] [H2]. apply peq_intro; intros i. rewrite !coeff_psub, H1, H2. reflexivity. Qed.
  Lemma pmul_peq p p' q q' : peq p p' -> peq q q' -> peq (pmul p q) (pmul p' q').
  Proof.
    intros [H1] [H2]. apply peq_intro; intros k. rewrite !coeff_pmul. apply ksum_ext. intros j _. rewrite H1, H2. reflexivity.
  Qed.
  #[global] Instance padd_Proper : Proper (peq ==> peq ==> peq) padd.
  Proof. intros p p' H1 q q' H2. apply padd_peq; assumption. Qed.
  #[global] Instance pmul_Proper : Proper (peq ==> peq ==> peq) pmul.
  Proof. intros p p' H1 q q' H2. apply pmul_peq; assumption. Qed.
  #[global] Instance psub_Proper : Proper (peq ==> peq ==> peq) psub.
  Proof. intros p p' H1 q q' H2. apply psub_peq; assumption. Qed.
  #[global] Instance popp_Proper : Proper (peq ==> peq) popp.
  Proof. intros p p' H. apply popp_peq; assumption. Qed.
  #[global] Instance pscale_Proper : Proper (eq ==> peq ==> peq) pscale.
  Proof. intros c c' -> p p' H. apply pscale_peq; assumption. Qed.

  (* ---------------------------------------------------------------- ring laws up to peq *)
  Lemma padd_comm p q : peq (padd p q) (padd q p).
  Proof. apply peq_intro; intros i. rewrite !coeff_padd. ring. Qed.
  Lemma padd_assoc p q r : peq (padd p (padd q r)) (padd (padd p q) r).
  Proof. apply peq_intro; intros i. rewrite !coeff_padd. ring. Qed.
  Lemma padd_0_l p : peq (padd [] p) p. Proof. apply peq_refl. Qed.
  Lemma padd_0_r p : peq (padd p []) p.
  Proof. apply peq_intro; intros i. rewrite coeff_padd, coeff_nil. ring. Qed.
  Lemma padd_popp p : peq (padd p (popp p)) [].
  Proof. apply peq_intro; intros i. rewrite coeff_padd, coeff_popp, coeff_nil. ring. Qed.
  Lemma pmul_nil_r p : peq (pmul p []) [].
  Proof.
    induction p as [|a p IH]; [apply peq_refl|]. apply peq_intro; intros k.
    rewrite coeff_pmul_cons, !coeff_nil. destruct k; [ring|]. rewrite (peq_elim _ _ IH), coeff_nil. ring.
  Qed.
  Lemma pmul_cons_r p b q k :
    coeff (pmul p (b :: q)) k = b * coeff p k + match k with O => 0 | S k' => coeff (pmul p q) k' end.
  Proof.
    revert k. induction p as [|a p IH]; intros k.
    - destruct k; rewrite ?coeff_pmul_nil, ?coeff_nil; ring.
    - rewrite coeff_pmul_cons. destruct k as [|k].
      + rewrite !coeff_cons_0. ring.
      + rewrite IH, !coeff_cons_S, coeff_pmul_cons. destruct k; ring.
  Qed.
  Lemma pmul_comm p q : peq (pmul p q) (pmul q p).
  Proof.
    revert q. induction p as [|a p IH]; intros q; apply peq_intro; intros k.
    - rewrite coeff_pmul_nil. symmetry. rewrite (peq_elim _ _ (pmul_nil_r q) k). apply coeff_nil.
    - rewrite coeff_pmul_cons, pmul_cons_r. destruct k; [reflexivity|]. rewrite (peq_elim _ _ (IH q)). reflexivity.
  Qed.
  Lemma pmul_padd_distr_r p q r : peq (pmul (padd p q) r) (padd (pmul p r) (pmul q r)).
  Proof.
    revert q. induction p as [|a p IH]; intros q; apply peq_intro; intros k.
    - cbn [padd]. rewrite coeff_padd, coeff_pmul_nil. ring.
    - destruct q as [|b q].
      + cbn [padd]. rewrite coeff_padd, coeff_pmul_nil. ring.
      + cbn [padd]. rewrite coeff_padd, !coeff_pmul_cons. destruct k; [ring|].
        rewrite (peq_elim _ _ (IH q)), coeff_padd. ring.
  Qed.
  Lemma pmul_padd_distr_l p q r : peq (pmul p (padd q r)) (padd (pmul p q) (pmul p r)).
  Proof.
    rewrite (pmul_comm p (padd q r)), pmul_padd_distr_r, (pmul_comm q p), (pmul_comm r p). reflexivity.
  Qed.
  Lemma pmul_pscale_l c p q : peq (pmul (pscale c p) q) (pscale c (pmul p q)).
  Proof.
    induction p as [|a p IH]; apply peq_intro; intros k.
    - cbn [pscale map]. rewrite coeff_pscale, coeff_pmul_nil. ring.
    - cbn [pscale map]. fold (pscale c p). rewrite coeff_pscale, !coeff_pmul_cons. destruct k; [ring|].
      rewrite (peq_elim _ _ IH), coeff_pscale. ring.
  Qed.
  Lemma pmul_cons0_l p q : peq (pmul (0 :: p) q) (0 :: pmul p q).
  Proof.
    apply peq_intro; intros k. rewrite coeff_pmul_cons. destruct k; [rewrite coeff_cons_0; ring|rewrite coeff_cons_S; ring].
  Qed.
  Lemma pmul_cons_l a p q : peq (pmul (a :: p) q) (padd (pscale a q) (0 :: pmul p q)).
  Proof. apply peq_refl. Qed.
  Lemma pmul_assoc p q r : peq (pmul p (pmul q r)) (pmul (pmul p q) r).
  Proof.
    induction p as [|a p IH]; [apply peq_refl|].
    cbn [pmul]. rewrite pmul_padd_distr_r, pmul_pscale_l, pmul_cons0_l.
    apply padd_peq; [reflexivity|]. apply peq_cons; [reflexivity|exact IH].
  Qed.
  Lemma pmul_1_l p : peq (pmul pone p) p.
  Proof.
    apply peq_intro; intros k. unfold pone. rewrite coeff_pmul_cons. destruct k; [ring|]. rewrite coeff_pmul_nil. ring.
  Qed.
  Lemma pmul_1_r p : peq (pmul p pone) p.
  Proof. rewrite pmul_comm. apply pmul_1_l. Qed.
  Lemma pmul_0_l p : peq (pmul [] p) []. Proof. apply peq_refl. Qed.
  Lemma pmul_pzero_l p q : pzero p -> pzero (pmul p q).
  Proof. intros H. apply peq_nil_pzero. apply peq_nil_pzero in H. rewrite H. apply peq_refl. Qed.
  Lemma pmul_pzero_r p q : pzero q -> pzero (pmul p q).
  Proof. intros H. apply peq_nil_pzero. apply peq_nil_pzero in H. rewrite H. apply pmul_nil_r. Qed.
  Lemma pscale_pmul_const c p : peq (pmul (pconst c) p) (pscale c p).
  Proof.
    apply peq_intro; intros k. unfold pconst. rewrite coeff_pmul_cons, coeff_pscale. destruct k; [ring|]. rewrite coeff_pmul_nil. ring.
  Qed.
  Lemma pmul_pscale_r c p q : peq (pmul p (pscale c q)) (pscale c (pmul p q)).
  Proof. rewrite pmul_comm, pmul_pscale_l, (pmul_comm q p). reflexivity. Qed.
  Lemma psub_padd_popp p q : peq (psub p q) (padd p (popp q)). Proof. apply peq_refl. Qed.
  Lemma popp_pscale p : peq (popp p) (pscale (- (1)) p).
  Proof. apply peq_intro; intros i. rewrite coeff_popp, coeff_pscale. ring. Qed.

  (* X^n and shifting *)
  Lemma coeff_pshift n p i : coeff (pshift n p) i = if (i <? n)%nat then 0 else coeff p (i - n).
  Proof.
    unfold pshift. destruct (i <? n)%nat eqn:E.
    - apply Nat.ltb_lt in E. rewrite coeff_app_l by (rewrite repeat_length; exact E). apply coeff_repeat0.
    - apply Nat.ltb_ge in E. rewrite coeff_app_r by (rewrite repeat_length; exact E).
      rewrite repeat_length. reflexivity.
  Qed.
  Lemma pshift_S n p : pshift (S n) p = 0 :: pshift n p. Proof. reflexivity. Qed.
  Lemma pXn_S n : pXn (S n) = 0 :: pXn n. Proof. reflexivity. Qed.
  Lemma pshift_pmul n p : peq (pshift n p) (pmul (pXn n) p).
  Proof.
    induction n.
    - change (pshift 0 p) with p. change (pXn 0) with pone. symmetry. apply pmul_1_l.
    - rewrite pshift_S, pXn_S, pmul_cons0_l. apply peq_cons; [reflexivity|exact IHn].
  Qed.
  Lemma pshift_peq n p q : peq p q -> peq (pshift n p) (pshift n q).
  Proof. intros [H]. apply peq_intro; intros i. rewrite !coeff_pshift. destruct (i <? n)%nat; [reflexivity|apply H]. Qed.

  (* powers and products *)
  Lemma ppow_peq p q n : peq p q -> peq (ppow p n) (ppow q n).
  Proof. intros H. induction n; [apply peq_refl|]. cbn [ppow]. apply pmul_peq; assumption. Qed.
  Lemma ppow_add p n m : peq (ppow p (n + m)) (pmul (ppow p n) (ppow p m)).
  Proof.
    induction n; cbn [ppow Nat.add]; [symmetry; apply pmul_1_l|]. rewrite IHn. apply pmul_assoc.
  Qed.
  Lemma ppow_1 p : peq (ppow p 1) p. Proof. cbn [ppow]. apply pmul_1_r. Qed.
  Lemma pprod_nil : pprod [] = pone. Proof. reflexivity. Qed.
  Lemma pprod_cons p l : pprod (p :: l) = pmul p (pprod l). Proof. reflexivity. Qed.
  Lemma pprod_app l1 l2 : peq (pprod (l1 ++ l2)) (pmul (pprod l1) (pprod l2)).
  Proof.
    induction l1 as [|p l1 IH]; cbn [app]; [rewrite pprod_nil; symmetry; apply pmul_1_l|].
    rewrite !pprod_cons, IH. apply pmul_assoc.
  Qed.

  (* ---------------------------------------------------------------- evaluation *)
  Lemma peval_peq_nil p x : pzero p -> peval p x = 0.
  Proof.
    induction p as [|a p IH]; intros H; [reflexivity|]. apply pzero_cons in H. destruct H as [-> H].
    cbn [peval]. rewrite IH by exact H. ring.
  Qed.
  Lemma peval_peq p q x : peq p q -> peval p x = peval q x.
  Proof.
    revert q. induction p as [|a p IH]; intros q H.
    - symmetry. apply peval_peq_nil. apply peq_nil_pzero. symmetry. exact H.
    - destruct q as [|b q].
      + apply (peval_peq_nil (a :: p)). apply peq_nil_pzero. exact H.
      + apply peq_cons_inv in H. destruct H as [-> H]. cbn [peval]. rewrite (IH q H). reflexivity.
  Qed.
  #[global] Instance peval_Proper : Proper (peq ==> eq ==> eq) peval.
  Proof. intros p q H x y ->. apply peval_peq. exact H. Qed.
  Lemma peval_padd p q x : peval (padd p q) x = peval p x + peval q x.
  Proof.
    revert q. induction p as [|a p IH]; intros q; [cbn; ring|].
    destruct q as [|b q]; [cbn; ring|]. cbn [padd peval]. rewrite IH. ring.
  Qed.
  Lemma peval_pscale c p x : peval (pscale c p) x = c * peval p x.
  Proof. induction p as [|a p IH]; [cbn; ring|]. cbn [pscale map peval]. fold (pscale c p). rewrite IH. ring. Qed.
  Lemma peval_popp p x : peval (popp p) x = - peval p x.
  Proof. induction p as [|a p IH]; [cbn; ring|]. cbn [popp map peval]. fold (popp p). rewrite IH. ring. Qed.
  Lemma peval_psub p q x : peval (psub p q) x = peval p x - peval q x.
  Proof. unfold psub. rewrite peval_padd, peval_popp. ring. Qed.
  Lemma peval_pmul p q x : peval (pmul p q) x = peval p x * peval q x.
  Proof.
    induction p as [|a p IH]; [cbn; ring|]. cbn [pmul]. rewrite peval_padd, peval_pscale. cbn [peval].
    rewrite IH. ring.
  Qed.
  Lemma peval_pone x : peval pone x = 1. Proof. cbn. ring. Qed.
  Lemma peval_pconst c x : peval (pconst c) x = c. Proof. cbn. ring. Qed.
  Lemma peval_ppow p n x : peval (ppow p n) x = kpow fk (peval p x) n.
  Proof. induction n; [apply peval_pone|]. cbn [ppow kpow]. rewrite peval_pmul, IHn. reflexivity. Qed.
  Lemma peval_pshift n p x : peval (pshift n p) x = kpow fk x n * peval p x.
  Proof.
    induction n; [change (pshift 0 p) with p; cbn [kpow]; ring|].
    rewrite pshift_S. cbn [peval kpow]. rewrite IHn. ring.
  Qed.
  (* Horner as the code runs it: fold over the reversed list *)
  Lemma peval_fold_rev p x :
    fold_left (fun acc c => acc * x + c) (rev p) 0 = peval p x.
  Proof.
    rewrite <- fold_left_rev_right, rev_involutive.
    induction p as [|a p IH]; [reflexivity|]. cbn [fold_right peval]. rewrite IH. ring.
  Qed.

  (* p(aX) *)
  Lemma coeff_pcompscale_go p a pw i : coeff (pcompscale_go p a pw) i = coeff p i * (pw * kpow fk a i).
  Proof.
    revert pw i. induction p as [|c p IH]; intros pw i.
    - cbn [pcompscale_go]. rewrite !coeff_nil. ring.
    - destruct i; cbn [pcompscale_go kpow]; [rewrite !coeff_cons_0; ring|].
      rewrite !coeff_cons_S, IH. ring.
  Qed.
  Lemma coeff_pcompscale p a i : coeff (pcompscale p a) i = coeff p i * kpow fk a i.
  Proof. unfold pcompscale. rewrite coeff_pcompscale_go. ring. Qed.
  Lemma peval_pcompscale_go p a pw x : peval (pcompscale_go p a pw) x = pw * peval p (a * x).
  Proof.
    revert pw. induction p as [|c p IH]; intros pw; [cbn; ring|].
    cbn [pcompscale_go peval]. rewrite IH. ring.
  Qed.
  Lemma peval_pcompscale p a x : peval (pcompscale p a) x = peval p (a * x).
  Proof. unfold pcompscale. rewrite peval_pcompscale_go. ring. Qed.

  (* derivative *)
  Lemma coeff_pderiv_go p n i : coeff (pderiv_go p n) i = kofZ fk (Z.of_nat (n + i)) * coeff p i.
  Proof.
    revert n i. induction p as [|c p IH]; intros n i.
    - cbn [pderiv_go]. rewrite !coeff_nil. ring.
    - destruct i; cbn [pderiv_go]; [rewrite !coeff_cons_0, Nat.add_0_r; reflexivity|].
      rewrite !coeff_cons_S, IH. replace (S n + i)%nat with (n + S i)%nat by lia. reflexivity.
  Qed.
  Lemma coeff_pderiv p i : coeff (pderiv p) i = kofZ fk (Z.of_nat (S i)) * coeff p (S i).
  Proof.
    unfold pderiv. pose proof (coeff_pderiv_go p O (S i)) as H. cbn [Nat.add] in H. rewrite <- H.
    destruct (pderiv_go p 0); [rewrite !coeff_nil; reflexivity|reflexivity].
  Qed.

  (* ---------------------------------------------------------------- normal form, degree, leading coefficient *)
  Fixpoint pnorm (p : list K) : list K :=
    match p with
    | [] => []
    | a :: p' =>
        match pnorm p' with
        | [] => if keq_dec fk a 0 then [] else [a]
        | r => a :: r
        end
    end.
  Definition pdeg (p : list K) : Z := (Z.of_nat (length (pnorm p)) - 1)%Z.
  Definition plead (p : list K) : K := last (pnorm p) 0.

  Lemma pnorm_peq p : peq (pnorm p) p.
  Proof.
    induction p as [|a p IH]; [apply peq_refl|]. cbn [pnorm].
    destruct (pnorm p) as [|b r] eqn:E.
    - destruct (keq_dec fk a 0) as [->|Hn].
      + apply peq_intro; intros [|i]; [rewrite coeff_nil; reflexivity|]. rewrite coeff_nil, coeff_cons_S, <- (peq_elim _ _ IH), coeff_nil. reflexivity.
      + apply peq_cons; [reflexivity|exact IH].
    - apply peq_cons; [reflexivity|exact IH].
  Qed.
  Lemma pnorm_nil_iff p : pnorm p = [] <-> pzero p.
  Proof.
    split.
    - intros H. apply peq_nil_pzero. rewrite <- H. symmetry. apply pnorm_peq.
    - induction p as [|a p IH]; intros H; [reflexivity|]. apply pzero_cons in H. destruct H as [-> H].
      cbn [pnorm]. rewrite (IH H). destruct (keq_dec fk 0 0); [reflexivity|congruence].
  Qed.
  Lemma pnorm_last_nonzero p : pnorm p <> [] -> last (pnorm p) 0 <> 0.
  Proof.
    induction p as [|a p IH]; [intros H; exfalso; apply H; reflexivity|]. cbn [pnorm].
    destruct (pnorm p) as [|b r] eqn:E.
    - destruct (keq_dec fk a 0) as [Ha|Ha]; [intros H; exfalso; apply H; reflexivity|]. intros _. exact Ha.
    - intros _. change (last (a :: b :: r) 0) with (last (b :: r) 0). apply IH. discriminate.
  Qed.
  Lemma pnorm_unique p q : peq p q -> pnorm p = pnorm q.
  Proof.
    revert q. induction p as [|a p IH]; intros q H.
    - symmetry. apply pnorm_nil_iff. apply peq_nil_pzero. symmetry. exact H.
    - destruct q as [|b q].
      + apply pnorm_nil_iff. apply peq_nil_pzero. exact H.
      + apply peq_cons_inv in H. destruct H as [-> H]. cbn [pnorm]. rewrite (IH q H). reflexivity.
  Qed.
  Lemma peq_iff_pnorm p q : peq p q <-> pnorm p = pnorm q.
  Proof.
    split; [apply pnorm_unique|]. intros H. rewrite <- (pnorm_peq p), <- (pnorm_peq q), H. reflexivity.
  Qed.
  Lemma pnorm_idem p : pnorm (pnorm p) = pnorm p.
  Proof. apply pnorm_unique, pnorm_peq. Qed.
  Lemma pnorm_app_zeros p n : pnorm (p ++ repeat 0 n) = pnorm p.
  Proof. apply pnorm_unique, peq_app_zeros. Qed.
  Lemma pdeg_peq p q : peq p q -> pdeg p = pdeg q.
  Proof. intros H. unfold pdeg. rewrite (pnorm_unique p q H). reflexivity. Qed.
  Lemma plead_peq p q : peq p q -> plead p = plead q.
  Proof. intros H. unfold plead. rewrite (pnorm_unique p q H). reflexivity. Qed.
  Lemma pdeg_neg_iff p : (pdeg p = -1)%Z <-> pzero p.
  Proof.
    rewrite <- pnorm_nil_iff. unfold pdeg. destruct (pnorm p); cbn [length]; split; intros H; try reflexivity; try discriminate; lia.
  Qed.
  Lemma pdeg_ge p : (-1 <= pdeg p)%Z. Proof. unfold pdeg. lia. Qed.
  Lemma pdeg_le_length p : (pdeg p < Z.of_nat (length p))%Z.
  Proof.
    unfold pdeg. assert (length (pnorm p) <= length p)%nat; [|lia].
    induction p as [|a p IH]; [cbn; lia|]. cbn [pnorm]. destruct (pnorm p) as [|b r].
    - destruct (keq_dec fk a 0); cbn; lia.
    - cbn [length] in *. lia.
  Qed.
  (* coefficients above the degree vanish; the one at the degree is the leading coefficient *)
  Lemma coeff_above_pdeg p i : (pdeg p < Z.of_nat i)%Z -> coeff p i = 0.
  Proof.
    intros H. rewrite <- (peq_elim _ _ (pnorm_peq p)). apply coeff_overflow. unfold pdeg in H. lia.
  Qed.
  Lemma coeff_at_pdeg p : (0 <= pdeg p)%Z -> coeff p (Z.to_nat (pdeg p)) = plead p /\ plead p <> 0.
  Proof.
    intros H. unfold plead. split.
    - rewrite <- (peq_elim _ _ (pnorm_peq p)). unfold pdeg in *. unfold coeff.
      replace (Z.to_nat (Z.of_nat (length (pnorm p)) - 1)) with (length (pnorm p) - 1)%nat by lia.
      destruct (pnorm p) as [|b r] eqn:E; [cbn in H; lia|]. rewrite <- E.
      destruct (@exists_last _ (pnorm p)) as [l' [z Hz]]; [rewrite E; discriminate|].
      rewrite Hz, last_last, app_length. cbn [length]. rewrite app_nth2 by lia.
      replace (length l' + 1 - 1 - length l')%nat with O by lia. reflexivity.
    - apply pnorm_last_nonzero. unfold pdeg in H. destruct (pnorm p); [cbn in H; lia|discriminate].
  Qed.
  (* a list whose last element is non-zero is its own normal form *)
  Lemma pnorm_last_id p : last p 1 <> 0 -> pnorm p = p.
  Proof.
    induction p as [|a p IH]; [reflexivity|]. intros H. cbn [pnorm]. destruct p as [|b r].
    - cbn [pnorm]. cbn in H. destruct (keq_dec fk a 0); [contradiction|reflexivity].
    - change (last (a :: b :: r) 1) with (last (b :: r) 1) in H. rewrite (IH H). reflexivity.
  Qed.
  Lemma pdeg_bound p n : (forall i, (n <= i)%nat -> coeff p i = 0) -> (pdeg p < Z.of_nat n)%Z.
  Proof.
    intros H. destruct (Z.lt_ge_cases (pdeg p) (Z.of_nat n)) as [L|G]; [exact L|exfalso].
    assert (H0 : (0 <= pdeg p)%Z) by lia. destruct (coeff_at_pdeg p H0) as [E1 E2].
    apply E2. rewrite <- E1. apply H. lia.
  Qed.
  (* degree and leading coefficient of a product: K[X] is an integral domain *)
  Lemma coeff_pmul_top p q :
    (0 <= pdeg p)%Z -> (0 <= pdeg q)%Z ->
    coeff (pmul p q) (Z.to_nat (pdeg p + pdeg q)) = plead p * plead q.
  Proof.
    intros Hp Hq. rewrite coeff_pmul.
    rewrite (ksum_single fk _ _ (Z.to_nat (pdeg p))).
    2: lia.
    2: { intros j Hj Hne. destruct (Nat.lt_ge_cases (Z.to_nat (pdeg p)) j) as [L|G].
         - rewrite (coeff_above_pdeg p j) by lia. ring.
         - rewrite (coeff_above_pdeg q (Z.to_nat (pdeg p + pdeg q) - j)) by lia. ring. }
    replace (Z.to_nat (pdeg p + pdeg q) - Z.to_nat (pdeg p))%nat with (Z.to_nat (pdeg q)) by lia.
    rewrite (proj1 (coeff_at_pdeg p Hp)), (proj1 (coeff_at_pdeg q Hq)). reflexivity.
  Qed.
  Lemma coeff_pmul_above p q i :
    (pdeg p + pdeg q < Z.of_nat i)%Z -> coeff (pmul p q) i = 0.
  Proof.
    intros H. rewrite coeff_pmul. rewrite (ksum_ext fk _ (fun _ => 0)), ksum_0; [reflexivity|].
    intros j Hj. destruct (Z.lt_ge_cases (pdeg p) (Z.of_nat j)) as [L|G].
    - rewrite (coeff_above_pdeg p j) by lia. ring.
    - rewrite (coeff_above_pdeg q (i - j)) by lia. ring.
  Qed.
  Lemma pdeg_pmul p q : (0 <= pdeg p)%Z -> (0 <= pdeg q)%Z -> pdeg (pmul p q) = (pdeg p + pdeg q)%Z.
  Proof.
    intros Hp Hq. apply Z.le_antisymm.
    - assert (pdeg (pmul p q) < Z.of_nat (S (Z.to_nat (pdeg p + pdeg q))))%Z; [|lia].
      apply pdeg_bound. intros i Hi. apply coeff_pmul_above. lia.
    - destruct (Z.lt_ge_cases (pdeg (pmul p q)) (pdeg p + pdeg q)) as [L|G]; [exfalso|lia].
      pose proof (coeff_pmul_top p q Hp Hq) as T.
      rewrite (coeff_above_pdeg (pmul p q)) in T by lia.
      symmetry in T. destruct (k_integral fk _ _ T) as [E|E];
        [exact (proj2 (coeff_at_pdeg p Hp) E)|exact (proj2 (coeff_at_pdeg q Hq) E)].
  Qed.
  Lemma plead_pmul p q : (0 <= pdeg p)%Z -> (0 <= pdeg q)%Z -> plead (pmul p q) = plead p * plead q.
  Proof.
    intros Hp Hq. rewrite <- (coeff_pmul_top p q Hp Hq).
    assert (H : (0 <= pdeg (pmul p q))%Z) by (rewrite pdeg_pmul; lia).
    rewrite <- (proj1 (coeff_at_pdeg (pmul p q) H)), pdeg_pmul by assumption. reflexivity.
  Qed.
  Lemma pmul_integral p q : pzero (pmul p q) -> pzero p \/ pzero q.
  Proof.
    intros H. destruct (Z.eq_dec (pdeg p) (-1)) as [E|E]; [left; apply pdeg_neg_iff; exact E|].
    destruct (Z.eq_dec (pdeg q) (-1)) as [E'|E']; [right; apply pdeg_neg_iff; exact E'|].
    exfalso. apply pdeg_neg_iff in H. pose proof (pdeg_ge p). pose proof (pdeg_ge q).
    rewrite pdeg_pmul in H; lia.
  Qed.
End PolySpec.

(* denotation of a model list *)
Definition pden {F K : Type} (den : F -> K) (l : list F) : list K := map den l.
