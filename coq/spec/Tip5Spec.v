(* spec/Tip5Spec.v - the Tip5 specification on field VALUES (integers modulo p), independent of the model.
   Source: the Tip5 paper (Szepieniec, Lemmens, Sauer, Threadbare, Al-Kindi) as restated in the comments of
   tip5.rs: state of 16 elements (rate 10, capacity 6); 5 rounds; each round = S-box layer, MDS, constants.
     S-box layer : the first 4 elements go through the split-and-lookup map L, the other 12 through x -> x^7.
                   L works on the 8 little-endian bytes of the element's Montgomery representation (x * 2^64 mod spec_p)
                   and applies to each byte the offset Fermat cube map  i -> ((i + 1)^3 + 256) mod 257  (so 0 -> 0
                   and 255 -> 255).
     MDS         : multiplication by the circulant matrix M[i][j] = col[(i - j) mod 16].
     constants   : round constant number 16 * round + i is added to element i.
   The first column `col` and the 80 round constants are GOLDEN SPEC LITERALS: their derivation from SHA-256 /
   BLAKE3 digests of "Tip5" is outside Coq (the repository's own tests re-derive them); proofs/Tip5Proofs.v
   (consts_match) proves that the regenerated tables of the source equal these literals.
   Fixed-length hashing starts from capacity all ones, variable-length hashing from the zero state with the
   padding  input ++ [1] ++ 0^k , k < 10 minimal such that the length is a multiple of 10. *)
From Coq Require Import ZArith List.
Import ListNotations.
Open Scope Z_scope.

Definition spec_p : Z := 18446744069414584321.              (* 2^64 - 2^32 + 1 *)
Definition Rmont : Z := 18446744073709551616.          (* 2^64 *)
Definition Rmont_inv : Z := 18446744065119617025.      (* (2^64)^-1 mod p *)
Definition to_mont (v : Z) : Z := (v * Rmont) mod spec_p.
Definition from_mont (w : Z) : Z := (w * Rmont_inv) mod spec_p.

Definition SPEC_COL : list Z :=
  [61402; 1108; 28750; 33823; 7454; 43244; 53865; 12034;
   56951; 27521; 41351; 40901; 12021; 59689; 26798; 17845].

(* (a function of a unit argument only so that the extracted OCaml builds the literal inside a function body) *)
Definition SPEC_RC_lit (_ : unit) : list Z :=
  [13630775303355457758; 16896927574093233874; 10379449653650130495; 1965408364413093495;
   15232538947090185111; 15892634398091747074; 3989134140024871768; 2851411912127730865;
   8709136439293758776; 3694858669662939734; 12692440244315327141; 10722316166358076749;
   12745429320441639448; 17932424223723990421; 7558102534867937463; 15551047435855531404;
   17532528648579384106; 5216785850422679555; 15418071332095031847; 11921929762955146258;
   9738718993677019874; 3464580399432997147; 13408434769117164050; 264428218649616431;
   4436247869008081381; 4063129435850804221; 2865073155741120117; 5749834437609765994;
   6804196764189408435; 17060469201292988508; 9475383556737206708; 12876344085611465020;
   13835756199368269249; 1648753455944344172; 9836124473569258483; 12867641597107932229;
   11254152636692960595; 16550832737139861108; 11861573970480733262; 1256660473588673495;
   13879506000676455136; 10564103842682358721; 16142842524796397521; 3287098591948630584;
   685911471061284805; 5285298776918878023; 18310953571768047354; 3142266350630002035;
   549990724933663297; 4901984846118077401; 11458643033696775769; 8706785264119212710;
   12521758138015724072; 11877914062416978196; 11333318251134523752; 3933899631278608623;
   16635128972021157924; 10291337173108950450; 4142107155024199350; 16973934533787743537;
   11068111539125175221; 17546769694830203606; 5315217744825068993; 4609594252909613081;
   3350107164315270407; 17715942834299349177; 9600609149219873996; 12894357635820003949;
   4597649658040514631; 7735563950920491847; 1663379455870887181; 13889298103638829706;
   7375530351220884434; 3502022433285269151; 9231805330431056952; 9252272755288523725;
   10014268662326746219; 15565031632950843234; 1209725273521819323; 6024642864597845108].
Definition SPEC_RC : list Z := SPEC_RC_lit tt.

(* ---------------------------------------------------------------- S-box layer *)
Definition fermat_cube (i : Z) : Z := ((i + 1) ^ 3 + 256) mod 257.
Definition byte_of (w i : Z) : Z := (w / 256 ^ i) mod 256.
Definition spec_L (v : Z) : Z :=
  let w := to_mont v in
  from_mont (fold_right (fun i acc => acc + fermat_cube (byte_of w i) * 256 ^ i) 0 [0; 1; 2; 3; 4; 5; 6; 7]).
Definition spec_pow7 (v : Z) : Z := (v ^ 7) mod spec_p.
Definition spec_sbox (st : list Z) : list Z :=
  map spec_L (firstn 4 st) ++ map spec_pow7 (skipn 4 st).

(* ---------------------------------------------------------------- MDS *)
Fixpoint sdot (r x : list Z) : Z :=
  match r, x with a :: r', b :: x' => a * b + sdot r' x' | _, _ => 0 end.
(* row i of the circulant matrix: M[i][j] = col[(i - j) mod 16] *)
Definition circ_row (col : list Z) (i : nat) : list Z :=
  map (fun j => nth ((i + 16 - j) mod 16)%nat col 0) (seq 0 16).
Definition spec_mds (st : list Z) : list Z :=
  map (fun i => (sdot (circ_row SPEC_COL i) st) mod spec_p) (seq 0 16).

(* ---------------------------------------------------------------- rounds, permutation, trace *)
Definition spec_rc (round : nat) : list Z := firstn 16 (skipn (16 * round) SPEC_RC).
Definition spec_round (round : nat) (st : list Z) : list Z :=
  map (fun ac => (fst ac + snd ac) mod spec_p) (combine (spec_mds (spec_sbox st)) (spec_rc round)).
Definition spec_permutation (st : list Z) : list Z :=
  spec_round 4 (spec_round 3 (spec_round 2 (spec_round 1 (spec_round 0 st)))).
Definition spec_trace (st : list Z) : list (list Z) :=
  let s1 := spec_round 0 st in let s2 := spec_round 1 s1 in let s3 := spec_round 2 s2 in
  let s4 := spec_round 3 s3 in let s5 := spec_round 4 s4 in [st; s1; s2; s3; s4; s5].

(* ---------------------------------------------------------------- hashing *)
(* fixed length: ten elements (or two digests of five) in the rate, capacity all ones, one permutation,
   first five elements *)
Definition spec_hash_10 (input : list Z) : list Z :=
  firstn 5 (spec_permutation (input ++ [1; 1; 1; 1; 1; 1])).
Definition spec_hash_pair (l r : list Z) : list Z := spec_hash_10 (l ++ r).
Definition spec_digest_hash (d : list Z) : list Z := spec_hash_pair d [0; 0; 0; 0; 0].

(* variable length: zero state; padding; absorb = overwrite the rate, permute; output = first five *)
Definition spec_pad (input : list Z) : list Z :=
  input ++ [1] ++ repeat 0 ((10 - (length input + 1) mod 10) mod 10)%nat.
Definition spec_absorb (st chunk : list Z) : list Z := spec_permutation (chunk ++ skipn 10 st).
Fixpoint spec_absorb_all (fuel : nat) (st l : list Z) : list Z :=
  match fuel with
  | O => st
  | S f => match l with [] => st | _ => spec_absorb_all f (spec_absorb st (firstn 10 l)) (skipn 10 l) end
  end.
Definition spec_hash_varlen (input : list Z) : list Z :=
  let padded := spec_pad input in
  firstn 5 (spec_absorb_all (length padded) (repeat 0 16) padded).

(* squeezing: output the rate, then permute *)
Definition spec_squeeze (st : list Z) : list Z * list Z := (firstn 10 st, spec_permutation st).
(* the stream of squeezed elements: n squeezes *)
Fixpoint spec_stream (n : nat) (st : list Z) : list Z * list Z :=
  match n with
  | O => ([], st)
  | S n' => let '(a, st1) := spec_squeeze st in let '(b, st2) := spec_stream n' st1 in (a ++ b, st2)
  end.

(* ---------------------------------------------------------------- sampling (C15) *)
(* index sampling with k squeezes: the low 32 bits, reduced modulo the power-of-two bound, of the squeezed
   elements different from p - 1, in order, the first n of them; the sponge is left after those k squeezes.
   The property fixes k as the FEWEST squeezes that supply n accepted elements (spec_min_squeezes). *)
Definition accepted (stream : list Z) : list Z := filter (fun e => negb (e =? spec_p - 1)) stream.
Definition low32_mod (ub e : Z) : Z := (e mod 4294967296) mod ub.
Definition spec_sample_indices (k : nat) (st : list Z) (ub : Z) (n : nat) : list Z * list Z :=
  let '(stream, st') := spec_stream k st in (firstn n (map (low32_mod ub) (accepted stream)), st').
Definition enough_squeezes (k : nat) (st : list Z) (n : nat) : bool :=
  Nat.leb n (length (accepted (fst (spec_stream k st)))).
(* least k <= fuel with enough accepted elements *)
Fixpoint spec_min_squeezes_go (fuel k : nat) (st : list Z) (n : nat) : option nat :=
  if enough_squeezes k st n then Some k
  else match fuel with O => None | S f => spec_min_squeezes_go f (S k) st n end.
Definition spec_min_squeezes (fuel : nat) (st : list Z) (n : nat) : option nat := spec_min_squeezes_go fuel 0 st n.

(* scalar sampling: successive squeezed elements in groups of three; ceil(3n/10) squeezes *)
Fixpoint groups3 (l : list Z) : list (list Z) :=
  match l with a :: b :: c :: r => [a; b; c] :: groups3 r | _ => [] end.
Definition spec_sample_scalars (st : list Z) (n : nat) : list (list Z) * list Z :=
  let k := ((3 * n + 9) / 10)%nat in
  let '(stream, st') := spec_stream k st in (firstn n (groups3 stream), st').
