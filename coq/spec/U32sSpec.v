(* U32sSpec.v - what property C19 talks about: the big-integer value of a limb list and representability. *)
From Coq Require Import ZArith Bool List.
Import ListNotations.
Open Scope Z_scope.
Open Scope bool_scope.

(* value of the limbs  l_0, l_1, ... :  sum l_i * 2^(32 i) *)
Fixpoint u32s_value (l : list Z) : Z :=
  match l with
  | [] => 0
  | x :: t => x + 2 ^ 32 * u32s_value t
  end.

(* a U32s<N>: exactly N limbs, each a u32 *)
Definition u32s_wf (N : nat) (l : list Z) : Prop := length l = N /\ Forall (fun x => 0 <= x < 2 ^ 32) l.
Definition u32s_wfb (N : nat) (l : list Z) : bool :=
  Nat.eqb (length l) N && forallb (fun x => (0 <=? x) && (x <? 2 ^ 32)) l.

(* v is representable in N limbs *)
Definition u32s_fits (N : nat) (v : Z) : Prop := 0 <= v < 2 ^ (32 * Z.of_nat N).
Definition u32s_fitsb (N : nat) (v : Z) : bool := (0 <=? v) && (v <? 2 ^ (32 * Z.of_nat N)).
