use std::collections::hash_map::DefaultHasher;
use std::hash::{Hash, Hasher};

use twenty_first::math::traits::{FiniteField, Inverse, ModPowU32, ModPowU64, PrimitiveRootOfUnity};
use num_traits::{One, Zero};
use twenty_first::prelude::*;

fn b(s: &str) -> BFieldElement {
    BFieldElement::new(s.parse::<u64>().unwrap())
}
fn show(x: BFieldElement) -> String {
    format!("{} {}", x.raw_u64(), x.value())
}
fn x3(a: &[String]) -> XFieldElement {
    XFieldElement::new([b(&a[0]), b(&a[1]), b(&a[2])])
}
fn showx(x: XFieldElement) -> String {
    let c = x.coefficients;
    format!("{} {} {}", c[0].value(), c[1].value(), c[2].value())
}
fn h<T: Hash>(t: &T) -> u64 {
    let mut s = DefaultHasher::new();
    t.hash(&mut s);
    s.finish()
}
fn opt<T: ToString, E>(r: Result<T, E>) -> String {
    match r {
        Ok(v) => v.to_string(),
        Err(_) => "ERR".to_string(),
    }
}

fn main() {
    tfh::main_loop(run);
}

fn run(op: &str, a: &[String]) -> String {
    match op {
        "new" => show(b(&a[0])),
        "add" => show(b(&a[0]) + b(&a[1])),
        "sub" => show(b(&a[0]) - b(&a[1])),
        "mul" => show(b(&a[0]) * b(&a[1])),
        "neg" => show(-b(&a[0])),
        "addassign" => {
            let mut x = b(&a[0]);
            x += b(&a[1]);
            let mut y = b(&a[0]);
            y -= b(&a[1]);
            let mut z = b(&a[0]);
            z *= b(&a[1]);
            format!("{} {} {}", x.value(), y.value(), z.value())
        }
        "inv" => show(b(&a[0]).inverse()),
        "invz" => show(b(&a[0]).inverse_or_zero()),
        "div" => show(b(&a[0]) / b(&a[1])),
        "pow" => show(b(&a[0]).mod_pow(a[1].parse::<u64>().unwrap())),
        "pow64" => show(b(&a[0]).mod_pow_u64(a[1].parse::<u64>().unwrap())),
        "pow32" => show(b(&a[0]).mod_pow_u32(a[1].parse::<u32>().unwrap())),
        "square" => show(b(&a[0]).square()),
        "from_u128" => show(BFieldElement::from(a[0].parse::<u128>().unwrap())),
        "from_i64" => show(BFieldElement::from(a[0].parse::<i64>().unwrap())),
        "from_i32" => show(BFieldElement::from(a[0].parse::<i32>().unwrap())),
        "from_i16" => show(BFieldElement::from(a[0].parse::<i16>().unwrap())),
        "from_i8" => show(BFieldElement::from(a[0].parse::<i8>().unwrap())),
        "from_isize" => show(BFieldElement::from(a[0].parse::<isize>().unwrap())),
        "from_u32" => show(BFieldElement::from(a[0].parse::<u32>().unwrap())),
        "from_u16" => show(BFieldElement::from(a[0].parse::<u16>().unwrap())),
        "from_u8" => show(BFieldElement::from(a[0].parse::<u8>().unwrap())),
        "from_usize" => show(BFieldElement::from(a[0].parse::<usize>().unwrap())),
        "from_u64" => show(BFieldElement::from(a[0].parse::<u64>().unwrap())),
        "to_i64" => i64::from(b(&a[0])).to_string(),
        "to_u64" => u64::from(b(&a[0])).to_string(),
        "to_u128" => u128::from(b(&a[0])).to_string(),
        "to_i128" => i128::from(b(&a[0])).to_string(),
        "try_u8" => opt(u8::try_from(b(&a[0]))),
        "try_u16" => opt(u16::try_from(b(&a[0]))),
        "try_u32" => opt(u32::try_from(b(&a[0]))),
        "try_usize" => opt(usize::try_from(b(&a[0]))),
        "try_i8" => opt(i8::try_from(b(&a[0]))),
        "try_i16" => opt(i16::try_from(b(&a[0]))),
        "try_i32" => opt(i32::try_from(b(&a[0]))),
        "try_isize" => opt(isize::try_from(b(&a[0]))),
        "batchinv" => {
            let v: Vec<BFieldElement> = a.iter().map(|s| b(s)).collect();
            let r = BFieldElement::batch_inversion(v);
            r.iter().map(|x| x.value().to_string()).collect::<Vec<_>>().join(" ")
        }
        "eqhash" => {
            // two differently built elements: equality, hash equality, value equality
            let x = b(&a[0]);
            let y = b(&a[1]);
            format!("{} {} {}", (x == y) as u8, (h(&x) == h(&y)) as u8, (x.value() == y.value()) as u8)
        }
        "eqhash_ops" => {
            // x built directly vs built as (x - d) + d
            let x = b(&a[0]);
            let d = b(&a[1]);
            let y = (x - d) + d;
            let zz = if d.is_zero() { x } else { (x * d) / d };
            format!("{} {} {} {}", (x == y) as u8, (h(&x) == h(&y)) as u8, (x == zz) as u8, (h(&x) == h(&zz)) as u8)
        }
        "root" => match BFieldElement::primitive_root_of_unity(a[0].parse::<u64>().unwrap()) {
            Some(r) => show(r),
            None => "NONE".to_string(),
        },
        "iszero" => format!("{} {}", b(&a[0]).is_zero() as u8, b(&a[0]).is_one() as u8),
        "incdec" => {
            let mut x = b(&a[0]);
            x.increment();
            let mut y = b(&a[0]);
            y.decrement();
            format!("{} {}", x.value(), y.value())
        }
        // ---- further public API: raw views, montyred, power_accumulator, Sum, cyclic group
        "montyred" => BFieldElement::montyred(a[0].parse::<u128>().unwrap()).to_string(),
        "rawviews" => {
            // raw_bytes / raw_u16s / raw_u128 / raw_u64 and their inverses, is_canonical of the raw word
            let x = b(&a[0]);
            let rb = x.raw_bytes();
            let r16 = x.raw_u16s();
            let back1 = BFieldElement::from_raw_bytes(&rb);
            let back2 = BFieldElement::from_raw_u16s(&r16);
            let back3 = BFieldElement::from_raw_u64(x.raw_u64());
            format!(
                "{} | {} | {} {} | {} {} {} | {}",
                rb.iter().map(|v| v.to_string()).collect::<Vec<_>>().join(" "),
                r16.iter().map(|v| v.to_string()).collect::<Vec<_>>().join(" "),
                x.raw_u128(),
                x.raw_u64(),
                (back1 == x) as u8,
                (back2 == x) as u8,
                (back3 == x) as u8,
                BFieldElement::is_canonical(a[0].parse::<u64>().unwrap()) as u8
            )
        }
        "poweracc" => {
            // power_accumulator::<2, M>(base, tail) for M in {0, 1, 3, 32}
            let base = [b(&a[1]), b(&a[2])];
            let tail = [b(&a[3]), b(&a[4])];
            let r = match a[0].as_str() {
                "0" => BFieldElement::power_accumulator::<2, 0>(base, tail),
                "1" => BFieldElement::power_accumulator::<2, 1>(base, tail),
                "3" => BFieldElement::power_accumulator::<2, 3>(base, tail),
                "32" => BFieldElement::power_accumulator::<2, 32>(base, tail),
                _ => panic!("M"),
            };
            format!("{} {}", r[0].value(), r[1].value())
        }
        "sum" => {
            let v: Vec<BFieldElement> = a.iter().map(|s| b(s)).collect();
            v.into_iter().sum::<BFieldElement>().value().to_string()
        }
        "cyclic" => {
            // get_cyclic_group_elements(max): a[0] = generator value, a[1] = max or `-`
            use twenty_first::math::traits::CyclicGroupGenerator;
            let max = if a[1] == "-" { None } else { Some(a[1].parse::<usize>().unwrap()) };
            let r = b(&a[0]).get_cyclic_group_elements(max);
            r.iter().map(|x| x.value().to_string()).collect::<Vec<_>>().join(" ")
        }
        "generator" => show(BFieldElement::generator()),
        "consts" => format!(
            "{} {} {} {}",
            BFieldElement::P,
            BFieldElement::MAX,
            BFieldElement::MINUS_TWO_INVERSE.value(),
            BFieldElement::BYTES
        ),
        "xsum" => {
            let v: Vec<XFieldElement> = a.chunks(3).map(x3).collect();
            showx(v.into_iter().sum::<XFieldElement>())
        }
        "xnewconst" => showx(XFieldElement::new_const(b(&a[0]))),
        "xtryslice" => {
            let v: Vec<BFieldElement> = a.iter().map(|s| b(s)).collect();
            match XFieldElement::try_from(v.as_slice()) {
                Ok(x) => showx(x),
                Err(_) => "ERR".to_string(),
            }
        }
        "xincr" => {
            let mut x = x3(&a[0..3]);
            x.increment(a[3].parse::<usize>().unwrap());
            showx(x)
        }
        "xdecr" => {
            let mut x = x3(&a[0..3]);
            x.decrement(a[3].parse::<usize>().unwrap());
            showx(x)
        }
        "xroot" => match XFieldElement::primitive_root_of_unity(a[0].parse::<u64>().unwrap()) {
            Some(r) => showx(r),
            None => "NONE".to_string(),
        },
        "xcyclic" => {
            use twenty_first::math::traits::CyclicGroupGenerator;
            let max = Some(a[3].parse::<usize>().unwrap());
            let r = x3(&a[0..3]).get_cyclic_group_elements(max);
            r.iter().map(|x| showx(*x)).collect::<Vec<_>>().join(" ")
        }
        "shah" => {
            let p = XFieldElement::shah_polynomial();
            p.coefficients().iter().map(|c| c.value().to_string()).collect::<Vec<_>>().join(" ")
        }
        // ---- extension field
        "xadd" => showx(x3(&a[0..3]) + x3(&a[3..6])),
        "xsub" => showx(x3(&a[0..3]) - x3(&a[3..6])),
        "xmul" => showx(x3(&a[0..3]) * x3(&a[3..6])),
        "xneg" => showx(-x3(&a[0..3])),
        "xinv" => showx(x3(&a[0..3]).inverse()),
        "xinvz" => showx(x3(&a[0..3]).inverse_or_zero()),
        "xdiv" => showx(x3(&a[0..3]) / x3(&a[3..6])),
        "xpow" => showx(x3(&a[0..3]).mod_pow_u64(a[3].parse::<u64>().unwrap())),
        "xpow32" => showx(x3(&a[0..3]).mod_pow_u32(a[3].parse::<u32>().unwrap())),
        "xmulb" => showx(x3(&a[0..3]) * b(&a[3])),
        "bmulx" => showx(b(&a[3]) * x3(&a[0..3])),
        "xaddb" => showx(x3(&a[0..3]) + b(&a[3])),
        "baddx" => showx(b(&a[3]) + x3(&a[0..3])),
        "xsubb" => showx(x3(&a[0..3]) - b(&a[3])),
        "bsubx" => showx(b(&a[3]) - x3(&a[0..3])),
        "lift" => showx(b(&a[0]).lift()),
        "unlift" => match x3(&a[0..3]).unlift() {
            Some(v) => v.value().to_string(),
            None => "NONE".to_string(),
        },
        "xeqhash" => {
            let x = x3(&a[0..3]);
            let y = x3(&a[3..6]);
            format!("{} {}", (x == y) as u8, (h(&x) == h(&y)) as u8)
        }
        "xbatchinv" => {
            let v: Vec<XFieldElement> = a.chunks(3).map(x3).collect();
            let r = XFieldElement::batch_inversion(v);
            r.iter().map(|x| showx(*x)).collect::<Vec<_>>().join(" ")
        }
        _ => panic!("unknown op {op}"),
    }
}
