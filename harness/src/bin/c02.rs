//! C02 harness: the real Tip5 permutation, trace and fixed-length hashes on states given as field VALUES.
//! Output: raw Montgomery words (`raw_u64`), so that canonicity of the stored words is part of the comparison.
use twenty_first::prelude::*;

fn bfes(a: &[String]) -> Vec<BFieldElement> {
    a.iter().map(|s| BFieldElement::new(s.parse::<u64>().unwrap())).collect()
}
fn raws(v: &[BFieldElement]) -> String {
    v.iter().map(|x| x.raw_u64().to_string()).collect::<Vec<_>>().join(" ")
}
fn state(a: &[String]) -> Tip5 {
    assert_eq!(a.len(), 16);
    let mut t = Tip5::init();
    t.state.copy_from_slice(&bfes(a));
    t
}

fn main() {
    tfh::main_loop(run);
}

fn run(op: &str, a: &[String]) -> String {
    match op {
        "perm" => {
            let mut t = state(a);
            t.permutation();
            raws(&t.state)
        }
        "trace" => {
            let mut t = state(a);
            let tr = t.trace();
            let mut out: Vec<String> = tr.iter().map(|s| raws(s)).collect();
            // the sponge itself must end in the last state of the trace
            out.push(raws(&t.state));
            out.join(" ")
        }
        "hash10" => {
            let v: [BFieldElement; 10] = bfes(a).try_into().unwrap();
            raws(&Tip5::hash_10(&v))
        }
        "hashpair" => {
            let v = bfes(a);
            let l = Digest::new(v[0..5].to_vec().try_into().unwrap());
            let r = Digest::new(v[5..10].to_vec().try_into().unwrap());
            raws(&Tip5::hash_pair(l, r).values())
        }
        "digest_hash" => {
            let v = bfes(a);
            let d = Digest::new(v[0..5].to_vec().try_into().unwrap());
            raws(&d.hash().values())
        }
        _ => panic!("unknown op {op}"),
    }
}
