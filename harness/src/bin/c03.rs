//! C03 / C13 harness: the real `BFieldCodec` implementations over the generated type sample (c03_types.rs).
//! Case lines:  `<id> <op> <type-id> <ty-term> <numbers...>`  (the ty-term is for the oracle; ignored here)
//!   dec   decode the sequence; `OK <re-encoding>` (plus ` RTFAIL` if decoding the re-encoding does not give the
//!         same value again), `ERR`, or `PANIC`
//!   decm / decx  as dec but prints only the verdict and the peak number of heap bytes allocated during the
//!         call (decx marks cases that must be rejected: truncated / extended valid encodings)
//!   decv  = dec, marks a valid encoding (must be accepted)
//!   slen  `static_length()`
//!   polyb / polyx   (no type id) build Polynomial::new(raw coefficients), print its encoding
#![allow(dead_code)]
extern crate twenty_first;
use std::alloc::{GlobalAlloc, Layout, System};
use std::fmt::Debug;
use std::marker::PhantomData;
use std::panic;
use std::sync::atomic::{AtomicUsize, Ordering};

use twenty_first::amount::u32s::U32s;
use twenty_first::prelude::*;
use twenty_first::util_types::mmr::mmr_accumulator::MmrAccumulator;
use twenty_first::util_types::mmr::mmr_membership_proof::MmrMembershipProof;
use twenty_first::util_types::mmr::mmr_successor_proof::MmrSuccessorProof;

include!("c03_types.rs");

struct Counting;
static CUR: AtomicUsize = AtomicUsize::new(0);
static PEAK: AtomicUsize = AtomicUsize::new(0);

unsafe impl GlobalAlloc for Counting {
    unsafe fn alloc(&self, l: Layout) -> *mut u8 {
        let p = System.alloc(l);
        if !p.is_null() {
            let c = CUR.fetch_add(l.size(), Ordering::Relaxed) + l.size();
            PEAK.fetch_max(c, Ordering::Relaxed);
        }
        p
    }
    unsafe fn dealloc(&self, p: *mut u8, l: Layout) {
        CUR.fetch_sub(l.size(), Ordering::Relaxed);
        System.dealloc(p, l)
    }
    unsafe fn realloc(&self, p: *mut u8, l: Layout, new: usize) -> *mut u8 {
        let q = System.realloc(p, l, new);
        if !q.is_null() {
            if new >= l.size() {
                let c = CUR.fetch_add(new - l.size(), Ordering::Relaxed) + (new - l.size());
                PEAK.fetch_max(c, Ordering::Relaxed);
            } else {
                CUR.fetch_sub(l.size() - new, Ordering::Relaxed);
            }
        }
        q
    }
}

#[global_allocator]
static GLOBAL: Counting = Counting;

fn main() {
    tfh::main_loop(run);
}

fn nums(v: &[BFieldElement]) -> String {
    let mut s = String::new();
    for x in v {
        s.push(' ');
        s.push_str(&x.value().to_string());
    }
    s
}

fn go<T: BFieldCodec + Debug>(op: &str, s: &[BFieldElement]) -> String {
    match op {
        "dec" | "decv" => match T::decode(s) {
            Ok(v) => {
                let e = v.encode();
                let again = match T::decode(&e) {
                    Ok(v2) => format!("{:?}", v2) == format!("{:?}", v),
                    Err(_) => false,
                };
                format!("OK{}{}", nums(&e), if again { "" } else { " RTFAIL" })
            }
            Err(_) => "ERR".to_string(),
        },
        // decw: the sequence is `<n1> <n1 elements> <rest>`: decode the first part (a warm-up whose result is dropped: a large
        // valid value, so that whatever the library remembers between calls is in a "seen something big" state), then measure
        // the decoding of the rest exactly like decm
        "decw" => {
            let n1 = s[0].value() as usize;
            let _ = panic::catch_unwind(|| drop(T::decode(&s[1..1 + n1])));
            go::<T>("decm", &s[1 + n1..])
        }
        "decm" | "decx" => {
            let base = CUR.load(Ordering::Relaxed);
            PEAK.store(base, Ordering::Relaxed);
            let r = panic::catch_unwind(|| match T::decode(s) {
                Ok(v) => {
                    let peak = PEAK.load(Ordering::Relaxed);
                    drop(v);
                    ("OK", peak)
                }
                Err(e) => {
                    let peak = PEAK.load(Ordering::Relaxed);
                    drop(e);
                    ("ERR", peak)
                }
            });
            match r {
                Ok((verdict, peak)) => format!("{} A={}", verdict, peak.saturating_sub(base)),
                Err(_) => format!("PANIC A={}", PEAK.load(Ordering::Relaxed).saturating_sub(base)),
            }
        }
        "slen" => match T::static_length() {
            Some(n) => n.to_string(),
            None => "NONE".to_string(),
        },
        _ => "BADOP".to_string(),
    }
}

fn run(op: &str, a: &[String]) -> String {
    match op {
        "polyb" => {
            let c: Vec<BFieldElement> = tfh::u64s(a).into_iter().map(BFieldElement::new).collect();
            format!("OK{}", nums(&Polynomial::new(c).encode()))
        }
        "polyx" => {
            let c: Vec<BFieldElement> = tfh::u64s(a).into_iter().map(BFieldElement::new).collect();
            let x: Vec<XFieldElement> = c.chunks(3).map(|w| XFieldElement::new([w[0], w[1], w[2]])).collect();
            format!("OK{}", nums(&Polynomial::new(x).encode()))
        }
        // the same with BORROWED storage (Polynomial::new_borrowed), alone and as the items of a Vec
        "polybB" | "polybBv" => {
            let c: Vec<BFieldElement> = tfh::u64s(a).into_iter().map(BFieldElement::new).collect();
            let q = Polynomial::new_borrowed(Box::leak(c.into_boxed_slice()));
            if op == "polybB" {
                format!("OK{}", nums(&q.encode()))
            } else {
                format!("OK{}", nums(&vec![q.clone(), q].encode()))
            }
        }
        "polyxB" | "polyxBv" => {
            let c: Vec<BFieldElement> = tfh::u64s(a).into_iter().map(BFieldElement::new).collect();
            let x: Vec<XFieldElement> = c.chunks(3).map(|w| XFieldElement::new([w[0], w[1], w[2]])).collect();
            let q = Polynomial::new_borrowed(Box::leak(x.into_boxed_slice()));
            if op == "polyxB" {
                format!("OK{}", nums(&q.encode()))
            } else {
                format!("OK{}", nums(&vec![q.clone(), q].encode()))
            }
        }
        "ntypes" => NUM_TYPES.to_string(),
        _ => {
            let tid: usize = if a[0] == "-" {
                match tid_of_term(&a[1]) {
                    Some(t) => t,
                    None => return "BADTYPE".to_string(),
                }
            } else {
                a[0].parse().unwrap()
            };
            let s: Vec<BFieldElement> = tfh::u64s(&a[2..]).into_iter().map(BFieldElement::new).collect();
            dispatch(tid, op, &s)
        }
    }
}
