//! Correspondence harness for C04 / C10 (Merkle trees and inclusion proofs).
//!
//! Digests are handled through the free term algebra of DESIGN 1.3: `a<k>` = Tip5::hash(&k),
//! `D` = Digest::default(), `N(l,r)` = Tip5::hash_pair(l, r), and the abbreviation
//! `t(n,ls,x)` = node x of the tree over the n leafs described by the leaf spec `ls`
//! (`s<b>`: leaf j = a<b+j>;  `c<k>`: every leaf a<k>;  `m<k>`: leaf j = a<j mod k>).
//! Input terms are evaluated with the real Tip5 (memoised).  A digest coming out of the
//! implementation is printed as the term registered for it, i.e. a term is printed only if it
//! evaluates to exactly that digest; an unknown digest is printed as `?<hex>`.
//! Every result is prefixed by the build profile (`rel` / `chk`).
use std::cell::RefCell;
use std::collections::HashMap;

use twenty_first::prelude::*;

#[derive(Clone, Copy)]
enum T {
    Atom(u64),
    Dflt,
    Node(usize, usize),
}

#[derive(Default)]
struct Tab {
    terms: Vec<T>,
    dig: Vec<Digest>,
    by_digest: HashMap<Digest, usize>,
    pair: HashMap<(usize, usize), usize>,
    atom: HashMap<u64, usize>,
    dflt: Option<usize>,
    tree_ids: HashMap<(usize, String), Vec<usize>>,
    trees: HashMap<(usize, String), Option<MerkleTree>>,
}

thread_local! {
    static TAB: RefCell<Tab> = RefCell::new(Tab::default());
}

impl Tab {
    fn reg(&mut self, t: T, d: Digest) -> usize {
        let id = self.terms.len();
        self.terms.push(t);
        self.dig.push(d);
        self.by_digest.entry(d).or_insert(id);
        id
    }
    fn atom(&mut self, k: u64) -> usize {
        if let Some(&i) = self.atom.get(&k) {
            return i;
        }
        let i = self.reg(T::Atom(k), Tip5::hash(&k));
        self.atom.insert(k, i);
        i
    }
    fn dflt(&mut self) -> usize {
        if let Some(i) = self.dflt {
            return i;
        }
        let i = self.reg(T::Dflt, Digest::default());
        self.dflt = Some(i);
        i
    }
    fn hp(&mut self, a: usize, b: usize) -> usize {
        if let Some(&i) = self.pair.get(&(a, b)) {
            return i;
        }
        let d = Tip5::hash_pair(self.dig[a], self.dig[b]);
        let i = self.reg(T::Node(a, b), d);
        self.pair.insert((a, b), i);
        i
    }
    fn leaf_id(&mut self, ls: &str, j: usize) -> usize {
        let v: u64 = ls[1..].parse().unwrap();
        match ls.as_bytes()[0] {
            b's' => self.atom(v + j as u64),
            b'c' => self.atom(v),
            b'm' => self.atom(j as u64 % v),
            _ => panic!("bad leaf spec"),
        }
    }
    /// ids of all nodes of the tree over (n, ls); n must be a power of two. ids[0] = D.
    fn tree_ids(&mut self, n: usize, ls: &str) -> Vec<usize> {
        let key = (n, ls.to_string());
        if let Some(v) = self.tree_ids.get(&key) {
            return v.clone();
        }
        assert!(n.is_power_of_two());
        let mut ids = vec![self.dflt(); 2 * n];
        for j in 0..n {
            ids[n + j] = self.leaf_id(ls, j);
        }
        for x in (1..n).rev() {
            ids[x] = self.hp(ids[2 * x], ids[2 * x + 1]);
        }
        self.tree_ids.insert(key, ids.clone());
        ids
    }
    fn show_into(&self, id: usize, out: &mut String) {
        match self.terms[id] {
            T::Atom(k) => {
                out.push('a');
                out.push_str(&k.to_string());
            }
            T::Dflt => out.push('D'),
            T::Node(a, b) => {
                out.push_str("N(");
                self.show_into(a, out);
                out.push(',');
                self.show_into(b, out);
                out.push(')');
            }
        }
    }
    fn name(&self, d: Digest) -> String {
        match self.by_digest.get(&d) {
            Some(&id) => {
                let mut s = String::new();
                self.show_into(id, &mut s);
                s
            }
            None => format!("?{}", d.to_hex()),
        }
    }
    fn parse(&mut self, s: &[u8], pos: &mut usize) -> usize {
        match s[*pos] {
            b'a' => {
                *pos += 1;
                let k = num(s, pos);
                self.atom(k as u64)
            }
            b'D' => {
                *pos += 1;
                self.dflt()
            }
            b'N' => {
                *pos += 2; // N(
                let a = self.parse(s, pos);
                *pos += 1; // ,
                let b = self.parse(s, pos);
                *pos += 1; // )
                self.hp(a, b)
            }
            b't' => {
                *pos += 2; // t(
                let n = num(s, pos) as usize;
                *pos += 1;
                let st = *pos;
                while s[*pos] != b',' {
                    *pos += 1;
                }
                let ls = std::str::from_utf8(&s[st..*pos]).unwrap().to_string();
                *pos += 1;
                let x = num(s, pos) as usize;
                *pos += 1; // )
                self.tree_ids(n, &ls)[x]
            }
            c => panic!("bad term char {}", c as char),
        }
    }
    fn term(&mut self, s: &str) -> Digest {
        let mut pos = 0;
        let id = self.parse(s.as_bytes(), &mut pos);
        assert_eq!(pos, s.len());
        self.dig[id]
    }
}

fn num(s: &[u8], pos: &mut usize) -> u128 {
    let mut v: u128 = 0;
    while *pos < s.len() && s[*pos].is_ascii_digit() {
        v = v * 10 + (s[*pos] - b'0') as u128;
        *pos += 1;
    }
    v
}

fn fnv(s: &str) -> u64 {
    let mut h: u64 = 0xcbf29ce484222325;
    for b in s.bytes() {
        h ^= b as u64;
        h = h.wrapping_mul(0x100000001b3);
    }
    h
}

fn fin(s: String) -> String {
    if s.len() > 2000 {
        format!("FP{}:{:016x}", s.len(), fnv(&s))
    } else {
        s
    }
}

fn prof() -> &'static str {
    if cfg!(debug_assertions) {
        "chk"
    } else {
        "rel"
    }
}

fn name(d: Digest) -> String {
    TAB.with(|t| t.borrow().name(d))
}
fn names(ds: &[Digest]) -> String {
    ds.iter().map(|&d| name(d)).collect::<Vec<_>>().join(" ")
}
fn term(s: &str) -> Digest {
    TAB.with(|t| t.borrow_mut().term(s))
}
fn us(s: &str) -> usize {
    s.parse::<usize>().unwrap()
}

fn leaf_digests(n: usize, ls: &str) -> Vec<Digest> {
    TAB.with(|t| {
        let mut t = t.borrow_mut();
        (0..n)
            .map(|j| {
                let id = t.leaf_id(ls, j);
                t.dig[id]
            })
            .collect()
    })
}

/// the implementation's tree over (n, ls), cached; None if construction is rejected
fn tree(n: usize, ls: &str) -> Option<MerkleTree> {
    let key = (n, ls.to_string());
    if let Some(t) = TAB.with(|t| t.borrow().trees.get(&key).cloned()) {
        return t;
    }
    let ds = leaf_digests(n, ls);
    let t = MerkleTree::new::<CpuParallel>(&ds).ok();
    if t.is_some() && n.is_power_of_two() {
        TAB.with(|tb| {
            tb.borrow_mut().tree_ids(n, ls);
        });
    }
    TAB.with(|tb| tb.borrow_mut().trees.insert(key, t.clone()));
    t
}

fn show_proof(p: &MerkleTreeInclusionProof) -> String {
    let il = p
        .indexed_leafs
        .iter()
        .map(|(i, d)| format!("{}:{}", i, name(*d)))
        .collect::<Vec<_>>()
        .join(" ");
    format!("h={} L=[{}] A=[{}]", p.tree_height, il, names(&p.authentication_structure))
}

/// register the computed nodes of an accepted proof by walking the returned paths upwards
fn close_over_paths(h: usize, il: &[(usize, Digest)], paths: &[Vec<Digest>]) {
    if h >= 64 {
        return;
    }
    TAB.with(|t| {
        let mut t = t.borrow_mut();
        for _ in 0..il.len().max(1) {
            for ((i, d), path) in il.iter().zip(paths.iter()) {
                let Some(&cur0) = t.by_digest.get(d) else { continue };
                let mut cur = cur0;
                let mut idx = (1usize << h).wrapping_add(*i);
                for sib in path {
                    let Some(&sid) = t.by_digest.get(sib) else { break };
                    cur = if idx % 2 == 0 { t.hp(cur, sid) } else { t.hp(sid, cur) };
                    idx /= 2;
                }
            }
        }
    });
}

fn show_paths(paths: &[Vec<Digest>]) -> String {
    paths.iter().map(|p| format!("[{}]", names(p))).collect::<Vec<_>>().join("")
}

fn parse_proof(a: &[String]) -> MerkleTreeInclusionProof {
    // <h> <k> (<i> <term>){k} <auth>*
    let h = us(&a[0]);
    let k = us(&a[1]);
    let mut il = vec![];
    for j in 0..k {
        il.push((us(&a[2 + 2 * j]), term(&a[3 + 2 * j])));
    }
    let auth = a[2 + 2 * k..].iter().map(|s| term(s)).collect();
    MerkleTreeInclusionProof { tree_height: h, indexed_leafs: il, authentication_structure: auth }
}

fn main() {
    tfh::main_loop(run_prefixed);
}

fn run_prefixed(op: &str, a: &[String]) -> String {
    // catch the panic here so that the profile prefix is kept
    let r = std::panic::catch_unwind(|| run(op, a)).unwrap_or_else(|_| "PANIC".to_string());
    format!("{} {}", prof(), fin(r))
}

fn run(op: &str, a: &[String]) -> String {
    match op {
        // build <cutoff (model only; the implementation reads the environment)> <n> <ls>
        "build" => {
            let n = us(&a[1]);
            let ls = &a[2];
            let ds = leaf_digests(n, ls);
            match MerkleTree::new::<CpuParallel>(&ds) {
                Err(_) => "ERR".to_string(),
                Ok(t) => {
                    if n.is_power_of_two() {
                        TAB.with(|tb| {
                            tb.borrow_mut().tree_ids(n, ls);
                        });
                    }
                    // also the second entry point
                    let t2 = CpuParallel::from_digests(&ds).unwrap();
                    let same = if t == t2 { "" } else { " NEW!=FROM_DIGESTS" };
                    format!(
                        "T {} {} {} | {} | {}{}",
                        t.num_leafs(),
                        t.height(),
                        name(t.root()),
                        names(t.nodes()),
                        names(t.leafs()),
                        same
                    )
                }
            }
        }
        "node" | "leaf" | "ileafs" | "auth" | "proof" | "honest" => {
            let n = us(&a[0]);
            let ls = &a[1];
            let Some(t) = tree(n, ls) else { return "BUILDERR".to_string() };
            let idx: Vec<usize> = a[2..].iter().map(|s| us(s)).collect();
            match op {
                "node" => t.node(idx[0]).map(name).unwrap_or("NONE".to_string()),
                "leaf" => t.leaf(idx[0]).map(name).unwrap_or("NONE".to_string()),
                "ileafs" => match t.indexed_leafs(&idx) {
                    Err(_) => "ERR".to_string(),
                    Ok(v) => format!(
                        "OK {}",
                        v.iter().map(|(i, d)| format!("{}:{}", i, name(*d))).collect::<Vec<_>>().join(" ")
                    ),
                },
                "auth" => match t.authentication_structure(&idx) {
                    Err(_) => "ERR".to_string(),
                    Ok(v) => format!("OK {}", names(&v)),
                },
                "proof" => match t.inclusion_proof_for_leaf_indices(&idx) {
                    Err(_) => "ERR".to_string(),
                    Ok(p) => format!("OK {}", show_proof(&p)),
                },
                _ => match t.inclusion_proof_for_leaf_indices(&idx) {
                    Err(_) => "ERR".to_string(),
                    Ok(p) => {
                        let v = p.clone().verify(t.root());
                        let ps = match p.clone().into_authentication_paths() {
                            Err(_) => "ERR".to_string(),
                            Ok(ps) => show_paths(&ps),
                        };
                        format!("OK {} V={} P={}", show_proof(&p), v as u8, ps)
                    }
                },
            }
        }
        // verify <h> <root> <k> (<i> <term>){k} <auth>*
        "verify" => {
            let root = term(&a[1]);
            let mut rest = vec![a[0].clone()];
            rest.extend_from_slice(&a[2..]);
            let p = parse_proof(&rest);
            format!("{}", p.verify(root) as u8)
        }
        // paths <h> <k> (<i> <term>){k} <auth>*
        "paths" => {
            let p = parse_proof(a);
            let (h, il) = (p.tree_height, p.indexed_leafs.clone());
            match p.into_authentication_paths() {
                Err(_) => "ERR".to_string(),
                Ok(ps) => {
                    close_over_paths(h, &il, &ps);
                    format!("OK {}", show_paths(&ps))
                }
            }
        }
        _ => format!("UNKNOWN-OP {}", op),
    }
}
