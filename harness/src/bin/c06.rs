//! C06 harness: runs the real `twenty_first::math::ntt` functions on the case lines described in
//! ocaml/c06.ml and prints field VALUES in the same canonical form.
use std::panic;

use twenty_first::math::ntt::{bitreverse_order, intt, intt_noswap, ntt, ntt_noswap, unscale};
use twenty_first::math::traits::PrimitiveRootOfUnity;
use twenty_first::prelude::*;

const P: u64 = 0xffff_ffff_0000_0001;

fn lcg_next(st: u64) -> u64 {
    st.wrapping_mul(6364136223846793005).wrapping_add(1442695040888963407)
}

fn gridvals() -> Vec<u64> {
    let p1 = P - 1;
    let two32 = 1u64 << 32;
    vec![
        0, 1, 2, p1, p1 - 1, two32 - 1, two32, two32 + 1,
        P - two32, P - two32 + 1, p1 / 2, p1 / 2 + 1,
        1u64 << 63, u64::MAX, P, P + 1, u64::MAX - two32, 7,
    ]
}

/// flat list of u64 inputs, `width` per entry
fn parse_vec(width: usize, a: &[String]) -> Vec<u64> {
    let u = |s: &String| s.parse::<u64>().unwrap();
    match a[0].as_str() {
        "v" => a[1..].iter().map(u).collect(),
        "unit" => {
            let n = u(&a[1]) as usize;
            let i = u(&a[2]) as usize;
            let mut v = vec![0u64; n * width];
            for (k, c) in a[3..].iter().enumerate() {
                if k < width {
                    v[i * width + k] = u(c);
                }
            }
            v
        }
        "const" => {
            let n = u(&a[1]) as usize;
            let cs: Vec<u64> = a[2..].iter().map(u).collect();
            (0..n * width).map(|k| { let j = k % width; if j < cs.len() { cs[j] } else { 0 } }).collect()
        }
        "lcg" => {
            let n = u(&a[1]) as usize;
            let mut st = u(&a[2]);
            (0..n * width).map(|_| { st = lcg_next(st); st }).collect()
        }
        "grid" => {
            let n = u(&a[1]) as usize;
            let mut st = u(&a[2]);
            let g = gridvals();
            (0..n * width).map(|_| { st = lcg_next(st); g[((st >> 33) % g.len() as u64) as usize] }).collect()
        }
        _ => panic!("bad vector spec"),
    }
}

fn sample_positions(n: usize) -> Vec<usize> {
    (0..32u64).map(|j| ((j * 2654435761 + 12345) % n as u64) as usize).collect()
}

fn show_values(vals: &[u64], width: usize) -> String {
    let len = vals.len() / width;
    if len <= 4096 {
        vals.iter().map(|v| v.to_string()).collect::<Vec<_>>().join(" ")
    } else {
        let mut h: u128 = 0;
        for &v in vals {
            h = (h * 1000003 + v as u128) % P as u128;
        }
        let mut out = format!("H {} {}", len, h);
        for i in sample_positions(len) {
            for k in 0..width {
                out.push(' ');
                out.push_str(&vals[i * width + k].to_string());
            }
        }
        out
    }
}

fn show_spot(vals: &[u64], width: usize) -> String {
    let len = vals.len() / width;
    let mut out = Vec::new();
    for i in sample_positions(len) {
        for k in 0..width {
            out.push(vals[i * width + k].to_string());
        }
    }
    out.join(" ")
}

fn bvec(u: &[u64]) -> Vec<BFieldElement> {
    u.iter().map(|&v| BFieldElement::new(v)).collect()
}
fn xvec(u: &[u64]) -> Vec<XFieldElement> {
    u.chunks(3).map(|c| XFieldElement::new([BFieldElement::new(c[0]), BFieldElement::new(c[1]), BFieldElement::new(c[2])])).collect()
}
fn bflat(v: &[BFieldElement]) -> Vec<u64> {
    v.iter().map(|e| e.value()).collect()
}
fn xflat(v: &[XFieldElement]) -> Vec<u64> {
    v.iter().flat_map(|e| e.coefficients.iter().map(|c| c.value()).collect::<Vec<_>>()).collect()
}

/// run `op` on the vector, return the flat values
fn transform(op: &str, field: &str, u: &[u64]) -> Vec<u64> {
    if field == "b" {
        let mut v = bvec(u);
        match op {
            "ntt" | "ntt_spot" => ntt(&mut v),
            "intt" | "intt_spot" => intt(&mut v),
            "ntt_noswap" => ntt_noswap(&mut v),
            "intt_noswap" => intt_noswap(&mut v),
            "bitreverse_order" => bitreverse_order(&mut v),
            "unscale" => unscale(&mut v),
            _ => panic!("bad op"),
        }
        bflat(&v)
    } else {
        let mut v = xvec(u);
        match op {
            "ntt" | "ntt_spot" => ntt(&mut v),
            "intt" | "intt_spot" => intt(&mut v),
            "ntt_noswap" => ntt_noswap(&mut v),
            "intt_noswap" => intt_noswap(&mut v),
            "bitreverse_order" => bitreverse_order(&mut v),
            _ => panic!("bad op"),
        }
        xflat(&v)
    }
}

fn main() {
    tfh::main_loop(run);
}

fn run(op: &str, a: &[String]) -> String {
    if op == "root" {
        let n = a[1].parse::<u64>().unwrap();
        return if a[0] == "b" {
            match BFieldElement::primitive_root_of_unity(n) {
                None => "NONE".to_string(),
                Some(r) => r.value().to_string(),
            }
        } else {
            match XFieldElement::primitive_root_of_unity(n) {
                None => "NONE".to_string(),
                Some(r) => {
                    let c = r.coefficients;
                    format!("{} {} {}", c[0].value(), c[1].value(), c[2].value())
                }
            }
        };
    }
    let field = a[0].clone();
    let width = if field == "b" { 1 } else { 3 };
    if op == "seq" {
        // seq <field> <op1,op2,...> <vector>: a SEQUENCE of transforms applied one after the other in this thread; the
        // functions are pure, so the result must be the composition - hidden state carried between calls would show here
        let mut u = parse_vec(width, &a[2..]);
        for o in a[1].split(',') {
            u = transform(o, &field, &u);
        }
        return show_values(&u, width);
    }
    let u = parse_vec(width, &a[1..]);
    match op {
        "ntt_spot" | "intt_spot" => show_spot(&transform(op, &field, &u), width),
        "ntt_noswap" | "intt_noswap" => {
            // the outcome depends on debug assertions: report which configuration this binary is
            let d = if cfg!(debug_assertions) { 1 } else { 0 };
            let op2 = op.to_string();
            let r = panic::catch_unwind(move || show_values(&transform(&op2, &field, &u), width));
            format!("D{} {}", d, r.unwrap_or_else(|_| "PANIC".to_string()))
        }
        _ => show_values(&transform(op, &field, &u), width),
    }
}
