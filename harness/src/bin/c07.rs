//! Correspondence harness for C07 (polynomial multiplication family) and C17 (value semantics of Polynomial).
//!
//! Case line: `<id> <op> <field> <group> | <group> | ...`
//!   field  : `b` / `x` (one field), or two letters `bb xx bx xb` = (field of self, field of other/scalar)
//!   group  : for a polynomial  `<storage> v v v ...`  with storage `o<k>` (owned, `Polynomial::new`) or
//!            `b<k>` (`Polynomial::new_borrowed`), k = number of ZERO coefficients appended above the given
//!            ones (stored leading zeros); values are canonical u64, three per coefficient for `x`.
//!            for scalars / integers: plain numbers.
//! Polynomial results are printed as `<n> c0 c1 ...` (n coefficients, trailing zeros stripped by the
//! harness itself); a panic is `PANIC` (caught by tfh::main_loop).
//! `cmp ...` ops (functions whose models belong to C08/C09) evaluate the operation on the polynomials as
//! described AND on the same polynomials without stored zeros / owned, and print SAME / DIFF / PANIC.
use std::collections::hash_map::DefaultHasher;
use std::hash::{Hash, Hasher};
use std::ops::MulAssign;
use std::panic::{self, AssertUnwindSafe};

use num_traits::{One, Zero};
#[allow(unused_imports)]
use twenty_first::math::traits::Inverse as _;
use twenty_first::math::traits::FiniteField;
use twenty_first::math::zerofier_tree::ZerofierTree;
use twenty_first::prelude::*;

trait Elem: FiniteField + MulAssign<BFieldElement> + BFieldCodec + 'static {
    const W: usize;
    fn parse(v: &[u64]) -> Self;
    fn show(&self) -> String;
}
impl Elem for BFieldElement {
    const W: usize = 1;
    fn parse(v: &[u64]) -> Self {
        BFieldElement::new(v[0])
    }
    fn show(&self) -> String {
        self.value().to_string()
    }
}
impl Elem for XFieldElement {
    const W: usize = 3;
    fn parse(v: &[u64]) -> Self {
        XFieldElement::new([BFieldElement::new(v[0]), BFieldElement::new(v[1]), BFieldElement::new(v[2])])
    }
    fn show(&self) -> String {
        let c = self.coefficients;
        format!("{} {} {}", c[0].value(), c[1].value(), c[2].value())
    }
}

type P<FF> = Polynomial<'static, FF>;

fn nums(g: &[String]) -> Vec<u64> {
    g.iter().map(|s| s.parse::<u64>().unwrap()).collect()
}
fn elems<FF: Elem>(g: &[String]) -> Vec<FF> {
    nums(g).chunks(FF::W).map(FF::parse).collect()
}
fn elem<FF: Elem>(g: &[String]) -> FF {
    FF::parse(&nums(g))
}
/// (borrowed?, k) of a storage descriptor
fn storage(s: &str) -> (bool, usize) {
    (s.starts_with('b'), s[1..].parse::<usize>().unwrap())
}
/// polynomial as described by its group
fn mk<FF: Elem>(g: &[String]) -> P<FF> {
    let (borrowed, k) = storage(&g[0]);
    let mut v: Vec<FF> = elems(&g[1..]);
    v.extend(vec![FF::ZERO; k]);
    if borrowed {
        Polynomial::new_borrowed(Box::leak(v.into_boxed_slice()))
    } else {
        Polynomial::new(v)
    }
}
/// the same polynomial, owned, without the appended zeros
fn mk_plain<FF: Elem>(g: &[String]) -> P<FF> {
    Polynomial::new(elems(&g[1..]))
}
fn strip<FF: Elem>(c: &[FF]) -> &[FF] {
    let mut n = c.len();
    while n > 0 && c[n - 1] == FF::ZERO {
        n -= 1;
    }
    &c[..n]
}
fn show_list<FF: Elem>(c: &[FF]) -> String {
    let mut s = c.len().to_string();
    for e in c {
        s.push(' ');
        s.push_str(&e.show());
    }
    s
}
fn showp<FF: Elem>(p: &Polynomial<FF>) -> String {
    show_list(strip(p.coefficients()))
}
fn showv<FF: Elem>(v: &[FF]) -> String {
    show_list(v)
}
fn h<T: Hash>(t: &T) -> u64 {
    let mut s = DefaultHasher::new();
    t.hash(&mut s);
    s.finish()
}
fn bit(b: bool) -> &'static str {
    if b {
        "1"
    } else {
        "0"
    }
}
fn groups(a: &[String]) -> Vec<Vec<String>> {
    let mut out = vec![vec![]];
    for t in a {
        if t == "|" {
            out.push(vec![]);
        } else {
            out.last_mut().unwrap().push(t.clone());
        }
    }
    out
}

fn main() {
    tfh::main_loop(run);
}

fn run(op: &str, a: &[String]) -> String {
    if a.is_empty() {
        return "BAD-CASE".into();
    }
    let field = a[0].as_str();
    let g = groups(&a[1..]);
    if op == "cmp" {
        // a[0] is the sub-operation, a[1] the field
        let sub = a[0].as_str();
        let field = a[1].as_str();
        let g = groups(&a[2..]);
        if sub == "then" {
            // cmp then <field> <sub> <producer> <n> | <n producer groups> | <observer groups, `@` = produced polynomial>:
            // the observer on the polynomial as the producer left it, against the observer on a freshly built copy
            // of its stripped coefficient list
            return match field {
                "b" => cmp_then::<BFieldElement>(&g),
                "x" => cmp_then::<XFieldElement>(&g),
                _ => "BAD-FIELD".into(),
            };
        }
        if sub == "clean_divide" {
            return cmp_with(|plain| {
                let p = |i: usize| if plain { mk_plain::<BFieldElement>(&g[i]) } else { mk::<BFieldElement>(&g[i]) };
                Some(showp(&p(0).clean_divide(p(1))))
            });
        }
        return match field {
            "b" => cmp::<BFieldElement>(sub, &g),
            "x" => cmp::<XFieldElement>(sub, &g),
            _ => "BAD-FIELD".into(),
        };
    }
    let r = match field {
        "b" | "bb" => one::<BFieldElement>(op, &g),
        "x" | "xx" => one::<XFieldElement>(op, &g),
        "bx" => mixed_bx(op, &g),
        "xb" => mixed_xb(op, &g),
        _ => None,
    };
    r.unwrap_or_else(|| "UNKNOWN-OP".into())
}

/// operations over one field
fn one<FF: Elem>(op: &str, g: &[Vec<String>]) -> Option<String> {
    if op == "then" {
        // then <field> <producer> <n> <observer> | <n producer groups> | <observer groups, `@` = the produced polynomial>
        // The producer leaves a polynomial in whatever STATE the library's own operation leaves it (in-place
        // cancellation, multiplication by zero, shifting zero, ...); the observer is then applied to that very object.
        let n = g[0][1].parse::<usize>().unwrap();
        let q = produce::<FF>(&g[0][0], &g[1..1 + n])?;
        let og: Vec<Vec<String>> = g[1 + n..].to_vec();
        return one_core::<FF>(&g[0][2], &og, &|i: usize| if og[i].len() == 1 && og[i][0] == "@" { q.clone() } else { mk::<FF>(&og[i]) });
    }
    if op == "same" {
        // same <field> <sub> | <poly> : a by-reference binary operation with THE SAME OBJECT on both sides
        let q = mk::<FF>(&g[1]);
        return Some(match g[0][0].as_str() {
            "multiply" => showp(&q.multiply(&q)),
            "naive" => showp(&q.naive_multiply(&q)),
            "fast" => showp(&q.fast_multiply(&q)),
            "eq" => format!("{} {}", bit(q == q), bit(q == q)),
            "hash" => format!("{} {}", bit(q == q), bit(h(&q) == h(&q))),
            "batch" => showp(&Polynomial::batch_multiply(&[q.clone(), q.clone()])),
            _ => return None,
        });
    }
    if op == "alias" {
        // alias <field> <sub> <i> <j> | <buffer: storage + values> : the binary operation <sub> on two BORROWED polynomials
        // that are the prefixes of length i and j of ONE buffer (same start address, different lengths)
        let (i, j) = (g[0][1].parse::<usize>().unwrap(), g[0][2].parse::<usize>().unwrap());
        let (_, k) = storage(&g[1][0]);
        let mut v: Vec<FF> = elems(&g[1][1..]);
        v.extend(vec![FF::ZERO; k]);
        let buf: &'static [FF] = Box::leak(v.into_boxed_slice());
        let og: Vec<Vec<String>> = vec![vec![], vec![]];
        return one_core::<FF>(&g[0][0], &og, &|idx: usize| {
            if idx == 0 {
                Polynomial::new_borrowed(&buf[..i])
            } else {
                Polynomial::new_borrowed(&buf[..j])
            }
        });
    }
    one_core::<FF>(op, g, &|i: usize| mk::<FF>(&g[i]))
}

/// a polynomial as an operation of the library leaves it
fn produce<FF: Elem>(prod: &str, g: &[Vec<String>]) -> Option<P<FF>> {
    let p = |i: usize| mk::<FF>(&g[i]);
    Some(match prod {
        "aa" => {
            let mut q = p(0);
            q += p(1);
            q
        }
        "smm" => {
            let mut q = p(0);
            q.scalar_mul_mut(elem::<FF>(&g[1]));
            q
        }
        "shift" => p(1).shift_coefficients(g[0][0].parse::<usize>().unwrap()),
        "add" => p(0) + p(1),
        "sub" => p(0) - p(1),
        "neg" => -p(0),
        "mul" => p(0) * p(1),
        "multiply" => p(0).multiply(&p(1)),
        "smul" => p(0).scalar_mul(elem::<FF>(&g[1])),
        "scale" => p(0).scale::<FF, FF>(elem::<FF>(&g[1])),
        "deriv" => p(0).formal_derivative(),
        "modx" => p(1).mod_x_to_the_n(g[0][0].parse::<usize>().unwrap()),
        "truncate" => p(1).truncate(g[0][0].parse::<usize>().unwrap()),
        "new" => p(0),
        _ => return None,
    })
}

fn one_core<FF: Elem>(op: &str, g: &[Vec<String>], p: &dyn Fn(usize) -> P<FF>) -> Option<String> {
    Some(match op {
        // ---- sparse operands of large degree (specification-only in the oracle):
        // sparse <which> | a c1 d1 | b c2 d2 :  (c1 X^a + d1) * (c2 X^b + d2)  by the strategy <which>; the result is printed
        // sparsely as  <stored length after normalisation> <index>:<value> ...  (at most 8 non-zero coefficients)
        "sparse" => {
            let u = |i: usize, j: usize| g[i][j].parse::<u64>().unwrap();
            let mkp = |i: usize| {
                let a = u(i, 0) as usize;
                let mut v = vec![FF::ZERO; a + 1];
                v[0] = FF::parse(&[u(i, 2), 0, 0][..FF::W]);
                v[a] = v[a] + FF::parse(&[u(i, 1), 0, 0][..FF::W]);
                P::<FF>::new(v)
            };
            let (x, y) = (mkp(1), mkp(2));
            let r = match g[0][0].as_str() {
                "mul" => x * y,
                "fast" => x.fast_multiply(&y),
                "multiply" => x.multiply(&y),
                "square" => x.square(),
                "fastsq" => x.fast_square(),
                "fastpow" => x.fast_pow(u(2, 0) as u32),
                _ => return None,
            };
            let c = strip(r.coefficients());
            let mut out = c.len().to_string();
            let mut nz = 0;
            for (i, e) in c.iter().enumerate() {
                if *e != FF::ZERO {
                    nz += 1;
                    if nz > 8 {
                        out.push_str(" MANY");
                        break;
                    }
                    out.push_str(&format!(" {}:{}", i, e.show().replace(' ', ",")));
                }
            }
            out
        }
        // ---- multiplication family (C07)
        "mul" => showp(&(p(0) * p(1))),
        "naive" => showp(&p(0).naive_multiply(&p(1))),
        "fast" => showp(&p(0).fast_multiply(&p(1))),
        "multiply" => showp(&p(0).multiply(&p(1))),
        "slowsq" => showp(&p(0).slow_square()),
        "square" => showp(&p(0).square()),
        "fastsq" => showp(&p(0).fast_square()),
        "pow" => showp(&p(1).pow(g[0][0].parse::<u32>().unwrap())),
        "fastpow" => showp(&p(1).fast_pow(g[0][0].parse::<u32>().unwrap())),
        "batch" | "parbatch" => {
            let fs: Vec<P<FF>> = g.iter().filter(|x| !x.is_empty()).map(|x| mk::<FF>(x)).collect();
            if op == "batch" {
                showp(&Polynomial::batch_multiply(&fs))
            } else {
                showp(&Polynomial::par_batch_multiply(&fs))
            }
        }
        "smul" => showp(&p(0).scalar_mul(elem::<FF>(&g[1]))),
        "smulmut" => {
            let mut q = p(0);
            q.scalar_mul_mut(elem::<FF>(&g[1]));
            showp(&q)
        }
        "rmul" => showp(&(p(0) * elem::<FF>(&g[1]))),
        "scale" => showp(&p(0).scale::<FF, FF>(elem::<FF>(&g[1]))),
        "shift" => showp(&p(1).shift_coefficients(g[0][0].parse::<usize>().unwrap())),
        // ---- basic API (C17)
        "neg" => showp(&(-p(0))),
        "add" => showp(&(p(0) + p(1))),
        "sub" => showp(&(p(0) - p(1))),
        "addassign" => {
            let mut q = p(0);
            q += p(1);
            showp(&q)
        }
        "degree" => p(0).degree().to_string(),
        // exactly what the accessor returns, NOT stripped
        "coeffs" => show_list(p(0).coefficients()),
        "intocoeffs" => show_list(&p(0).into_coefficients()),
        "intoowned" => showp(&p(0).into_owned()),
        "lc" => match p(0).leading_coefficient() {
            None => "NONE".into(),
            Some(c) => c.show(),
        },
        "isx" => bit(p(0).is_x()).into(),
        "iszero" => bit(p(0).is_zero()).into(),
        "isone" => bit(p(0).is_one()).into(),
        "eq" => format!("{} {}", bit(p(0) == p(1)), bit(p(1) == p(0))),
        // equality and hash equality of the two polynomials
        "hash" => {
            let (x, y) = (p(0), p(1));
            format!("{} {}", bit(x == y), bit(h(&x) == h(&y)))
        }
        "display" => format!("{}", p(0)).replace(' ', "_"),
        "deriv" => showp(&p(0).formal_derivative()),
        "eval" => p(0).evaluate_in_same_field(elem::<FF>(&g[1])).show(),
        "evalgen" => p(0).evaluate::<FF, FF>(elem::<FF>(&g[1])).show(),
        "xtothe" => showp(&P::<FF>::x_to_the(g[0][0].parse::<usize>().unwrap())),
        "fromconst" => showp(&P::<FF>::from_constant(elem::<FF>(&g[0]))),
        "fromvec" => showp(&P::<FF>::from(elems::<FF>(&g[0][1..]))),
        "fromslice" => {
            let v = elems::<FF>(&g[0][1..]);
            let q: Polynomial<FF> = Polynomial::from(&v[..]);
            showp(&q)
        }
        "truncate" => showp(&p(1).truncate(g[0][0].parse::<usize>().unwrap())),
        "modx" => showp(&p(1).mod_x_to_the_n(g[0][0].parse::<usize>().unwrap())),
        "encode" => {
            let e = p(0).encode();
            show_list(&e)
        }
        "decode" => {
            let seq: Vec<BFieldElement> = nums(&g[0]).into_iter().map(BFieldElement::new).collect();
            match Polynomial::<FF>::decode(&seq) {
                Ok(q) => format!("OK {}", show_list(q.coefficients())),
                Err(_) => "ERR".into(),
            }
        }
        // decode(encode(p)) == p, encode equal for the two storages
        "codec" => {
            let q = p(0);
            let e = q.encode();
            match Polynomial::<FF>::decode(&e) {
                Ok(r) => format!("{} {}", bit(*r == q), show_list(r.coefficients())),
                Err(_) => "ERR".into(),
            }
        }
        _ => return None,
    })
}

/// Polynomial<BFE> (x) Polynomial<XFE> / XFE scalars
fn mixed_bx(op: &str, g: &[Vec<String>]) -> Option<String> {
    type B = BFieldElement;
    type X = XFieldElement;
    Some(match op {
        "mul" => showp(&(mk::<B>(&g[0]) * mk::<X>(&g[1]))),
        "naive" => showp(&mk::<B>(&g[0]).naive_multiply(&mk::<X>(&g[1]))),
        "fast" => showp(&mk::<B>(&g[0]).fast_multiply(&mk::<X>(&g[1]))),
        "multiply" => showp(&mk::<B>(&g[0]).multiply(&mk::<X>(&g[1]))),
        "smul" => showp(&mk::<B>(&g[0]).scalar_mul::<X, X>(elem::<X>(&g[1]))),
        "rmul" => showp(&(mk::<B>(&g[0]) * elem::<X>(&g[1]))),
        // scalar on the left: XFE * Polynomial<BFE>
        "lmul" => showp(&(elem::<X>(&g[1]) * mk::<B>(&g[0]))),
        "scale" => showp(&mk::<B>(&g[0]).scale::<X, X>(elem::<X>(&g[1]))),
        "evalgen" => mk::<B>(&g[0]).evaluate::<X, X>(elem::<X>(&g[1])).show(),
        _ => return None,
    })
}

/// Polynomial<XFE> (x) Polynomial<BFE> / BFE scalars
fn mixed_xb(op: &str, g: &[Vec<String>]) -> Option<String> {
    type B = BFieldElement;
    type X = XFieldElement;
    Some(match op {
        "mul" => showp(&(mk::<X>(&g[0]) * mk::<B>(&g[1]))),
        "naive" => showp(&mk::<X>(&g[0]).naive_multiply(&mk::<B>(&g[1]))),
        "fast" => showp(&mk::<X>(&g[0]).fast_multiply(&mk::<B>(&g[1]))),
        "multiply" => showp(&mk::<X>(&g[0]).multiply(&mk::<B>(&g[1]))),
        "smul" => showp(&mk::<X>(&g[0]).scalar_mul::<B, X>(elem::<B>(&g[1]))),
        "smulmut" => {
            let mut q = mk::<X>(&g[0]);
            q.scalar_mul_mut(elem::<B>(&g[1]));
            showp(&q)
        }
        "rmul" => showp(&(mk::<X>(&g[0]) * elem::<B>(&g[1]))),
        "lmul" => showp(&(elem::<B>(&g[1]) * mk::<X>(&g[0]))),
        "scale" => showp(&mk::<X>(&g[0]).scale::<B, X>(elem::<B>(&g[1]))),
        "evalgen" => mk::<X>(&g[0]).evaluate::<B, X>(elem::<B>(&g[1])).show(),
        _ => return None,
    })
}

/// C17 for functions modelled by C08/C09: f(described storage) against f(plain storage)
fn cmp<FF: Elem>(sub: &str, g: &[Vec<String>]) -> String {
    cmp_with(|plain| cmp_eval::<FF>(sub, g, plain))
}

fn cmp_with<T: Fn(bool) -> Option<String>>(f: T) -> String {
    let stored = panic::catch_unwind(AssertUnwindSafe(|| f(false)));
    let plain = panic::catch_unwind(AssertUnwindSafe(|| f(true)));
    match (stored, plain) {
        (Ok(None), _) | (_, Ok(None)) => "UNKNOWN-OP".into(),
        (Ok(Some(s)), Ok(Some(p))) => {
            if s == p {
                "SAME".into()
            } else {
                "DIFF".into()
            }
        }
        (Err(_), Ok(_)) => "PANIC".into(),
        (Ok(_), Err(_)) => "PLAIN-PANIC".into(),
        // the operation is undefined on this value (both panic): value semantics holds
        (Err(_), Err(_)) => "SAME".into(),
    }
}

fn cmp_then<FF: Elem>(g: &[Vec<String>]) -> String {
    let n = g[0][2].parse::<usize>().unwrap();
    let q = match panic::catch_unwind(AssertUnwindSafe(|| produce::<FF>(&g[0][1], &g[1..1 + n]))) {
        Ok(Some(q)) => q,
        Ok(None) => return "UNKNOWN-OP".into(),
        Err(_) => return "PRODUCER-PANIC".into(),
    };
    let fresh: P<FF> = Polynomial::new(strip(q.coefficients()).to_vec());
    let og: Vec<Vec<String>> = g[1 + n..].to_vec();
    cmp_with(|plain| {
        let p = |i: usize| {
            if og[i].len() == 1 && og[i][0] == "@" {
                if plain {
                    fresh.clone()
                } else {
                    q.clone()
                }
            } else {
                mk_plain::<FF>(&og[i])
            }
        };
        cmp_eval_with::<FF>(&g[0][0], &og, &p)
    })
}

fn cmp_eval<FF: Elem>(sub: &str, g: &[Vec<String>], plain: bool) -> Option<String> {
    cmp_eval_with::<FF>(sub, g, &|i: usize| if plain { mk_plain::<FF>(&g[i]) } else { mk::<FF>(&g[i]) })
}

fn cmp_eval_with<FF: Elem>(sub: &str, g: &[Vec<String>], p: &dyn Fn(usize) -> P<FF>) -> Option<String> {
    let n = |i: usize| g[i][0].parse::<usize>().unwrap();
    Some(match sub {
        "divide" => {
            let (q, r) = p(0).divide(&p(1));
            format!("{} / {}", showp(&q), showp(&r))
        }
        "naive_divide" => {
            let (q, r) = p(0).naive_divide(&p(1));
            format!("{} / {}", showp(&q), showp(&r))
        }
        "div" => showp(&(p(0) / p(1))),
        "rem" => showp(&(p(0) % p(1))),
        "xgcd" => {
            let (gc, a, b) = Polynomial::xgcd(p(0), p(1));
            format!("{} / {} / {}", showp(&gc), showp(&a), showp(&b))
        }
        "reduce" => showp(&p(0).reduce(&p(1))),
        "fast_reduce" => showp(&p(0).fast_reduce(&p(1))),
        "shift_factor" => {
            let (v, m) = p(0).shift_factor_ntt_with_tail_length();
            format!("{} / {}", showv(&v), m)
        }
        "reduce_ntt_friendly" => {
            // modulus in group 1: preprocessing on the PLAIN modulus in both runs; self varies
            let (v, m) = mk_plain::<FF>(&g[1]).shift_factor_ntt_with_tail_length();
            showp(&p(0).reduce_by_ntt_friendly_modulus(&v, m))
        }
        "reduce_ntt_friendly_mod" => {
            // self plain in both runs; the modulus' storage varies
            let (v, m) = p(1).shift_factor_ntt_with_tail_length();
            showp(&mk_plain::<FF>(&g[0]).reduce_by_ntt_friendly_modulus(&v, m))
        }
        "structured_multiple" => showp(&p(1).structured_multiple_of_degree(n(0))),
        "fpsi_newton" => showp(&p(1).formal_power_series_inverse_newton(n(0))),
        "fast_coset_evaluate" => {
            let off = elem::<FF>(&g[1][1..]);
            showv(&p(2).fast_coset_evaluate(off, n(0)))
        }
        "batch_evaluate" => showv(&p(0).batch_evaluate(&elems::<FF>(&g[1]))),
        "par_batch_evaluate" => showv(&p(0).par_batch_evaluate(&elems::<FF>(&g[1]))),
        "iterative_batch_evaluate" => showv(&p(0).iterative_batch_evaluate(&elems::<FF>(&g[1]))),
        "dac_batch_evaluate" => {
            let dom = elems::<FF>(&g[1]);
            let tree = ZerofierTree::new_from_domain(&dom);
            showv(&p(0).divide_and_conquer_batch_evaluate(&tree))
        }
        "evaluate" => p(0).evaluate::<FF, FF>(elem::<FF>(&g[1])).show(),
        "modular_preprocess" => {
            let off = BFieldElement::new(g[0][1].parse::<u64>().unwrap());
            let d = P::<FF>::fast_modular_coset_interpolate_preprocess(n(0), off, &p(1));
            let mut s = String::new();
            for z in d.even_zerofiers.iter().chain(d.odd_zerofiers.iter()) {
                s.push_str(&showp(z));
                s.push_str(" / ");
            }
            format!("{}{} / {}", s, showv(&d.shift_coefficients), d.tail_length)
        }
        "modular_interpolate" => {
            // group 0: offset; group 1: values (codeword); group 2: modulus (varies)
            let off = BFieldElement::new(g[0][0].parse::<u64>().unwrap());
            let vals = elems::<FF>(&g[1]);
            let modulus = p(2);
            let pre = P::<FF>::fast_modular_coset_interpolate_preprocess(vals.len(), off, &modulus);
            showp(&P::<FF>::fast_modular_coset_interpolate_with_zerofiers_and_ntt_friendly_multiple(
                &vals, off, &modulus, &pre,
            ))
        }
        // operations of this file through the comparison route as well (cheap cross-check)
        "multiply" => showp(&p(0).multiply(&p(1))),
        "is_zero_one_x" => {
            let q = p(0);
            format!("{} {} {}", q.is_zero(), q.is_one(), q.is_x())
        }
        _ => return None,
    })
}

