//! Correspondence harness for C08 (zerofiers, interpolation, bulk evaluation, coset routines, extrapolation).
//!
//! Case line: `<id> <op> <field> <group> | <group> | ...`   field = `b` (BFieldElement) or `x` (XFieldElement)
//!   polynomial group : `o<k> v v v ...`  (k stored leading zeros appended, as in c07.rs)
//!   element lists    : canonical u64 values, three per element for `x`; scalars / integers: plain numbers.
//! Every result is prefixed with `D0 ` / `D1 ` (debug assertions disabled / enabled in this build): a few
//! functions (`lagrange_interpolate`, `fast_interpolate`, `batch_fast_interpolate`, ...) guard their
//! arguments with `debug_assert!` only, and the oracle reports both outcomes where they differ.
//! Polynomials are printed as `<n> c0 c1 ...` with trailing zeros stripped by the harness, vectors as
//! `<n> v0 v1 ...`, a panic as `PANIC` (caught here so that the prefix is kept).
use std::ops::MulAssign;
use std::panic::{self, AssertUnwindSafe};

use twenty_first::math::polynomial::barycentric_evaluate;
use twenty_first::math::traits::FiniteField;
use twenty_first::math::zerofier_tree::ZerofierTree;
use twenty_first::prelude::*;

trait Elem: FiniteField + MulAssign<BFieldElement> + std::ops::Mul<BFieldElement, Output = Self>
    + std::ops::Sub<BFieldElement, Output = Self> + 'static
{
    const W: usize;
    fn parse(v: &[u64]) -> Self;
    fn show(&self) -> String;
}
impl Elem for BFieldElement {
    const W: usize = 1;
    fn parse(v: &[u64]) -> Self {
        BFieldElement::new(v[0])
    }
    fn show(&self) -> String {
        self.value().to_string()
    }
}
impl Elem for XFieldElement {
    const W: usize = 3;
    fn parse(v: &[u64]) -> Self {
        XFieldElement::new([BFieldElement::new(v[0]), BFieldElement::new(v[1]), BFieldElement::new(v[2])])
    }
    fn show(&self) -> String {
        let c = self.coefficients;
        format!("{} {} {}", c[0].value(), c[1].value(), c[2].value())
    }
}

type P<FF> = Polynomial<'static, FF>;

fn nums(g: &[String]) -> Vec<u64> {
    g.iter().map(|s| s.parse::<u64>().unwrap()).collect()
}
fn elems<FF: Elem>(g: &[String]) -> Vec<FF> {
    nums(g).chunks(FF::W).map(FF::parse).collect()
}
fn elem<FF: Elem>(g: &[String]) -> FF {
    FF::parse(&nums(g))
}
fn mk<FF: Elem>(g: &[String]) -> P<FF> {
    let k = g[0][1..].parse::<usize>().unwrap();
    let mut v: Vec<FF> = elems(&g[1..]);
    v.extend(vec![FF::ZERO; k]);
    // storage `b<k>`: the polynomial borrows its coefficients (Polynomial::new_borrowed); `o<k>`: it owns them
    if g[0].starts_with('b') {
        Polynomial::new_borrowed(Box::leak(v.into_boxed_slice()))
    } else {
        Polynomial::new(v)
    }
}
fn strip<FF: Elem>(c: &[FF]) -> &[FF] {
    let mut n = c.len();
    while n > 0 && c[n - 1] == FF::ZERO {
        n -= 1;
    }
    &c[..n]
}
fn show_list<FF: Elem>(c: &[FF]) -> String {
    let mut s = c.len().to_string();
    for e in c {
        s.push(' ');
        s.push_str(&e.show());
    }
    s
}
fn showp<FF: Elem>(p: &Polynomial<FF>) -> String {
    show_list(strip(p.coefficients()))
}
fn groups(a: &[String]) -> Vec<Vec<String>> {
    let mut out = vec![vec![]];
    for t in a {
        if t == "|" {
            out.push(vec![]);
        } else {
            out.last_mut().unwrap().push(t.clone());
        }
    }
    out
}
fn bit(b: bool) -> &'static str {
    if b {
        "1"
    } else {
        "0"
    }
}

fn main() {
    tfh::main_loop(run);
}

fn run(op: &str, a: &[String]) -> String {
    let d = if cfg!(debug_assertions) { "D1" } else { "D0" };
    if a.is_empty() {
        return format!("{} BAD-CASE", d);
    }
    let field = a[0].clone();
    let g = groups(&a[1..]);
    let op = op.to_string();
    let r = panic::catch_unwind(AssertUnwindSafe(|| match field.as_str() {
        "b" => one::<BFieldElement>(&op, &g),
        "x" => one::<XFieldElement>(&op, &g),
        _ => None,
    }));
    match r {
        Ok(Some(s)) => format!("{} {}", d, s),
        Ok(None) => format!("{} UNKNOWN-OP", d),
        Err(_) => format!("{} PANIC", d),
    }
}

fn pairs<FF: Elem>(g: &[String]) -> Vec<(FF, FF)> {
    let v: Vec<FF> = elems(g);
    v.chunks(2).map(|c| (c[0], c[1])).collect()
}

fn one<FF: Elem>(op: &str, g: &[Vec<String>]) -> Option<String> {
    let n = |i: usize, j: usize| g[i][j].parse::<usize>().unwrap();
    let bfe = |i: usize, j: usize| BFieldElement::new(g[i][j].parse::<u64>().unwrap());
    let es = |i: usize| if i < g.len() { elems::<FF>(&g[i]) } else { vec![] };
    Some(match op {
        // ---- zerofiers
        "zerofier" => showp(&P::<FF>::zerofier(&es(0))),
        "par_zerofier" => showp(&P::<FF>::par_zerofier(&es(0))),
        "smart_zerofier" => showp(&P::<FF>::smart_zerofier(&es(0))),
        "fast_zerofier" => showp(&P::<FF>::fast_zerofier(&es(0))),
        "naive_zerofier" => showp(&P::<FF>::naive_zerofier(&es(0))),
        "tree_zerofier" => showp(&ZerofierTree::<FF>::new_from_domain(&es(0)).zerofier()),
        // ---- interpolation
        "interpolate" => showp(&P::<FF>::interpolate(&es(0), &es(1))),
        "par_interpolate" => showp(&P::<FF>::par_interpolate(&es(0), &es(1))),
        "lagrange" => showp(&P::<FF>::lagrange_interpolate(&es(0), &es(1))),
        "lagrange_zipped" => {
            let (d, v) = (es(0), es(1));
            let pts: Vec<(FF, FF)> = d.into_iter().zip(v).collect();
            showp(&P::<FF>::lagrange_interpolate_zipped(&pts))
        }
        "fast_interpolate" => showp(&P::<FF>::fast_interpolate(&es(0), &es(1))),
        "par_fast_interpolate" => showp(&P::<FF>::par_fast_interpolate(&es(0), &es(1))),
        // batch_fast_interpolate f <root> <order> | <domain> | <values> | <values> ...
        "batch_fast_interpolate" => {
            let root = bfe(0, 0);
            let order = n(0, 1);
            let dom = es(1);
            let matrix: Vec<Vec<FF>> = (2..g.len()).map(es).collect();
            let r = P::<FF>::batch_fast_interpolate(&dom, &matrix, root, order);
            let mut s = r.len().to_string();
            for q in &r {
                s.push_str(" / ");
                s.push_str(&showp(q));
            }
            s
        }
        // ---- evaluation:  <poly> | <domain>
        "batch_evaluate" => show_list(&mk::<FF>(&g[0]).batch_evaluate(&es(1))),
        "par_batch_evaluate" => show_list(&mk::<FF>(&g[0]).par_batch_evaluate(&es(1))),
        "iterative_batch_evaluate" => show_list(&mk::<FF>(&g[0]).iterative_batch_evaluate(&es(1))),
        "dac_batch_evaluate" => {
            let tree = ZerofierTree::new_from_domain(&es(1));
            show_list(&mk::<FF>(&g[0]).divide_and_conquer_batch_evaluate(&tree))
        }
        // ---- cosets
        // fast_coset_evaluate f <order> | <offset : FF> | <poly>     (_b: offset : BFieldElement)
        "fast_coset_evaluate" => show_list(&mk::<FF>(&g[2]).fast_coset_evaluate(elem::<FF>(&g[1]), n(0, 0))),
        "fast_coset_evaluate_b" => show_list(&mk::<FF>(&g[2]).fast_coset_evaluate(bfe(1, 0), n(0, 0))),
        // fast_coset_interpolate f <offset> | <values>
        "fast_coset_interpolate" => showp(&P::<FF>::fast_coset_interpolate(elem::<FF>(&g[0]), &es(1))),
        "fast_coset_interpolate_b" => showp(&P::<FF>::fast_coset_interpolate(bfe(0, 0), &es(1))),
        // modular_preprocess f <n> <offset> | <modulus>
        "modular_preprocess" => {
            let d = P::<FF>::fast_modular_coset_interpolate_preprocess(n(0, 0), bfe(0, 1), &mk::<FF>(&g[1]));
            let mut s = String::new();
            for z in d.even_zerofiers.iter().chain(d.odd_zerofiers.iter()) {
                s.push_str(&showp(z));
                s.push_str(" / ");
            }
            format!("{}{} / {}", s, show_list(&d.shift_coefficients), d.tail_length)
        }
        // modular_interpolate f <offset> | <values> | <modulus>
        "modular_interpolate" => {
            let off = bfe(0, 0);
            let vals = es(1);
            let modulus = mk::<FF>(&g[2]);
            let pre = P::<FF>::fast_modular_coset_interpolate_preprocess(vals.len(), off, &modulus);
            showp(&P::<FF>::fast_modular_coset_interpolate_with_zerofiers_and_ntt_friendly_multiple(
                &vals, off, &modulus, &pre,
            ))
        }
        // extrap_lowdeg f <offset> <log2 n> | <low-degree polynomial> | <points>
        // the codeword is the polynomial's values on the coset {offset * w^i} (computed here by Horner, independent of the
        // routines under test); extrapolating it must give the polynomial's values at the points. Cheap for n up to 2^20.
        "extrap_lowdeg" => {
            let off = bfe(0, 0);
            let logn = n(0, 1);
            let len = 1usize << logn;
            let w = <BFieldElement as twenty_first::math::traits::PrimitiveRootOfUnity>::primitive_root_of_unity(len as u64).unwrap();
            let coeffs = es(1);
            let mut cw: Vec<FF> = Vec::with_capacity(len);
            let mut x = off;
            for _ in 0..len {
                let mut acc = FF::ZERO;
                for c in coeffs.iter().rev() {
                    acc = acc * x + *c;
                }
                cw.push(acc);
                x *= w;
            }
            show_list(&P::<FF>::coset_extrapolate(off, &cw, &es(2)))
        }
        // coset_extrapolate f <offset> | <codeword> | <points>
        "coset_extrapolate" => show_list(&P::<FF>::coset_extrapolate(bfe(0, 0), &es(1), &es(2))),
        // batch_coset_extrapolate f <offset> <codeword_length> | <codewords> | <points>
        "batch_coset_extrapolate" => {
            show_list(&P::<FF>::batch_coset_extrapolate(bfe(0, 0), n(0, 1), &es(1), &es(2)))
        }
        "par_batch_coset_extrapolate" => {
            show_list(&P::<FF>::par_batch_coset_extrapolate(bfe(0, 0), n(0, 1), &es(1), &es(2)))
        }
        // barycentric f <codeword> | <x>
        "barycentric" => {
            let cw = es(0);
            let r: FF = barycentric_evaluate::<FF, FF, FF>(&cw, elem::<FF>(&g[1]));
            r.show()
        }
        // ---- colinearity helpers: points as x y x y ...
        "colinear3" => {
            let p = pairs::<FF>(&g[0]);
            bit(P::<FF>::are_colinear_3(p[0], p[1], p[2])).to_string()
        }
        "colinear" => bit(P::<FF>::are_colinear(&pairs::<FF>(&g[0]))).to_string(),
        "colinear_y" => {
            let p = pairs::<FF>(&g[0]);
            P::<FF>::get_colinear_y(p[0], p[1], elem::<FF>(&g[1])).show()
        }
        _ => return None,
    })
}
