//! Correspondence harness for C09 (polynomial division, reduction, gcd, power-series inversion, structured
//! multiples, clean division; XFieldElement::inverse).
//!
//! Case line: `<id> <op> <field> <group> | <group> | ...`   (same group syntax as c07.rs)
//!   field  : `b` (BFieldElement) or `x` (XFieldElement)
//!   group  : for a polynomial  `<storage> v v v ...`  with storage `o<k>` (owned, `Polynomial::new`) or
//!            `b<k>` (`Polynomial::new_borrowed`), k = number of ZERO coefficients appended above the given ones
//!            (stored leading zeros); values are canonical u64, three per coefficient for `x`;
//!            for integers: plain numbers.
//! Polynomial results are printed as `<n> c0 c1 ...` (normalised coefficients); several results are joined by
//! ` / `; a panic is `PANIC` (caught by tfh::main_loop).
//! This is a normal dependency build: cfg(test) is off, so CLEAN_DIVIDE_CUTOFF_THRESHOLD is the production 1 << 9.
use std::ops::MulAssign;

use twenty_first::math::traits::FiniteField;
use twenty_first::math::traits::Inverse;
use twenty_first::prelude::*;

trait Elem: FiniteField + MulAssign<BFieldElement> + 'static {
    const W: usize;
    fn parse(v: &[u64]) -> Self;
    fn show(&self) -> String;
}
impl Elem for BFieldElement {
    const W: usize = 1;
    fn parse(v: &[u64]) -> Self {
        BFieldElement::new(v[0])
    }
    fn show(&self) -> String {
        self.value().to_string()
    }
}
impl Elem for XFieldElement {
    const W: usize = 3;
    fn parse(v: &[u64]) -> Self {
        XFieldElement::new([BFieldElement::new(v[0]), BFieldElement::new(v[1]), BFieldElement::new(v[2])])
    }
    fn show(&self) -> String {
        let c = self.coefficients;
        format!("{} {} {}", c[0].value(), c[1].value(), c[2].value())
    }
}

type P<FF> = Polynomial<'static, FF>;

fn nums(g: &[String]) -> Vec<u64> {
    g.iter().map(|s| s.parse::<u64>().unwrap()).collect()
}
fn elems<FF: Elem>(g: &[String]) -> Vec<FF> {
    nums(g).chunks(FF::W).map(FF::parse).collect()
}
/// (borrowed?, k) of a storage descriptor
fn storage(s: &str) -> (bool, usize) {
    (s.starts_with('b'), s[1..].parse::<usize>().unwrap())
}
/// polynomial as described by its group
fn mk<FF: Elem>(g: &[String]) -> P<FF> {
    let (borrowed, k) = storage(&g[0]);
    let mut v: Vec<FF> = elems(&g[1..]);
    v.extend(vec![FF::ZERO; k]);
    if borrowed {
        Polynomial::new_borrowed(Box::leak(v.into_boxed_slice()))
    } else {
        Polynomial::new(v)
    }
}
fn show_list<FF: Elem>(c: &[FF]) -> String {
    let mut s = c.len().to_string();
    for e in c {
        s.push(' ');
        s.push_str(&e.show());
    }
    s
}
fn showp<FF: Elem>(p: &Polynomial<FF>) -> String {
    show_list(p.coefficients())
}
fn groups(a: &[String]) -> Vec<Vec<String>> {
    let mut out = vec![vec![]];
    for t in a {
        if t == "|" {
            out.push(vec![]);
        } else {
            out.last_mut().unwrap().push(t.clone());
        }
    }
    out
}

fn main() {
    tfh::main_loop(run);
}

fn run(op: &str, a: &[String]) -> String {
    if a.is_empty() {
        return "BAD-CASE".into();
    }
    let field = a[0].as_str();
    let g = groups(&a[1..]);
    match op {
        // impl Polynomial<BFieldElement> only
        "clean_divide" => {
            let p = |i: usize| mk::<BFieldElement>(&g[i]);
            return showp(&p(0).clean_divide(p(1)));
        }
        // XFieldElement::inverse (through Polynomial::xgcd against x^3 - x + 1)
        "xinv" => {
            let x: XFieldElement = Elem::parse(&nums(&g[0]));
            return x.inverse().show();
        }
        _ => {}
    }
    let r = match field {
        "b" => one::<BFieldElement>(op, &g),
        "x" => one::<XFieldElement>(op, &g),
        _ => None,
    };
    r.unwrap_or_else(|| "UNKNOWN-OP".into())
}

fn one<FF: Elem>(op: &str, g: &[Vec<String>]) -> Option<String> {
    let p = |i: usize| mk::<FF>(&g[i]);
    let n = |i: usize| g[i][0].parse::<usize>().unwrap();
    Some(match op {
        "divide" => {
            let (q, r) = p(0).divide(&p(1));
            format!("{} / {}", showp(&q), showp(&r))
        }
        "naive_divide" => {
            let (q, r) = p(0).naive_divide(&p(1));
            format!("{} / {}", showp(&q), showp(&r))
        }
        "div" => showp(&(p(0) / p(1))),
        "rem" => showp(&(p(0) % p(1))),
        "xgcd" => {
            let (gc, a, b) = Polynomial::xgcd(p(0), p(1));
            format!("{} / {} / {}", showp(&gc), showp(&a), showp(&b))
        }
        "reduce" => showp(&p(0).reduce(&p(1))),
        "fast_reduce" => showp(&p(0).fast_reduce(&p(1))),
        "shift_factor" => {
            let (v, m) = p(0).shift_factor_ntt_with_tail_length();
            format!("{} / {}", show_list(&v), m)
        }
        // reduce_by_ntt_friendly_modulus with the preprocessing of the modulus in group 1
        "reduce_ntt" => {
            let (v, m) = p(1).shift_factor_ntt_with_tail_length();
            showp(&p(0).reduce_by_ntt_friendly_modulus(&v, m))
        }
        "smod" => showp(&p(1).structured_multiple_of_degree(n(0))),
        "fpsi_newton" => showp(&p(1).formal_power_series_inverse_newton(n(0))),
        _ => return None,
    })
}
