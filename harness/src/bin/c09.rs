//! Correspondence harness for C09 (polynomial division, reduction, gcd, power-series inversion, structured
//! multiples, clean division; XFieldElement::inverse).
//!
//! Case line: `<id> <op> <field> <group> | <group> | ...`   (same group syntax as c07.rs)
//!   field  : `b` (BFieldElement) or `x` (XFieldElement)
//!   group  : for a polynomial  `<storage> v v v ...`  with storage `o<k>` (owned, `Polynomial::new`) or
//!            `b<k>` (`Polynomial::new_borrowed`), k = number of ZERO coefficients appended above the given ones
//!            (stored leading zeros); values are canonical u64, three per coefficient for `x`;
//!            for integers: plain numbers.
//! Polynomial results are printed as `<n> c0 c1 ...` (normalised coefficients); several results are joined by
//! ` / `; a panic is `PANIC` (caught by tfh::main_loop).
//! This is a normal dependency build: cfg(test) is off, so CLEAN_DIVIDE_CUTOFF_THRESHOLD is the production 1 << 9.
use std::ops::MulAssign;

use twenty_first::math::traits::FiniteField;
use twenty_first::math::traits::Inverse;
use twenty_first::prelude::*;

trait Elem: FiniteField + MulAssign<BFieldElement> + 'static {
    const W: usize;
    fn parse(v: &[u64]) -> Self;
    fn show(&self) -> String;
}
impl Elem for BFieldElement {
    const W: usize = 1;
    fn parse(v: &[u64]) -> Self {
        BFieldElement::new(v[0])
    }
    fn show(&self) -> String {
        self.value().to_string()
    }
}
impl Elem for XFieldElement {
    const W: usize = 3;
    fn parse(v: &[u64]) -> Self {
        XFieldElement::new([BFieldElement::new(v[0]), BFieldElement::new(v[1]), BFieldElement::new(v[2])])
    }
    fn show(&self) -> String {
        let c = self.coefficients;
        format!("{} {} {}", c[0].value(), c[1].value(), c[2].value())
    }
}

type P<FF> = Polynomial<'static, FF>;

fn nums(g: &[String]) -> Vec<u64> {
    g.iter().map(|s| s.parse::<u64>().unwrap()).collect()
}
fn elems<FF: Elem>(g: &[String]) -> Vec<FF> {
    nums(g).chunks(FF::W).map(FF::parse).collect()
}
/// (borrowed?, k) of a storage descriptor
fn storage(s: &str) -> (bool, usize) {
    (s.starts_with('b'), s[1..].parse::<usize>().unwrap())
}
/// polynomial as described by its group
fn mk<FF: Elem>(g: &[String]) -> P<FF> {
    let (borrowed, k) = storage(&g[0]);
    let mut v: Vec<FF> = elems(&g[1..]);
    v.extend(vec![FF::ZERO; k]);
    if borrowed {
        Polynomial::new_borrowed(Box::leak(v.into_boxed_slice()))
    } else {
        Polynomial::new(v)
    }
}
fn show_list<FF: Elem>(c: &[FF]) -> String {
    let mut s = c.len().to_string();
    for e in c {
        s.push(' ');
        s.push_str(&e.show());
    }
    s
}
fn showp<FF: Elem>(p: &Polynomial<FF>) -> String {
    show_list(p.coefficients())
}
fn groups(a: &[String]) -> Vec<Vec<String>> {
    let mut out = vec![vec![]];
    for t in a {
        if t == "|" {
            out.push(vec![]);
        } else {
            out.last_mut().unwrap().push(t.clone());
        }
    }
    out
}

fn main() {
    tfh::main_loop(run);
}

fn run(op: &str, a: &[String]) -> String {
    if a.is_empty() {
        return "BAD-CASE".into();
    }
    let field = a[0].as_str();
    let g = groups(&a[1..]);
    match op {
        // impl Polynomial<BFieldElement> only
        "clean_divide" => {
            let p = |i: usize| mk::<BFieldElement>(&g[i]);
            return showp(&p(0).clean_divide(p(1)));
        }
        // alias_clean_divide b <i> <j> | <buffer> : clean_divide on two borrowed prefixes of one buffer
        "alias_clean_divide" => {
            let (i, j) = (g[0][0].parse::<usize>().unwrap(), g[0][1].parse::<usize>().unwrap());
            let v: Vec<BFieldElement> = elems(&g[1][1..]);
            let buf: &'static [BFieldElement] = Box::leak(v.into_boxed_slice());
            return showp(&Polynomial::new_borrowed(&buf[..i]).clean_divide(Polynomial::new_borrowed(&buf[..j])));
        }
        // XFieldElement::inverse (through Polynomial::xgcd against x^3 - x + 1)
        "xinv" => {
            let x: XFieldElement = Elem::parse(&nums(&g[0]));
            return x.inverse().show();
        }
        _ => {}
    }
    let r = match field {
        "b" => one::<BFieldElement>(op, &g),
        "x" => one::<XFieldElement>(op, &g),
        _ => None,
    };
    r.unwrap_or_else(|| "UNKNOWN-OP".into())
}

fn one<FF: Elem>(op: &str, g: &[Vec<String>]) -> Option<String> {
    if op == "alias" {
        // alias <field> <sub> <i> <j> | <buffer> : <sub> on two BORROWED polynomials that are the prefixes of length i and j
        // of ONE buffer (same start address, different lengths)
        let (i, j) = (g[0][1].parse::<usize>().unwrap(), g[0][2].parse::<usize>().unwrap());
        let (_, k) = storage(&g[1][0]);
        let mut v: Vec<FF> = elems(&g[1][1..]);
        v.extend(vec![FF::ZERO; k]);
        let buf: &'static [FF] = Box::leak(v.into_boxed_slice());
        let og: Vec<Vec<String>> = vec![vec![], vec![]];
        return one_core::<FF>(&g[0][0], &og, &|idx: usize| {
            if idx == 0 {
                Polynomial::new_borrowed(&buf[..i])
            } else {
                Polynomial::new_borrowed(&buf[..j])
            }
        });
    }
    if op == "same" {
        // same <field> <sub> | <poly> : the very same object as dividend and divisor
        let q = mk::<FF>(&g[1]);
        return Some(match g[0][0].as_str() {
            "divide" => {
                let (a, b) = q.divide(&q);
                format!("{} / {}", showp(&a), showp(&b))
            }
            "naive_divide" => {
                let (a, b) = q.naive_divide(&q);
                format!("{} / {}", showp(&a), showp(&b))
            }
            "reduce" => showp(&q.reduce(&q)),
            "fast_reduce" => showp(&q.fast_reduce(&q)),
            _ => return None,
        });
    }
    one_core::<FF>(op, g, &|i: usize| mk::<FF>(&g[i]))
}

fn one_core<FF: Elem>(op: &str, g: &[Vec<String>], p: &dyn Fn(usize) -> P<FF>) -> Option<String> {
    let n = |i: usize| g[i][0].parse::<usize>().unwrap();
    Some(match op {
        "divide" => {
            let (q, r) = p(0).divide(&p(1));
            format!("{} / {}", showp(&q), showp(&r))
        }
        "naive_divide" => {
            let (q, r) = p(0).naive_divide(&p(1));
            format!("{} / {}", showp(&q), showp(&r))
        }
        "div" => showp(&(p(0) / p(1))),
        "rem" => showp(&(p(0) % p(1))),
        "xgcd" => {
            let (gc, a, b) = Polynomial::xgcd(p(0), p(1));
            format!("{} / {} / {}", showp(&gc), showp(&a), showp(&b))
        }
        "reduce" => showp(&p(0).reduce(&p(1))),
        "fast_reduce" => showp(&p(0).fast_reduce(&p(1))),
        "shift_factor" => {
            let (v, m) = p(0).shift_factor_ntt_with_tail_length();
            format!("{} / {}", show_list(&v), m)
        }
        // reduce_by_ntt_friendly_modulus with the preprocessing of the modulus in group 1
        "reduce_ntt" => {
            let (v, m) = p(1).shift_factor_ntt_with_tail_length();
            showp(&p(0).reduce_by_ntt_friendly_modulus(&v, m))
        }
        "smod" => showp(&p(1).structured_multiple_of_degree(n(0))),
        "fpsi_newton" => showp(&p(1).formal_power_series_inverse_newton(n(0))),
        _ => return None,
    })
}
