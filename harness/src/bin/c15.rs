//! C15 harness: the real sponge discipline of Tip5 - `Sponge::pad_and_absorb_all` on a recording sponge and on
//! Tip5, `hash_varlen`, `hash`, and interleavings of absorb / squeeze / sample_indices / sample_scalars /
//! pad_and_absorb_all on a Tip5 sponge whose state is set directly.  Elements are given as field VALUES and
//! printed as raw Montgomery words; the final sponge state is always part of the output.
use twenty_first::prelude::*;
use twenty_first::util_types::sponge::Sponge;
use twenty_first::util_types::sponge::RATE;

fn bfe(s: &str) -> BFieldElement {
    BFieldElement::new(s.parse::<u64>().unwrap())
}
fn bfes(a: &[String]) -> Vec<BFieldElement> {
    a.iter().map(|s| bfe(s)).collect()
}
fn raws(v: &[BFieldElement]) -> String {
    v.iter().map(|x| x.raw_u64().to_string()).collect::<Vec<_>>().join(" ")
}

/// A sponge that only records what it is asked to absorb.
#[derive(Debug, Clone, Default)]
struct Recorder {
    absorbed: Vec<[BFieldElement; RATE]>,
}
impl Sponge for Recorder {
    const RATE: usize = RATE;
    fn init() -> Self {
        Self::default()
    }
    fn absorb(&mut self, input: [BFieldElement; RATE]) {
        self.absorbed.push(input);
    }
    fn squeeze(&mut self) -> [BFieldElement; RATE] {
        [BFieldElement::new(0); RATE]
    }
}

fn main() {
    tfh::main_loop(run);
}

fn run(op: &str, a: &[String]) -> String {
    match op {
        "varlen" => raws(&Tip5::hash_varlen(&bfes(a)).values()),
        "hash_bfe" => raws(&Tip5::hash(&bfe(&a[0])).values()),
        "hash_digest" => {
            let d = Digest::new(bfes(&a[0..5]).try_into().unwrap());
            raws(&Tip5::hash(&d).values())
        }
        "padabs" => {
            let mut r = Recorder::init();
            r.pad_and_absorb_all(&bfes(a));
            let mut out = vec![r.absorbed.len().to_string()];
            for c in &r.absorbed {
                out.push(raws(c));
            }
            out.join(" ")
        }
        "padabs_tip5" => {
            let mut t = Tip5::init();
            t.pad_and_absorb_all(&bfes(a));
            raws(&t.state)
        }
        "init" => format!("{} | {}", raws(&Tip5::init().state), raws(&Tip5::new(twenty_first::util_types::sponge::Domain::FixedLength).state)),
        "sponge" => {
            let mut t = Tip5::init();
            t.state.copy_from_slice(&bfes(&a[0..16]));
            let mut out: Vec<String> = vec![];
            let mut i = 16;
            while i < a.len() {
                match a[i].as_str() {
                    "A" => {
                        let v: [BFieldElement; RATE] = bfes(&a[i + 1..i + 11]).try_into().unwrap();
                        t.absorb(v);
                        out.push("A".to_string());
                        i += 11;
                    }
                    "S" => {
                        let p = t.squeeze();
                        out.push(format!("S {}", raws(&p)));
                        i += 1;
                    }
                    "I" => {
                        let ub = a[i + 1].parse::<u32>().unwrap();
                        let n = a[i + 2].parse::<usize>().unwrap();
                        let idx = t.sample_indices(ub, n);
                        out.push(format!("I {}", idx.iter().map(|x| x.to_string()).collect::<Vec<_>>().join(" ")));
                        i += 3;
                    }
                    "X" => {
                        let n = a[i + 1].parse::<usize>().unwrap();
                        let xs = t.sample_scalars(n);
                        let flat: Vec<BFieldElement> = xs.iter().flat_map(|x| x.coefficients).collect();
                        out.push(format!("X {}", raws(&flat)));
                        i += 2;
                    }
                    "P" => {
                        let k = a[i + 1].parse::<usize>().unwrap();
                        t.pad_and_absorb_all(&bfes(&a[i + 2..i + 2 + k]));
                        out.push("P".to_string());
                        i += 2 + k;
                    }
                    other => panic!("unknown sponge op {other}"),
                }
            }
            out.push(format!("ST {}", raws(&t.state)));
            out.join(" ")
        }
        _ => panic!("unknown op {op}"),
    }
}
