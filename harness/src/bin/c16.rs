//! C16 harness: MMR index arithmetic (util_types::mmr::shared_basic / shared_advanced) of the real crate.
//! Same case lines and result conventions as ocaml/c16.ml.
use std::panic::{catch_unwind, AssertUnwindSafe};

use twenty_first::util_types::mmr::shared_advanced as adv;
use twenty_first::util_types::mmr::shared_basic as basic;

const CM: u128 = 1000003;
const CP: u128 = (1u128 << 61) - 1;
const C_NONE: u128 = (1u128 << 64) + 1;
const C_PANIC: u128 = (1u128 << 64) + 2;

fn ck(acc: u128, v: u128) -> u128 {
    (acc * CM + v + 1) % CP
}

/// run one call of the implementation; None = it panicked
fn safe<T>(f: impl FnOnce() -> T) -> Option<T> {
    catch_unwind(AssertUnwindSafe(f)).ok()
}

fn emit_opt(acc: u128, v: Option<u64>) -> u128 {
    match v {
        Some(v) => ck(acc, v as u128),
        None => ck(acc, C_PANIC),
    }
}

fn u(s: &str) -> u64 {
    s.parse::<u64>().unwrap()
}
fn h32(s: &str) -> u32 {
    s.parse::<u32>().unwrap()
}
fn sl<T: ToString>(l: &[T]) -> String {
    l.iter().map(|x| x.to_string()).collect::<Vec<_>>().join(" ")
}
fn tag() -> &'static str {
    if cfg!(debug_assertions) {
        "chk:"
    } else {
        "rel:"
    }
}

fn main() {
    tfh::main_loop(run);
}

fn run(op: &str, a: &[String]) -> String {
    match op {
        "lchild" => basic::left_child(u(&a[0]), h32(&a[1])).to_string(),
        "rchild" => basic::right_child(u(&a[0])).to_string(),
        "lsib" => adv::left_sibling(u(&a[0]), h32(&a[1])).to_string(),
        "rsib" => adv::right_sibling(u(&a[0]), h32(&a[1])).to_string(),
        "lmost" => {
            let (c, h) = adv::leftmost_ancestor(u(&a[0]));
            format!("{} {}", c, h)
        }
        "l2n" => adv::leaf_index_to_node_index(u(&a[0])).to_string(),
        "rllleaf" => basic::right_lineage_length_from_leaf_index(u(&a[0])).to_string(),
        "mtpk" => {
            let (mt, pk) = basic::leaf_index_to_mt_index_and_peak_index(u(&a[0]), u(&a[1]));
            format!("{} {}", mt, pk)
        }
        "nln" => adv::num_leafs_to_num_nodes(u(&a[0])).to_string(),
        "rllh" => {
            let (r, h) = adv::right_lineage_length_and_own_height(u(&a[0]));
            format!("{} {}", r, h)
        }
        "rlln" => adv::right_lineage_length_from_node_index(u(&a[0])).to_string(),
        "parent" => adv::parent(u(&a[0])).to_string(),
        "n2l" => match adv::node_index_to_leaf_index(u(&a[0])) {
            Some(l) => l.to_string(),
            None => "NONE".to_string(),
        },
        "added" => sl(&adv::node_indices_added_by_append(u(&a[0]))),
        "pheights" => sl(&adv::get_peak_heights(u(&a[0]))),
        "peaks" => {
            let (hs, ns) = adv::get_peak_heights_and_peak_node_indices(u(&a[0]));
            format!("{} | {}", sl(&hs), sl(&ns))
        }
        "auth" => match adv::get_authentication_path_node_indices(u(&a[0]), u(&a[1]), u(&a[2])) {
            Some(l) => format!("SOME {}", sl(&l)),
            None => "NONE".to_string(),
        },
        // out-of-contract widths: the build profile is part of the answer
        "x_l2n" => match safe(|| adv::leaf_index_to_node_index(u(&a[0]))) {
            Some(v) => format!("{}{}", tag(), v),
            None => format!("{}PANIC", tag()),
        },
        "x_nln" => match safe(|| adv::num_leafs_to_num_nodes(u(&a[0]))) {
            Some(v) => format!("{}{}", tag(), v),
            None => format!("{}PANIC", tag()),
        },
        "x_rllleaf" => match safe(|| basic::right_lineage_length_from_leaf_index(u(&a[0]))) {
            Some(v) => format!("{}{}", tag(), v),
            None => format!("{}PANIC", tag()),
        },
        "leafsweep" => {
            let n = u(&a[0]);
            let mut acc = 0u128;
            let mut cnt = 0u64;
            for i in 0..n {
                acc = emit_opt(acc, safe(|| adv::leaf_index_to_node_index(i)));
                acc = emit_opt(acc, safe(|| basic::right_lineage_length_from_leaf_index(i) as u64));
                match safe(|| basic::leaf_index_to_mt_index_and_peak_index(i, n)) {
                    Some((mt, pk)) => acc = ck(ck(acc, mt as u128), pk as u128),
                    None => acc = ck(acc, C_PANIC),
                }
                cnt += 1;
            }
            format!("{} {}", cnt, acc)
        }
        "nodesweep" => {
            let nc = u(&a[1]);
            let mut acc = 0u128;
            let mut cnt = 0u64;
            for x in 1..=nc {
                match safe(|| adv::right_lineage_length_and_own_height(x)) {
                    Some((r, h)) => {
                        acc = ck(ck(acc, r as u128), h as u128);
                        acc = emit_opt(
                            acc,
                            safe(|| if r == 0 { adv::right_sibling(x, h) } else { adv::left_sibling(x, h) }),
                        );
                        if h > 0 {
                            acc = emit_opt(acc, safe(|| basic::left_child(x, h)));
                            acc = emit_opt(acc, safe(|| basic::right_child(x)));
                        }
                    }
                    None => acc = ck(acc, C_PANIC),
                }
                acc = emit_opt(acc, safe(|| adv::right_lineage_length_from_node_index(x) as u64));
                acc = emit_opt(acc, safe(|| adv::parent(x)));
                match safe(|| adv::node_index_to_leaf_index(x)) {
                    None => acc = ck(acc, C_PANIC),
                    Some(None) => acc = ck(acc, C_NONE),
                    Some(Some(l)) => acc = ck(acc, l as u128),
                }
                cnt += 1;
            }
            format!("{} {}", cnt, acc)
        }
        "authsweep" => {
            let nc = u(&a[1]);
            let mut acc = 0u128;
            let mut cnt = 0u64;
            for st in 1..=nc + 1 {
                for tg in 1..=nc + 1 {
                    match safe(|| adv::get_authentication_path_node_indices(st, tg, nc)) {
                        None => acc = ck(acc, C_PANIC),
                        Some(None) => acc = ck(acc, C_NONE),
                        Some(Some(l)) => {
                            acc = ck(acc, l.len() as u128);
                            for v in l {
                                acc = ck(acc, v as u128);
                            }
                        }
                    }
                    cnt += 1;
                }
            }
            format!("{} {}", cnt, acc)
        }
        "selfcheck" => format!("OK {}", adv::num_leafs_to_num_nodes(u(&a[0]))),
        _ => panic!("unknown op {op}"),
    }
}
