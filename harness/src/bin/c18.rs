//! C18 harness: lattice ring, module products and the KEM of twenty-first/src/math/lattice.rs.
//! Same case lines as ocaml/c18.ml; every call goes to the REAL implementation.
//! Private fields (SecretKey, PublicKey, ModuleElement) are read / built through the crate's own serde
//! implementations with bincode (fixed-width little-endian u64 = canonical value per coefficient).
use num_traits::Zero;
use sha3::digest::{ExtendableOutput, Update};
use sha3::{Digest as Sha3Digest, Sha3_256, Shake256};
use twenty_first::math::b_field_element::BFieldElement;
use twenty_first::math::lattice::kem::{self, Ciphertext, PublicKey, SecretKey};
use twenty_first::math::lattice::{
    coset_intt_noswap_64, coset_ntt_noswap_64, embed_msg, extract_msg, sample_short_bfield_element,
    CyclotomicRingElement, ModuleElement,
};

fn main() {
    tfh::main_loop(run);
}

fn b(s: &str) -> BFieldElement {
    BFieldElement::new(s.parse::<u64>().unwrap())
}
fn arr64(a: &[String]) -> [BFieldElement; 64] {
    assert!(a.len() == 64, "harness: need 64 coefficients");
    let v: Vec<BFieldElement> = a.iter().map(|s| b(s)).collect();
    v.try_into().unwrap()
}
fn ring(a: &[String]) -> CyclotomicRingElement {
    CyclotomicRingElement::from(arr64(a))
}
fn vals(a: &[BFieldElement]) -> String {
    a.iter().map(|x| x.value().to_string()).collect::<Vec<_>>().join(" ")
}
fn show_ring(r: CyclotomicRingElement) -> String {
    let c: [BFieldElement; 64] = r.into();
    vals(&c)
}
fn unhex(h: &str) -> Vec<u8> {
    if h == "-" {
        return vec![];
    }
    (0..h.len() / 2).map(|i| u8::from_str_radix(&h[2 * i..2 * i + 2], 16).unwrap()).collect()
}
fn hex(b: &[u8]) -> String {
    if b.is_empty() {
        return "-".to_string();
    }
    b.iter().map(|x| format!("{:02x}", x)).collect()
}
fn seed32(h: &str) -> [u8; 32] {
    let v = unhex(h);
    assert!(v.len() == 32, "harness: need 32 bytes");
    v.try_into().unwrap()
}
/// ModuleElement<N> from N*64 coefficients (serde: canonical u64 per coefficient, no framing for arrays)
fn module<const N: usize>(a: &[String]) -> ModuleElement<N> {
    assert!(a.len() == 64 * N, "harness: module size");
    let mut bytes = Vec::with_capacity(8 * a.len());
    for s in a {
        bytes.extend_from_slice(&b(s).value().to_le_bytes());
    }
    bincode::deserialize(&bytes).unwrap()
}
fn show_module<const N: usize>(m: &ModuleElement<N>) -> String {
    let bytes = bincode::serialize(m).unwrap();
    assert!(bytes.len() == 8 * 64 * N);
    bytes
        .chunks(8)
        .map(|c| u64::from_le_bytes(c.try_into().unwrap()).to_string())
        .collect::<Vec<_>>()
        .join(" ")
}
fn show_ct(ct: Ciphertext) -> String {
    let arr: [BFieldElement; 320] = ct.into();
    vals(&arr)
}
fn show_dec(r: Option<[u8; 32]>) -> String {
    match r {
        None => "NONE".to_string(),
        Some(k) => hex(&k),
    }
}

macro_rules! mm {
    ($op:expr, $a:expr, $lh:literal, $ln:literal, $rw:literal, $rn:literal, $inner:literal, $on:literal) => {{
        let lhs: ModuleElement<$ln> = module::<$ln>(&$a[0..64 * $ln]);
        let rhs: ModuleElement<$rn> = module::<$rn>(&$a[64 * $ln..]);
        match $op {
            "mmul" => show_module(&ModuleElement::<1>::multiply::<$lh, $ln, $rw, $rn, $inner, $on>(lhs, rhs)),
            "mhad" => show_module(&ModuleElement::<1>::multiply_hadamard::<$lh, $ln, $rw, $rn, $inner, $on>(lhs, rhs)),
            "mfast" => show_module(&ModuleElement::<1>::fast_multiply::<$lh, $ln, $rw, $rn, $inner, $on>(lhs, rhs)),
            _ => {
                let m1 = ModuleElement::<1>::multiply::<$lh, $ln, $rw, $rn, $inner, $on>(lhs, rhs);
                let m2 = ModuleElement::<1>::fast_multiply::<$lh, $ln, $rw, $rn, $inner, $on>(lhs, rhs);
                let h = ModuleElement::<1>::multiply_hadamard::<$lh, $ln, $rw, $rn, $inner, $on>(lhs.ntt(), rhs.ntt());
                format!(
                    "{} {} {}",
                    show_module(&m1),
                    if m1 == m2 { "FAST=PLAIN" } else { "FAST<>PLAIN" },
                    if h == m1.ntt() { "HAD=NTT(PLAIN)" } else { "HAD<>NTT(PLAIN)" }
                )
            }
        }
    }};
}

fn mm_dispatch(op: &str, a: &[String]) -> String {
    let shape = a[0].parse::<usize>().unwrap();
    let a = &a[1..];
    match shape {
        0 => mm!(op, a, 4, 16, 1, 4, 4, 4),
        1 => mm!(op, a, 1, 4, 4, 16, 4, 4),
        2 => mm!(op, a, 1, 4, 1, 4, 4, 1),
        3 => mm!(op, a, 2, 4, 2, 4, 2, 4),
        4 => mm!(op, a, 1, 1, 1, 1, 1, 1),
        5 => mm!(op, a, 2, 2, 3, 3, 1, 6),
        6 => mm!(op, a, 3, 6, 1, 2, 2, 3),
        _ => panic!("harness: unknown shape"),
    }
}

macro_rules! by_n {
    ($n:expr, $f:ident, $($arg:expr),*) => {
        match $n {
            1 => $f::<1>($($arg),*),
            2 => $f::<2>($($arg),*),
            4 => $f::<4>($($arg),*),
            5 => $f::<5>($($arg),*),
            16 => $f::<16>($($arg),*),
            _ => panic!("harness: unsupported module size"),
        }
    };
}
fn mntt<const N: usize>(a: &[String]) -> String {
    show_module(&module::<N>(a).ntt())
}
fn mintt<const N: usize>(a: &[String]) -> String {
    show_module(&module::<N>(a).intt())
}
fn madd<const N: usize>(a: &[String]) -> String {
    show_module(&(module::<N>(&a[..64 * N]) + module::<N>(&a[64 * N..])))
}
fn msub<const N: usize>(a: &[String]) -> String {
    show_module(&(module::<N>(&a[..64 * N]) - module::<N>(&a[64 * N..])))
}
fn mshort<const N: usize>(r: &[u8]) -> String {
    show_module(&ModuleElement::<N>::sample_short(r))
}
fn muniform<const N: usize>(r: &[u8]) -> String {
    show_module(&ModuleElement::<N>::sample_uniform(r))
}

fn sk_parts(sk: &SecretKey) -> (Vec<u8>, Vec<u8>) {
    let bytes = bincode::serialize(sk).unwrap();
    assert!(bytes.len() == 64);
    (bytes[..32].to_vec(), bytes[32..].to_vec())
}
fn pk_parts(pk: &PublicKey) -> (Vec<u8>, String) {
    let bytes = bincode::serialize(pk).unwrap();
    assert!(bytes.len() == 32 + 8 * 256);
    let ga = bytes[32..]
        .chunks(8)
        .map(|c| u64::from_le_bytes(c.try_into().unwrap()).to_string())
        .collect::<Vec<_>>()
        .join(" ");
    (bytes[..32].to_vec(), ga)
}
fn apply_tamper(ct: Ciphertext, a: &[String]) -> Ciphertext {
    let mut arr: [BFieldElement; 320] = ct.into();
    let cnt = a[0].parse::<usize>().unwrap();
    for t in 0..cnt {
        let pos = a[1 + 2 * t].parse::<usize>().unwrap();
        arr[pos] += b(&a[2 + 2 * t]);
    }
    Ciphertext::from(arr)
}

fn run(op: &str, a: &[String]) -> String {
    match op {
        "ntt" | "nttspec" => {
            let mut x = arr64(a);
            coset_ntt_noswap_64(&mut x);
            vals(&x)
        }
        "intt" => {
            let mut x = arr64(a);
            coset_intt_noswap_64(&mut x);
            vals(&x)
        }
        "nttintt" => {
            let mut x = arr64(a);
            coset_ntt_noswap_64(&mut x);
            coset_intt_noswap_64(&mut x);
            vals(&x)
        }
        "mul" => show_ring(ring(&a[..64]) * ring(&a[64..])),
        "mulu" => {
            let i = a[0].parse::<usize>().unwrap();
            let j = a[1].parse::<usize>().unwrap();
            let mut x = [BFieldElement::new(0); 64];
            let mut y = [BFieldElement::new(0); 64];
            x[i] = b(&a[2]);
            y[j] = b(&a[3]);
            show_ring(CyclotomicRingElement::from(x) * CyclotomicRingElement::from(y))
        }
        "add" => show_ring(ring(&a[..64]) + ring(&a[64..])),
        "sub" => show_ring(ring(&a[..64]) - ring(&a[64..])),
        "had" => show_ring(CyclotomicRingElement::hadamard(ring(&a[..64]), ring(&a[64..]))),
        "iszero" => (ring(a).is_zero() as u8).to_string(),
        "mm3" | "mmul" | "mhad" | "mfast" => mm_dispatch(op, a),
        "mntt" => by_n!(a.len() / 64, mntt, a),
        "mintt" => by_n!(a.len() / 64, mintt, a),
        "madd" => by_n!(a.len() / 128, madd, a),
        "msub" => by_n!(a.len() / 128, msub, a),
        "short8" => {
            let r: [u8; 8] = unhex(&a[0]).try_into().unwrap();
            sample_short_bfield_element(&r).value().to_string()
        }
        "rshort" => show_ring(CyclotomicRingElement::sample_short(&unhex(&a[0]))),
        "runiform" => show_ring(CyclotomicRingElement::sample_uniform(&unhex(&a[0]))),
        "mshort" => {
            let r = unhex(&a[1]);
            by_n!(a[0].parse::<usize>().unwrap(), mshort, &r)
        }
        "muniform" => {
            let r = unhex(&a[1]);
            by_n!(a[0].parse::<usize>().unwrap(), muniform, &r)
        }
        "embed" => show_ring(embed_msg(seed32(&a[0]))),
        "extract" => hex(&extract_msg(ring(a))),
        "embx" => hex(&extract_msg(embed_msg(seed32(&a[0])) + ring(&a[1..]))),
        "shake" => {
            let n = a[0].parse::<usize>().unwrap();
            let mut h = Shake256::default();
            h.update(&unhex(&a[1]));
            let mut out = vec![0u8; n];
            h.finalize_xof_into(&mut out);
            hex(&out)
        }
        "sha3" => hex(&Sha3_256::digest(unhex(&a[0]))),
        "keygen" => {
            let (sk, pk) = kem::keygen(seed32(&a[0]));
            let (key, seed) = sk_parts(&sk);
            let (pkseed, ga) = pk_parts(&pk);
            format!("{} {} {} {}", hex(&key), hex(&seed), hex(&pkseed), ga)
        }
        "enc" => {
            let (_, pk) = kem::keygen(seed32(&a[0]));
            let (k, ct) = kem::enc(pk, seed32(&a[1]));
            format!("{} {}", hex(&k), show_ct(ct))
        }
        "encpk" => {
            let mut bytes = unhex(&a[0]);
            assert!(bytes.len() == 32);
            for s in &a[1..257] {
                bytes.extend_from_slice(&b(s).value().to_le_bytes());
            }
            let pk: PublicKey = bincode::deserialize(&bytes).unwrap();
            let (k, ct) = kem::enc(pk, seed32(&a[257]));
            format!("{} {}", hex(&k), show_ct(ct))
        }
        "kem" => {
            let (sk, pk) = kem::keygen(seed32(&a[0]));
            let (k, ct) = kem::enc(pk, seed32(&a[1]));
            // determinism: a second run of every stage gives identical results
            let (sk2, pk2) = kem::keygen(seed32(&a[0]));
            let (k2, ct2) = kem::enc(pk2, seed32(&a[1]));
            if sk != sk2 || pk != pk2 || k != k2 || ct != ct2 {
                return "NONDETERMINISTIC".to_string();
            }
            match kem::dec(sk, ct) {
                None => "NONE".to_string(),
                Some(k2) => {
                    if k2 == k {
                        format!("OK {}", hex(&k2))
                    } else {
                        format!("MISMATCH {}", hex(&k2))
                    }
                }
            }
        }
        "tamper" => {
            let (sk, pk) = kem::keygen(seed32(&a[0]));
            let (_, ct) = kem::enc(pk, seed32(&a[1]));
            show_dec(kem::dec(sk, apply_tamper(ct, &a[2..])))
        }
        "tamperntt" => {
            // add coset_ntt(e) for a short polynomial e to the message-carrying component bga_m (elements 256..319):
            // the decrypted message moves by e only, so a decapsulation that forgot to compare bga_m would accept
            let (sk, pk) = kem::keygen(seed32(&a[0]));
            let (_, ct) = kem::enc(pk, seed32(&a[1]));
            let mut e = arr64(&a[2..]);
            coset_ntt_noswap_64(&mut e);
            let mut arr: [BFieldElement; 320] = ct.into();
            for i in 0..64 {
                arr[256 + i] += e[i];
            }
            show_dec(kem::dec(sk, Ciphertext::from(arr)))
        }
        "decother" => {
            let (_, pk1) = kem::keygen(seed32(&a[0]));
            let (sk2, _) = kem::keygen(seed32(&a[1]));
            let (_, ct) = kem::enc(pk1, seed32(&a[2]));
            show_dec(kem::dec(sk2, ct))
        }
        "decraw" => {
            let (sk, _) = kem::keygen(seed32(&a[0]));
            let v: Vec<BFieldElement> = a[1..].iter().map(|s| b(s)).collect();
            let arr: [BFieldElement; 320] = v.try_into().unwrap();
            show_dec(kem::dec(sk, Ciphertext::from(arr)))
        }
        "ctrt" => {
            let v: Vec<BFieldElement> = a.iter().map(|s| b(s)).collect();
            let arr: [BFieldElement; 320] = v.try_into().unwrap();
            let back: [BFieldElement; 320] = Ciphertext::from(arr).into();
            vals(&back)
        }
        "ctser" => {
            let (_, pk) = kem::keygen(seed32(&a[0]));
            let (_, ct) = kem::enc(pk, seed32(&a[1]));
            let arr: [BFieldElement; 320] = ct.into();
            let ct2 = Ciphertext::from(arr);
            let bytes = bincode::serialize(&ct).unwrap();
            let ct3: Ciphertext = bincode::deserialize(&bytes).unwrap();
            format!("{} {}", (ct2 == ct && ct3 == ct) as u8, hex(&bytes))
        }
        _ => panic!("unknown op {op}"),
    }
}
