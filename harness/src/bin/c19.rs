//! C19 harness: calls the real `U32s<N>` (twenty-first/src/amount/u32s.rs) for N = 0..=5.
//! Case line: `<id> <op> <N> <args...>`; limbs are decimal u32 values, least significant first.
//! Output: `OK <numbers>` | `ERR` (a `Result::Err`) | `PANIC` (caught by the shared loop).
use std::cmp::Ordering;

use num_bigint::BigUint;
use num_traits::{One, Zero};
use twenty_first::amount::u32s::U32s;
use twenty_first::prelude::*;

fn main() {
    tfh::main_loop(run);
}

fn limbs<const N: usize>(a: &[String]) -> U32s<N> {
    assert!(a.len() >= N, "harness: not enough limbs");
    U32s::new(core::array::from_fn(|i| a[i].parse::<u32>().unwrap()))
}

fn show<const N: usize>(x: &U32s<N>) -> String {
    let v: &[u32; N] = x.as_ref();
    let mut s = String::from("OK");
    for l in v.iter() {
        s.push(' ');
        s.push_str(&l.to_string());
    }
    s
}

fn show_bfes(v: &[BFieldElement]) -> String {
    let mut s = String::from("OK");
    for e in v {
        s.push_str(&format!(" {}:{}", e.raw_u64(), e.value()));
    }
    s
}

fn ord(o: Ordering) -> i32 {
    match o {
        Ordering::Less => -1,
        Ordering::Equal => 0,
        Ordering::Greater => 1,
    }
}

fn run_n<const N: usize>(op: &str, a: &[String]) -> String {
    match op {
        "add" => show(&(limbs::<N>(a) + limbs::<N>(&a[N..]))),
        "sub" => show(&(limbs::<N>(a) - limbs::<N>(&a[N..]))),
        "mul" => show(&(limbs::<N>(a) * limbs::<N>(&a[N..]))),
        "div" => show(&(limbs::<N>(a) / limbs::<N>(&a[N..]))),
        "rem" => show(&(limbs::<N>(a) % limbs::<N>(&a[N..]))),
        "remdiv" => {
            let (q, r) = limbs::<N>(a).rem_div(&limbs::<N>(&a[N..]));
            format!("{} | {}", show(&q), show(&r))
        }
        // the very same object on both sides of the by-reference operations
        "remdiv_same" => {
            let x = limbs::<N>(a);
            let (q, r) = x.rem_div(&x);
            format!("{} | {}", show(&q), show(&r))
        }
        "cmp_same" => {
            let x = limbs::<N>(a);
            format!(
                "OK {} {} {} {} {} {} {}",
                ord(x.cmp(&x)),
                ord(x.partial_cmp(&x).unwrap()),
                (x < x) as u8,
                (x <= x) as u8,
                (x > x) as u8,
                (x >= x) as u8,
                (x == x) as u8
            )
        }
        "cmp" => {
            let (x, y) = (limbs::<N>(a), limbs::<N>(&a[N..]));
            format!(
                "OK {} {} {} {} {} {} {}",
                ord(x.cmp(&y)),
                ord(x.partial_cmp(&y).unwrap()),
                (x < y) as u8,
                (x <= y) as u8,
                (x > y) as u8,
                (x >= y) as u8,
                (x == y) as u8
            )
        }
        "mul_two" => {
            let mut x = limbs::<N>(a);
            x.mul_two();
            show(&x)
        }
        "div_two" => {
            let mut x = limbs::<N>(a);
            x.div_two();
            show(&x)
        }
        "is_zero" => format!("OK {}", limbs::<N>(a).is_zero() as u8),
        "is_one" => format!("OK {}", limbs::<N>(a).is_one() as u8),
        "set_one" => {
            let mut x = limbs::<N>(a);
            x.set_one();
            show(&x)
        }
        "zero" => show(&U32s::<N>::zero()),
        "one" => show(&U32s::<N>::one()),
        "from_u32" => show(&U32s::<N>::from(a[0].parse::<u32>().unwrap())),
        "try_u64" => match U32s::<N>::try_from(a[0].parse::<u64>().unwrap()) {
            Ok(x) => show(&x),
            Err(_) => "ERR".to_string(),
        },
        "try_u128" => match U32s::<N>::try_from(a[0].parse::<u128>().unwrap()) {
            Ok(x) => show(&x),
            Err(_) => "ERR".to_string(),
        },
        "to_big" => format!("OK {}", BigUint::from(limbs::<N>(a))),
        "display" => format!("OK {}", limbs::<N>(a)),
        "from_big" => show(&U32s::<N>::from(a[0].parse::<BigUint>().unwrap())),
        "to_bfes" => {
            let v: [BFieldElement; N] = limbs::<N>(a).into();
            show_bfes(&v)
        }
        "encode" => show_bfes(&limbs::<N>(a).encode()),
        "static_length" => match U32s::<N>::static_length() {
            Some(n) => format!("OK {}", n),
            None => "NONE".to_string(),
        },
        "decode" => {
            let seq: Vec<BFieldElement> = a.iter().map(|s| BFieldElement::new(s.parse::<u64>().unwrap())).collect();
            match U32s::<N>::decode(&seq) {
                Ok(x) => show(&*x),
                Err(_) => "ERR".to_string(),
            }
        }
        "sum" => {
            let k = a[0].parse::<usize>().unwrap();
            let items: Vec<U32s<N>> = (0..k).map(|i| limbs::<N>(&a[1 + i * N..])).collect();
            show(&items.into_iter().sum::<U32s<N>>())
        }
        "rt_big" => show(&U32s::<N>::from(BigUint::from(limbs::<N>(a)))),
        "rt_codec" => match U32s::<N>::decode(&limbs::<N>(a).encode()) {
            Ok(x) => show(&*x),
            Err(_) => "ERR".to_string(),
        },
        "rt_bfes" => {
            let v: [BFieldElement; N] = limbs::<N>(a).into();
            match U32s::<N>::decode(&v) {
                Ok(x) => show(&*x),
                Err(_) => "ERR".to_string(),
            }
        }
        _ => format!("UNKNOWN-OP {}", op),
    }
}

fn run(op: &str, a: &[String]) -> String {
    let n = a[0].parse::<usize>().unwrap();
    let rest = &a[1..];
    match n {
        0 => run_n::<0>(op, rest),
        1 => run_n::<1>(op, rest),
        2 => run_n::<2>(op, rest),
        3 => run_n::<3>(op, rest),
        4 => run_n::<4>(op, rest),
        5 => run_n::<5>(op, rest),
        _ => format!("UNSUPPORTED-N {}", n),
    }
}
