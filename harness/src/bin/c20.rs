//! C20 harness: Digest / BFieldElement / XFieldElement conversions through the real API,
//! including serde_json and bincode.  Protocol: see ocaml/c20.ml.
use std::cmp::Ordering;
use std::str::FromStr;

use num_bigint::BigUint;
use twenty_first::prelude::*;

fn b(s: &str) -> BFieldElement {
    BFieldElement::new(s.parse::<u64>().unwrap())
}
fn digest(a: &[String], i: usize) -> Digest {
    Digest::new([b(&a[i]), b(&a[i + 1]), b(&a[i + 2]), b(&a[i + 3]), b(&a[i + 4])])
}
fn unhex(t: &str) -> Vec<u8> {
    if t == "-" {
        return vec![];
    }
    (0..t.len() / 2)
        .map(|i| u8::from_str_radix(&t[2 * i..2 * i + 2], 16).unwrap())
        .collect()
}
fn hex(bytes: &[u8]) -> String {
    if bytes.is_empty() {
        return "-".to_string();
    }
    bytes.iter().map(|x| format!("{:02x}", x)).collect()
}
fn text(t: &str) -> String {
    String::from_utf8(unhex(t)).expect("case generator must produce valid UTF-8 for &str arguments")
}
fn vals(d: &[BFieldElement]) -> String {
    d.iter().map(|e| e.value().to_string()).collect::<Vec<_>>().join(" ")
}
fn show_d<E>(r: Result<Digest, E>) -> String {
    match r {
        Ok(d) => format!("OK {}", vals(&d.values())),
        Err(_) => "ERR".to_string(),
    }
}
fn show_v<E>(r: Result<BFieldElement, E>) -> String {
    match r {
        Ok(v) => format!("OK {}", v.value()),
        Err(_) => "ERR".to_string(),
    }
}
fn show_x<E>(r: Result<XFieldElement, E>) -> String {
    match r {
        Ok(x) => format!("OK {}", vals(&x.coefficients)),
        Err(_) => "ERR".to_string(),
    }
}
/// JSON text of a case token: `s:<hex>` | `n:<int literal>` | `a:<int>,<int>..` | null | true | false
fn json_text(t: &str) -> String {
    if t == "null" || t == "true" || t == "false" {
        return t.to_string();
    }
    let body = &t[2..];
    match &t[..1] {
        "s" => serde_json::to_string(&text(body)).unwrap(),
        "n" => body.to_string(),
        "a" => format!("[{}]", body),
        _ => panic!("bad json token"),
    }
}

fn main() {
    tfh::main_loop(run);
}

fn run(op: &str, a: &[String]) -> String {
    match op {
        // ---- Digest <-> bytes
        "to_bytes" => hex(&<[u8; Digest::BYTES]>::from(digest(a, 0))),
        "from_bytes" => {
            let bytes = unhex(&a[0]);
            let r_slice = Digest::try_from(&bytes as &[u8]);
            if bytes.len() == Digest::BYTES {
                let arr: [u8; Digest::BYTES] = bytes.clone().try_into().unwrap();
                let r_arr = Digest::try_from(arr);
                if r_arr.clone().ok() != r_slice.clone().ok() {
                    return "DISAGREE array/slice".to_string();
                }
            }
            show_d(r_slice)
        }
        "bytes_rt" => {
            let d = digest(a, 0);
            show_d(Digest::try_from(<[u8; Digest::BYTES]>::from(d)))
        }
        // ---- hex
        "to_hex" => {
            let d = digest(a, 0);
            let lower = d.to_hex();
            if lower != format!("{d:x}") {
                return "DISAGREE to_hex/LowerHex".to_string();
            }
            format!("{} {}", lower, format!("{d:X}"))
        }
        "from_hex" => show_d(Digest::try_from_hex(unhex(&a[0]))),
        "hex_rt" => {
            let d = digest(a, 0);
            let r1 = Digest::try_from_hex(d.to_hex());
            let r2 = Digest::try_from_hex(format!("{d:X}"));
            if r1.clone().ok() != r2.ok() {
                return "DISAGREE lower/upper".to_string();
            }
            show_d(r1)
        }
        // ---- decimal strings
        "to_string" => hex(digest(a, 0).to_string().as_bytes()),
        "from_str" => show_d(Digest::from_str(&text(&a[0]))),
        "display_rt" => {
            let d = digest(a, 0);
            show_d(Digest::from_str(&d.to_string()))
        }
        // ---- BigUint
        "to_big" => BigUint::from(digest(a, 0)).to_string(),
        "from_big" => show_d(Digest::try_from(BigUint::from_str(&a[0]).unwrap())),
        "big_rt" => show_d(Digest::try_from(BigUint::from(digest(a, 0)))),
        // ---- order
        "cmp" => {
            let (d1, d2) = (digest(a, 0), digest(a, 5));
            let c = d1.cmp(&d2);
            if d1.partial_cmp(&d2) != Some(c)
                || (d1 < d2) != (c == Ordering::Less)
                || (d1 > d2) != (c == Ordering::Greater)
                || d2.cmp(&d1) != c.reverse()
            {
                return "DISAGREE cmp/partial_cmp".to_string();
            }
            let name = match c {
                Ordering::Less => "LT",
                Ordering::Equal => "EQ",
                Ordering::Greater => "GT",
            };
            format!("{} {}", name, (d1 == d2) as u8)
        }
        "reversed" => vals(&digest(a, 0).reversed().values()),
        // ---- Vec<BFieldElement>
        "from_vec" => {
            let v: Vec<BFieldElement> = a.iter().map(|s| b(s)).collect();
            let r1 = Digest::try_from(&v as &[BFieldElement]);
            let r2 = Digest::try_from(v);
            if r1.clone().ok() != r2.ok() {
                return "DISAGREE vec/slice".to_string();
            }
            show_d(r1)
        }
        "to_vec" => vals(&Vec::<BFieldElement>::from(digest(a, 0))),
        // ---- serde
        "ser_json" => hex(serde_json::to_string(&digest(a, 0)).unwrap().as_bytes()),
        "de_json" => show_d(serde_json::from_str::<Digest>(&json_text(&a[0]))),
        "json_rt" => {
            let d = digest(a, 0);
            let t = serde_json::to_string(&d).unwrap();
            // also through serde_json::Value
            let v = serde_json::to_value(d).unwrap();
            if serde_json::from_value::<Digest>(v).ok() != serde_json::from_str::<Digest>(&t).ok() {
                return "DISAGREE json text/value".to_string();
            }
            show_d(serde_json::from_str::<Digest>(&t))
        }
        "ser_bincode" => hex(&bincode::serialize(&digest(a, 0)).unwrap()),
        "de_bincode" => show_d(bincode::deserialize::<Digest>(&unhex(&a[0]))),
        "bincode_rt" => {
            let d = digest(a, 0);
            show_d(bincode::deserialize::<Digest>(&bincode::serialize(&d).unwrap()))
        }
        // ---- BFieldElement
        "bfe_to_bytes" => hex(&<[u8; BFieldElement::BYTES]>::from(b(&a[0]))),
        "bfe_from_bytes" => {
            let bytes = unhex(&a[0]);
            let r_slice = BFieldElement::try_from(&bytes as &[u8]);
            if bytes.len() == BFieldElement::BYTES {
                let arr: [u8; BFieldElement::BYTES] = bytes.clone().try_into().unwrap();
                if BFieldElement::try_from(arr).ok() != r_slice.clone().ok() {
                    return "DISAGREE array/slice".to_string();
                }
            }
            show_v(r_slice)
        }
        "bfe_bytes_rt" => show_v(BFieldElement::try_from(<[u8; BFieldElement::BYTES]>::from(b(&a[0])))),
        "bfe_to_string" => hex(b(&a[0]).to_string().as_bytes()),
        "bfe_from_str" => show_v(BFieldElement::from_str(&text(&a[0]))),
        "bfe_dec_rt" => show_v(BFieldElement::from_str(&b(&a[0]).value().to_string())),
        "bfe_ser_json" => hex(serde_json::to_string(&b(&a[0])).unwrap().as_bytes()),
        "bfe_de_json" => show_v(serde_json::from_str::<BFieldElement>(&json_text(&a[0]))),
        "bfe_json_rt" => show_v(serde_json::from_str::<BFieldElement>(&serde_json::to_string(&b(&a[0])).unwrap())),
        "bfe_ser_bincode" => hex(&bincode::serialize(&b(&a[0])).unwrap()),
        "bfe_de_bincode" => show_v(bincode::deserialize::<BFieldElement>(&unhex(&a[0]))),
        "bfe_bincode_rt" => show_v(bincode::deserialize::<BFieldElement>(&bincode::serialize(&b(&a[0])).unwrap())),
        // ---- XFieldElement <-> Digest
        "xfe_to_digest" => vals(&Digest::from(XFieldElement::new([b(&a[0]), b(&a[1]), b(&a[2])])).values()),
        "digest_to_xfe" => show_x(XFieldElement::try_from(digest(a, 0))),
        "xfe_rt" => show_x(XFieldElement::try_from(Digest::from(XFieldElement::new([b(&a[0]), b(&a[1]), b(&a[2])])))),
        _ => "UNKNOWN-OP".to_string(),
    }
}
