//! Correspondence harness for the MMR properties C05, C11, C12: the same case lines as ocaml/mmr.ml,
//! executed on the real implementation.
//!
//! Digests are printed as the 61-bit structural fingerprint of the *term* they are the Tip5 evaluation
//! of (`Atom k` = `Tip5::hash(&k)`, `Node(a, b)` = `Tip5::hash_pair(a, b)`, `Dflt` = `Digest::default()`,
//! `Varlen [0,0,0,0]` = `Tip5::hash_varlen(&[0,0,0,0])`).  The table digest -> fingerprint is filled by a
//! shadow forest kept by the harness (all complete aligned blocks of the current leaf list, hashed with
//! the real Tip5); a digest that is not the evaluation of any such term is printed as `?<hex>` and can
//! never match the oracle.
use std::cell::RefCell;
use std::collections::HashMap;
use std::panic::{catch_unwind, AssertUnwindSafe};

use twenty_first::prelude::*;
use twenty_first::util_types::mmr::mmr_accumulator::MmrAccumulator;
use twenty_first::util_types::mmr::mmr_successor_proof::MmrSuccessorProof;
use twenty_first::util_types::mmr::mmr_trait::LeafMutation;

const P61: u128 = 2305843009213693951;
const K1: u128 = 1469598103934665603;
const K2: u128 = 1099511628211;
const K3: u128 = 1442695040888963407;
const K4: u128 = 88172645463325252;

fn s_atom(k: u64) -> u64 {
    let x = (k as u128) % P61;
    ((x * x % P61 + x * K1 % P61 + K3) % P61) as u64
}
fn s_node(a: u64, b: u64) -> u64 {
    let (a, b) = (a as u128, b as u128);
    ((a * K1 % P61 + b * K2 % P61 + (a * b % P61) * K3 % P61 + K4) % P61) as u64
}
fn s_varlen(l: &[u64]) -> u64 {
    let mut acc: u128 = 11;
    for &e in l {
        acc = (acc * K2 % P61 + (e as u128) % P61 + 1) % P61;
    }
    ((acc + K3) % P61) as u64
}

#[derive(Default)]
struct Ctx {
    memo: HashMap<Digest, u64>,
    pairs: HashMap<(Digest, Digest), Digest>,
}

thread_local! {
    static CTX: RefCell<Ctx> = RefCell::new(Ctx::default());
}

fn register(d: Digest, s: u64) {
    CTX.with(|c| {
        c.borrow_mut().memo.insert(d, s);
    });
}
fn known(d: &Digest) -> Option<u64> {
    CTX.with(|c| c.borrow().memo.get(d).copied())
}
fn atom(k: u64) -> Digest {
    let d = Tip5::hash(&k);
    register(d, s_atom(k));
    d
}
/// hash_pair with the real Tip5, recording the fingerprint of the resulting term
fn hp(l: Digest, r: Digest) -> Digest {
    if let Some(d) = CTX.with(|c| c.borrow().pairs.get(&(l, r)).copied()) {
        return d;
    }
    let d = Tip5::hash_pair(l, r);
    CTX.with(|c| {
        let mut c = c.borrow_mut();
        if c.pairs.len() > 4_000_000 {
            c.pairs.clear();
        }
        c.pairs.insert((l, r), d);
        if let (Some(&a), Some(&b)) = (c.memo.get(&l), c.memo.get(&r)) {
            c.memo.insert(d, s_node(a, b));
        }
    });
    d
}
fn init_consts() {
    register(Digest::default(), 7);
    let z = [BFieldElement::new(0); 4];
    register(Tip5::hash_varlen(&z), s_varlen(&[0, 0, 0, 0]));
}
fn sv(d: &Digest) -> String {
    match known(d) {
        Some(s) => format!("{:x}", s),
        None => format!("?{:x}", d.0[0].value()),
    }
}
fn fnv(s: &str) -> String {
    let mut h: u64 = 0xcbf29ce484222325;
    for b in s.bytes() {
        h ^= b as u64;
        h = h.wrapping_mul(0x100000001b3);
    }
    format!("{:016x}", h)
}
fn show_ds(l: &[Digest]) -> String {
    if l.is_empty() {
        "-".to_string()
    } else {
        l.iter().map(sv).collect::<Vec<_>>().join(",")
    }
}
fn show_us<T: ToString>(l: &[T]) -> String {
    if l.is_empty() {
        "-".to_string()
    } else {
        l.iter().map(|x| x.to_string()).collect::<Vec<_>>().join(",")
    }
}
fn vd(r: std::thread::Result<bool>) -> &'static str {
    match r {
        Ok(true) => "T",
        Ok(false) => "F",
        Err(_) => "P",
    }
}
fn ulist(s: &str) -> Vec<u64> {
    if s.is_empty() || s == "-" {
        vec![]
    } else {
        s.split(',').map(|x| x.parse::<u64>().unwrap()).collect()
    }
}

/// The forest of all complete aligned blocks over a leaf list (specification side, real Tip5).
#[derive(Clone, Default)]
struct Shadow {
    levels: Vec<Vec<Digest>>,
}
impl Shadow {
    fn len(&self) -> u64 {
        self.levels.first().map(|l| l.len() as u64).unwrap_or(0)
    }
    fn append(&mut self, d: Digest) {
        if self.levels.is_empty() {
            self.levels.push(vec![]);
        }
        self.levels[0].push(d);
        let mut h = 0;
        while self.levels[h].len() % 2 == 0 {
            let n = self.levels[h].len();
            let p = hp(self.levels[h][n - 2], self.levels[h][n - 1]);
            if self.levels.len() == h + 1 {
                self.levels.push(vec![]);
            }
            self.levels[h + 1].push(p);
            h += 1;
        }
    }
    fn mutate(&mut self, i: u64, d: Digest) {
        let mut j = i as usize;
        self.levels[0][j] = d;
        let mut h = 0;
        while h + 1 < self.levels.len() && self.levels[h + 1].len() > j / 2 {
            let p = hp(self.levels[h][j & !1], self.levels[h][j | 1]);
            self.levels[h + 1][j / 2] = p;
            j /= 2;
            h += 1;
        }
    }
    fn leaf(&self, i: u64) -> Digest {
        self.levels[0][i as usize]
    }
    fn peaks(&self) -> Vec<Digest> {
        let n = self.len();
        let mut out = vec![];
        let mut offset = 0u64;
        for k in (0..64).rev() {
            let p = 1u64 << k;
            if n & p != 0 {
                out.push(self.levels[k][(offset >> k) as usize]);
                offset += p;
            }
        }
        out
    }
    fn path(&self, i: u64) -> Vec<Digest> {
        if i >= self.len() {
            return vec![]; // no such leaf (only reachable from malformed verify_batch_update cases)
        }
        let (_, h, _) = locate(self.len(), i);
        (0..h as usize).map(|k| self.levels[k][((i >> k) ^ 1) as usize]).collect()
    }
}

/// (peak position, tree height, index inside the tree) of leaf i in an MMR with n leafs
fn locate(n: u64, i: u64) -> (u64, u32, u64) {
    let (mut n, mut i, mut pk) = (n, i, 0u64);
    for k in (0..64u32).rev() {
        let p = 1u64 << k;
        if p <= n {
            if i < p {
                return (pk, k, i);
            }
            pk += 1;
            n -= p;
            i -= p;
        }
    }
    (0, 0, 0)
}
fn fold_up(mut idx: u64, mut acc: Digest, path: &[Digest]) -> Digest {
    for s in path {
        acc = if idx % 2 == 0 { hp(acc, *s) } else { hp(*s, acc) };
        idx /= 2;
    }
    acc
}
/// bagging on the specification side, only to register the fingerprints of the intermediate terms
fn shadow_bag(peaks: &[Digest]) {
    if peaks.len() >= 2 {
        let mut acc = peaks[peaks.len() - 1];
        for p in peaks[..peaks.len() - 1].iter().rev() {
            acc = hp(*p, acc);
        }
    }
}
/// binary-counter append on a peak list (specification side; registers all created nodes)
fn shadow_append_peaks(count: u64, peaks: &mut Vec<Digest>, leaf: Digest) {
    peaks.push(leaf);
    let mut c = count;
    while c & 1 == 1 {
        let r = peaks.pop().unwrap();
        let l = peaks.pop().unwrap();
        peaks.push(hp(l, r));
        c >>= 1;
    }
}

struct St {
    acc: MmrAccumulator,
    sh: Shadow,
    tracked: Vec<(u64, MmrMembershipProof)>,
}

fn render(st: &St, modified: &[u64]) -> String {
    let peaks = st.acc.peaks();
    let n = st.acc.num_leafs();
    shadow_bag(&peaks);
    let tr = if st.tracked.is_empty() {
        "-".to_string()
    } else {
        st.tracked
            .iter()
            .map(|(i, mp)| {
                let v = if *i < st.sh.len() {
                    let leaf = st.sh.leaf(*i);
                    vd(catch_unwind(AssertUnwindSafe(|| mp.verify(*i, leaf, &peaks, n))))
                } else {
                    "?"
                };
                format!("{}:{}:{}", i, show_ds(&mp.authentication_path), v)
            })
            .collect::<Vec<_>>()
            .join(";")
    };
    format!(
        "n={} e={} P={} B={} X={} T={}",
        n,
        if st.acc.is_empty() { "1" } else { "0" },
        show_ds(&peaks),
        sv(&st.acc.bag_peaks()),
        show_us(modified),
        tr
    )
}

fn split2(s: &str) -> (&str, &str) {
    match s.find(':') {
        Some(k) => (&s[..k], &s[k + 1..]),
        None => (s, ""),
    }
}

fn do_op(st: &mut St, tok: &str) -> String {
    let c = tok.chars().next().unwrap();
    let rest = &tok[1..];
    let idxs: Vec<u64> = st.tracked.iter().map(|x| x.0).collect();
    match c {
        'a' | 'A' => {
            let track = rest.ends_with('+');
            let k: u64 = rest.trim_end_matches('+').parse().unwrap();
            let leaf = atom(k);
            let n = st.acc.num_leafs();
            let peaks = st.acc.peaks();
            let mut modified: Vec<u64> = vec![];
            if c == 'a' {
                let mut refs: Vec<&mut MmrMembershipProof> = st.tracked.iter_mut().map(|x| &mut x.1).collect();
                modified = MmrMembershipProof::batch_update_from_append(&mut refs, &idxs, n, leaf, &peaks)
                    .into_iter()
                    .map(|x| x as u64)
                    .collect();
            } else {
                for (pos, (i, mp)) in st.tracked.iter_mut().enumerate() {
                    if mp.update_from_append(*i, n, leaf, &peaks) {
                        modified.push(pos as u64);
                    }
                }
            }
            let mp = st.acc.append(leaf);
            st.sh.append(leaf);
            if track {
                st.tracked.push((n, mp));
            }
            render(st, &modified)
        }
        'm' | 'M' | 'n' => {
            let (si, sk) = split2(rest);
            let i: u64 = si.parse().unwrap();
            let leaf = atom(sk.parse().unwrap());
            let lm = LeafMutation::new(i, leaf, MmrMembershipProof::new(st.sh.path(i)));
            let mut modified: Vec<u64> = vec![];
            match c {
                'm' => {
                    let mut mps: Vec<MmrMembershipProof> = st.tracked.iter().map(|x| x.1.clone()).collect();
                    modified = MmrMembershipProof::batch_update_from_leaf_mutation(&mut mps, &idxs, lm.clone());
                    for (t, mp) in st.tracked.iter_mut().zip(mps) {
                        t.1 = mp;
                    }
                }
                'M' => {
                    for (pos, (j, mp)) in st.tracked.iter_mut().enumerate() {
                        if mp.update_from_leaf_mutation(*j, &lm) {
                            modified.push(pos as u64);
                        }
                    }
                }
                _ => {
                    let mut refs: Vec<&mut MmrMembershipProof> = st.tracked.iter_mut().map(|x| &mut x.1).collect();
                    modified =
                        MmrMembershipProof::batch_update_from_batch_leaf_mutation(&mut refs, &idxs, vec![lm.clone()])
                            .into_iter()
                            .map(|x| x as u64)
                            .collect();
                }
            }
            st.acc.mutate_leaf(lm);
            st.sh.mutate(i, leaf);
            render(st, &modified)
        }
        'b' | 'B' => {
            let (sis, sks) = split2(rest);
            let is = ulist(sis);
            let ks = ulist(sks);
            let ivs: Vec<(u64, Digest)> = is.iter().zip(ks.iter()).map(|(i, k)| (*i, atom(*k))).collect();
            let lms: Vec<LeafMutation> = ivs
                .iter()
                .map(|(i, l)| LeafMutation::new(*i, *l, MmrMembershipProof::new(st.sh.path(*i))))
                .collect();
            let modified: Vec<u64>;
            if c == 'b' {
                let mut refs: Vec<&mut MmrMembershipProof> = st.tracked.iter_mut().map(|x| &mut x.1).collect();
                modified = st
                    .acc
                    .batch_mutate_leaf_and_update_mps(&mut refs, &idxs, lms)
                    .into_iter()
                    .map(|x| x as u64)
                    .collect();
                for (i, l) in ivs.iter() {
                    st.sh.mutate(*i, *l);
                }
            } else {
                {
                    let mut refs: Vec<&mut MmrMembershipProof> = st.tracked.iter_mut().map(|x| &mut x.1).collect();
                    modified = MmrMembershipProof::batch_update_from_batch_leaf_mutation(&mut refs, &idxs, lms)
                        .into_iter()
                        .map(|x| x as u64)
                        .collect();
                }
                for (i, l) in ivs.iter() {
                    let lm = LeafMutation::new(*i, *l, MmrMembershipProof::new(st.sh.path(*i)));
                    st.acc.mutate_leaf(lm);
                    st.sh.mutate(*i, *l);
                }
            }
            render(st, &modified)
        }
        't' | 'T' => {
            let i: u64 = rest.parse().unwrap();
            let e = (i, MmrMembershipProof::new(st.sh.path(i)));
            if c == 't' {
                st.tracked.push(e);
            } else {
                st.tracked.insert(0, e);
            }
            render(st, &[])
        }
        'u' => {
            let pos: usize = rest.parse().unwrap();
            if pos < st.tracked.len() {
                st.tracked.remove(pos);
            }
            render(st, &[])
        }
        'w' => {
            let parts: Vec<&str> = rest.split(':').collect();
            let is = ulist(parts[0]);
            let ks = ulist(parts[1]);
            let apps: Vec<Digest> = ulist(parts[2]).into_iter().map(atom).collect();
            let tweak = parts[3];
            let ivs: Vec<(u64, Digest)> = is.iter().zip(ks.iter()).map(|(i, k)| (*i, atom(*k))).collect();
            let mut lms: Vec<LeafMutation> = ivs
                .iter()
                .map(|(i, l)| LeafMutation::new(*i, *l, MmrMembershipProof::new(st.sh.path(*i))))
                .collect();
            let mut sh2 = st.sh.clone();
            for (i, l) in ivs.iter() {
                if *i < sh2.len() {
                    sh2.mutate(*i, *l);
                }
            }
            for a in apps.iter() {
                sh2.append(*a);
            }
            let mut expected = sh2.peaks();
            let mut p_apps = apps.clone();
            let n = st.sh.len();
            if tweak == "ok" {
            } else if let Some(js) = tweak.strip_prefix("peak") {
                let j: usize = js.parse().unwrap();
                if !expected.is_empty() {
                    let l = expected.len();
                    expected[j % l] = atom(999999);
                }
            } else if tweak == "swapv" {
                if lms.len() >= 2 {
                    let (l0, l1) = (lms[0].new_leaf, lms[1].new_leaf);
                    lms[0].new_leaf = l1;
                    lms[1].new_leaf = l0;
                }
            } else if tweak == "order" {
                lms.reverse();
            } else if tweak == "dup" {
                if !lms.is_empty() {
                    let x = lms[0].clone();
                    lms.push(x);
                }
            } else if tweak == "oob" {
                lms.push(LeafMutation::new(n, atom(5), MmrMembershipProof::new(vec![])));
            } else if tweak == "appp" {
                p_apps.push(atom(424242));
            } else if tweak == "appm" {
                p_apps.pop();
            } else if tweak == "bp" {
                if !lms.is_empty() && !lms[0].membership_proof.authentication_path.is_empty() {
                    lms[0].membership_proof.authentication_path[0] = atom(999999);
                }
            } else {
                panic!("tweak");
            }
            let acc = &st.acc;
            let r = catch_unwind(AssertUnwindSafe(|| acc.verify_batch_update(&expected, &p_apps, lms)));
            format!("w={}", vd(r))
        }
        _ => panic!("op"),
    }
}

fn run_hist(a: &[String]) -> String {
    let mut st = St { acc: MmrAccumulator::new_from_leafs(vec![]), sh: Shadow::default(), tracked: vec![] };
    let compact = a.len() > 24;
    let mut out: Vec<String> = vec![];
    for tok in a {
        let r = catch_unwind(AssertUnwindSafe(|| do_op(&mut st, tok))).unwrap_or_else(|_| "PANIC".to_string());
        let stop = r == "PANIC";
        out.push(if compact { fnv(&r) } else { r });
        if stop {
            break;
        }
    }
    out.join(" | ")
}

fn show_sp(l: &[Digest]) -> String {
    let s = show_ds(l);
    if l.len() > 32 {
        format!("#{}", fnv(&s))
    } else {
        s
    }
}

fn run_succ(synthetic: bool, a: &[String]) -> String {
    run_succ_q(synthetic, 0, a)
}

/// `q > 0`: synthetic accumulator whose peak digests and appended leafs REPEAT (index mod q): equal digests at different
/// positions must not confuse the bookkeeping of proof generation / verification
fn run_succ_q(synthetic: bool, q: u64, a: &[String]) -> String {
    let oldc: u64 = a[0].parse().unwrap();
    let nn: u64 = a[1].parse().unwrap();
    let tweak = a[2].as_str();
    let arg: &str = if a.len() > 3 { a[3].as_str() } else { "0" };
    // old accumulator (and the specification-side shadow that registers fingerprints)
    let mut sh_peaks: Vec<Digest>;
    let old: MmrAccumulator;
    let base: u64;
    if synthetic {
        sh_peaks = (0..oldc.count_ones() as u64)
            .map(|j| atom(1000000 + if q > 0 { j % q } else { j }))
            .collect();
        old = MmrAccumulator::init(sh_peaks.clone(), oldc);
        base = 0;
    } else {
        let leafs: Vec<Digest> = (0..oldc).map(atom).collect();
        sh_peaks = vec![];
        for (c, l) in leafs.iter().enumerate() {
            shadow_append_peaks(c as u64, &mut sh_peaks, *l);
        }
        old = MmrAccumulator::new_from_leafs(leafs);
        base = oldc;
    }
    let new_leafs: Vec<Digest> = (0..nn)
        .map(|j| if q > 0 { atom(1000000 + (j + 1) % q) } else { atom(base + j) })
        .collect();
    for (c, l) in new_leafs.iter().enumerate() {
        shadow_append_peaks(oldc + c as u64, &mut sh_peaks, *l);
    }
    let sp = MmrSuccessorProof::new_from_batch_append(&old, &new_leafs);
    let mut nw = old.clone();
    for l in new_leafs.iter() {
        nw.append(*l);
    }
    let bad = atom(777777);
    let j: usize = arg.parse::<u64>().unwrap_or(0) as usize;
    let mut paths = sp.paths.clone();
    let (mut oc, mut op) = (old.num_leafs(), old.peaks());
    let (mut nc, mut np) = (nw.num_leafs(), nw.peaks());
    match tweak {
        "ok" => {}
        "alt" => {
            if j < paths.len() {
                paths[j] = bad;
            }
        }
        "rot" => {
            if !paths.is_empty() {
                let r = j % paths.len();
                paths.rotate_left(r);
            }
        }
        "drop" => {
            paths.pop();
        }
        "dropf" => {
            if !paths.is_empty() {
                paths.remove(0);
            }
        }
        "add" => paths.push(bad),
        "addd" => paths.push(Digest::default()),
        "oldpk" => {
            if j < op.len() {
                op[j] = bad;
            }
        }
        "newpk" => {
            if j < np.len() {
                np[j] = bad;
            }
        }
        "oldlong" => op.push(atom(5)),
        // oldpad / newpad <k>: k surplus digests appended to the old / new peak list (structurally inconsistent for k > 0)
        "oldpad" => {
            for _ in 0..arg.parse::<usize>().unwrap() {
                op.push(atom(5));
            }
        }
        "newpad" => {
            for _ in 0..arg.parse::<usize>().unwrap() {
                np.push(atom(5));
            }
        }
        "oldshort" => {
            op.pop();
        }
        "oldcut" => {
            if oc != 0 {
                let hgt = oc.trailing_zeros();
                let offset = oc - (1u64 << hgt);
                let (_, hh, _) = locate(nc, offset);
                let seg = (hh - hgt) as usize;
                let l = paths.len();
                paths.truncate(l - seg);
                op.pop();
            }
        }
        "oldshortf" => {
            if !op.is_empty() {
                op.remove(0);
            }
        }
        "newlong" => np.push(atom(5)),
        "newshort" => {
            np.pop();
        }
        "oldcnt" => oc = arg.parse().unwrap(),
        "newcnt" => nc = arg.parse().unwrap(),
        "swap" => {
            std::mem::swap(&mut oc, &mut nc);
            std::mem::swap(&mut op, &mut np);
        }
        "zero" => {
            oc = 0;
            op = vec![atom(5)];
        }
        _ => panic!("tweak"),
    }
    let old2 = MmrAccumulator::init(op, oc);
    let new2 = MmrAccumulator::init(np, nc);
    let sp2 = MmrSuccessorProof { paths };
    let v = catch_unwind(AssertUnwindSafe(|| sp2.verify(&old2, &new2)));
    format!("S={} V={}", show_sp(&sp.paths), vd(v))
}

fn run_vfy(a: &[String]) -> String {
    let n: u64 = a[0].parse().unwrap();
    let i: u64 = a[1].parse().unwrap();
    let dpeaks: i64 = a[2].parse().unwrap();
    let dpath: i64 = a[3].parse().unwrap();
    let fix = a[4] == "1";
    let (pk, hh, j) = if i < n { locate(n, i) } else { (0, 0, 0) };
    let npeaks = std::cmp::max(0, n.count_ones() as i64 + dpeaks) as u64;
    let plen = std::cmp::max(0, hh as i64 + dpath) as u64;
    let mut peaks: Vec<Digest> = (0..npeaks).map(|t| atom(2000000 + t)).collect();
    let pth: Vec<Digest> = (0..plen).map(|t| atom(3000000 + t)).collect();
    let leaf = atom(1);
    if fix && i < n && pk < npeaks {
        peaks[pk as usize] = fold_up(j, leaf, &pth);
    }
    let mp = MmrMembershipProof::new(pth);
    let r = catch_unwind(AssertUnwindSafe(|| mp.verify(i, leaf, &peaks, n)));
    format!("v={}", vd(r))
}

fn run_nfl(a: &[String]) -> String {
    let n: u64 = a[0].parse().unwrap();
    let leafs: Vec<Digest> = (0..n).map(atom).collect();
    let mut sh = Shadow::default();
    for l in leafs.iter() {
        sh.append(*l);
    }
    let acc = MmrAccumulator::new_from_leafs(leafs);
    let peaks = acc.peaks();
    shadow_bag(&peaks);
    format!(
        "n={} e={} P={} B={}",
        acc.num_leafs(),
        if acc.is_empty() { "1" } else { "0" },
        show_ds(&peaks),
        sv(&acc.bag_peaks())
    )
}


// ------------------------------------------------------------------ synthetic accumulators
/// A synthetic MMR with `n` leafs of which only the chosen ones exist: every block that contains no chosen
/// leaf has a fresh atom as root, the others are hashed from their children.  Nothing is materialised.
struct Syn {
    n: u64,
    idx: Vec<u64>,
    leaves: Vec<Digest>,
}
fn fresh(a: u64, t: u32) -> Digest {
    atom(a.wrapping_mul(128).wrapping_add(t as u64).wrapping_add(5000000))
}
impl Syn {
    fn value(&self, a: u64, t: u32) -> Digest {
        let inside: Vec<usize> = (0..self.idx.len()).filter(|&k| (self.idx[k] >> t) == a).collect();
        if inside.is_empty() {
            return fresh(a, t);
        }
        if t == 0 {
            return self.leaves[inside[0]];
        }
        hp(self.value(2 * a, t - 1), self.value(2 * a + 1, t - 1))
    }
    fn peaks(&self) -> Vec<Digest> {
        let mut out = vec![];
        let mut offset = 0u64;
        for k in (0..64u32).rev() {
            let p = 1u64 << k;
            if self.n & p != 0 {
                out.push(self.value(offset >> k, k));
                offset += p;
            }
        }
        out
    }
    fn path(&self, i: u64) -> Vec<Digest> {
        let (_, h, _) = locate(self.n, i);
        (0..h).map(|t| self.value((i >> t) ^ 1, t)).collect()
    }
}
fn show_long(l: &[Digest]) -> String {
    let s = show_ds(l);
    if l.len() > 32 {
        format!("#{}", fnv(&s))
    } else {
        s
    }
}
fn show_tracked(idx: &[u64], leaves: &[Digest], mps: &[MmrMembershipProof], peaks: &[Digest], n: u64) -> String {
    if idx.is_empty() {
        return "-".to_string();
    }
    idx.iter()
        .zip(leaves.iter())
        .zip(mps.iter())
        .map(|((i, l), mp)| {
            let v = vd(catch_unwind(AssertUnwindSafe(|| mp.verify(*i, *l, peaks, n))));
            format!("{}:{}:{}", i, show_long(&mp.authentication_path), v)
        })
        .collect::<Vec<_>>()
        .join(";")
}

fn run_syn(a: &[String]) -> String {
    let n: u64 = a[0].parse().unwrap();
    let idx = ulist(&a[1]);
    let op = a[2].as_str();
    let leaves: Vec<Digest> = (0..idx.len() as u64).map(|k| atom(2000000 + k)).collect();
    let syn = Syn { n, idx: idx.clone(), leaves: leaves.clone() };
    let peaks = syn.peaks();
    let mps: Vec<MmrMembershipProof> = idx.iter().map(|i| MmrMembershipProof::new(syn.path(*i))).collect();
    let mut acc = MmrAccumulator::init(peaks.clone(), n);
    match op {
        "v" => format!("P={} T={}", show_long(&peaks), show_tracked(&idx, &leaves, &mps, &peaks, n)),
        "a" => {
            let leaf = atom(77);
            // one by one
            let mut single = mps.clone();
            let mut flags: Vec<String> = vec![];
            for (i, mp) in idx.iter().zip(single.iter_mut()) {
                let f = mp.update_from_append(*i, n, leaf, &peaks);
                flags.push(if f { "1".to_string() } else { "0".to_string() });
            }
            // as a batch
            let mut batch = mps.clone();
            let modified: Vec<usize> = {
                let mut refs: Vec<&mut MmrMembershipProof> = batch.iter_mut().collect();
                MmrMembershipProof::batch_update_from_append(&mut refs, &idx, n, leaf, &peaks)
            };
            let mut sp = peaks.clone();
            shadow_append_peaks(n, &mut sp, leaf);
            let new_mp = acc.append(leaf);
            let np = acc.peaks();
            let same = single.iter().zip(batch.iter()).all(|(x, y)| x == y);
            format!(
                "n={} P={} F={} X={} S={} N={} T={}",
                acc.num_leafs(),
                show_long(&np),
                show_us(&flags),
                show_us(&modified),
                if same { "1" } else { "0" },
                show_long(&new_mp.authentication_path),
                show_tracked(&idx, &leaves, &single, &np, acc.num_leafs())
            )
        }
        "m" => {
            // mutate the first chosen leaf, update the others
            let newleaf = atom(88);
            let lm = LeafMutation::new(idx[0], newleaf, mps[0].clone());
            let mut rest: Vec<MmrMembershipProof> = mps.clone();
            let modified = MmrMembershipProof::batch_update_from_leaf_mutation(&mut rest, &idx, lm.clone());
            let mut single = mps.clone();
            let mut flags: Vec<String> = vec![];
            for (i, mp) in idx.iter().zip(single.iter_mut()) {
                let f = mp.update_from_leaf_mutation(*i, &lm);
                flags.push(if f { "1".to_string() } else { "0".to_string() });
            }
            acc.mutate_leaf(lm);
            let mut nl = leaves.clone();
            nl[0] = newleaf;
            let syn2 = Syn { n, idx: idx.clone(), leaves: nl.clone() };
            let expected = syn2.peaks();
            let np = acc.peaks();
            let same = single.iter().zip(rest.iter()).all(|(x, y)| x == y);
            format!(
                "P={} E={} F={} X={} S={} T={}",
                show_long(&np),
                if np == expected { "1" } else { "0" },
                show_us(&flags),
                show_us(&modified),
                if same { "1" } else { "0" },
                show_tracked(&idx, &nl, &rest, &np, n)
            )
        }
        "b" | "w" | "wx" => {
            let nl: Vec<Digest> = (0..idx.len() as u64).map(|k| atom(90 + k)).collect();
            let lms: Vec<LeafMutation> =
                idx.iter().zip(nl.iter()).zip(mps.iter()).map(|((i, l), mp)| LeafMutation::new(*i, *l, mp.clone())).collect();
            let syn2 = Syn { n, idx: idx.clone(), leaves: nl.clone() };
            let expected = syn2.peaks();
            if op == "b" {
                let mut tracked = mps.clone();
                let modified: Vec<usize> = {
                    let mut refs: Vec<&mut MmrMembershipProof> = tracked.iter_mut().collect();
                    acc.batch_mutate_leaf_and_update_mps(&mut refs, &idx, lms)
                };
                let np = acc.peaks();
                format!(
                    "P={} E={} X={} T={}",
                    show_long(&np),
                    if np == expected { "1" } else { "0" },
                    show_us(&modified),
                    show_tracked(&idx, &nl, &tracked, &np, n)
                )
            } else {
                let mut e2 = expected.clone();
                let apps = vec![atom(77)];
                shadow_append_peaks(n, &mut e2, apps[0]);
                if op == "wx" && !e2.is_empty() {
                    let l = e2.len();
                    e2[l - 1] = atom(999999);
                }
                let r = catch_unwind(AssertUnwindSafe(|| acc.verify_batch_update(&e2, &apps, lms)));
                format!("w={}", vd(r))
            }
        }
        _ => "UNKNOWN-OP".to_string(),
    }
}

fn run(op: &str, a: &[String]) -> String {
    CTX.with(|c| {
        let mut c = c.borrow_mut();
        if c.memo.len() > 3_000_000 {
            c.memo.clear();
            c.pairs.clear();
        }
    });
    init_consts();
    match op {
        "hist" => run_hist(a),
        "nfl" => run_nfl(a),
        "vfy" => run_vfy(a),
        "succ" => run_succ(false, a),
        "succs" => run_succ(true, a),
        "succq1" => run_succ_q(true, 1, a),
        "succq2" => run_succ_q(true, 2, a),
        "succq3" => run_succ_q(true, 3, a),
        "syn" => run_syn(a),
        _ => "UNKNOWN-OP".to_string(),
    }
}

fn main() {
    tfh::main_loop(run);
}
