//! tfh - shared glue of the correspondence harness binaries (one binary per property in src/bin/).
//! Each binary reads case lines `<id> <op> <args...>` on stdin and prints `<id> <result>` per line;
//! a panic inside the implementation is caught and printed as `PANIC`.
use std::io::{BufRead, Write};
use std::panic;

/// Run the line loop with the given per-case function.
pub fn main_loop(run: fn(&str, &[String]) -> String) {
    panic::set_hook(Box::new(|_| {}));
    let stdin = std::io::stdin();
    let stdout = std::io::stdout();
    let mut out = std::io::BufWriter::new(stdout.lock());
    for line in stdin.lock().lines() {
        let line = line.unwrap();
        let line = line.trim();
        if line.is_empty() || line.starts_with('#') {
            continue;
        }
        let mut it = line.split_whitespace();
        let id = it.next().unwrap().to_string();
        let op = it.next().unwrap_or("").to_string();
        let args: Vec<String> = it.map(|s| s.to_string()).collect();
        let res = panic::catch_unwind(move || run(&op, &args));
        let res = res.unwrap_or_else(|_| "PANIC".to_string());
        writeln!(out, "{} {}", id, res).unwrap();
        out.flush().unwrap();
    }
}

pub fn u64s(args: &[String]) -> Vec<u64> {
    args.iter().map(|s| s.parse::<u64>().unwrap()).collect()
}
