//! tfh - shared glue of the correspondence harness binaries (one binary per property in src/bin/).
//! Each binary reads case lines `<id> <op> <args...>` on stdin and prints `<id> <result>` per line;
//! a panic inside the implementation is caught and printed as `PANIC`.
use std::io::{BufRead, Write};
use std::panic;

/// Run the line loop with the given per-case function.
pub fn main_loop(run: fn(&str, &[String]) -> String) {
    panic::set_hook(Box::new(|_| {}));
    let stdin = std::io::stdin();
    let stdout = std::io::stdout();
    let mut out = std::io::BufWriter::new(stdout.lock());
    let fresh = std::env::var("TFH_FRESH_THREAD").map(|v| v == "1").unwrap_or(false);
    for line in stdin.lock().lines() {
        let line = line.unwrap();
        let line = line.trim();
        if line.is_empty() || line.starts_with('#') {
            continue;
        }
        let mut it = line.split_whitespace();
        let id = it.next().unwrap().to_string();
        let op = it.next().unwrap_or("").to_string();
        let args: Vec<String> = it.map(|s| s.to_string()).collect();
        // TFH_FRESH_THREAD=1: every case runs in a thread of its own, so that thread-local state of the library (caches,
        // memo cells, scratch buffers) is in its INITIAL condition for each case; the default single-thread loop covers the
        // opposite situation (state left behind by the preceding cases)
        let res = if fresh {
            std::thread::Builder::new()
                .stack_size(512 << 20)
                .spawn(move || panic::catch_unwind(move || run(&op, &args)).unwrap_or_else(|_| "PANIC".to_string()))
                .unwrap()
                .join()
                .unwrap_or_else(|_| "PANIC".to_string())
        } else {
            panic::catch_unwind(move || run(&op, &args)).unwrap_or_else(|_| "PANIC".to_string())
        };
        writeln!(out, "{} {}", id, res).unwrap();
        out.flush().unwrap();
    }
}

pub fn u64s(args: &[String]) -> Vec<u64> {
    args.iter().map(|s| s.parse::<u64>().unwrap()).collect()
}
