//! tfh - correspondence harness: runs the real twenty-first implementation on case files.
//! Usage: tfh <property> < cases ; each input line `<id> <op> <args...>` yields one output line `<id> <result>`.
use std::io::{BufRead, Write};
use std::panic;

mod c01;

fn main() {
    let prop = std::env::args().nth(1).expect("property id");
    panic::set_hook(Box::new(|_| {}));
    let stdin = std::io::stdin();
    let stdout = std::io::stdout();
    let mut out = std::io::BufWriter::new(stdout.lock());
    for line in stdin.lock().lines() {
        let line = line.unwrap();
        let line = line.trim();
        if line.is_empty() || line.starts_with('#') {
            continue;
        }
        let mut it = line.split_whitespace();
        let id = it.next().unwrap().to_string();
        let op = it.next().unwrap_or("").to_string();
        let args: Vec<String> = it.map(|s| s.to_string()).collect();
        let p = prop.clone();
        let res = panic::catch_unwind(move || match p.as_str() {
            "c01" => c01::run(&op, &args),
            _ => panic!("unknown property"),
        });
        let res = res.unwrap_or_else(|_| "PANIC".to_string());
        writeln!(out, "{} {}", id, res).unwrap();
    }
}

pub fn u64s(args: &[String]) -> Vec<u64> {
    args.iter().map(|s| s.parse::<u64>().unwrap()).collect()
}
