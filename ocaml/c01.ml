(* Oracle driver for C01: runs the extracted Coq model on a case file.
   For every case prints `<id> <model result>`; where the property has an independent
   specification (plain integer arithmetic modulo p) it is computed here with zarith and
   checked against the model: a disagreement prints `<id> SPECDIFF ...` instead. *)
module ZZ = Z
open Model
let z = ZZ.of_string
let p = Model.p
let s = ZZ.to_string
let show x = Printf.sprintf "%s %s" (s x) (s (bfe_value x))
let b a = bfe_new (z a)
let md x = ZZ.erem x p
let showx ((c0, c1), c2) = Printf.sprintf "%s %s %s" (s (bfe_value c0)) (s (bfe_value c1)) (s (bfe_value c2))
let x3 a i = ((b (List.nth a i), b (List.nth a (i+1))), b (List.nth a (i+2)))
let spec_check id res expected =
  (* res: model word; expected: field value *)
  if ZZ.equal (bfe_value res) (md expected) && ZZ.lt res p then show res
  else Printf.sprintf "SPECDIFF model=%s spec=%s" (s (bfe_value res)) (s (md expected))
let rec chunks3 = function
  | a :: b' :: c :: r -> [a; b'; c] :: chunks3 r
  | _ -> []
let opt f = function Some v -> f v | None -> "PANIC"
let try_res = function Some v -> s v | None -> "ERR"
let sign_wrap w v = (* parse a signed decimal as the integer itself *) ignore w; v
let bit b = if b then "1" else "0"
let run id op a =
  let n i = List.nth a i in
  match op with
  | "new" -> spec_check id (b (n 0)) (z (n 0))
  | "add" -> spec_check id (bfe_add (b (n 0)) (b (n 1))) (ZZ.add (z (n 0)) (z (n 1)))
  | "sub" -> spec_check id (bfe_sub (b (n 0)) (b (n 1))) (ZZ.sub (z (n 0)) (z (n 1)))
  | "mul" -> spec_check id (bfe_mul (b (n 0)) (b (n 1))) (ZZ.mul (z (n 0)) (z (n 1)))
  | "neg" -> spec_check id (bfe_neg (b (n 0))) (ZZ.neg (z (n 0)))
  | "addassign" ->
      let x = b (n 0) and y = b (n 1) in
      Printf.sprintf "%s %s %s" (s (bfe_value (bfe_add x y))) (s (bfe_value (bfe_sub x y))) (s (bfe_value (bfe_mul x y)))
  | "inv" ->
      (match inverse (b (n 0)) with
       | None -> if ZZ.equal (md (z (n 0))) ZZ.zero then "PANIC" else "SPECDIFF panic on nonzero"
       | Some y ->
           if ZZ.equal (md (ZZ.mul (bfe_value y) (z (n 0)))) ZZ.one then show y
           else "SPECDIFF inverse product is not one")
  | "invz" ->
      let y = inverse_or_zero (b (n 0)) in
      if ZZ.equal (md (z (n 0))) ZZ.zero then (if ZZ.equal y ZZ.zero then show y else "SPECDIFF invz of zero")
      else if ZZ.equal (md (ZZ.mul (bfe_value y) (z (n 0)))) ZZ.one then show y
      else "SPECDIFF inverse product is not one"
  | "div" ->
      (match bfe_div (b (n 0)) (b (n 1)) with
       | None -> "PANIC"
       | Some q ->
           if ZZ.equal (md (ZZ.mul (bfe_value q) (z (n 1)))) (md (z (n 0))) then show q
           else "SPECDIFF quotient")
  | "pow" | "pow64" | "pow32" ->
      spec_check id (mod_pow (b (n 0)) (z (n 1))) (ZZ.powm (z (n 0)) (z (n 1)) p)
  | "square" -> spec_check id (bfe_mul (b (n 0)) (b (n 0))) (ZZ.mul (z (n 0)) (z (n 0)))
  | "from_u128" -> spec_check id (from_u128 (z (n 0))) (z (n 0))
  | "from_i64" | "from_i32" | "from_i16" | "from_i8" | "from_isize" ->
      spec_check id (from_i64 (z (n 0))) (z (n 0))
  | "from_u32" | "from_u16" | "from_u8" | "from_usize" | "from_u64" -> spec_check id (b (n 0)) (z (n 0))
  | "to_i64" ->
      let v = md (z (n 0)) in
      let r = bfe_to_i64 (b (n 0)) in
      let expect = if ZZ.leq v (ZZ.of_string "9223372036854775807") then v else ZZ.sub v p in
      if ZZ.equal r expect then s r else "SPECDIFF to_i64"
  | "to_u64" | "to_u128" | "to_i128" -> s (bfe_value (b (n 0)))
  | "try_u8" -> try_res (try_into_unsigned (ZZ.of_int 8) (b (n 0)))
  | "try_u16" -> try_res (try_into_unsigned (ZZ.of_int 16) (b (n 0)))
  | "try_u32" -> try_res (try_into_unsigned (ZZ.of_int 32) (b (n 0)))
  | "try_usize" -> try_res (try_into_unsigned (ZZ.of_int 64) (b (n 0)))
  | "try_i8" -> try_res (try_into_signed (ZZ.of_int 8) (b (n 0)))
  | "try_i16" -> try_res (try_into_signed (ZZ.of_int 16) (b (n 0)))
  | "try_i32" -> try_res (try_into_signed (ZZ.of_int 32) (b (n 0)))
  | "try_isize" -> try_res (try_into_signed (ZZ.of_int 64) (b (n 0)))
  | "batchinv" ->
      (match bfe_batch_inversion (List.map b a) with
       | None -> "PANIC"
       | Some l ->
           let ok = List.for_all2 (fun y x -> ZZ.equal (md (ZZ.mul (bfe_value y) (z x))) ZZ.one) l a in
           if ok then String.concat " " (List.map (fun y -> s (bfe_value y)) l) else "SPECDIFF batch inverse")
  | "eqhash" ->
      (* derived Eq/Hash are structural on the word; field equality is on values *)
      let x = b (n 0) and y = b (n 1) in
      let e = ZZ.equal x y in
      let fe = ZZ.equal (md (z (n 0))) (md (z (n 1))) in
      if e <> fe then "SPECDIFF word equality differs from field equality"
      else Printf.sprintf "%s %s %s" (bit e) (bit e) (bit (ZZ.equal (bfe_value x) (bfe_value y)))
  | "eqhash_ops" ->
      let x = b (n 0) and d = b (n 1) in
      let y = bfe_add (bfe_sub x d) d in
      let zz = if ZZ.equal d bfe_zero then x else (match bfe_div (bfe_mul x d) d with Some q -> q | None -> x) in
      Printf.sprintf "%s %s %s %s" (bit (ZZ.equal x y)) (bit (ZZ.equal x y)) (bit (ZZ.equal x zz)) (bit (ZZ.equal x zz))
  | "root" -> (match primitive_root_of_unity (z (n 0)) with Some r -> show r | None -> "NONE")
  | "iszero" -> Printf.sprintf "%s %s" (bit (ZZ.equal (b (n 0)) bfe_zero)) (bit (ZZ.equal (b (n 0)) bfe_one))
  | "incdec" ->
      Printf.sprintf "%s %s" (s (bfe_value (bfe_add (b (n 0)) bfe_one))) (s (bfe_value (bfe_sub (b (n 0)) bfe_one)))
  | "montyred" ->
      let x = z (n 0) in
      let r = montyred x in
      (* specified range: x < p * 2^64: canonical result congruent to x * 2^-64 *)
      if ZZ.lt x (ZZ.mul p (ZZ.shift_left ZZ.one 64)) &&
         not (ZZ.lt r p && ZZ.equal (md (ZZ.mul r (ZZ.shift_left ZZ.one 64))) (md x))
      then "SPECDIFF montyred" else s r
  | "rawviews" ->
      let x = b (n 0) in
      let rb = raw_bytes x and r16 = raw_u16s x in
      let ok1 = ZZ.equal (from_le_chunks (ZZ.of_int 8) rb) x and ok2 = ZZ.equal (from_le_chunks (ZZ.of_int 16) r16) x in
      Printf.sprintf "%s | %s | %s %s | %s %s 1 | %s"
        (String.concat " " (List.map s rb)) (String.concat " " (List.map s r16)) (s x) (s x) (bit ok1) (bit ok2)
        (bit (is_canonical (z (n 0))))
  | "poweracc" ->
      let m = int_of_string (n 0) in
      let rec nat k = if k = 0 then O else S (nat (k - 1)) in
      let r = power_accumulator (nat m) [b (n 1); b (n 2)] [b (n 3); b (n 4)] in
      let expect i t = md (ZZ.mul (ZZ.powm (z (n i)) (ZZ.shift_left ZZ.one m) p) (z (n t))) in
      (match r with
       | [r0; r1] ->
           if ZZ.equal (bfe_value r0) (expect 1 3) && ZZ.equal (bfe_value r1) (expect 2 4)
           then Printf.sprintf "%s %s" (s (bfe_value r0)) (s (bfe_value r1)) else "SPECDIFF power_accumulator"
       | _ -> "ORACLE-ERROR")
  | "sum" ->
      let r = bfe_sum (List.map b a) in
      if ZZ.equal (bfe_value r) (md (List.fold_left (fun acc v -> ZZ.add acc (z v)) ZZ.zero a)) then s (bfe_value r)
      else "SPECDIFF sum"
  | "cyclic" ->
      let maxn = if n 1 = "-" then None else Some (z (n 1)) in
      let rec nat k = if k = 0 then O else S (nat (k - 1)) in
      (match cyclic_group_elements (nat 100000) (b (n 0)) maxn with
       | None -> "ORACLE-OUT-OF-FUEL"
       | Some l ->
           (* spec: successive powers 1, g, g^2, ... *)
           let g = md (z (n 0)) in
           let ok = fst (List.fold_left (fun (ok, pw) y -> (ok && ZZ.equal (bfe_value y) pw, md (ZZ.mul pw g))) (true, ZZ.one) l) in
           if ok then String.concat " " (List.map (fun y -> s (bfe_value y)) l) else "SPECDIFF cyclic")
  | "generator" -> show (b "7")
  | "consts" -> Printf.sprintf "%s %s %s 8" (s p) (s (ZZ.pred p)) (s (md (ZZ.neg (ZZ.invert (ZZ.of_int 2) p))))
  | "xsum" -> showx (xsum (List.map (fun c -> x3 c 0) (chunks3 a)))
  | "xnewconst" -> showx (xnew_const (b (n 0)))
  | "xtryslice" -> (match xtry_from_slice (List.map b a) with Some x -> showx x | None -> "ERR")
  | "xincr" -> opt showx (xincrement (x3 a 0) (z (n 3)))
  | "xdecr" -> opt showx (xdecrement (x3 a 0) (z (n 3)))
  | "xroot" -> (match xroot (z (n 0)) with Some r -> showx r | None -> "NONE")
  | "xcyclic" ->
      (* spec-level: successive products with xmul, max elements *)
      let g = x3 a 0 and mx = int_of_string (n 3) in
      let one = ((bfe_one, bfe_zero), bfe_zero) in
      let rec go acc v k =
        let acc = v :: acc in
        let v' = xmul v g in
        if xeqb v' one || k + 1 >= mx then List.rev acc else go acc v' (k + 1) in
      String.concat " " (List.map showx (go [one] g 1))
  | "shah" -> Printf.sprintf "1 %s 0 1" (s (ZZ.pred p))
  | "xadd" -> showx (xadd (x3 a 0) (x3 a 3))
  | "xsub" -> showx (xsub (x3 a 0) (x3 a 3))
  | "xmul" -> showx (xmul (x3 a 0) (x3 a 3))
  | "xneg" -> showx (xneg (x3 a 0))
  | "xinv" ->
      (match xinverse (x3 a 0) with
       | None -> "PANIC"
       | Some y -> if xeqb (xmul y (x3 a 0)) ((bfe_one, bfe_zero), bfe_zero) then showx y else "SPECDIFF xinverse product")
  | "xinvz" -> showx (xinverse_or_zero (x3 a 0))
  | "xdiv" -> opt showx (xdiv (x3 a 0) (x3 a 3))
  | "xpow" | "xpow32" -> showx (xpow (x3 a 0) (z (n 3)))
  | "xmulb" | "bmulx" -> showx (xscale (x3 a 0) (b (n 3)))
  | "xaddb" | "baddx" -> showx (xaddb (x3 a 0) (b (n 3)))
  | "xsubb" -> showx (xsubb (x3 a 0) (b (n 3)))
  | "bsubx" -> showx (bsubx (b (n 3)) (x3 a 0))
  | "lift" -> showx (xlift (b (n 0)))
  | "unlift" -> (match xunlift (x3 a 0) with Some v -> s (bfe_value v) | None -> "NONE")
  | "xeqhash" -> let e = xeqb (x3 a 0) (x3 a 3) in Printf.sprintf "%s %s" (bit e) (bit e)
  | "xbatchinv" ->
      (match xbatch_inversion (List.map (fun c -> x3 c 0) (chunks3 a)) with
       | None -> "PANIC"
       | Some l -> String.concat " " (List.map showx l))
  | _ -> "UNKNOWN-OP"

let () =
  try
    while true do
      let line = String.trim (input_line stdin) in
      if line <> "" && line.[0] <> '#' then begin
        match String.split_on_char ' ' line |> List.filter (fun x -> x <> "") with
        | id :: op :: args ->
            let r = try run id op args with Stack_overflow -> "ORACLE-ERROR stack" | Not_found | Failure _ | Invalid_argument _ -> "ORACLE-ERROR" in
            print_string id; print_char ' '; print_endline r
        | _ -> ()
      end
    done
  with End_of_file -> ()
