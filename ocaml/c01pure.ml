(* Driver for the PURE extraction of the C01 model (no zarith inside the model): zarith is used only here, to convert
   decimal strings to and from Coq's binary integers.  Supports a subset of the C01 ops; prints in the format of c01.ml. *)
module ZZ = Z
open Model
let rec pos_of (n : ZZ.t) : positive =
  if ZZ.equal n ZZ.one then XH
  else if ZZ.equal (ZZ.logand n ZZ.one) ZZ.zero then XO (pos_of (ZZ.shift_right n 1)) else XI (pos_of (ZZ.shift_right n 1))
let z_of (n : ZZ.t) : z = if ZZ.equal n ZZ.zero then Z0 else if ZZ.gt n ZZ.zero then Zpos (pos_of n) else Zneg (pos_of (ZZ.neg n))
let rec zz_of_pos = function XH -> ZZ.one | XO p -> ZZ.shift_left (zz_of_pos p) 1 | XI p -> ZZ.succ (ZZ.shift_left (zz_of_pos p) 1)
let zz_of = function Z0 -> ZZ.zero | Zpos p -> zz_of_pos p | Zneg p -> ZZ.neg (zz_of_pos p)
let z s = z_of (ZZ.of_string s)
let s x = ZZ.to_string (zz_of x)
let b a = bfe_new (z a)
let show x = Printf.sprintf "%s %s" (s x) (s (bfe_value x))
let showx ((c0, c1), c2) = Printf.sprintf "%s %s %s" (s (bfe_value c0)) (s (bfe_value c1)) (s (bfe_value c2))
let x3 a i = ((b (List.nth a i), b (List.nth a (i+1))), b (List.nth a (i+2)))
let run op a =
  let n i = List.nth a i in
  match op with
  | "new" -> show (b (n 0))
  | "add" -> show (bfe_add (b (n 0)) (b (n 1)))
  | "sub" -> show (bfe_sub (b (n 0)) (b (n 1)))
  | "mul" -> show (bfe_mul (b (n 0)) (b (n 1)))
  | "neg" -> show (bfe_neg (b (n 0)))
  | "inv" -> (match inverse (b (n 0)) with None -> "PANIC" | Some y -> show y)
  | "pow" -> show (mod_pow (b (n 0)) (z (n 1)))
  | "from_u128" -> show (from_u128 (z (n 0)))
  | "from_i64" -> show (from_i64 (z (n 0)))
  | "to_i64" -> s (bfe_to_i64 (b (n 0)))
  | "montyred" -> s (montyred (z (n 0)))
  | "xmul" -> showx (xmul (x3 a 0) (x3 a 3))
  | "xinv" -> (match xinverse (x3 a 0) with None -> "PANIC" | Some y -> showx y)
  | _ -> "SKIP"
let () =
  try
    while true do
      let line = String.trim (input_line stdin) in
      if line <> "" && line.[0] <> '#' then begin
        match String.split_on_char ' ' line |> List.filter (fun x -> x <> "") with
        | id :: op :: args -> print_string id; print_char ' '; print_endline (try run op args with _ -> "ORACLE-ERROR")
        | _ -> ()
      end
    done
  with End_of_file -> ()
