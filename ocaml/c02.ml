(* Oracle driver for C02: the extracted Coq model of Tip5 (Montgomery words) on states given as field values.
   Prints the model's raw words; before that it checks them against the extracted value-level SPECIFICATION
   (spec/Tip5Spec.v): every word canonical and its value equal to the spec's value; a disagreement prints
   `SPECDIFF ...` instead (which can never equal an implementation output). *)
module ZZ = Z
open Model
let z = ZZ.of_string
let s = ZZ.to_string
let words a = List.map (fun x -> bfe_new (z x)) a
let vals a = List.map (fun x -> ZZ.erem (z x) spec_p) a
let show l = String.concat " " (List.map s l)
let rec take n l = if n = 0 then [] else match l with [] -> [] | x :: r -> x :: take (n - 1) r
let rec drop n l = if n = 0 then l else match l with [] -> [] | _ :: r -> drop (n - 1) r
let agrees model spec =
  List.length model = List.length spec
  && List.for_all2 (fun w v -> ZZ.lt w p && ZZ.geq w ZZ.zero && ZZ.equal (bfe_value w) v) model spec
let checked model spec extra =
  if agrees model spec then show (model @ extra)
  else Printf.sprintf "SPECDIFF model=[%s] spec=[%s]" (show (List.map bfe_value model)) (show spec)
let need n a = if List.length a <> n then failwith "arity"
let run op a =
  match op with
  | "perm" -> need 16 a; checked (permutation (words a)) (spec_permutation (vals a)) []
  | "trace" ->
      need 16 a;
      let t = trace (words a) in
      let last = List.nth t (List.length t - 1) in
      checked (List.concat t) (List.concat (spec_trace (vals a))) last
  | "hash10" -> need 10 a; checked (hash_10 (words a)) (spec_hash_10 (vals a)) []
  | "hashpair" ->
      need 10 a;
      checked (hash_pair (take 5 (words a)) (drop 5 (words a))) (spec_hash_pair (take 5 (vals a)) (drop 5 (vals a))) []
  | "digest_hash" -> need 5 a; checked (digest_hash (words a)) (spec_digest_hash (vals a)) []
  | _ -> "UNKNOWN-OP"

let () =
  try
    while true do
      let line = String.trim (input_line stdin) in
      if line <> "" && line.[0] <> '#' then begin
        match String.split_on_char ' ' line |> List.filter (fun x -> x <> "") with
        | id :: op :: args ->
            let r = try run op args with Stack_overflow -> "ORACLE-ERROR stack" | Not_found | Failure _ | Invalid_argument _ -> "ORACLE-ERROR" in
            print_string id; print_char ' '; print_endline r
        | _ -> ()
      end
    done
  with End_of_file -> ()
