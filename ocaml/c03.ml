(* Oracle driver for C03 / C13 (codec model, coq/model/Codec.v extracted to gen_c03/model.ml).
   Case lines:  <id> <op> <type-id> <ty-term> <numbers...>     (the type-id is for the Rust harness; ignored here)
     dec    decode;  `OK <encode of the decoded value>` | ERR | PANIC
            (model-internal sanity: an accepted value must satisfy has_type, otherwise SPECDIFF)
     decm   verdict and the model's slot count:  `OK C=<cost>` ...
     slen   static_length
     polyb / polyx  (no type id / term) encode of Polynomial::new(raw coefficients)
   ty-term syntax: bfe u8 u16 u32 u64 u128 bool ph box(T) opt(T) vec(T) arr(N,T) tup(T,..) poly(T) u32s(N)
                   struct(T,..) enum(v(T,..),..)  *)
module ZZ = Z
open Model

let z = ZZ.of_string
let s = ZZ.to_string

(* ---- ty-term parser *)
exception Parse of string
let parse_ty (str : string) : ty =
  let n = String.length str in
  let pos = ref 0 in
  let peek () = if !pos < n then str.[!pos] else '\000' in
  let expect c = if peek () = c then incr pos else raise (Parse (Printf.sprintf "expected %c at %d in %s" c !pos str)) in
  let ident () =
    let st = !pos in
    while !pos < n && (match str.[!pos] with 'a' .. 'z' | '0' .. '9' -> true | _ -> false) do incr pos done;
    String.sub str st (!pos - st) in
  let rec ty () =
    let id = ident () in
    match id with
    | "bfe" -> TBfe | "u8" -> TU8 | "u16" -> TU16 | "u32" -> TU32 | "u64" -> TU64 | "u128" -> TU128
    | "bool" -> TBool | "ph" -> TPhantom
    | "box" -> expect '('; let t = ty () in expect ')'; TBox t
    | "opt" -> expect '('; let t = ty () in expect ')'; TOption t
    | "vec" -> expect '('; let t = ty () in expect ')'; TVec t
    | "poly" -> expect '('; let t = ty () in expect ')'; TPoly t
    | "arr" -> expect '('; let k = ident () in expect ','; let t = ty () in expect ')'; TArray (z k, t)
    | "u32s" -> expect '('; let k = ident () in expect ')'; TU32s (z k)
    | "tup" -> expect '('; let ts = tys () in expect ')'; TTuple ts
    | "struct" -> expect '('; let ts = tys () in expect ')'; TStruct ts
    | "enum" -> expect '('; let vs = variants () in expect ')'; TEnum vs
    | _ -> raise (Parse ("unknown type constructor `" ^ id ^ "` in " ^ str))
  and tys () =
    if peek () = ')' then [] else
    let t = ty () in
    if peek () = ',' then (incr pos; t :: tys ()) else [t]
  and variants () =
    if peek () = ')' then [] else begin
      let id = ident () in
      if id <> "v" then raise (Parse "variant expected");
      expect '('; let ts = tys () in expect ')';
      if peek () = ',' then (incr pos; ts :: variants ()) else [ts]
    end in
  let t = ty () in
  if !pos <> n then raise (Parse ("trailing input in " ^ str));
  t

let memo : (string, ty) Hashtbl.t = Hashtbl.create 512
let ty_of str = match Hashtbl.find_opt memo str with
  | Some t -> t
  | None -> let t = parse_ty str in Hashtbl.add memo str t; t

let nums l = String.concat "" (List.map (fun x -> " " ^ s x) l)
let rec drop k l = if k = 0 then l else match l with [] -> [] | _ :: r -> drop (k - 1) r
let verdict = function Ok _ -> "OK" | Err -> "ERR" | Panic -> "PANIC"

let run op a =
  match op with
  | "polyb" | "polybB" ->
      let cs = List.map (fun x -> VInt (z x)) a in
      "OK" ^ nums (encode (TPoly TBfe) (VList cs))
  | "polybBv" ->
      let cs = List.map (fun x -> VInt (z x)) a in
      "OK" ^ nums (encode (TVec (TPoly TBfe)) (VList [VList cs; VList cs]))
  | "polyxBv" ->
      let rec tr = function
        | a0 :: a1 :: a2 :: r -> VList [VList [VInt (z a0); VInt (z a1); VInt (z a2)]] :: tr r
        | _ -> [] in
      "OK" ^ nums (encode (TVec (TPoly tXfe)) (VList [VList (tr a); VList (tr a)]))
  | "polyx" | "polyxB" ->
      let rec tr = function
        | a0 :: a1 :: a2 :: r -> VList [VList [VInt (z a0); VInt (z a1); VInt (z a2)]] :: tr r
        | _ -> [] in
      "OK" ^ nums (encode (TPoly tXfe) (VList (tr a)))
  | _ ->
      let t = ty_of (List.nth a 1) in
      let sq = List.map z (drop 2 a) in
      (* decw <tid> <type> <n1> <n1 warm-up elements> <rest>: the verdict and cost are those of decm on <rest> *)
      let (op, sq) = if op = "decw" then ("decm", drop (1 + ZZ.to_int (List.hd sq)) sq) else (op, sq) in
      (match op with
       | "dec" | "decv" ->
           let r = decode false t sq in
           let r' = decode true t sq in
           if verdict r <> verdict r' then "SPECDIFF release/checked models differ"
           else (match r with
                 | Ok v ->
                     if not (has_type t v) then "SPECDIFF model accepted an ill-typed value"
                     else "OK" ^ nums (encode t v)
                 | Err -> "ERR"
                 | Panic -> "PANIC")
       | "decm" | "decx" ->
           let r = decode false t sq in
           Printf.sprintf "%s C=%s K=%s W=%s" (verdict r) (s (cost t sq)) (s (cost_coeff t))
             (if no_width0_list t then "0" else "1")
       | "slen" -> (match static_length t with Some l -> s l | None -> "NONE")
       | _ -> "BADOP")

let () =
  try
    while true do
      let line = String.trim (input_line stdin) in
      if line <> "" && line.[0] <> '#' then begin
        match String.split_on_char ' ' line |> List.filter (fun x -> x <> "") with
        | id :: op :: a ->
            let res = try run op a with
              | Parse m -> "PARSE-ERROR " ^ m
              | Stack_overflow -> "ORACLE-STACK-OVERFLOW"
              | Failure m -> "ORACLE-FAILURE " ^ m
              | Invalid_argument m -> "ORACLE-FAILURE " ^ m in
            print_string (id ^ " " ^ res ^ "\n")
        | _ -> ()
      end
    done
  with End_of_file -> ()
