(* Oracle driver for C04 / C10: runs the extracted Merkle model (free hash) on a case file.
   Per case prints  `<id> <model, release mode> ## <model, checked mode> ## <spec>`
   where <spec> is the result demanded by the independent specification (spec/MerkleSpec.v),
   or `-` where the naive specification is not executed (heights above 13); the model columns are
   `-` for `build` above 2^14 leafs (quadratic list model; covered by theorem C10_build_spec).
   Term syntax and the `t(n,ls,x)` abbreviation: see harness/src/bin/c04.rs. *)
module ZZ = Z
open Model

let z = ZZ.of_string
let zi = ZZ.of_int
let rec nat_of_int n = if n <= 0 then O else S (nat_of_int (n - 1))

(* ---------------------------------------------------------------- terms *)
let rec show_into b = function
  | Atom k -> Buffer.add_char b 'a'; Buffer.add_string b (ZZ.to_string k)
  | Dflt -> Buffer.add_char b 'D'
  | Node (l, r) -> Buffer.add_string b "N("; show_into b l; Buffer.add_char b ','; show_into b r; Buffer.add_char b ')'
let show t = let b = Buffer.create 64 in show_into b t; Buffer.contents b
let shows ts = String.concat " " (List.map show ts)

let leaf_of ls j =
  let v = int_of_string (String.sub ls 1 (String.length ls - 1)) in
  match ls.[0] with
  | 's' -> Atom (zi (v + j))
  | 'c' -> Atom (zi v)
  | 'm' -> Atom (zi (j mod v))
  | _ -> failwith "bad leaf spec"
let leafs_of n ls = List.init n (leaf_of ls)

(* term abbreviation t(n,ls,x): computed here directly, independent of the model *)
let abbrev : (int * string, term array) Hashtbl.t = Hashtbl.create 16
let abbrev_tree n ls =
  match Hashtbl.find_opt abbrev (n, ls) with
  | Some a -> a
  | None ->
      let a = Array.make (2 * n) Dflt in
      for j = 0 to n - 1 do a.(n + j) <- leaf_of ls j done;
      for x = n - 1 downto 1 do a.(x) <- Node (a.(2 * x), a.(2 * x + 1)) done;
      Hashtbl.add abbrev (n, ls) a; a

let parse_term (s : string) : term =
  let pos = ref 0 in
  let num () =
    let st = !pos in
    while !pos < String.length s && s.[!pos] >= '0' && s.[!pos] <= '9' do incr pos done;
    String.sub s st (!pos - st) in
  let rec go () =
    match s.[!pos] with
    | 'a' -> incr pos; Atom (z (num ()))
    | 'D' -> incr pos; Dflt
    | 'N' -> pos := !pos + 2; let a = go () in incr pos; let b = go () in incr pos; Node (a, b)
    | 't' ->
        pos := !pos + 2;
        let n = int_of_string (num ()) in
        incr pos;
        let st = !pos in
        while s.[!pos] <> ',' do incr pos done;
        let ls = String.sub s st (!pos - st) in
        incr pos;
        let x = int_of_string (num ()) in
        incr pos;
        (abbrev_tree n ls).(x)
    | _ -> failwith "bad term" in
  let t = go () in
  if !pos <> String.length s then failwith "trailing characters in term";
  t

(* ---------------------------------------------------------------- result formatting *)
let fnv (s : string) : string =
  let h = ref 0xcbf29ce484222325L in
  String.iter (fun c -> h := Int64.mul (Int64.logxor !h (Int64.of_int (Char.code c))) 0x100000001b3L) s;
  Printf.sprintf "%016Lx" !h
let fin s = if String.length s > 2000 then Printf.sprintf "FP%d:%s" (String.length s) (fnv s) else s

let cur_leaf_fixed = cUR_LEAF_FIXED
let cur_cutoff_fixed = cUR_CUTOFF_FIXED
let default_cutoff = zi 256

let show_il il = String.concat " " (List.map (fun (i, d) -> ZZ.to_string i ^ ":" ^ show d) il)
let show_proof p =
  Printf.sprintf "h=%s L=[%s] A=[%s]" (ZZ.to_string (t_ip_height p)) (show_il (t_ip_leafs p)) (shows (t_ip_auth p))
let show_paths ps = String.concat "" (List.map (fun p -> "[" ^ shows p ^ "]") ps)
let out f = function Ok v -> f v | Err -> "ERR" | Panic -> "PANIC" | OutOfFuel -> "FUEL"

(* the model's tree over (n, ls), built with the default cutoff *)
let trees : (int * string, term list option) Hashtbl.t = Hashtbl.create 16
let model_tree n ls =
  match Hashtbl.find_opt trees (n, ls) with
  | Some t -> t
  | None ->
      let ds = leafs_of n ls in
      let t = match t_from_digests cur_cutoff_fixed default_cutoff (t_build_fuel ds) ds with
        | Ok t -> Some t | _ -> None in
      Hashtbl.add trees (n, ls) t; t
let spec_trees : (int * string, term list) Hashtbl.t = Hashtbl.create 16
let spec_tree_of n ls =
  match Hashtbl.find_opt spec_trees (n, ls) with
  | Some t -> t
  | None -> let t = s_spec_tree (leafs_of n ls) in Hashtbl.add spec_trees (n, ls) t; t

let is_pow2 n = n > 0 && n land (n - 1) = 0
let rec ilog2 n = if n <= 1 then 0 else 1 + ilog2 (n / 2)

let show_tree m t =
  match t_num_leafs m t, t_height m t, t_root t with
  | Ok n, Ok h, Ok r ->
      Printf.sprintf "T %s %s %s | %s | %s" (ZZ.to_string n) (ZZ.to_string h) (show r) (shows t) (shows (t_leafs t))
  | _ -> "PANIC"

let parse_proof a =
  (* <h> <k> (<i> <term>){k} <auth>* *)
  let h = z (List.nth a 0) in
  let k = int_of_string (List.nth a 1) in
  let arr = Array.of_list a in
  let il = List.init k (fun j -> (z arr.(2 + 2 * j), parse_term arr.(3 + 2 * j))) in
  let auth = List.map parse_term (Array.to_list (Array.sub arr (2 + 2 * k) (Array.length arr - 2 - 2 * k))) in
  t_mkproof h il auth

let spec_limit = zi 13

(* returns (release, checked, spec) *)
let run op a : string * string * string =
  let nth i = List.nth a i in
  let both f = (f Release, f Checked) in
  match op with
  | "build" ->
      let cutoff = z (nth 0) and n = int_of_string (nth 1) and ls = nth 2 in
      let ds = leafs_of n ls in
      (* above 2^14 leafs the list-based model is too slow to execute (quadratic); the specification is
         still computed, and model = specification is theorem C10_build_spec *)
      let f m = if n > 16384 then "-" else
        match t_from_digests cur_cutoff_fixed cutoff (t_build_fuel ds) ds with
        | Ok t -> show_tree m t | Err -> "ERR" | Panic -> "PANIC" | OutOfFuel -> "FUEL" in
      let (r, c) = both f in
      let spec = if not (is_pow2 n) then "ERR" else begin
          let t = s_spec_tree ds in
          Printf.sprintf "T %d %d %s | %s | %s" n (ilog2 n) (show (List.nth t 1)) (shows t) (shows ds) end in
      (r, c, spec)
  | "node" | "leaf" | "ileafs" | "auth" | "proof" | "honest" ->
      let n = int_of_string (nth 0) and ls = nth 1 in
      let idx = List.map z (List.tl (List.tl a)) in
      (match model_tree n ls with
       | None -> ("BUILDERR", "BUILDERR", "BUILDERR")
       | Some t ->
           let st = spec_tree_of n ls in
           let sa = Array.of_list st in
           let zn = zi n in
           let h = ilog2 n in
           let in_range i = ZZ.lt i zn in
           let sleaf i = sa.(n + ZZ.to_int i) in
           let opt = function Some d -> show d | None -> "NONE" in
           let f m = match op with
             | "node" -> opt (t_node t (List.hd idx))
             | "leaf" -> out opt (t_leaf cur_leaf_fixed m t (List.hd idx))
             | "ileafs" -> out (fun v -> "OK " ^ show_il v) (t_indexed_leafs cur_leaf_fixed m t idx)
             | "auth" -> out (fun v -> "OK " ^ shows v) (t_auth_structure m t idx)
             | "proof" -> out (fun p -> "OK " ^ show_proof p) (t_inclusion_proof cur_leaf_fixed m t idx)
             | _ ->
                 (match t_inclusion_proof cur_leaf_fixed m t idx with
                  | Ok p ->
                      (match t_root t, t_verify m p (List.nth t 1) with
                       | Ok _, Ok v ->
                           let ps = out show_paths (t_paths m p) in
                           if ps = "PANIC" then "PANIC" else
                           Printf.sprintf "OK %s V=%d P=%s" (show_proof p) (if v then 1 else 0) ps
                       | _, _ -> "PANIC")
                  | Err -> "ERR" | Panic -> "PANIC" | OutOfFuel -> "FUEL") in
           let (r, c) = both f in
           let all_ok = List.for_all in_range idx in
           let s_il () = show_il (List.map (fun i -> (i, sleaf i)) idx) in
           let s_auth () = shows (List.map (fun x -> sa.(ZZ.to_int x)) (s_minimal_list zn idx)) in
           let spec = match op with
             | "node" -> let i = List.hd idx in if ZZ.lt i (zi (2 * n)) then show sa.(ZZ.to_int i) else "NONE"
             | "leaf" -> let i = List.hd idx in if in_range i then show (sleaf i) else "NONE"
             | "ileafs" -> if all_ok then "OK " ^ s_il () else "ERR"
             | "auth" -> if all_ok then "OK " ^ s_auth () else "ERR"
             | "proof" -> if all_ok then Printf.sprintf "OK h=%d L=[%s] A=[%s]" h (s_il ()) (s_auth ()) else "ERR"
             | _ ->
                 if all_ok then
                   Printf.sprintf "OK h=%d L=[%s] A=[%s] V=1 P=%s" h (s_il ()) (s_auth ())
                     (show_paths (List.map (fun i -> s_tree_path st (ZZ.add zn i) (nat_of_int h)) idx))
                 else "ERR" in
           (r, c, spec))
  | "verify" ->
      let root = parse_term (nth 1) in
      let p = parse_proof (nth 0 :: List.tl (List.tl a)) in
      let f m = out (fun v -> if v then "1" else "0") (t_verify m p root) in
      let (r, c) = both f in
      let h = t_ip_height p in
      let spec =
        if ZZ.gt h (zi 31) then (if t_ip_leafs p = [] && t_ip_auth p = [] then "1" else "0")
        else if ZZ.gt h spec_limit then "-"
        else if s_verify p root then "1" else "0" in
      (r, c, spec)
  | "paths" ->
      let p = parse_proof a in
      let f m = out (fun ps -> "OK " ^ show_paths ps) (t_paths m p) in
      let (r, c) = both f in
      let h = t_ip_height p in
      let spec =
        if ZZ.gt h (zi 31) then "ERR"
        else if ZZ.gt h spec_limit then "-"
        else match s_paths p with Some ps -> "OK " ^ show_paths ps | None -> "ERR" in
      (r, c, spec)
  | _ -> ("UNKNOWN-OP", "UNKNOWN-OP", "UNKNOWN-OP")

let () =
  try
    while true do
      let line = String.trim (input_line stdin) in
      if line <> "" && line.[0] <> '#' then begin
        match String.split_on_char ' ' line |> List.filter (fun s -> s <> "") with
        | id :: op :: args ->
            let (r, c, s) = try run op args with e -> let m = "ORACLE-EXN " ^ Printexc.to_string e in (m, m, m) in
            let f x = if x = "-" then "-" else fin x in
            Printf.printf "%s %s ## %s ## %s\n" id (f r) (f c) (f s)
        | _ -> ()
      end
    done
  with End_of_file -> ()
