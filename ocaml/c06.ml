(* Oracle driver for C06 (NTT is the DFT; INTT its inverse).
   For every case prints `<id> <model result>`, the model being the extracted coq/model/Ntt.v run on
   Montgomery words; results are printed as field VALUES.  The independent specification - the naive
   definition  X_i = sum_j x_j w^(i j)  with plain zarith arithmetic modulo p, w the tabulated root -
   is evaluated at every output position for n <= 256 and at 32 sampled positions for larger n;
   a disagreement prints `<id> SPECDIFF ...` instead of the result.

   Case syntax:  <op> <field> <vecspec>      field = b | x (x: three base-field values per entry)
     vecspec = v a0 a1 ...            explicit u64 values (fed through BFieldElement::new)
             | unit n i c [c1 c2]     c * e_i of length n
             | const n c [c1 c2]
             | lcg n seed             pseudo-random u64s from a 64-bit LCG
             | grid n seed            boundary values selected by the LCG
   ops: ntt intt ntt_noswap intt_noswap bitreverse_order unscale ntt_spot intt_spot ; root <field> <n>
   Output of a vector: all values if it has at most 4096 entries, otherwise
     `H <len> <polynomial hash of all values> <values at the 32 sampled positions>`.
   ntt_noswap/intt_noswap depend on debug assertions: printed as `D0 <release result> | D1 <checked result>`. *)
module ZZ = Z
open Model

let z = ZZ.of_string
let s = ZZ.to_string
let p = Model.p
let md x = ZZ.erem x p
let mask64 = ZZ.pred (ZZ.shift_left ZZ.one 64)
let rec nat_of_int n = if n <= 0 then O else S (nat_of_int (n - 1))
let rec int_of_nat = function O -> 0 | S n -> 1 + int_of_nat n

(* ---------------------------------------------------------------- vector specifications *)
let lcg_a = z "6364136223846793005"
let lcg_c = z "1442695040888963407"
let lcg_next st = ZZ.logand (ZZ.add (ZZ.mul st lcg_a) lcg_c) mask64
let two32 = ZZ.shift_left ZZ.one 32
let gridvals =
  let p1 = ZZ.pred p in
  [| ZZ.zero; ZZ.one; ZZ.of_int 2; p1; ZZ.pred p1; ZZ.pred two32; two32; ZZ.succ two32;
     ZZ.sub p two32; ZZ.succ (ZZ.sub p two32); ZZ.div p1 (ZZ.of_int 2); ZZ.succ (ZZ.div p1 (ZZ.of_int 2));
     ZZ.shift_left ZZ.one 63; mask64; p; ZZ.succ p; ZZ.sub mask64 two32; ZZ.of_int 7 |]

(* returns the flat list of u64 inputs: width values per entry *)
let parse_vec width args =
  match args with
  | "v" :: vals -> Array.of_list (List.map z vals)
  | "unit" :: n :: i :: cs ->
      let n = int_of_string n and i = int_of_string i in
      let a = Array.make (n * width) ZZ.zero in
      List.iteri (fun k c -> if k < width then a.(i * width + k) <- z c) cs; a
  | "const" :: n :: cs ->
      let n = int_of_string n in
      let cs = Array.of_list (List.map z cs) in
      Array.init (n * width) (fun k -> let j = k mod width in if j < Array.length cs then cs.(j) else ZZ.zero)
  | ["lcg"; n; seed] ->
      let n = int_of_string n in
      let st = ref (z seed) in
      Array.init (n * width) (fun _ -> st := lcg_next !st; !st)
  | ["grid"; n; seed] ->
      let n = int_of_string n in
      let st = ref (z seed) in
      Array.init (n * width) (fun _ ->
        st := lcg_next !st;
        gridvals.(ZZ.to_int (ZZ.erem (ZZ.shift_right !st 33) (ZZ.of_int (Array.length gridvals)))))
  | _ -> failwith "bad vector spec"

(* ---------------------------------------------------------------- output *)
let sample_positions n =
  List.init 32 (fun j -> (j * 2654435761 + 12345) mod n)
let hash_base = ZZ.of_int 1000003
let show_values (vals : ZZ.t array) width =
  (* vals: flat values, width per entry *)
  let len = Array.length vals / width in
  if len <= 4096 then String.concat " " (Array.to_list (Array.map s vals))
  else begin
    let h = ref ZZ.zero in
    Array.iter (fun v -> h := md (ZZ.add (ZZ.mul !h hash_base) v)) vals;
    let samp = List.concat_map (fun i -> List.init width (fun k -> s vals.(i * width + k))) (sample_positions len) in
    Printf.sprintf "H %d %s %s" len (s !h) (String.concat " " samp)
  end
let show_spot (vals : int -> ZZ.t list) len =
  String.concat " " (List.concat_map (fun i -> List.map s (vals i)) (sample_positions len))

(* ---------------------------------------------------------------- the naive specification *)
let table_root n =
  (* the library's root: the tabulated value for n *)
  let rec go = function [] -> None | (k, r) :: t -> if ZZ.equal k (ZZ.of_int n) then Some (md r) else go t in
  go Model.pRIMITIVE_ROOTS
let inv_mod a = ZZ.invert a p
let is_pow2 n = n > 0 && n land (n - 1) = 0
let log2i n = let rec go k = if (1 lsl k) >= n then k else go (k + 1) in go 0
let bitrev k l = let r = ref 0 and n = ref k in for _ = 1 to l do r := (!r lsl 1) lor (!n land 1); n := !n lsr 1 done; !r
(* sum_j x.(j*width + c) * base^j  (Horner from the top) *)
let horner (x : ZZ.t array) width c len base =
  let acc = ref ZZ.zero in
  for j = len - 1 downto 0 do acc := md (ZZ.add (ZZ.mul !acc base) x.(j * width + c)) done; !acc
(* spec of op at output position i, coefficient c; x = input VALUES (already reduced) *)
let spec_at op (x : ZZ.t array) width len w i c =
  let l = log2i len in
  match op with
  | "ntt" -> horner x width c len (ZZ.powm w (ZZ.of_int i) p)
  | "intt" ->
      md (ZZ.mul (inv_mod (ZZ.of_int len)) (horner x width c len (ZZ.powm (inv_mod w) (ZZ.of_int i) p)))
  | "ntt_noswap" -> horner x width c len (ZZ.powm w (ZZ.of_int (bitrev i l)) p)
  | "intt_noswap" ->
      (* out_i = sum_j in[rev j] w^(-i j) *)
      let base = ZZ.powm (inv_mod w) (ZZ.of_int i) p in
      let acc = ref ZZ.zero in
      for j = len - 1 downto 0 do acc := md (ZZ.add (ZZ.mul !acc base) x.(bitrev j l * width + c)) done; !acc
  | "unscale" -> md (ZZ.mul (inv_mod (ZZ.of_int len)) x.(i * width + c))
  | _ -> failwith "spec_at"

(* is a panic the specified outcome?  (documented panics; dbg = debug assertions on) *)
let spec_panics op len dbg =
  match op with
  | "ntt" | "intt" -> not (len = 0 || is_pow2 len)
  | "ntt_noswap" | "intt_noswap" -> if len = 0 then dbg else not (is_pow2 len)
  | "unscale" -> len = 0
  | _ -> false

let to_words width (u : ZZ.t array) = Array.map (fun v -> bfe_new v) u
let xs_of_words (wds : ZZ.t array) =
  List.init (Array.length wds / 3) (fun i -> ((wds.(3 * i), wds.(3 * i + 1)), wds.(3 * i + 2)))
let flat_of_xs (l : xfe list) = Array.of_list (List.concat_map (fun ((a, b), c) -> [bfe_value a; bfe_value b; bfe_value c]) l)

(* bitreverse_order as the loop is written, on an OCaml array (None = index out of bounds) *)
let spec_bitreverse_order (x : ZZ.t array) width len =
  let a = Array.init len (fun i -> Array.sub x (i * width) width) in
  let l = log2i len in
  try
    for k = 0 to len - 1 do
      let rk = bitrev k l in
      if k < rk then begin
        if rk >= len then raise Exit;
        let t = a.(k) in a.(k) <- a.(rk); a.(rk) <- t
      end
    done;
    Some (Array.concat (Array.to_list a))
  with Exit -> None

let run_model op field dbg (wds : ZZ.t array) : ZZ.t array option =
  match field with
  | "b" ->
      let l = Array.to_list wds in
      let r = (match op with
        | "ntt" -> ntt_b l | "intt" -> intt_b l
        | "ntt_noswap" -> ntt_noswap_b dbg l | "intt_noswap" -> intt_noswap_b dbg l
        | "unscale" -> unscale_b l
        | "bitreverse_order" -> bitreverse_order l
        | _ -> failwith "op") in
      (match r with None -> None | Some y -> Some (Array.of_list (List.map bfe_value y)))
  | _ ->
      let l = xs_of_words wds in
      let r = (match op with
        | "ntt" -> ntt_x l | "intt" -> intt_x l
        | "ntt_noswap" -> ntt_noswap_x dbg l | "intt_noswap" -> intt_noswap_x dbg l
        | "bitreverse_order" -> bitreverse_order l
        | _ -> failwith "op") in
      (match r with None -> None | Some y -> Some (flat_of_xs y))

let check_and_show op field dbg (u : ZZ.t array) =
  let width = if field = "b" then 1 else 3 in
  let len = Array.length u / width in
  let x = Array.map md u in
  let res = run_model op field dbg (to_words width u) in
  if op = "bitreverse_order" then begin
    match res, spec_bitreverse_order x width len with
    | None, None -> "PANIC"
    | Some y, Some e -> if y = e then show_values y width else "SPECDIFF bitreverse_order"
    | None, Some _ -> "SPECDIFF model panics, spec does not"
    | Some _, None -> "SPECDIFF spec panics, model does not"
  end else begin
    let pan = spec_panics op len dbg in
    match res with
    | None -> if pan then "PANIC" else "SPECDIFF model panics, spec does not"
    | Some y ->
        if pan then "SPECDIFF spec panics, model does not"
        else if Array.length y <> Array.length x then "SPECDIFF length"
        else if len = 0 then show_values y width
        else begin
          let w = (match table_root len with Some w -> w | None -> ZZ.zero) in
          let positions = if len <= 256 then List.init len (fun i -> i) else sample_positions len in
          let bad = ref None in
          List.iter (fun i ->
            for c = 0 to width - 1 do
              if !bad = None then begin
                let e = spec_at op x width len w i c in
                if not (ZZ.equal e y.(i * width + c)) then
                  bad := Some (Printf.sprintf "SPECDIFF %s pos=%d coeff=%d model=%s spec=%s" op i c (s y.(i * width + c)) (s e))
              end
            done) positions;
          match !bad with Some m -> m | None -> show_values y width
        end
  end

let run _id op a =
  match op, a with
  | "seq", field :: ops :: spec ->
      (* composition of the model's transforms (the library functions are pure) *)
      let width = if field = "b" then 1 else 3 in
      let u = parse_vec width spec in
      let rec go (vals : ZZ.t array) = function
        | [] -> Some vals
        | o :: rest ->
            (match run_model o field false (to_words width vals) with
             | None -> None
             | Some y -> go y rest) in
      (match go (Array.map md u) (String.split_on_char ',' ops) with
       | None -> "PANIC"
       | Some y -> show_values y width)
  | "root", [field; n] ->
      let nz = z n in
      let chk r =
        (* exact order: r^n = 1 and r^(n/2) = -1 (n >= 2); the entry for 0 is 1 *)
        let n_ok = ZZ.equal (ZZ.powm r nz p) ZZ.one || ZZ.equal nz ZZ.zero in
        let h_ok = ZZ.lt nz (ZZ.of_int 2) || ZZ.equal (ZZ.powm r (ZZ.div nz (ZZ.of_int 2)) p) (ZZ.pred p) in
        n_ok && h_ok in
      if field = "b" then
        (match root_b nz with
         | None -> "NONE"
         | Some r -> let v = bfe_value r in if chk v then s v else "SPECDIFF root order " ^ s v)
      else
        (match root_x nz with
         | None -> "NONE"
         | Some ((a0, a1), a2) ->
             let v = bfe_value a0 in
             if chk v && ZZ.equal (bfe_value a1) ZZ.zero && ZZ.equal (bfe_value a2) ZZ.zero
             then Printf.sprintf "%s 0 0" (s v) else "SPECDIFF root order " ^ s v)
  | ("ntt_spot" | "intt_spot"), field :: "unit" :: n :: i0 :: cs when int_of_string n > 32768 ->
      (* very large sizes, unit vector c * e_i0: the DFT has the closed form  out_k = c * w^(i0*k)  (O(log n) per
         position), so sizes up to 2^24 are affordable in the quick tier *)
      let width = if field = "b" then 1 else 3 in
      let len = int_of_string n and i0 = int_of_string i0 in
      let cs = Array.of_list (List.map (fun c -> md (z c)) cs) in
      (match table_root len with
       | None -> "PANIC"
       | Some w ->
           let at k c =
             let cv = if c < Array.length cs then cs.(c) else ZZ.zero in
             let e = ZZ.of_int ((i0 * k) mod len) in
             if op = "ntt_spot" then md (ZZ.mul cv (ZZ.powm w e p))
             else md (ZZ.mul (ZZ.mul cv (inv_mod (ZZ.of_int len))) (ZZ.powm (inv_mod w) e p)) in
           show_spot (fun k -> List.init width (fun c -> at k c)) len)
  | ("ntt_spot" | "intt_spot"), field :: spec ->
      (* large sizes: only the specification, at the sampled positions *)
      let width = if field = "b" then 1 else 3 in
      let u = parse_vec width spec in
      let len = Array.length u / width in
      let x = Array.map md u in
      (match table_root len with
       | None -> "PANIC"
       | Some w ->
           let op' = if op = "ntt_spot" then "ntt" else "intt" in
           show_spot (fun i -> List.init width (fun c -> spec_at op' x width len w i c)) len)
  | ("ntt_noswap" | "intt_noswap"), field :: spec ->
      let width = if field = "b" then 1 else 3 in
      let u = parse_vec width spec in
      let r0 = check_and_show op field false u in
      let len = Array.length u / width in
      let r1 = if len = 0 || not (is_pow2 len) then check_and_show op field true u else r0 in
      Printf.sprintf "D0 %s | D1 %s" r0 r1
  | _, field :: spec ->
      let width = if field = "b" then 1 else 3 in
      check_and_show op field false (parse_vec width spec)
  | _ -> failwith "bad case"

let () =
  try
    while true do
      let line = input_line stdin in
      let line = String.trim line in
      if line <> "" && line.[0] <> '#' then begin
        match String.split_on_char ' ' line |> List.filter (fun t -> t <> "") with
        | id :: op :: args ->
            let r = (try run id op args with e -> "ORACLE-EXN " ^ Printexc.to_string e) in
            print_string id; print_char ' '; print_endline r
        | _ -> ()
      end
    done
  with End_of_file -> ()
