(* Oracle driver for C07 (multiplication family) and C17 (value semantics) of Polynomial.
   For every case line `<id> <op> <field> <group> | <group> ...` (same syntax as harness/src/bin/c07.rs) it
   runs the extracted Coq MODEL (model/PolyCore.v) on the RAW coefficient lists as described by the storage
   descriptors (`o<k>`/`b<k>`: k zero coefficients appended) and an independent SPEC written here with zarith
   on plain canonical values (polynomials = normalised arrays of field values; product = the O(n*m) convolution;
   extension field = Z_p[x]/(x^3 - x + 1) done by hand).  The spec never looks at the storage descriptor.
   Output: the result if model and spec agree, else `SPECDIFF model=... spec=...`. *)
module ZZ = Z
open Model

let p = Model.p
let zs = ZZ.to_string
let md x = ZZ.erem x p
let zi = ZZ.of_int

(* ------------------------------------------------------------------ fields *)
type 'f fld = {
  o : 'f fops;
  w : int;
  of_vals : ZZ.t list -> 'f;
  to_vals : 'f -> ZZ.t list;
  ntt : 'f list -> 'f list option;
  intt : 'f list -> 'f list option;
  enc : 'f -> ZZ.t list;
  dec : ZZ.t list -> 'f option;
}

let bf : ZZ.t fld = {
  o = bfe_ops; w = 1;
  of_vals = (fun l -> bfe_new (List.hd l));
  to_vals = (fun x -> [bfe_value x]);
  ntt = ntt_b;
  intt = intt_b;
  enc = bfe_enc; dec = bfe_dec;
}
let xf : xfe fld = {
  o = xfe_ops; w = 3;
  of_vals = (fun l -> match l with [a; b; c] -> ((bfe_new a, bfe_new b), bfe_new c) | _ -> failwith "xfe");
  to_vals = (fun ((a, b), c) -> [bfe_value a; bfe_value b; bfe_value c]);
  ntt = ntt_x;
  intt = intt_x;
  enc = xfe_enc; dec = xfe_dec;
}

(* ------------------------------------------------------------------ spec arithmetic on value arrays *)
type se = ZZ.t array                (* 1 entry: base field; 3 entries: extension field *)
let se_zero w = Array.make w ZZ.zero
let se_is_zero (a : se) = Array.for_all (fun x -> ZZ.equal x ZZ.zero) a
let se_eq (a : se) (b : se) = Array.length a = Array.length b && Array.for_all2 ZZ.equal a b
let widen (a : se) w = if Array.length a = w then a else Array.init w (fun i -> if i < Array.length a then a.(i) else ZZ.zero)
let se_add (a : se) (b : se) : se =
  let w = max (Array.length a) (Array.length b) in
  let a = widen a w and b = widen b w in Array.init w (fun i -> md (ZZ.add a.(i) b.(i)))
let se_neg (a : se) : se = Array.map (fun x -> md (ZZ.neg x)) a
let se_sub a b = se_add a (se_neg b)
(* unreduced product accumulated into acc (length 5 scratch), reduced later *)
let se_mul (a : se) (b : se) : se =
  let la = Array.length a and lb = Array.length b in
  if la = 1 && lb = 1 then [| md (ZZ.mul a.(0) b.(0)) |]
  else begin
    let r = Array.make 5 ZZ.zero in
    for i = 0 to la - 1 do for j = 0 to lb - 1 do r.(i + j) <- ZZ.add r.(i + j) (ZZ.mul a.(i) b.(j)) done done;
    (* x^3 = x - 1 ; x^4 = x^2 - x *)
    [| md (ZZ.sub r.(0) r.(3)); md (ZZ.sub (ZZ.add r.(1) r.(3)) r.(4)); md (ZZ.add r.(2) r.(4)) |]
  end
let se_one w = let a = se_zero w in a.(0) <- ZZ.one; a
let se_of_int w n = let a = se_zero w in a.(0) <- md n; a
let rec se_pow a (e : int) w = if e = 0 then se_one w else se_mul a (se_pow a (e - 1) w)

type sp = se array                  (* normalised: last entry non-zero *)
let sp_norm (a : se array) : sp =
  let n = ref (Array.length a) in
  while !n > 0 && se_is_zero a.(!n - 1) do decr n done;
  Array.sub a 0 !n
let sp_deg (a : sp) = Array.length a - 1
let sp_eq (a : sp) (b : sp) = Array.length a = Array.length b && Array.for_all2 se_eq a b
let sp_coeff (a : sp) w i = if i < Array.length a then a.(i) else se_zero w
let sp_add w (a : sp) (b : sp) : sp =
  sp_norm (Array.init (max (Array.length a) (Array.length b)) (fun i -> se_add (sp_coeff a w i) (sp_coeff b w i)))
let sp_sub w a b = sp_norm (Array.init (max (Array.length a) (Array.length b)) (fun i -> se_sub (sp_coeff a w i) (sp_coeff b w i)))
(* one coefficient of the product: sum_{i+j=k} a_i b_j *)
let sp_mul_coeff w (a : sp) (b : sp) k : se =
  let acc = ref (se_zero w) in
  for i = max 0 (k - (Array.length b - 1)) to min k (Array.length a - 1) do
    acc := se_add !acc (se_mul a.(i) b.(k - i))
  done; !acc
let sp_mul w (a : sp) (b : sp) : sp =
  if Array.length a = 0 || Array.length b = 0 then [||]
  else if w = 1 then begin
    (* base x base: accumulate without reduction, reduce once per cell *)
    let r = Array.make (Array.length a + Array.length b - 1) ZZ.zero in
    Array.iteri (fun i x -> Array.iteri (fun j y -> r.(i + j) <- ZZ.add r.(i + j) (ZZ.mul x.(0) y.(0))) b) a;
    sp_norm (Array.map (fun x -> [| md x |]) r)
  end else
    sp_norm (Array.init (Array.length a + Array.length b - 1) (fun k -> sp_mul_coeff w a b k))
let sp_scalar w (a : sp) (s : se) : sp = sp_norm (Array.map (fun c -> widen (se_mul c s) w) a)
let sp_one w : sp = [| se_one w |]

(* ------------------------------------------------------------------ parsing *)
let split_groups (toks : string list) : string list list =
  let rec go cur acc = function
    | [] -> List.rev (List.rev cur :: acc)
    | "|" :: r -> go [] (List.rev cur :: acc) r
    | t :: r -> go (t :: cur) acc r in
  go [] [] toks
let rec chunk n l = if l = [] then [] else
  let rec tk k l acc = if k = 0 then (List.rev acc, l) else match l with [] -> (List.rev acc, []) | x :: r -> tk (k - 1) r (x :: acc) in
  let (h, t) = tk n l [] in h :: chunk n t
let storage s = (s.[0] = 'b', int_of_string (String.sub s 1 (String.length s - 1)))
let rec rep x k = if k <= 0 then [] else x :: rep x (k - 1)
(* model raw list and spec polynomial of a polynomial group *)
let raw (f : 'f fld) (g : string list) : 'f list =
  match g with
  | [] -> []
  | d :: vs ->
      let (_, k) = storage d in
      List.map f.of_vals (chunk f.w (List.map ZZ.of_string vs)) @ rep f.o.fzero k
let spec_of (f : 'f fld) (g : string list) : sp =
  match g with
  | [] -> [||]
  | _ :: vs -> sp_norm (Array.of_list (List.map (fun c -> Array.of_list (List.map md c)) (chunk f.w (List.map ZZ.of_string vs))))
let elem (f : 'f fld) (g : string list) : 'f = f.of_vals (List.map ZZ.of_string g)
let selem (g : string list) : se = Array.of_list (List.map (fun s -> md (ZZ.of_string s)) g)
let has_stored_zeros (g : string list) = match g with d :: _ -> snd (storage d) > 0 | [] -> false

(* ------------------------------------------------------------------ printing / comparison *)
let show_se (a : se) = String.concat " " (Array.to_list (Array.map zs a))
let show_sp (a : sp) = String.concat " " (string_of_int (Array.length a) :: Array.to_list (Array.map show_se a))
let short s = if String.length s <= 20000 then s else String.sub s 0 20000 ^ "..."
let model_sp (f : 'f fld) (l : 'f list) : sp = sp_norm (Array.of_list (List.map (fun c -> Array.of_list (f.to_vals c)) l))
let model_list (f : 'f fld) (l : 'f list) : se array = Array.of_list (List.map (fun c -> Array.of_list (f.to_vals c)) l)
(* model polynomial result (None = panic) against the spec polynomial *)
let check_poly (f : 'f fld) (m : 'f list option) (s : sp) : string =
  match m with
  | None -> "SPECDIFF model=PANIC spec=" ^ short (show_sp s)
  | Some l ->
      let ms = model_sp f l in
      if sp_eq ms s then show_sp ms else "SPECDIFF model=" ^ short (show_sp ms) ^ " spec=" ^ short (show_sp s)
(* sampled check for big products: positions 0, last, and 30 spread positions *)
let check_poly_sampled (f : 'f fld) (m : 'f list option) (a : sp) (b : sp) : string =
  match m with
  | None -> "SPECDIFF model=PANIC"
  | Some l ->
      let ms = model_sp f l in
      let n = if Array.length a = 0 || Array.length b = 0 then 0 else Array.length a + Array.length b - 1 in
      if Array.length ms <> n then Printf.sprintf "SPECDIFF model-length=%d spec-length=%d" (Array.length ms) n
      else begin
        let bad = ref (-1) in
        let pos = ref [0; n - 1; n / 2; Array.length a - 1; Array.length b - 1] in
        for t = 1 to 27 do pos := ((t * 2654435761) mod (max n 1)) :: !pos done;
        List.iter (fun k -> if k >= 0 && k < n && not (se_eq ms.(k) (sp_mul_coeff f.w a b k)) then bad := k) !pos;
        if !bad >= 0 then Printf.sprintf "SPECDIFF position=%d" !bad else show_sp ms
      end
let check_str (m : string) (s : string) = if m = s then m else "SPECDIFF model=" ^ short m ^ " spec=" ^ short s
let bit b = if b then "1" else "0"
let big_threshold = 1 lsl 21

(* BFieldElement / XFieldElement Display *)
let disp_b (v : ZZ.t) =
  if ZZ.geq v (ZZ.sub p (zi 256)) then "-" ^ zs (ZZ.sub p v)
  else if ZZ.leq v (zi 256) then zs v
  else let s = zs v in String.make (max 0 (20 - String.length s)) '0' ^ s
let disp_se (a : se) =
  if Array.length a = 1 then disp_b a.(0)
  else if ZZ.equal a.(1) ZZ.zero && ZZ.equal a.(2) ZZ.zero then disp_b a.(0) ^ "_xfe"
  else Printf.sprintf "(%s\xc2\xb7x\xc2\xb2_+_%s\xc2\xb7x_+_%s)" (disp_b a.(2)) (disp_b a.(1)) (disp_b a.(0))
let disp_term (c : se) (pow : int) (plus : bool) (printc : bool) =
  (if plus then "_+_" else "") ^ (if printc then disp_se c else "")
  ^ (if pow = 0 then "" else if pow = 1 then "x" else "x^" ^ string_of_int pow)
let spec_display w (a : sp) =
  if Array.length a = 0 then "0" else begin
    let d = sp_deg a in
    let b = Buffer.create 64 in
    for pow = d downto 0 do
      let c = a.(pow) in
      if not (se_is_zero c) then Buffer.add_string b (disp_term c pow (pow <> d) (not (se_eq c (se_one w)) || pow = 0))
    done; Buffer.contents b
  end

(* ------------------------------------------------------------------ operations over one field *)
let run_core (type f) (f : f fld) (op : string) (g : string list list) (r : int -> f list) (s : int -> sp) : string =
  let o = f.o and w = f.w in
  let grp i = List.nth g i in
  let int0 () = int_of_string (List.hd (grp 0)) in
  let z0 () = ZZ.of_string (List.hd (grp 0)) in
  let mulcheck m a b = if Array.length a * Array.length b * (w * w) > big_threshold then check_poly_sampled f m a b
                       else check_poly f m (sp_mul w a b) in
  let rec sp_pow a e = if e = 0 then sp_one w else sp_mul w (sp_pow a (e - 1)) a in
  match op with
  | "mul" -> mulcheck (Some (poly_mul o (r 0) (r 1))) (s 0) (s 1)
  | "naive" -> mulcheck (Some (poly_naive_multiply o (r 0) (r 1))) (s 0) (s 1)
  | "fast" -> mulcheck (poly_fast_multiply o f.ntt f.intt (r 0) (r 1)) (s 0) (s 1)
  | "multiply" -> mulcheck (poly_multiply o f.ntt f.intt (r 0) (r 1)) (s 0) (s 1)
  | "slowsq" -> mulcheck (poly_slow_square o (r 0)) (s 0) (s 0)
  | "square" -> mulcheck (poly_square o f.ntt f.intt (r 0)) (s 0) (s 0)
  | "fastsq" -> mulcheck (poly_fast_square o f.ntt f.intt (r 0)) (s 0) (s 0)
  | "pow" -> check_poly f (poly_pow o (r 1) (z0 ())) (sp_pow (s 1) (int0 ()))
  | "fastpow" -> check_poly f (poly_fast_pow o f.ntt f.intt (r 1) (z0 ())) (sp_pow (s 1) (int0 ()))
  | "batch" | "parbatch" ->
      let gs = List.filter (fun x -> x <> []) g in
      let fs = List.map (raw f) gs in
      let spec = List.fold_left (fun acc x -> sp_mul w acc (spec_of f x)) (sp_one w) gs in
      if op = "batch" then check_poly f (poly_batch_multiply o f.ntt f.intt fs) spec
      else begin
        (* the result must not depend on the thread count *)
        let res = List.map (fun nt -> check_poly f (poly_par_batch_multiply o f.ntt f.intt (zi nt) fs) spec) [1; 2; 3; 5; 16; 64] in
        if List.for_all (fun x -> x = List.hd res) res then List.hd res
        else "SPECDIFF thread-count-dependent: " ^ short (String.concat " ; " res)
      end
  | "smul" | "smulmut" | "rmul" ->
      let m = if op = "smulmut" then poly_scalar_mul_mut o (r 0) (elem f (grp 1)) else poly_scalar_mul o (r 0) (elem f (grp 1)) in
      check_poly f (Some m) (sp_scalar w (s 0) (selem (grp 1)))
  | "scale" ->
      let al = selem (grp 1) in
      let pw = ref (se_one w) in
      let spec = sp_norm (Array.map (fun c -> let v = se_mul c !pw in pw := se_mul !pw al; v) (s 0)) in
      check_poly f (Some (poly_scale o (r 0) (elem f (grp 1)))) spec
  | "shift" ->
      let k = int0 () in
      let a = s 1 in
      let spec = if Array.length a = 0 then [||] else Array.append (Array.make k (se_zero w)) a in
      check_poly f (Some (poly_shift_coefficients o (r 1) (zi k))) spec
  | "neg" -> check_poly f (Some (poly_neg o (r 0))) (sp_norm (Array.map se_neg (s 0)))
  | "add" -> check_poly f (Some (poly_add o (r 0) (r 1))) (sp_add w (s 0) (s 1))
  | "addassign" -> check_poly f (Some (poly_add_assign o (r 0) (r 1))) (sp_add w (s 0) (s 1))
  | "sub" -> check_poly f (Some (poly_sub o (r 0) (r 1))) (sp_sub w (s 0) (s 1))
  | "degree" -> check_str (zs (poly_degree o (r 0))) (string_of_int (sp_deg (s 0)))
  | "coeffs" ->
      (* NOT normalised by the driver: the accessor itself must return the normalised list *)
      check_str (show_sp (model_list f (poly_coefficients o (r 0)))) (show_sp (s 0))
  | "intocoeffs" -> check_str (show_sp (model_list f (poly_into_coefficients o (r 0)))) (show_sp (s 0))
  | "intoowned" -> check_poly f (Some (poly_new (r 0))) (s 0)
  | "lc" ->
      let m = match poly_leading_coefficient o (r 0) with
        | None -> "PANIC" | Some None -> "NONE" | Some (Some c) -> show_se (Array.of_list (f.to_vals c)) in
      let a = s 0 in
      check_str m (if Array.length a = 0 then "NONE" else show_se a.(Array.length a - 1))
  | "isx" ->
      let a = s 0 in
      check_str (match poly_is_x o (r 0) with None -> "PANIC" | Some b -> bit b)
        (bit (Array.length a = 2 && se_is_zero a.(0) && se_eq a.(1) (se_one w)))
  | "isone" ->
      let a = s 0 in
      check_str (match poly_is_one o (r 0) with None -> "PANIC" | Some b -> bit b)
        (bit (Array.length a = 1 && se_eq a.(0) (se_one w)))
  | "iszero" -> check_str (bit (poly_is_zero o (r 0))) (bit (Array.length (s 0) = 0))
  | "eq" ->
      let e = bit (sp_eq (s 0) (s 1)) in
      check_str (bit (poly_eqb o (r 0) (r 1)) ^ " " ^ bit (poly_eqb o (r 1) (r 0))) (e ^ " " ^ e)
  | "hash" ->
      (* spec: hashes are equal whenever the polynomials are equal (unequal polynomials: whatever the model says) *)
      let me = poly_eqb o (r 0) (r 1) in
      let h0 = model_list f (poly_hash_feed o (r 0)) and h1 = model_list f (poly_hash_feed o (r 1)) in
      let mh = Array.length h0 = Array.length h1 && Array.for_all2 se_eq h0 h1 in
      let se_ = sp_eq (s 0) (s 1) in
      check_str (bit me ^ " " ^ bit mh) (bit se_ ^ " " ^ (if se_ then "1" else bit mh))
  | "display" ->
      let m = poly_display_terms o (r 0) in
      let ms = if m = [] then "0" else
          String.concat "" (List.map (fun (((c, pw), plus), pc) -> disp_term (Array.of_list (f.to_vals c)) (ZZ.to_int pw) plus pc) m) in
      check_str ms (spec_display w (s 0))
  | "deriv" ->
      let a = s 0 in
      let spec = sp_norm (Array.init (max 0 (Array.length a - 1)) (fun i -> se_mul (se_of_int w (zi (i + 1))) a.(i + 1))) in
      check_poly f (Some (poly_formal_derivative o (r 0))) spec
  | "eval" | "evalgen" ->
      let x = selem (grp 1) in
      let spec = Array.fold_right (fun c acc -> se_add (se_mul acc x) c) (s 0) (se_zero w) in
      let m = if op = "eval" then poly_evaluate o (r 0) (elem f (grp 1))
        else poly_evaluate_gen o.fzero o.fmul o.fadd (r 0) (elem f (grp 1)) in
      check_str (show_se (Array.of_list (f.to_vals m))) (show_se spec)
  | "xtothe" ->
      let n = int0 () in
      check_poly f (Some (poly_x_to_the o (zi n))) (Array.init (n + 1) (fun i -> if i = n then se_one w else se_zero w))
  | "fromconst" -> check_poly f (Some (poly_from_constant (elem f (grp 0)))) (sp_norm [| selem (grp 0) |])
  | "fromvec" | "fromslice" -> check_poly f (Some (poly_new (r 0))) (s 0)
  | "truncate" ->
      let k = int0 () in
      let a = s 1 in
      let n = Array.length a in
      let spec = if n <= k + 1 then a else sp_norm (Array.sub a (n - (k + 1)) (k + 1)) in
      check_poly f (poly_truncate o (r 1) (zi k)) spec
  | "modx" ->
      let k = int0 () in
      let a = s 1 in
      check_poly f (Some (poly_mod_x_to_the_n (r 1) (zi k))) (sp_norm (Array.sub a 0 (min k (Array.length a))))
  | "encode" ->
      let a = s 0 in
      let body = List.concat (List.map (fun c -> Array.to_list c) (Array.to_list a)) in
      let ce = zi (Array.length a) :: body in
      let spec = zi (List.length ce) :: ce in
      let m = List.map bfe_value (poly_encode o f.enc (r 0)) in
      let sh l = String.concat " " (string_of_int (List.length l) :: List.map zs l) in
      check_str (sh m) (sh spec)
  | "codec" ->
      (match poly_decode o (zi w) f.dec (poly_encode o f.enc (r 0)) with
       | None -> "SPECDIFF model=ERR"
       | Some l -> check_str (bit (poly_eqb o l (r 0)) ^ " " ^ show_sp (model_list f l)) ("1 " ^ show_sp (s 0)))
  | "decode" ->
      (* spec: accepted iff the sequence is exactly the encoding of a normalised coefficient list *)
      let seq = List.map ZZ.of_string (grp 0) in
      let m = match poly_decode o (zi w) f.dec (List.map bfe_new seq) with
        | None -> "ERR" | Some l -> "OK " ^ show_sp (model_list f l) in
      let spec =
        (match List.map md seq with
         | ind :: n :: body when ZZ.equal ind (zi (List.length body + 1))
                                 && ZZ.equal (ZZ.mul n (zi w)) (zi (List.length body)) ->
             let cs = Array.of_list (List.map Array.of_list (chunk w body)) in
             if Array.length cs > 0 && se_is_zero cs.(Array.length cs - 1) then "ERR" else "OK " ^ show_sp cs
         | _ -> "ERR") in
      check_str m spec
  | _ -> "UNKNOWN-OP"


(* a polynomial as an operation leaves it: the model's stored list (None = panic) and the specification's value *)
let produce (type f) (f : f fld) (prod : string) (g : string list list) : f list option * sp =
  let o = f.o and w = f.w in
  let grp i = List.nth g i in
  let r i = raw f (grp i) and s i = spec_of f (grp i) in
  let int0 () = int_of_string (List.hd (grp 0)) in
  match prod with
  | "aa" -> (Some (poly_add_assign o (r 0) (r 1)), sp_add w (s 0) (s 1))
  | "add" -> (Some (poly_add o (r 0) (r 1)), sp_add w (s 0) (s 1))
  | "sub" -> (Some (poly_sub o (r 0) (r 1)), sp_sub w (s 0) (s 1))
  | "neg" -> (Some (poly_neg o (r 0)), sp_norm (Array.map se_neg (s 0)))
  | "smm" -> (Some (poly_scalar_mul_mut o (r 0) (elem f (grp 1))), sp_scalar w (s 0) (selem (grp 1)))
  | "smul" -> (Some (poly_scalar_mul o (r 0) (elem f (grp 1))), sp_scalar w (s 0) (selem (grp 1)))
  | "scale" ->
      let al = selem (grp 1) in
      let pw = ref (se_one w) in
      (Some (poly_scale o (r 0) (elem f (grp 1))),
       sp_norm (Array.map (fun c -> let v = se_mul c !pw in pw := se_mul !pw al; v) (s 0)))
  | "shift" ->
      let k = int0 () in
      let a = s 1 in
      (Some (poly_shift_coefficients o (r 1) (zi k)), if Array.length a = 0 then [||] else Array.append (Array.make k (se_zero w)) a)
  | "mul" -> (Some (poly_mul o (r 0) (r 1)), sp_mul w (s 0) (s 1))
  | "multiply" -> (poly_multiply o f.ntt f.intt (r 0) (r 1), sp_mul w (s 0) (s 1))
  | "deriv" ->
      let a = s 0 in
      (Some (poly_formal_derivative o (r 0)),
       sp_norm (Array.init (max 0 (Array.length a - 1)) (fun i -> se_mul (se_of_int w (zi (i + 1))) a.(i + 1))))
  | "modx" ->
      let k = int0 () in
      let a = s 1 in
      (Some (poly_mod_x_to_the_n (r 1) (zi k)), sp_norm (Array.sub a 0 (min k (Array.length a))))
  | "truncate" ->
      let k = int0 () in
      let a = s 1 in
      let n = Array.length a in
      (poly_truncate o (r 1) (zi k), if n <= k + 1 then a else sp_norm (Array.sub a (n - (k + 1)) (k + 1)))
  | "new" -> (Some (poly_new (r 0)), s 0)
  | _ -> failwith "unknown producer"

let rec take n l = if n = 0 then [] else match l with [] -> [] | x :: t -> x :: take (n - 1) t
let rec drop n l = if n = 0 then l else match l with [] -> [] | _ :: t -> drop (n - 1) t

let run_one (type f) (f : f fld) (op : string) (g : string list list) : string =
  if op = "then" then begin
    match List.hd g with
    | [prod; n; obs] ->
        let n = int_of_string n in
        let (m, sp) = produce f prod (take n (List.tl g)) in
        let og = drop n (List.tl g) in
        (match m with
         | None -> "SPECDIFF producer model=PANIC"
         | Some ml ->
             let at i = (List.nth og i = ["@"]) in
             run_core f obs og (fun i -> if at i then ml else raw f (List.nth og i))
               (fun i -> if at i then sp else spec_of f (List.nth og i)))
    | _ -> "BAD-CASE"
  end else if op = "same" then begin
    (* the same object on both sides: to the model and the specification, two equal lists *)
    match g with
    | [[sub]; pg] ->
        let g' = [pg; pg] in
        run_core f sub g' (fun i -> raw f (List.nth g' i)) (fun i -> spec_of f (List.nth g' i))
    | _ -> "BAD-CASE"
  end else if op = "alias" then begin
    (* two prefixes of one buffer: to the model and the specification they are just two lists *)
    match g with
    | [[sub; i; j]; (d :: vs)] ->
        let (_, k) = storage d in
        let all = vs @ rep "0" (k * f.w) in
        let pre n = "b0" :: take (n * f.w) all in
        let g' = [pre (int_of_string i); pre (int_of_string j)] in
        run_core f sub g' (fun i -> raw f (List.nth g' i)) (fun i -> spec_of f (List.nth g' i))
    | _ -> "BAD-CASE"
  end else
    run_core f op g (fun i -> raw f (List.nth g i)) (fun i -> spec_of f (List.nth g i))

(* ------------------------------------------------------------------ mixed fields: result is always in the extension field *)
let run_mixed (type a b) (f1 : a fld) (f2 : b fld) (mul12 : a -> b -> xfe) (op : string) (g : string list list) : string =
  let grp i = List.nth g i in
  let a = raw f1 (grp 0) and sa = spec_of f1 (grp 0) in
  let mulcheck m sb = if Array.length sa * Array.length sb * 3 > big_threshold then check_poly_sampled xf m sa sb
                      else check_poly xf m (sp_mul 3 sa sb) in
  match op with
  | "mul" | "naive" ->
      mulcheck (Some (poly_naive_multiply_gen f1.o f2.o xf.o mul12 a (raw f2 (grp 1)))) (spec_of f2 (grp 1))
  | "fast" -> mulcheck (poly_fast_multiply_gen f1.o f2.o mul12 f1.ntt f2.ntt xf.intt a (raw f2 (grp 1))) (spec_of f2 (grp 1))
  | "multiply" ->
      mulcheck (poly_multiply_gen f1.o f2.o xf.o mul12 f1.ntt f2.ntt xf.intt a (raw f2 (grp 1))) (spec_of f2 (grp 1))
  | "smul" | "smulmut" | "rmul" | "lmul" ->
      check_poly xf (Some (poly_scalar_mul_gen mul12 a (elem f2 (grp 1)))) (sp_scalar 3 sa (selem (grp 1)))
  | "scale" ->
      let al = selem (grp 1) in
      let pw = ref (se_one f2.w) in
      let spec = sp_norm (Array.map (fun c -> let v = widen (se_mul c !pw) 3 in pw := se_mul !pw al; v) sa) in
      check_poly xf (Some (poly_scale_gen f2.o.fone f2.o.fmul mul12 a (elem f2 (grp 1)))) spec
  | "evalgen" ->
      let x = selem (grp 1) in
      let spec = Array.fold_right (fun c acc -> se_add (se_mul acc x) c) sa (se_zero 3) in
      (* Eval = XFE: acc * x (x in field 2) + c (c in field 1) *)
      let emul (acc : xfe) (x : b) : xfe = xf.o.fmul acc (xf.of_vals (List.map (fun v -> v) (widen (Array.of_list (f2.to_vals x)) 3 |> Array.to_list))) in
      let eadd (acc : xfe) (c : a) : xfe = xf.o.fadd acc (xf.of_vals (widen (Array.of_list (f1.to_vals c)) 3 |> Array.to_list)) in
      let m = poly_evaluate_gen xf.o.fzero emul eadd a (elem f2 (grp 1)) in
      check_str (show_se (Array.of_list (xf.to_vals m))) (show_se spec)
  | _ -> "UNKNOWN-OP"

(* sparse <field> <which> | a c1 d1 | b c2 d2 : specification only (the model is not run): the product / power of
   two-term polynomials has a closed form, so degrees around 2^20 cost nothing here and keep the tie to the code alive
   above the sizes the model can execute *)
let sparse_spec (field : string) (g : string list list) : string =
  let pm = ZZ.of_string "18446744069414584321" in
  let md x = ZZ.erem x pm in
  match g with
  | [[which]; [a; c1; d1]; [b; c2; d2]] ->
      let a = int_of_string a and b = int_of_string b in
      let c1 = md (ZZ.of_string c1) and d1 = md (ZZ.of_string d1) and c2 = md (ZZ.of_string c2) and d2 = md (ZZ.of_string d2) in
      let tbl = Hashtbl.create 16 in
      let addt i v = let cur = try Hashtbl.find tbl i with Not_found -> ZZ.zero in Hashtbl.replace tbl i (md (ZZ.add cur v)) in
      let terms1 = [(0, d1); (a, c1)] and terms2 = [(0, d2); (b, c2)] in
      (match which with
       | "multiply" | "fast" | "mul" ->
           List.iter (fun (i, x) -> List.iter (fun (j, y) -> addt (i + j) (ZZ.mul x y)) terms2) terms1
       | "square" | "fastsq" ->
           List.iter (fun (i, x) -> List.iter (fun (j, y) -> addt (i + j) (ZZ.mul x y)) terms1) terms1
       | "fastpow" ->
           (* (c1 X^a + d1)^e with e = b; for a = 0 the base is the constant c1 + d1 *)
           let e = b in
           if a = 0 then addt 0 (ZZ.powm (md (ZZ.add c1 d1)) (ZZ.of_int e) pm)
           else begin
             let binom = ref ZZ.one in
             for k = 0 to e do
               addt (k * a) (ZZ.mul !binom (ZZ.mul (ZZ.powm c1 (ZZ.of_int k) pm) (ZZ.powm d1 (ZZ.of_int (e - k)) pm)));
               binom := ZZ.div (ZZ.mul !binom (ZZ.of_int (e - k))) (ZZ.of_int (k + 1))
             done
           end
       | _ -> ());
      let nz = List.sort compare (Hashtbl.fold (fun i v acc -> if ZZ.equal v ZZ.zero then acc else (i, v) :: acc) tbl []) in
      let len = match List.rev nz with [] -> 0 | (i, _) :: _ -> i + 1 in
      let show v = if field = "b" then ZZ.to_string v else ZZ.to_string v ^ ",0,0" in
      let rec pr k = function
        | [] -> []
        | _ when k >= 8 -> ["MANY"]
        | (i, v) :: t -> (string_of_int i ^ ":" ^ show v) :: pr (k + 1) t in
      String.concat " " (string_of_int len :: pr 0 nz)
  | _ -> "BAD-CASE"

let run (op : string) (a : string list) : string =
  match op, a with
  | "cmp", _ -> "SAME"
  | "sparse", field :: rest -> sparse_spec field (split_groups rest)
  | _, [] -> "BAD-CASE"
  | _, field :: rest ->
      let g = split_groups rest in
      (match field with
       | "b" | "bb" -> run_one bf op g
       | "x" | "xx" -> run_one xf op g
       | "bx" -> run_mixed bf xf (fun b x -> xscale x b) op g
       | "xb" -> run_mixed xf bf (fun x b -> xscale x b) op g
       | _ -> "BAD-FIELD")

let () =
  try
    while true do
      let line = String.trim (input_line stdin) in
      if line <> "" && line.[0] <> '#' then begin
        match List.filter (fun s -> s <> "") (String.split_on_char ' ' line) with
        | id :: op :: args ->
            let res = try run op args with e -> "ORACLE-EXCEPTION " ^ Printexc.to_string e in
            print_string id; print_char ' '; print_string res; print_newline ()
        | _ -> ()
      end
    done
  with End_of_file -> ()
