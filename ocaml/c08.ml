(* Oracle driver for C08 (zerofiers, interpolation, bulk evaluation, coset routines, extrapolation).
   Case lines as in harness/src/bin/c08.rs.  For every case it runs the extracted Coq MODEL (model/PolyInterp.v)
   and an independent SPEC written here with zarith on canonical values:
     zerofier        = the product of the linear factors (X - r_i), multiplied out one factor at a time;
     evaluation      = Horner at every point of the domain, in input order;
     interpolation   = for pairwise distinct abscissae: the result has fewer than n coefficients and its Horner
                       evaluations at the x_i are the y_i (the defining property; all points, sampled above a
                       budget) and, for n <= 48, it equals the Lagrange formula computed here;
     coset evaluate  = Horner at offset * w^i (w = the tabulated root of the length);
     coset interpolate / modular interpolate / extrapolate / barycentric = defined through the naive O(n^2)
                       inverse DFT of the codeword (or, above 2^10, through the model's interpolant after it has
                       been checked against the codeword at sampled positions), long division, Horner.
   Output: the model result if model and spec agree, else `SPECDIFF ...`.  Where the outcome depends on
   debug assertions the line is `D0 <release result> | D1 <checked result>`.
   The par_* models are run for thread counts 1,2,5,16 and must agree. *)
module ZZ = Z
open Model

let p = Model.p
let zs = ZZ.to_string
let md x = ZZ.erem x p
let zi = ZZ.of_int

(* ------------------------------------------------------------------ fields *)
type 'f fld = {
  o : 'f fops;
  w : int;
  act : (ZZ.t, 'f) fact;
  of_vals : ZZ.t list -> 'f;
  to_vals : 'f -> ZZ.t list;
  ntt : 'f list -> 'f list option;
  intt : 'f list -> 'f list option;
}
let bf : ZZ.t fld = {
  o = bfe_ops; w = 1; act = bb_act;
  of_vals = (fun l -> bfe_new (List.hd l));
  to_vals = (fun x -> [bfe_value x]);
  ntt = ntt_b; intt = intt_b;
}
let xf : xfe fld = {
  o = xfe_ops; w = 3; act = xb_act;
  of_vals = (fun l -> match l with [a; b; c] -> ((bfe_new a, bfe_new b), bfe_new c) | _ -> failwith "xfe");
  to_vals = (fun ((a, b), c) -> [bfe_value a; bfe_value b; bfe_value c]);
  ntt = ntt_x; intt = intt_x;
}

(* ------------------------------------------------------------------ spec arithmetic on value arrays *)
type se = ZZ.t array                (* 1 entry: base field; 3 entries: extension field *)
let se_zero w = Array.make w ZZ.zero
let se_is_zero (a : se) = Array.for_all (fun x -> ZZ.equal x ZZ.zero) a
let se_eq (a : se) (b : se) = Array.length a = Array.length b && Array.for_all2 ZZ.equal a b
let widen (a : se) w = if Array.length a = w then a else Array.init w (fun i -> if i < Array.length a then a.(i) else ZZ.zero)
let se_add (a : se) (b : se) : se =
  let w = max (Array.length a) (Array.length b) in
  let a = widen a w and b = widen b w in Array.init w (fun i -> md (ZZ.add a.(i) b.(i)))
let se_neg (a : se) : se = Array.map (fun x -> md (ZZ.neg x)) a
let se_sub a b = se_add a (se_neg b)
let se_mul (a : se) (b : se) : se =
  let la = Array.length a and lb = Array.length b in
  if la = 1 && lb = 1 then [| md (ZZ.mul a.(0) b.(0)) |]
  else begin
    let r = Array.make 5 ZZ.zero in
    for i = 0 to la - 1 do for j = 0 to lb - 1 do r.(i + j) <- ZZ.add r.(i + j) (ZZ.mul a.(i) b.(j)) done done;
    (* x^3 = x - 1 ; x^4 = x^2 - x *)
    [| md (ZZ.sub r.(0) r.(3)); md (ZZ.sub (ZZ.add r.(1) r.(3)) r.(4)); md (ZZ.add r.(2) r.(4)) |]
  end
let se_one w = let a = se_zero w in a.(0) <- ZZ.one; a
let se_of_z w n = let a = se_zero w in a.(0) <- md n; a
let rec se_pow_z (a : se) (e : ZZ.t) w : se =
  if ZZ.equal e ZZ.zero then se_one w
  else let h = se_pow_z a (ZZ.shift_right e 1) w in
    let h2 = se_mul h h in if ZZ.testbit e 0 then widen (se_mul h2 a) w else widen h2 w
(* inverse: a^(q-2), q = p^w *)
let se_inv (a : se) : se =
  let w = Array.length a in
  if w = 1 then [| ZZ.invert a.(0) p |] else se_pow_z a (ZZ.sub (ZZ.pow p 3) (zi 2)) 3

type sp = se array                  (* normalised: last entry non-zero *)
let sp_norm (a : se array) : sp =
  let n = ref (Array.length a) in
  while !n > 0 && se_is_zero a.(!n - 1) do decr n done;
  Array.sub a 0 !n
let sp_eq (a : sp) (b : sp) = Array.length a = Array.length b && Array.for_all2 se_eq a b
let sp_eval w (a : se array) (x : se) : se =
  if w = 1 then begin
    let acc = ref ZZ.zero and x0 = x.(0) in
    for i = Array.length a - 1 downto 0 do acc := md (ZZ.add (ZZ.mul !acc x0) a.(i).(0)) done; [| !acc |]
  end else begin
    let acc = ref (se_zero w) in
    for i = Array.length a - 1 downto 0 do acc := se_add (se_mul !acc x) a.(i) done; widen !acc w
  end
(* product of (X - r) over the roots, one factor at a time *)
let sp_zerofier w (roots : se array) : sp =
  let n = Array.length roots in
  if w = 1 then begin
    let z = Array.make (n + 1) ZZ.zero in
    z.(0) <- ZZ.one;
    Array.iteri (fun k r ->
        let r0 = r.(0) in
        (* z := z * (X - r): new[j] = z[j-1] - r z[j], from the top *)
        for j = k + 1 downto 1 do z.(j) <- md (ZZ.sub z.(j - 1) (ZZ.mul r0 z.(j))) done;
        z.(0) <- md (ZZ.neg (ZZ.mul r0 z.(0)))) roots;
    Array.map (fun c -> [| c |]) z
  end else begin
    let z = Array.make (n + 1) (se_zero w) in
    z.(0) <- se_one w;
    Array.iteri (fun k r ->
        for j = k + 1 downto 1 do z.(j) <- se_sub z.(j - 1) (se_mul r z.(j)) done;
        z.(0) <- se_neg (se_mul r z.(0))) roots;
    z
  end
(* remainder of a modulo m (m non-zero), schoolbook long division *)
let sp_rem w (a : sp) (m : sp) : sp =
  let dm = Array.length m - 1 in
  let r = Array.copy a in
  let lci = se_inv m.(dm) in
  for i = Array.length a - 1 downto dm do
    if not (se_is_zero r.(i)) then begin
      let q = widen (se_mul r.(i) lci) w in
      for j = 0 to dm do r.(i - dm + j) <- se_sub r.(i - dm + j) (se_mul q m.(j)) done
    end
  done;
  sp_norm (Array.sub r 0 (min dm (Array.length r)))
let distinct (xs : se array) : bool =
  let h = Hashtbl.create 64 in
  Array.for_all (fun x -> let k = String.concat "," (Array.to_list (Array.map zs x)) in
                  if Hashtbl.mem h k then false else (Hashtbl.add h k (); true)) xs
(* the Lagrange formula, O(n^2) field operations + n inversions *)
let sp_lagrange w (xs : se array) (ys : se array) : sp =
  let n = Array.length xs in
  let z = sp_zerofier w xs in
  let acc = Array.make n (se_zero w) in
  for i = 0 to n - 1 do
    (* q = z / (X - x_i) by synthetic division; denominator = q(x_i) *)
    let q = Array.make n (se_zero w) in
    let carry = ref (se_zero w) in
    for j = n - 1 downto 0 do carry := se_add z.(j + 1) (se_mul !carry xs.(i)); q.(j) <- widen !carry w done;
    let den = sp_eval w q xs.(i) in
    let c = widen (se_mul ys.(i) (se_inv den)) w in
    for j = 0 to n - 1 do acc.(j) <- se_add acc.(j) (se_mul c q.(j)) done
  done;
  sp_norm acc

let table_root (n : int) : ZZ.t option =
  let rec go = function [] -> None | (k, r) :: t -> if ZZ.equal k (zi n) then Some (md r) else go t in
  go pRIMITIVE_ROOTS
(* the coset offset * w^i, i < n, as extension-or-base elements of width w *)
let coset w (offset : ZZ.t) (n : int) : se array option =
  match table_root n with
  | None -> None
  | Some g -> let acc = ref (md offset) in
    Some (Array.init n (fun _ -> let v = !acc in acc := md (ZZ.mul !acc g); se_of_z w v))
(* naive inverse DFT: the polynomial of degree < n with f(offset w^i) = v_i *)
let sp_coset_interpolant w (offset : ZZ.t) (v : se array) : sp option =
  let n = Array.length v in
  match table_root n with
  | None -> None
  | Some g ->
      if ZZ.equal (md offset) ZZ.zero then None else begin
        let gi = ZZ.invert g p and oi = ZZ.invert (md offset) p and ni = ZZ.invert (zi n) p in
        let pows = Array.make n ZZ.one in
        for i = 1 to n - 1 do pows.(i) <- md (ZZ.mul pows.(i - 1) gi) done;
        let ok = ref ZZ.one in
        Some (sp_norm (Array.init n (fun k ->
            let acc = ref (se_zero w) in
            for j = 0 to n - 1 do acc := se_add !acc (se_mul v.(j) [| pows.((j * k) mod n) |]) done;
            let c = widen (se_mul !acc [| md (ZZ.mul ni !ok) |]) w in
            ok := md (ZZ.mul !ok oi); c)))
      end

(* ------------------------------------------------------------------ parsing *)
let split_groups (toks : string list) : string list list =
  let rec go cur acc = function
    | [] -> List.rev (List.rev cur :: acc)
    | "|" :: r -> go [] (List.rev cur :: acc) r
    | t :: r -> go (t :: cur) acc r in
  go [] [] toks
let rec chunk n l = if l = [] then [] else
  let rec tk k l acc = if k = 0 then (List.rev acc, l) else match l with [] -> (List.rev acc, []) | x :: r -> tk (k - 1) r (x :: acc) in
  let (h, t) = tk n l [] in h :: chunk n t
let rec rep x k = if k <= 0 then [] else x :: rep x (k - 1)
let melems (f : 'f fld) (g : string list) : 'f list = List.map f.of_vals (chunk f.w (List.map ZZ.of_string g))
let selems (f : 'f fld) (g : string list) : se array =
  Array.of_list (List.map (fun c -> Array.of_list (List.map md c)) (chunk f.w (List.map ZZ.of_string g)))
let mpoly (f : 'f fld) (g : string list) : 'f list =
  match g with
  | [] -> []
  | d :: vs -> let k = int_of_string (String.sub d 1 (String.length d - 1)) in melems f vs @ rep f.o.fzero k
let spoly (f : 'f fld) (g : string list) : sp = match g with [] -> [||] | _ :: vs -> sp_norm (selems f vs)

(* ------------------------------------------------------------------ printing *)
let show_se (a : se) = String.concat " " (Array.to_list (Array.map zs a))
let show_arr (a : se array) = String.concat " " (string_of_int (Array.length a) :: Array.to_list (Array.map show_se a))
let short s = if String.length s <= 4000 then s else String.sub s 0 4000 ^ "..."
let to_se (f : 'f fld) (c : 'f) : se = Array.of_list (f.to_vals c)
let model_arr (f : 'f fld) (l : 'f list) : se array = Array.of_list (List.map (to_se f) l)
let model_sp (f : 'f fld) (l : 'f list) : sp = sp_norm (model_arr f l)
let bit b = if b then "1" else "0"

(* budget for exhaustive spec checks, in base-field multiplications *)
let budget = 40_000_000
let sample_positions n k = List.sort_uniq compare (0 :: (n - 1) :: (n / 2) :: List.init k (fun t -> ((t + 1) * 2654435761) mod (max n 1)))

(* result of a polynomial-valued model function against a spec check *)
let poly_result (f : 'f fld) (m : 'f list option) (check : sp -> string option) (panic_ok : bool) : string =
  match m with
  | None -> if panic_ok then "PANIC" else "SPECDIFF model=PANIC (no panic expected)"
  | Some l -> let ms = model_sp f l in
    (match check ms with None -> show_arr ms | Some why -> "SPECDIFF " ^ why ^ " model=" ^ short (show_arr ms))
let vec_result (f : 'f fld) (m : 'f list option) (check : se array -> string option) (panic_ok : bool) : string =
  match m with
  | None -> if panic_ok then "PANIC" else "SPECDIFF model=PANIC (no panic expected)"
  | Some l -> let mv = model_arr f l in
    (match check mv with None -> show_arr mv | Some why -> "SPECDIFF " ^ why ^ " model=" ^ short (show_arr mv))
let same_all (rs : string list) : string =
  match rs with
  | [] -> "NO-RESULT"
  | r :: _ -> if List.for_all (fun x -> x = r) rs then r else "SPECDIFF thread-count-dependent: " ^ short (String.concat " ; " rs)
let nts = [1; 2; 5; 16]
(* debug-assertion dependent results.  `relevant` = the input is one on which a debug assertion of the code can fire
   (empty / length-mismatched interpolation input, a root argument that does not have the stated order); only then is the
   model run a second time with debug assertions on.  This is an optimisation of the oracle only: if the flag were wrong the
   checked build of the implementation would disagree with the single reported result and the case would be flagged. *)
let dbg2 ?(relevant = true) (g : bool -> string) : string =
  let r0 = g false in
  if not relevant then r0 else
  let r1 = g true in
  if r0 = r1 then r0 else "D0 " ^ r0 ^ " | D1 " ^ r1

let expect_eq_sp (spec : sp) (ms : sp) : string option =
  if sp_eq ms spec then None else Some ("spec=" ^ short (show_arr spec))
let expect_eq_arr (spec : se array) (mv : se array) : string option =
  if Array.length spec = Array.length mv && Array.for_all2 se_eq spec mv then None else Some ("spec=" ^ short (show_arr spec))

(* the interpolation spec: fewer than n coefficients, passes through the points *)
let interp_check w (xs : se array) (ys : se array) (ms : sp) : string option =
  let n = Array.length xs in
  if Array.length ms > n then Some (Printf.sprintf "degree %d not below %d" (Array.length ms - 1) n)
  else begin
    let pos = if n * n * w * w <= budget then List.init n (fun i -> i) else sample_positions n 48 in
    match List.find_opt (fun i -> not (se_eq (sp_eval w ms xs.(i)) ys.(i))) pos with
    | Some i -> Some (Printf.sprintf "p(x_%d) <> y_%d" i i)
    | None -> if n <= 48 && not (sp_eq ms (sp_lagrange w xs ys)) then Some "differs from the Lagrange formula" else None
  end

(* ------------------------------------------------------------------ operations *)
let run_one (type f) (f : f fld) (op : string) (g : string list list) : string =
  let o = f.o and w = f.w and ntt = f.ntt and intt = f.intt and act = f.act in
  let grp i = if i < List.length g then List.nth g i else [] in
  let me i = melems f (grp i) and se_ i = selems f (grp i) in
  let int_at i j = int_of_string (List.nth (grp i) j) in
  let z_at i j = ZZ.of_string (List.nth (grp i) j) in
  let zerofier_op m = poly_result f m (expect_eq_sp (sp_zerofier w (se_ 0))) false in
  let interp_op (run : bool -> f list option) =
    let xs = se_ 0 and ys = se_ 1 in
    let in_property = Array.length xs > 0 && Array.length xs = Array.length ys && distinct xs in
    dbg2 ~relevant:(Array.length xs = 0 || Array.length xs <> Array.length ys)
      (fun d -> if in_property then poly_result f (run d) (interp_check w xs ys) false
                else poly_result f (run d) (fun _ -> None) true) in
  let eval_spec () = let a = spoly f (grp 0) in Array.map (fun x -> sp_eval w a x) (se_ 1) in
  (* interpolant of a codeword on the coset: spec for n <= 1024, otherwise the model's, checked at sampled positions *)
  let interpolant (offset : ZZ.t) (cw : string list) : (sp, string) result =
    let v = selems f cw in
    let n = Array.length v in
    if n = 0 then Error "no-spec"
    else if n <= 1024 then (match sp_coset_interpolant w offset v with Some s -> Ok s | None -> Error "no-spec")
    else match pint_fast_coset_interpolate_b act intt (bfe_new offset) (melems f cw), coset w offset n with
      | Some l, Some dom ->
          let ms = model_sp f l in
          if Array.length ms > n then Error "interpolant degree too large"
          else if List.exists (fun i -> not (se_eq (sp_eval w ms dom.(i)) v.(i))) (sample_positions n 24)
          then Error "interpolant does not pass through the codeword"
          else Ok ms
      | _, _ -> Error "no-spec" in
  let extrapolate_spec (offset : ZZ.t) (cws : string list list) (pts : se array) : (se array, string) result =
    List.fold_left (fun acc cw -> match acc, interpolant offset cw with
        | Ok a, Ok ip -> Ok (Array.append a (Array.map (fun x -> sp_eval w ip x) pts))
        | Error e, _ | _, Error e -> Error e) (Ok [||]) cws in
  let extrap_result m spec =
    match spec with
    | Ok s -> vec_result f m (expect_eq_arr s) false
    | Error "no-spec" -> vec_result f m (fun _ -> None) true
    | Error e -> "SPECDIFF " ^ e in
  match op with
  (* ---- zerofiers *)
  | "zerofier" -> zerofier_op (pint_zerofier o ntt intt (me 0))
  | "smart_zerofier" -> zerofier_op (Some (pint_smart_zerofier o (me 0)))
  | "fast_zerofier" -> zerofier_op (pint_fast_zerofier o ntt intt (me 0))
  | "naive_zerofier" -> zerofier_op (Some (pint_naive_zerofier o (me 0)))
  | "par_zerofier" -> same_all (List.map (fun nt -> zerofier_op (pint_par_zerofier o ntt intt (zi nt) (me 0))) nts)
  | "tree_zerofier" ->
      zerofier_op (match pint_tree_new_from_domain o ntt intt (me 0) with Some t -> Some (pint_tree_zerofier o t) | None -> None)
  (* ---- interpolation *)
  | "interpolate" -> interp_op (fun d -> pint_interpolate o ntt intt d (me 0) (me 1))
  | "lagrange" -> interp_op (fun d -> pint_lagrange_interpolate o ntt intt d (me 0) (me 1))
  | "lagrange_zipped" ->
      (* the harness zips domain and values: excess entries of the longer list are dropped *)
      let rec zip a b = match a, b with x :: a', y :: b' -> (x, y) :: zip a' b' | _, _ -> [] in
      let pts = zip (me 0) (me 1) in
      let n = List.length pts in
      let xs = Array.sub (se_ 0) 0 n and ys = Array.sub (se_ 1) 0 n in
      dbg2 ~relevant:(n = 0) (fun d -> if n > 0 && distinct xs
             then poly_result f (pint_lagrange_interpolate_zipped o ntt intt d pts) (interp_check w xs ys) false
             else poly_result f (pint_lagrange_interpolate_zipped o ntt intt d pts) (fun _ -> Some "panic expected") true)
  | "fast_interpolate" -> interp_op (fun d -> pint_fast_interpolate o ntt intt d (me 0) (me 1))
  | "par_interpolate" ->
      same_all (List.map (fun nt -> interp_op (fun d -> pint_par_interpolate o ntt intt d (zi nt) (me 0) (me 1))) nts)
  | "par_fast_interpolate" ->
      same_all (List.map (fun nt -> interp_op (fun d -> pint_par_fast_interpolate o ntt intt d (zi nt) (me 0) (me 1))) nts)
  | "batch_fast_interpolate" ->
      let root = bfe_new (z_at 0 0) and order = z_at 0 1 in
      let dom = me 1 and xs = se_ 1 in
      let rows = List.tl (List.tl g) in
      let n = Array.length xs in
      let in_property = n > 0 && distinct xs && List.for_all (fun r -> List.length r = n * w) rows in
      dbg2 ~relevant:(n = 0 || not (List.for_all (fun r -> List.length r = n * w) rows)
                      || not (ZZ.equal (bfe_value (mod_pow root (ZZ.erem order (ZZ.pow (zi 2) 32)))) ZZ.one))
        (fun d ->
          match pint_batch_fast_interpolate o ntt intt d dom (List.map (melems f) rows) root order with
          | None -> if in_property && (not d || ZZ.equal (bfe_value (mod_pow root (ZZ.erem order (ZZ.pow (zi 2) 32)))) ZZ.one)
              then "SPECDIFF model=PANIC (no panic expected)" else "PANIC"
          | Some rs ->
              let outs = List.map2 (fun l r ->
                  let ms = model_sp f l in
                  match (if in_property then interp_check w xs (selems f r) ms else None) with
                  | None -> show_arr ms | Some why -> "SPECDIFF " ^ why ^ " model=" ^ short (show_arr ms)) rs rows in
              String.concat " / " (string_of_int (List.length rs) :: outs))
  (* ---- evaluation *)
  | "batch_evaluate" -> vec_result f (pint_batch_evaluate o ntt intt (mpoly f (grp 0)) (me 1)) (expect_eq_arr (eval_spec ())) false
  | "iterative_batch_evaluate" ->
      vec_result f (Some (pint_iterative_batch_evaluate o (mpoly f (grp 0)) (me 1))) (expect_eq_arr (eval_spec ())) false
  | "dac_batch_evaluate" ->
      let m = match pint_tree_new_from_domain o ntt intt (me 1) with
        | None -> None | Some t -> pint_dac_batch_evaluate o ntt intt (mpoly f (grp 0)) t in
      vec_result f m (expect_eq_arr (eval_spec ())) false
  | "par_batch_evaluate" ->
      same_all (List.map (fun nt ->
          vec_result f (pint_par_batch_evaluate o ntt intt (zi nt) (mpoly f (grp 0)) (me 1)) (expect_eq_arr (eval_spec ())) false) nts)
  (* ---- cosets *)
  | "fast_coset_evaluate" | "fast_coset_evaluate_b" ->
      let order = int_at 0 0 in
      let a = spoly f (grp 2) in
      let (m, off) =
        if op = "fast_coset_evaluate" then (pint_fast_coset_evaluate o ntt (mpoly f (grp 2)) (f.of_vals (List.map ZZ.of_string (grp 1))) (zi order),
                                            (selems f (grp 1)).(0))
        else (pint_fast_coset_evaluate_b o act ntt (mpoly f (grp 2)) (bfe_new (z_at 1 0)) (zi order), se_of_z w (z_at 1 0)) in
      (match table_root order with
       | Some g0 when order > Array.length a - 1 && order >= 1 ->
           let acc = ref (se_one w) in
           let spec = Array.init order (fun _ -> let pt = widen (se_mul off !acc) w in
                                        acc := widen (se_mul !acc [| g0 |]) w; sp_eval w a pt) in
           vec_result f m (expect_eq_arr spec) false
       | _ -> vec_result f m (fun _ -> if order = 0 && Array.length a = 0 then None else Some "panic expected") true)
  | "fast_coset_interpolate" | "fast_coset_interpolate_b" ->
      let v = se_ 1 in
      let n = Array.length v in
      let (m, off) =
        if op = "fast_coset_interpolate" then (pint_fast_coset_interpolate o intt (f.of_vals (List.map ZZ.of_string (grp 0))) (me 1), (selems f (grp 0)).(0))
        else (pint_fast_coset_interpolate_b act intt (bfe_new (z_at 0 0)) (me 1), se_of_z w (z_at 0 0)) in
      (match table_root n with
       | Some g0 when not (se_is_zero off) && n >= 1 ->
           let acc = ref (se_one w) in
           let dom = Array.init n (fun _ -> let pt = widen (se_mul off !acc) w in acc := widen (se_mul !acc [| g0 |]) w; pt) in
           poly_result f m (fun ms ->
               if Array.length ms > n then Some "degree not below n"
               else let pos = if n * n * w * w <= budget then List.init n (fun i -> i) else sample_positions n 48 in
                 match List.find_opt (fun i -> not (se_eq (sp_eval w ms dom.(i)) v.(i))) pos with
                 | Some i -> Some (Printf.sprintf "p(offset w^%d) <> v_%d" i i) | None -> None) false
       | _ -> poly_result f m (fun ms -> if n = 0 && Array.length ms = 0 && not (se_is_zero off) then None else Some "panic expected") true)
  | "modular_preprocess" ->
      (match pint_fmci_preprocess o ntt intt (z_at 0 0) (bfe_new (z_at 0 1)) (mpoly f (grp 1)) with
       | None -> "PANIC"
       | Some d ->
           let ps l = String.concat "" (List.map (fun z -> show_arr (model_sp f z) ^ " / ") l) in
           ps d.pp_even_zerofiers ^ ps d.pp_odd_zerofiers ^ show_arr (model_arr f d.pp_shift_coefficients) ^ " / " ^ zs d.pp_tail_length)
  | "modular_interpolate" ->
      let off = z_at 0 0 in
      let vals = me 1 and modulus = mpoly f (grp 2) in
      let smod = spoly f (grp 2) in
      dbg2 ~relevant:(vals = []) (fun d ->
          let m = match pint_fmci_preprocess o ntt intt (zi (List.length vals)) (bfe_new off) modulus with
            | None -> None
            | Some pre -> pint_fmci_with_zerofiers_and_ntt_friendly_multiple o act ntt intt d vals (bfe_new off) modulus pre in
          if Array.length smod = 0 then poly_result f m (fun _ -> Some "panic expected") true
          else match interpolant off (grp 1) with
            | Ok ip -> poly_result f m (expect_eq_sp (sp_rem w ip smod)) false
            | Error "no-spec" -> poly_result f m (fun _ -> None) true
            | Error e -> "SPECDIFF " ^ e)
  | "coset_extrapolate" ->
      let off = z_at 0 0 in
      dbg2 ~relevant:(me 1 = []) (fun d -> extrap_result (pint_coset_extrapolate o act ntt intt d (bfe_new off) (me 1) (me 2))
               (extrapolate_spec off [grp 1] (se_ 2)))
  | "batch_coset_extrapolate" | "par_batch_coset_extrapolate" ->
      let off = z_at 0 0 and n = int_at 0 1 in
      let cws = if n <= 0 then [] else
          let all = chunk (n * w) (grp 1) in List.filter (fun c -> List.length c = n * w) all in
      let spec = if n <= 0 then Error "no-spec" else extrapolate_spec off cws (se_ 2) in
      let spec = match spec with Ok s when cws = [] && table_root n = None -> Error "no-spec" | s -> s in
      dbg2 ~relevant:(n <= 0) (fun d ->
          let m = if op = "batch_coset_extrapolate" then pint_batch_coset_extrapolate o act ntt intt d (bfe_new off) (zi n) (me 1) (me 2)
            else pint_par_batch_coset_extrapolate o act ntt intt d (bfe_new off) (zi n) (me 1) (me 2) in
          extrap_result m spec)
  | "barycentric" ->
      let x = (se_ 1).(0) in
      let v = se_ 0 in
      let n = Array.length v in
      let m = pint_barycentric_evaluate o act (me 0) (List.hd (me 1)) in
      let ms = match m with None -> "PANIC" | Some r -> show_se (to_se f r) in
      (match (if n >= 1 then coset w ZZ.one n else None) with
       | Some dom when not (Array.exists (fun d -> se_eq d x) dom) ->
           (match sp_coset_interpolant w ZZ.one v with
            | Some ip -> let s = show_se (sp_eval w ip x) in if s = ms then ms else "SPECDIFF model=" ^ ms ^ " spec=" ^ s
            | None -> ms)
       | _ -> ms)
  (* ---- colinearity *)
  | "colinear3" ->
      let pts = se_ 0 in
      let (x0, y0, x1, y1, x2, y2) = (pts.(0), pts.(1), pts.(2), pts.(3), pts.(4), pts.(5)) in
      let m = bit (pint_are_colinear_3 o (List.nth (me 0) 0, List.nth (me 0) 1) (List.nth (me 0) 2, List.nth (me 0) 3) (List.nth (me 0) 4, List.nth (me 0) 5)) in
      let s = bit (distinct [| x0; x1; x2 |] &&
                   se_eq (se_mul (se_sub x0 x1) (se_sub y2 y0)) (se_mul (se_sub y0 y1) (se_sub x2 x0))) in
      if m = s then m else "SPECDIFF model=" ^ m ^ " spec=" ^ s
  | "colinear" ->
      let rec prs = function a :: b :: r -> (a, b) :: prs r | _ -> [] in
      let mp = prs (me 0) and sp_ = prs (Array.to_list (se_ 0)) in
      let m = match pint_are_colinear o mp with None -> "PANIC" | Some b -> bit b in
      let s = match sp_ with
        | (x0, y0) :: (x1, y1) :: rest when List.length sp_ >= 3 && distinct (Array.of_list (List.map fst sp_)) ->
            bit (List.for_all (fun (x, y) -> se_eq (se_mul (se_sub x0 x1) (se_sub y y0)) (se_mul (se_sub y0 y1) (se_sub x x0))) rest)
        | _ -> "0" in
      if m = s then m else "SPECDIFF model=" ^ m ^ " spec=" ^ s
  | "colinear_y" ->
      let pts = se_ 0 and x2 = (se_ 1).(0) in
      let l = me 0 in
      let m = match pint_get_colinear_y o (List.nth l 0, List.nth l 1) (List.nth l 2, List.nth l 3) (List.hd (me 1)) with
        | None -> "PANIC" | Some r -> show_se (to_se f r) in
      if se_eq pts.(0) pts.(2) then (if m = "PANIC" then m else "SPECDIFF model=" ^ m ^ " spec=PANIC")
      else begin
        (* y = y0 + (y0 - y1)/(x0 - x1) * (x2 - x0) *)
        let s = show_se (widen (se_add pts.(1) (se_mul (se_mul (se_sub pts.(1) pts.(3)) (se_inv (se_sub pts.(0) pts.(2)))) (se_sub x2 pts.(0)))) w) in
        if m = s then m else "SPECDIFF model=" ^ m ^ " spec=" ^ s
      end
  | _ -> "UNKNOWN-OP"

(* extrap_lowdeg b <offset> <log2 n> | <polynomial> | <points>: specification only - extrapolating the codeword of a
   low-degree polynomial gives that polynomial's values at the points (Horner with zarith); the model is not run, so
   codeword lengths far beyond what the model can execute keep the tie to the code alive *)
let extrap_lowdeg (rest : string list) : string =
  match split_groups rest with
  | [_; coeffs; pts] ->
      let md x = ZZ.erem x (ZZ.of_string "18446744069414584321") in
      let cs = List.rev_map (fun c -> md (ZZ.of_string c)) coeffs in
      let ev x = List.fold_left (fun acc c -> md (ZZ.add (ZZ.mul acc x) c)) ZZ.zero cs in
      let vals = List.map (fun x -> ZZ.to_string (ev (md (ZZ.of_string x)))) pts in
      String.concat " " (string_of_int (List.length pts) :: vals)
  | _ -> "BAD-CASE"

let run (op : string) (a : string list) : string =
  match a with
  | [] -> "BAD-CASE"
  | "b" :: rest when op = "extrap_lowdeg" -> extrap_lowdeg rest
  | field :: rest ->
      let g = split_groups rest in
      (match field with
       | "b" -> run_one bf op g
       | "x" -> run_one xf op g
       | _ -> "BAD-FIELD")

let process_line (line : string) : string option =
  let line = String.trim line in
  if line = "" || line.[0] = '#' then None else
  match List.filter (fun s -> s <> "") (String.split_on_char ' ' line) with
  | id :: op :: args ->
      let res = try run op args with e -> "ORACLE-EXCEPTION " ^ Printexc.to_string e in
      Some (id ^ " " ^ res)
  | _ -> None

let read_lines (ic : in_channel) : string list =
  let acc = ref [] in
  (try while true do acc := input_line ic :: !acc done with End_of_file -> ());
  List.rev !acc

let sequential (lines : string list) : unit =
  List.iter (fun l -> match process_line l with Some r -> print_string r; print_newline () | None -> ()) lines

(* The extracted field arithmetic costs about 1 us per operation and the model repeats all the work the code does, so the
   case file is split round-robin over worker processes (copies of this executable started through the shell; plain
   Stdlib, no Unix library).  C08_ORACLE_JOBS=1 disables it. *)
let () =
  if Array.length Sys.argv >= 3 && Sys.argv.(1) = "--worker" then begin
    let ic = open_in Sys.argv.(2) in
    sequential (read_lines ic); close_in ic
  end else begin
    let lines = read_lines stdin in
    let jobs = try int_of_string (Sys.getenv "C08_ORACLE_JOBS") with _ -> 12 in
    let n = List.length lines in
    if jobs <= 1 || n < 16 then sequential lines
    else begin
      let dir = Filename.temp_file "c08oracle" ".d" in
      Sys.remove dir; Sys.mkdir dir 0o700;
      let ocs = Array.init jobs (fun k -> open_out (Printf.sprintf "%s/in%d" dir k)) in
      (* longest lines first, each to the least loaded worker (cost estimate: length^1.5) *)
      let load = Array.make jobs 0.0 in
      let sorted = List.sort (fun a b -> compare (String.length b) (String.length a)) lines in
      List.iter (fun l ->
          let k = ref 0 in
          Array.iteri (fun j x -> if x < load.(!k) then k := j) load;
          load.(!k) <- load.(!k) +. (float_of_int (String.length l) ** 1.5) +. 1000.0;
          output_string ocs.(!k) l; output_char ocs.(!k) '\n') sorted;
      Array.iter close_out ocs;
      let q = Filename.quote in
      let cmd = String.concat " " (List.init jobs (fun k ->
          Printf.sprintf "(%s --worker %s > %s) &" (q Sys.executable_name) (q (Printf.sprintf "%s/in%d" dir k)) (q (Printf.sprintf "%s/out%d" dir k))))
                ^ " wait" in
      let _ = Sys.command cmd in
      for k = 0 to jobs - 1 do
        let f = Printf.sprintf "%s/out%d" dir k in
        (if Sys.file_exists f then begin
            let ic = open_in f in
            List.iter (fun l -> print_string l; print_newline ()) (read_lines ic); close_in ic; Sys.remove f
          end);
        Sys.remove (Printf.sprintf "%s/in%d" dir k)
      done;
      (try Sys.rmdir dir with _ -> ())
    end
  end
