(* Oracle driver for C09 (division, reduction, gcd, power-series inversion, structured multiples, clean division,
   XFieldElement::inverse).  For every case line `<id> <op> <field> <group> | <group> ...` (same syntax as
   harness/src/bin/c09.rs) it runs the extracted Coq MODEL (model/PolyDiv.v) on the RAW coefficient lists as
   described by the storage descriptors (`o<k>`/`b<k>`: k zero coefficients appended) and an independent SPEC written
   here with zarith on plain canonical values: schoolbook long division, Euclid's algorithm, the O(n*m) convolution;
   the extension field is Z_p[x]/(x^3 - x + 1) done by hand.  The spec never looks at the storage descriptor.
   Output: the result if model and spec agree, else `SPECDIFF model=... spec=... [why=...]`. *)
module ZZ = Z
open Model

let p = Model.p
let zs = ZZ.to_string
let md x = ZZ.erem x p
let zi = ZZ.of_int

(* ------------------------------------------------------------------ fields *)
type 'f fld = {
  o : 'f fops;
  w : int;
  of_vals : ZZ.t list -> 'f;
  to_vals : 'f -> ZZ.t list;
  ntt : 'f list -> 'f list option;
  intt : 'f list -> 'f list option;
}
let bf : ZZ.t fld = {
  o = bfe_ops; w = 1;
  of_vals = (fun l -> bfe_new (List.hd l));
  to_vals = (fun x -> [bfe_value x]);
  ntt = ntt_b; intt = intt_b;
}
let xf : xfe fld = {
  o = xfe_ops; w = 3;
  of_vals = (fun l -> match l with [a; b; c] -> ((bfe_new a, bfe_new b), bfe_new c) | _ -> failwith "xfe");
  to_vals = (fun ((a, b), c) -> [bfe_value a; bfe_value b; bfe_value c]);
  ntt = ntt_x; intt = intt_x;
}

(* ------------------------------------------------------------------ spec arithmetic on value arrays *)
type se = ZZ.t array                (* 1 entry: base field; 3 entries: extension field *)
let se_zero w = Array.make w ZZ.zero
let se_is_zero (a : se) = Array.for_all (fun x -> ZZ.equal x ZZ.zero) a
let se_eq (a : se) (b : se) = Array.length a = Array.length b && Array.for_all2 ZZ.equal a b
let se_add (a : se) (b : se) : se = Array.init (Array.length a) (fun i -> md (ZZ.add a.(i) b.(i)))
let se_neg (a : se) : se = Array.map (fun x -> md (ZZ.neg x)) a
let se_sub (a : se) (b : se) : se = Array.init (Array.length a) (fun i -> md (ZZ.sub a.(i) b.(i)))
let se_mul (a : se) (b : se) : se =
  if Array.length a = 1 then [| md (ZZ.mul a.(0) b.(0)) |]
  else begin
    let r = Array.make 5 ZZ.zero in
    for i = 0 to 2 do for j = 0 to 2 do r.(i + j) <- ZZ.add r.(i + j) (ZZ.mul a.(i) b.(j)) done done;
    (* x^3 = x - 1 ; x^4 = x^2 - x *)
    [| md (ZZ.sub r.(0) r.(3)); md (ZZ.sub (ZZ.add r.(1) r.(3)) r.(4)); md (ZZ.add r.(2) r.(4)) |]
  end
let se_one w = let a = se_zero w in a.(0) <- ZZ.one; a
(* inverse: Fermat in the respective field (|F| - 2) *)
let se_inv (a : se) : se =
  if Array.length a = 1 then [| ZZ.invert a.(0) p |]
  else begin
    let e = ZZ.sub (ZZ.pow p 3) (zi 2) in
    let acc = ref (se_one 3) in
    for i = ZZ.numbits e - 1 downto 0 do
      acc := se_mul !acc !acc;
      if ZZ.testbit e i then acc := se_mul !acc a
    done; !acc
  end

type sp = se array                  (* normalised: last entry non-zero *)
let sp_norm (a : se array) : sp =
  let n = ref (Array.length a) in
  while !n > 0 && se_is_zero a.(!n - 1) do decr n done;
  Array.sub a 0 !n
let sp_deg (a : sp) = Array.length a - 1
let sp_eq (a : sp) (b : sp) = Array.length a = Array.length b && Array.for_all2 se_eq a b
let sp_coeff (a : sp) w i = if i < Array.length a then a.(i) else se_zero w
let sp_add w (a : sp) (b : sp) : sp =
  sp_norm (Array.init (max (Array.length a) (Array.length b)) (fun i -> se_add (sp_coeff a w i) (sp_coeff b w i)))
let sp_sub w (a : sp) (b : sp) : sp =
  sp_norm (Array.init (max (Array.length a) (Array.length b)) (fun i -> se_sub (sp_coeff a w i) (sp_coeff b w i)))
(* schoolbook product; `upto` = number of coefficients wanted (truncated product) *)
let sp_mul_upto w (a : sp) (b : sp) (upto : int) : sp =
  if Array.length a = 0 || Array.length b = 0 then [||]
  else begin
    let n = min upto (Array.length a + Array.length b - 1) in
    if w = 1 then begin
      let r = Array.make (max n 0) ZZ.zero in
      Array.iteri (fun i x -> if i < n then
        let jm = min (Array.length b - 1) (n - 1 - i) in
        for j = 0 to jm do r.(i + j) <- ZZ.add r.(i + j) (ZZ.mul x.(0) b.(j).(0)) done) a;
      sp_norm (Array.map (fun x -> [| md x |]) r)
    end else begin
      let r = Array.make (max n 0) (se_zero w) in
      Array.iteri (fun i x -> if i < n then
        let jm = min (Array.length b - 1) (n - 1 - i) in
        for j = 0 to jm do r.(i + j) <- se_add r.(i + j) (se_mul x b.(j)) done) a;
      sp_norm r
    end
  end
let sp_mul w a b = sp_mul_upto w a b max_int
let sp_one w : sp = [| se_one w |]
let sp_scalar (a : sp) (s : se) : sp = sp_norm (Array.map (fun c -> se_mul c s) a)
(* schoolbook long division: a = q d + r, deg r < deg d; d non-zero *)
let sp_divmod w (a : sp) (d : sp) : sp * sp =
  let da = sp_deg a and dd = sp_deg d in
  if da < dd then ([||], a)
  else if w = 1 then begin
    let r = Array.map (fun c -> c.(0)) a and dv = Array.map (fun c -> c.(0)) d in
    let lcinv = ZZ.invert dv.(dd) p in
    let q = Array.make (da - dd + 1) ZZ.zero in
    for k = da - dd downto 0 do
      let c = md (ZZ.mul (md r.(k + dd)) lcinv) in
      q.(k) <- c;
      if not (ZZ.equal c ZZ.zero) then
        for j = 0 to dd do r.(k + j) <- md (ZZ.sub r.(k + j) (ZZ.mul c dv.(j))) done
    done;
    (sp_norm (Array.map (fun x -> [| x |]) q), sp_norm (Array.map (fun x -> [| md x |]) (Array.sub r 0 dd)))
  end else begin
    let r = Array.copy a in
    let lcinv = se_inv d.(dd) in
    let q = Array.make (da - dd + 1) (se_zero w) in
    for k = da - dd downto 0 do
      let c = se_mul r.(k + dd) lcinv in
      q.(k) <- c;
      if not (se_is_zero c) then
        for j = 0 to dd do r.(k + j) <- se_sub r.(k + j) (se_mul c d.(j)) done
    done;
    (sp_norm q, sp_norm (Array.sub r 0 dd))
  end
(* Euclid: the monic gcd (zero for two zero inputs) *)
let sp_gcd w (a : sp) (b : sp) : sp =
  let x = ref a and y = ref b in
  while Array.length !y > 0 do
    let (_, r) = sp_divmod w !x !y in
    x := !y; y := r
  done;
  if Array.length !x = 0 then [||] else sp_scalar !x (se_inv !x.(sp_deg !x))
(* Horner *)
let sp_eval w (a : sp) (x : se) : se = Array.fold_right (fun c acc -> se_add (se_mul acc x) c) a (se_zero w)

(* ------------------------------------------------------------------ parsing *)
let split_groups (toks : string list) : string list list =
  let rec go cur acc = function
    | [] -> List.rev (List.rev cur :: acc)
    | "|" :: r -> go [] (List.rev cur :: acc) r
    | t :: r -> go (t :: cur) acc r in
  go [] [] toks
let chunk n (l : 'a list) : 'a list list =
  let rec go acc cur k = function
    | [] -> List.rev (if cur = [] then acc else List.rev cur :: acc)
    | x :: r -> if k + 1 = n then go (List.rev (x :: cur) :: acc) [] 0 r else go acc (x :: cur) (k + 1) r in
  go [] [] 0 l
let storage s = (s.[0] = 'b', int_of_string (String.sub s 1 (String.length s - 1)))
let rec rep x k = if k <= 0 then [] else x :: rep x (k - 1)
(* model raw list and spec polynomial of a polynomial group *)
let raw (f : 'f fld) (g : string list) : 'f list =
  match g with
  | [] -> []
  | d :: vs ->
      let (_, k) = storage d in
      List.map f.of_vals (chunk f.w (List.map ZZ.of_string vs)) @ rep f.o.fzero k
let spec_of (f : 'f fld) (g : string list) : sp =
  match g with
  | [] -> [||]
  | _ :: vs -> sp_norm (Array.of_list (List.map (fun c -> Array.of_list (List.map md c)) (chunk f.w (List.map ZZ.of_string vs))))

(* ------------------------------------------------------------------ printing / comparison *)
let show_se (a : se) = String.concat " " (Array.to_list (Array.map zs a))
let show_sp (a : sp) =
  let b = Buffer.create (16 + 22 * Array.length a) in
  Buffer.add_string b (string_of_int (Array.length a));
  Array.iter (fun c -> Buffer.add_char b ' '; Buffer.add_string b (show_se c)) a;
  Buffer.contents b
let short s = if String.length s <= 600 then s else String.sub s 0 600 ^ "..."
let model_sp (f : 'f fld) (l : 'f list) : sp = sp_norm (Array.of_list (List.map (fun c -> Array.of_list (f.to_vals c)) l))
let model_vec (f : 'f fld) (l : 'f list) : se array = Array.of_list (List.map (fun c -> Array.of_list (f.to_vals c)) l)
let show_opt_sp (f : 'f fld) (m : 'f list option) = match m with None -> "PANIC" | Some l -> show_sp (model_sp f l)
let diff m s = "SPECDIFF model=" ^ short m ^ " spec=" ^ short s
(* model polynomial result (None = panic) against the spec polynomial (None = the operation must panic) *)
let check_poly (f : 'f fld) (m : 'f list option) (s : sp option) : string =
  match m, s with
  | None, None -> "PANIC"
  | None, Some s -> diff "PANIC" (show_sp s)
  | Some l, None -> diff (show_sp (model_sp f l)) "PANIC"
  | Some l, Some s -> let ms = model_sp f l in if sp_eq ms s then show_sp ms else diff (show_sp ms) (show_sp s)
let bit b = if b then "1" else "0"

(* ------------------------------------------------------------------ operations over one field *)
let run_one (type f) (f : f fld) (op : string) (g : string list list) : string =
  let o = f.o and w = f.w in
  let grp i = List.nth g i in
  let r i = raw f (grp i) and s i = spec_of f (grp i) in
  let int0 () = int_of_string (List.hd (grp 0)) in
  let nz (a : sp) = Array.length a > 0 in
  let qr_str (q, rm) = show_sp q ^ " / " ^ show_sp rm in
  match op with
  | "divide" | "naive_divide" ->
      let a = s 0 and d = s 1 in
      let m = (if op = "divide" then pdiv_divide o (r 0) (r 1) else pdiv_naive_divide o (r 0) (r 1)) in
      let ms = match m with None -> "PANIC" | Some (q, rm) -> qr_str (model_sp f q, model_sp f rm) in
      let ss = if nz d then qr_str (sp_divmod w a d) else "PANIC" in
      if ms = ss then ms else diff ms ss
  | "div" -> check_poly f (pdiv_div o (r 0) (r 1)) (if nz (s 1) then Some (fst (sp_divmod w (s 0) (s 1))) else None)
  | "rem" -> check_poly f (pdiv_rem o (r 0) (r 1)) (if nz (s 1) then Some (snd (sp_divmod w (s 0) (s 1))) else None)
  | "reduce" | "fast_reduce" ->
      let m = if op = "reduce" then pdiv_reduce o f.ntt f.intt (r 0) (r 1) else pdiv_fast_reduce o f.ntt f.intt (r 0) (r 1) in
      check_poly f m (if nz (s 1) then Some (snd (sp_divmod w (s 0) (s 1))) else None)
  | "xgcd" ->
      let x = s 0 and y = s 1 in
      (match pdiv_xgcd o (r 0) (r 1) with
       | PdPanic -> diff "PANIC" (show_sp (sp_gcd w x y))
       | PdFuel -> diff "OUT-OF-FUEL" (show_sp (sp_gcd w x y))
       | PdOk ((gm, am), bm) ->
           let gs = model_sp f gm and a = model_sp f am and b = model_sp f bm in
           let out = show_sp gs ^ " / " ^ show_sp a ^ " / " ^ show_sp b in
           let gspec = sp_gcd w x y in
           if not (sp_eq gs gspec) then diff out ("gcd " ^ show_sp gspec)
           else if not (sp_eq (sp_add w (sp_mul w a x) (sp_mul w b y)) gs) then diff out "bezout-identity-fails"
           else out)
  | "fpsi_newton" ->
      (* spec: f * g = 1 mod x^n; checked for the Newton model (printed) and for the minimal model (precision n - 1) *)
      let n = int0 () in
      let a = s 1 in
      let invertible = nz a && not (se_is_zero a.(0)) in
      let ok_inverse (gl : f list) nn =
        let g_ = model_sp f gl in
        nn = 0 || sp_eq (sp_mul_upto w a g_ nn) (sp_one w) in
      let m = pdiv_fpsi_newton o f.ntt f.intt (r 1) (zi n) in
      let mm = if n >= 1 then pdiv_fpsi_minimal o (r 1) (zi (n - 1)) else pdiv_fpsi_minimal o (r 1) (zi 0) in
      (match m, mm with
       | None, None when not invertible -> "PANIC"
       | Some gl, Some gml when invertible ->
           if not (ok_inverse gl n) then diff (show_sp (model_sp f gl)) "newton: f*g <> 1 mod x^n"
           else if not (ok_inverse gml n) then diff (show_sp (model_sp f gml)) "minimal: f*g <> 1 mod x^n"
           else if List.length gml <> max n 1 then diff (show_sp (model_sp f gml)) "minimal: wrong length"
           else show_sp (model_sp f gl)
       | _ -> diff (show_opt_sp f m ^ " ; minimal " ^ show_opt_sp f mm) (if invertible then "an inverse" else "PANIC"))
  | "smod" ->
      (* spec: a multiple of f of degree exactly n; monic (X^n + lower part of degree < deg f) when deg f >= 1 *)
      let n = int0 () in
      let a = s 1 in
      let m = pdiv_structured_multiple_of_degree o f.ntt f.intt (r 1) (zi n) in
      let defined = nz a && sp_deg a <= n in
      (match m with
       | None -> if defined then diff "PANIC" "a multiple" else "PANIC"
       | Some l ->
           let ms = model_sp f l in
           if not defined then diff (show_sp ms) "PANIC"
           else if sp_deg ms <> n then diff (show_sp ms) ("degree " ^ string_of_int n)
           else if nz (snd (sp_divmod w ms a)) then diff (show_sp ms) "not a multiple"
           else if sp_deg a >= 1 && not (se_eq ms.(n) (se_one w)) then diff (show_sp ms) "not monic"
           else if sp_deg a >= 1 && sp_deg (sp_norm (Array.sub ms 0 n)) >= sp_deg a then diff (show_sp ms) "tail too long"
           else show_sp ms)
  | "shift_factor" ->
      (* (ntt of the structured multiple of degree n without its leading term, tail length); spec: the inverse transform
         is X^n-less part of a monic multiple of degree n = domain length, and the tail length is 1 + its degree *)
      let a = s 0 in
      (match pdiv_shift_factor_ntt_with_tail_length o f.ntt f.intt (r 0) with
       | None -> if nz a then diff "PANIC" "defined" else "PANIC"
       | Some (v, m) ->
           let out = show_sp (model_vec f v) ^ " / " ^ zs m in
           if not (nz a) then diff out "PANIC"
           else (match f.intt v with
                 | None -> diff out "intt-panics"
                 | Some low ->
                     let n = List.length v in
                     let lowp = model_sp f low in
                     let full = sp_add w lowp (Array.init (n + 1) (fun i -> if i = n then se_one w else se_zero w)) in
                     if sp_deg a >= 1 && nz (snd (sp_divmod w full a)) then diff out "X^n + shift is not a multiple"
                     else if sp_deg a >= 1 && ZZ.to_int m <> max 1 (sp_deg lowp + 1) then diff out "tail length"
                     else out))
  | "reduce_ntt" ->
      (* spec: the result is congruent to the input modulo the modulus (and short) *)
      let a = s 0 and d = s 1 in
      (match pdiv_shift_factor_ntt_with_tail_length o f.ntt f.intt (r 1) with
       | None -> if nz d then diff "PANIC" "defined" else "PANIC"
       | Some (v, m) ->
           let res = pdiv_reduce_by_ntt_friendly_modulus o f.ntt f.intt true (r 0) v m in
           let res' = pdiv_reduce_by_ntt_friendly_modulus o f.ntt f.intt false (r 0) v m in
           (match res, res' with
            | Some l, Some l' when l = l' ->
                let ms = model_sp f l in
                if not (nz d) then diff (show_sp ms) "PANIC"
                else if sp_deg d >= 1 && nz (snd (sp_divmod w (sp_sub w ms a) d)) then diff (show_sp ms) "not congruent"
                else if Array.length ms > List.length v then diff (show_sp ms) "not reduced"
                else show_sp ms
            | None, None -> diff "PANIC" "defined"
            | _ -> diff "profile-dependent" "one result"))
  | _ -> "UNKNOWN-OP"

(* ------------------------------------------------------------------ clean_divide (base field only)
   The model (`pdiv_clean_divide` = the current tree) is run with the production cutoff (what the harness runs), with
   and without debug assertions, and with the cfg(test) cutoff 0, where every non-zero divisor takes the NTT arm; all of
   them must give the long-division quotient of the spec. *)
let run_clean_divide (g : string list list) : string =
  let f = bf in
  let grp i = List.nth g i in
  let a = spec_of f (grp 0) and d = spec_of f (grp 1) in
  let ra = raw f (grp 0) and rd = raw f (grp 1) in
  let cutoff = cLEAN_DIVIDE_CUTOFF_THRESHOLD_PROD in
  let ntt_arm = ZZ.geq (poly_degree bfe_ops rd) cutoff in
  let m = pdiv_clean_divide cutoff false ra rd in
  (* debug assertions only matter where long division runs: below the cutoff (checked here) and in the fallback of the NTT
     arm, where `debug_assert!(remainder.is_zero())` cannot fire on a clean division (C09_clean_divide_fallback) *)
  let m' = if ntt_arm then m else pdiv_clean_divide cutoff true ra rd in
  if Array.length d = 0 then (if m = None && m' = None then "PANIC" else diff (show_opt_sp f m) "PANIC")
  else begin
    let (q, rm) = sp_divmod 1 a d in
    if Array.length rm > 0 then
      (* unclean division: outside the property (the result is profile dependent: debug_assert) *)
      "UNCLEAN release=" ^ show_opt_sp f m ^ " checked=" ^ show_opt_sp f m'
    else begin
      let agrees x = (match x with Some l -> sp_eq (model_sp f l) q | None -> false) in
      if not (agrees m) then diff (show_opt_sp f m) (show_sp q)
      else if not (agrees m') then diff ("checked:" ^ show_opt_sp f m') (show_sp q)
      else if ntt_arm then show_sp q
      else begin
        let t = pdiv_clean_divide cLEAN_DIVIDE_CUTOFF_THRESHOLD_TEST false ra rd in
        if not (agrees t) then diff ("cutoff0:" ^ show_opt_sp f t) (show_sp q) else show_sp q
      end
    end
  end

(* ------------------------------------------------------------------ XFieldElement::inverse *)
let run_xinv (g : string list list) : string =
  let v = List.map ZZ.of_string (List.hd g) in
  let x = xf.of_vals v in
  let sx : se = Array.of_list (List.map md v) in
  let show_x y = show_se (Array.of_list (xf.to_vals y)) in
  match pdiv_xfe_inverse x with
  | PdFuel -> diff "OUT-OF-FUEL" "an inverse"
  | PdPanic -> if se_is_zero sx then "PANIC" else diff "PANIC" "an inverse"
  | PdOk y ->
      if se_is_zero sx then diff (show_x y) "PANIC"
      else if not (se_eq (se_mul sx (Array.of_list (xf.to_vals y))) (se_one 3)) then diff (show_x y) "x * y <> 1"
      else (match xinverse x with
            | Some y' when y' = y -> show_x y
            | _ -> diff (show_x y) "closed form of model/XField.v differs")

let run (op : string) (a : string list) : string =
  match op, a with
  | _, [] -> "BAD-CASE"
  | _, field :: rest ->
      let g = split_groups rest in
      let rec take n l = if n = 0 then [] else match l with [] -> [] | x :: t -> x :: take (n - 1) t in
      let rec rep x k = if k <= 0 then [] else x :: rep x (k - 1) in
      let w = if field = "x" then 3 else 1 in
      (* operands sharing memory are, to the model and the specification, just two lists *)
      let (op, g) = match op, g with
        | "alias", [[sub; i; j]; (d :: vs)] ->
            let (_, k) = storage d in
            let all = vs @ rep "0" (k * w) in
            let pre n = "b0" :: take (n * w) all in
            (sub, [pre (int_of_string i); pre (int_of_string j)])
        | "alias_clean_divide", [[i; j]; (_ :: vs)] ->
            let pre n = "b0" :: take n vs in
            ("clean_divide", [pre (int_of_string i); pre (int_of_string j)])
        | "same", [[sub]; pg] -> (sub, [pg; pg])
        | _ -> (op, g) in
      (match op, field with
       | "clean_divide", _ -> run_clean_divide g
       | "xinv", _ -> run_xinv g
       | _, "b" -> run_one bf op g
       | _, "x" -> run_one xf op g
       | _ -> "BAD-FIELD")

let process_line (line : string) : string option =
  let line = String.trim line in
  if line = "" || line.[0] = '#' then None else
  match List.filter (fun s -> s <> "") (String.split_on_char ' ' line) with
  | id :: op :: args ->
      let res = try run op args with e -> "ORACLE-EXCEPTION " ^ Printexc.to_string e in
      Some (id ^ " " ^ res)
  | _ -> None

let read_lines (ic : in_channel) : string list =
  let acc = ref [] in
  (try while true do acc := input_line ic :: !acc done with End_of_file -> ());
  List.rev !acc

let sequential (lines : string list) : unit =
  List.iter (fun l -> match process_line l with Some r -> print_string r; print_newline () | None -> ()) lines

(* The extracted field arithmetic costs a few microseconds per coefficient step and the model repeats all the work the code
   does (the degree-2000 divisions and NTT paths cost seconds each), so the case file is split round-robin over worker
   processes: copies of this executable started through the shell (plain Stdlib, no Unix library), as ocaml/c08.ml does.
   The result lines carry their case ids, so their order does not matter.  C09_ORACLE_JOBS=1 disables it. *)
let () =
  if Array.length Sys.argv >= 3 && Sys.argv.(1) = "--worker" then begin
    let ic = open_in Sys.argv.(2) in
    sequential (read_lines ic); close_in ic
  end else begin
    let lines = read_lines stdin in
    let jobs = try int_of_string (Sys.getenv "C09_ORACLE_JOBS") with _ -> 8 in
    let n = List.length lines in
    if jobs <= 1 || n < 16 then sequential lines
    else begin
      let dir = Filename.temp_file "c09oracle" ".d" in
      Sys.remove dir; Sys.mkdir dir 0o700;
      let ocs = Array.init jobs (fun k -> open_out (Printf.sprintf "%s/in%d" dir k)) in
      List.iteri (fun i l -> output_string ocs.(i mod jobs) l; output_char ocs.(i mod jobs) '\n') lines;
      Array.iter close_out ocs;
      let q = Filename.quote in
      let cmd = String.concat " " (List.init jobs (fun k ->
          Printf.sprintf "(%s --worker %s > %s) &" (q Sys.executable_name) (q (Printf.sprintf "%s/in%d" dir k)) (q (Printf.sprintf "%s/out%d" dir k))))
                ^ " wait" in
      let _ = Sys.command cmd in
      for k = 0 to jobs - 1 do
        let f = Printf.sprintf "%s/out%d" dir k in
        (if Sys.file_exists f then begin
            let ic = open_in f in
            List.iter (fun l -> print_string l; print_newline ()) (read_lines ic); close_in ic; Sys.remove f
          end);
        Sys.remove (Printf.sprintf "%s/in%d" dir k)
      done;
      (try Sys.rmdir dir with _ -> ())
    end
  end
