(* Oracle driver for C14 (derive macro): coq/model/Codec.v + coq/model/DeriveModel.v extracted to gen_c14/model.ml.
   Case lines:  <id> <op> <instance-id> <term> <numbers...>     (the instance id is for the Rust harness; ignored here)
     dec / decv / decx / tign   decode;  `OK <encode of the decoded value>` | ERR | PANIC
            model-internal sanity (SPECDIFF ..): release and checked models agree, an accepted value is well typed,
            decoding its encoding gives the value back
     slen   static_length
     recur  (no arguments) the expected encoding of Recur::Node(Box::new(Recur::Leaf(3))), a spec constant
   term syntax: the ty-terms of c03.ml
       bfe u8 u16 u32 u64 u128 bool ph box(T) opt(T) vec(T) arr(N,T) tup(T,..) poly(T) u32s(N) struct(T,..) enum(v(T,..),..)
   plus the shapes of the derive macro, lowered to a ty by the extracted `lower` wherever they occur:
       ustruct | nstruct(f(T),i(T),..) | tstruct(f(T),i(T),..) | denum(v(T,..),x<k>(T,..),..)
       f = included field, i = field carrying #[bfield_codec(ignore)], x<k> = variant with explicit Rust discriminant k.
   A shape at the top of the term goes through shape_decode / shape_encode (ignored fields defaulted / projected). *)
module ZZ = Z
open Model

let z = ZZ.of_string
let s = ZZ.to_string

exception Parse of string
type top = Ty of ty | Shape of shape

let parse (str : string) : top =
  let n = String.length str in
  let pos = ref 0 in
  let peek () = if !pos < n then str.[!pos] else '\000' in
  let expect c = if peek () = c then incr pos else raise (Parse (Printf.sprintf "expected %c at %d in %s" c !pos str)) in
  let ident () =
    let st = !pos in
    while !pos < n && (match str.[!pos] with 'a' .. 'z' | '0' .. '9' -> true | _ -> false) do incr pos done;
    String.sub str st (!pos - st) in
  let rec top () : top =
    let id = ident () in
    match id with
    | "ustruct" -> Shape SUnit
    | "nstruct" -> expect '('; let fs = fields () in expect ')'; Shape (SNamed fs)
    | "tstruct" -> expect '('; let fs = fields () in expect ')'; Shape (STuple fs)
    | "denum" -> expect '('; let vs = dvariants () in expect ')'; Shape (SEnum vs)
    | "bfe" -> Ty TBfe | "u8" -> Ty TU8 | "u16" -> Ty TU16 | "u32" -> Ty TU32 | "u64" -> Ty TU64 | "u128" -> Ty TU128
    | "bool" -> Ty TBool | "ph" -> Ty TPhantom
    | "box" -> expect '('; let t = ty () in expect ')'; Ty (TBox t)
    | "opt" -> expect '('; let t = ty () in expect ')'; Ty (TOption t)
    | "vec" -> expect '('; let t = ty () in expect ')'; Ty (TVec t)
    | "poly" -> expect '('; let t = ty () in expect ')'; Ty (TPoly t)
    | "arr" -> expect '('; let k = ident () in expect ','; let t = ty () in expect ')'; Ty (TArray (z k, t))
    | "u32s" -> expect '('; let k = ident () in expect ')'; Ty (TU32s (z k))
    | "tup" -> expect '('; let ts = tys () in expect ')'; Ty (TTuple ts)
    | "struct" -> expect '('; let ts = tys () in expect ')'; Ty (TStruct ts)
    | "enum" -> expect '('; let vs = variants () in expect ')'; Ty (TEnum vs)
    | _ -> raise (Parse ("unknown constructor `" ^ id ^ "` in " ^ str))
  and ty () : ty = match top () with Ty t -> t | Shape sh -> lower sh
  and tys () =
    if peek () = ')' then [] else
    let t = ty () in
    if peek () = ',' then (incr pos; t :: tys ()) else [t]
  and fields () =
    if peek () = ')' then [] else begin
      let id = ident () in
      let ign = (match id with "f" -> false | "i" -> true | _ -> raise (Parse "field expected")) in
      expect '('; let t = ty () in expect ')';
      let f = { fign = ign; fty = t } in
      if peek () = ',' then (incr pos; f :: fields ()) else [f]
    end
  and variants () =
    if peek () = ')' then [] else begin
      let id = ident () in
      if id <> "v" then raise (Parse "variant expected");
      expect '('; let ts = tys () in expect ')';
      if peek () = ',' then (incr pos; ts :: variants ()) else [ts]
    end
  and dvariants () =
    if peek () = ')' then [] else begin
      let id = ident () in
      let disc =
        if id = "v" then None
        else if String.length id > 1 && id.[0] = 'x' then Some (z (String.sub id 1 (String.length id - 1)))
        else raise (Parse "variant expected") in
      expect '('; let ts = tys () in expect ')';
      if peek () = ',' then (incr pos; (disc, ts) :: dvariants ()) else [(disc, ts)]
    end in
  let t = top () in
  if !pos <> n then raise (Parse ("trailing input in " ^ str));
  t

let memo : (string, top) Hashtbl.t = Hashtbl.create 512
let top_of str = match Hashtbl.find_opt memo str with
  | Some t -> t
  | None -> let t = parse str in Hashtbl.add memo str t; t

let nums l = String.concat "" (List.map (fun x -> " " ^ s x) l)
let rec drop k l = if k = 0 then l else match l with [] -> [] | _ :: r -> drop (k - 1) r
let verdict = function Ok _ -> "OK" | Err -> "ERR" | Panic -> "PANIC"

(* decode / encode / has_type / static_length of the top-level term *)
let t_decode chk = function Ty t -> decode chk t | Shape sh -> shape_decode default_value chk sh
let t_encode = function Ty t -> encode t | Shape sh -> shape_encode sh
let t_has_type = function Ty t -> has_type t | Shape sh -> shape_has_type sh
let t_slen = function Ty t -> static_length t | Shape sh -> shape_static_length sh

(* the recursive type `enum Recur { Leaf(u32), Node(Box<Recur>) }` is outside the grammar (a ty is a finite tree).
   Spec constant: a recursive type has no static length, so Node(Box(Leaf 3)) = discriminant 1, length prefix 2, [0; 3]. *)
let run op a =
  if op = "recur" then "OK 1 2 0 3" else
  if op = "recur-probe" then "SEE-EXTRA-CHECK" else
  let t = top_of (List.nth a 1) in
  let sq = List.map z (drop 2 a) in
  match op with
  | "dec" | "decv" | "decx" | "tign" ->
      let r = t_decode false t sq in
      let r' = t_decode true t sq in
      if verdict r <> verdict r' then "SPECDIFF release/checked models differ"
      else (match r with
            | Ok v ->
                if not (t_has_type t v) then "SPECDIFF model accepted an ill-typed value"
                else begin
                  let e = t_encode t v in
                  match t_decode false t e with
                  | Ok v2 when v2 = v -> "OK" ^ nums e
                  | _ -> "SPECDIFF model: decode (encode v) <> v"
                end
            | Err -> "ERR"
            | Panic -> "PANIC")
  | "slen" -> (match t_slen t with Some l -> s l | None -> "NONE")
  | _ -> "BADOP"

let () =
  try
    while true do
      let line = String.trim (input_line stdin) in
      if line <> "" && line.[0] <> '#' then begin
        match String.split_on_char ' ' line |> List.filter (fun x -> x <> "") with
        | id :: op :: a ->
            let res = try run op a with
              | Parse m -> "PARSE-ERROR " ^ m
              | Stack_overflow -> "ORACLE-STACK-OVERFLOW"
              | Failure m -> "ORACLE-FAILURE " ^ m
              | Invalid_argument m -> "ORACLE-FAILURE " ^ m in
            print_string (id ^ " " ^ res ^ "\n")
        | _ -> ()
      end
    done
  with End_of_file -> ()
