(* Oracle driver for C15: the extracted Coq model of the Tip5 sponge (Montgomery words).  Every result is first
   checked against the extracted value-level SPECIFICATION (spec/Tip5Spec.v: padding input ++ [1] ++ 0^k, zero
   initial state, overwrite-absorb, squeeze = rate then permute, index sampling = accepted elements of the
   squeezed stream with the FEWEST squeezes, scalars = groups of three); a disagreement prints `SPECDIFF ...`. *)
module ZZ = Z
open Model
let z = ZZ.of_string
let s = ZZ.to_string
let word x = bfe_new (z x)
let words a = List.map word a
let value x = ZZ.erem (z x) spec_p
let vals a = List.map value a
let show l = String.concat " " (List.map s l)
let rec nat_of_int n = if n <= 0 then O else S (nat_of_int (n - 1))
let rec int_of_nat = function O -> 0 | S n -> 1 + int_of_nat n
let rec take n l = if n = 0 then [] else match l with [] -> [] | x :: r -> x :: take (n - 1) r
let rec drop n l = if n = 0 then l else match l with [] -> [] | _ :: r -> drop (n - 1) r
let canon w = ZZ.geq w ZZ.zero && ZZ.lt w p
(* model words agree with spec values: canonical and same value *)
let agrees model spec =
  List.length model = List.length spec && List.for_all2 (fun w v -> canon w && ZZ.equal (bfe_value w) v) model spec
exception Specdiff of string
let check what model spec =
  if not (agrees model spec) then
    raise (Specdiff (Printf.sprintf "%s model=[%s] spec=[%s]" what (show (List.map bfe_value model)) (show spec)))
let fuel_for n = nat_of_int (20 * n + 200)

let run op a =
  match op with
  | "varlen" | "hash_bfe" | "hash_digest" ->
      (match hash_varlen (words a) with
       | None -> "PANIC"
       | Some d -> check "hash_varlen" d (spec_hash_varlen (vals a)); show d)
  | "padabs" ->
      (match recording_pad_and_absorb_all [] (words a) with
       | None -> "PANIC"
       | Some cs ->
           let flat = List.concat cs in
           check "padding" flat (spec_pad (vals a));
           if not (List.for_all (fun c -> List.length c = 10) cs) then raise (Specdiff "chunk length");
           (* the specification's own shape: input, a single one, fewer than ten zeros, multiple of ten *)
           let n = List.length a and m = List.length flat in
           if not (m mod 10 = 0 && m > n && m - n <= 10) then raise (Specdiff "padded length");
           string_of_int (List.length cs) ^ " " ^ show flat)
  | "padabs_tip5" ->
      (match tip5_pad_and_absorb_all tip5_init (words a) with
       | None -> "PANIC"
       | Some st -> show st)
  | "init" ->
      let v = tip5_new VariableLength and f = tip5_new FixedLength in
      check "init" v (List.init 16 (fun _ -> ZZ.zero));
      check "fixed" f (List.init 16 (fun i -> if i < 10 then ZZ.zero else ZZ.one));
      if v = f then raise (Specdiff "domains share their initial state");
      show v ^ " | " ^ show f
  | "sponge" ->
      let st = ref (words (take 16 a)) and sp = ref (vals (take 16 a)) in
      let out = ref [] in
      let emit x = out := x :: !out in
      let rec go = function
        | [] -> ()
        | "A" :: r ->
            let inp = take 10 r in
            st := absorb !st (words inp);
            sp := spec_absorb !sp (vals inp);
            check "absorb state" !st !sp;
            emit "A"; go (drop 10 r)
        | "S" :: r ->
            let (pr, st') = squeeze !st in
            let (spr, sp') = spec_squeeze !sp in
            check "squeeze output" pr spr; check "squeeze state" st' sp';
            st := st'; sp := sp';
            emit ("S " ^ show pr); go r
        | "I" :: ub :: n :: r ->
            let n = int_of_string n and ubz = z ub in
            (match sample_indices true (fuel_for n) !st ubz (nat_of_int n) with
             | Panic -> raise Exit
             | OutOfFuel -> failwith "fuel"
             | Ok (idx, st') ->
                 (* spec: fewest squeezes k that supply n accepted elements *)
                 (match spec_min_squeezes (nat_of_int (2 * n + 20)) !sp (nat_of_int n) with
                  | None -> failwith "spec fuel"
                  | Some k ->
                      let (sidx, sp') = spec_sample_indices k !sp ubz (nat_of_int n) in
                      if not (List.length idx = n && List.length sidx = n && List.for_all2 ZZ.equal idx sidx) then
                        raise (Specdiff (Printf.sprintf "indices model=[%s] spec=[%s]" (show idx) (show sidx)));
                      check "state after sample_indices (fewest squeezes)" st' sp';
                      st := st'; sp := sp');
                 emit ("I " ^ show idx); go r)
        | "X" :: n :: r ->
            let n = int_of_string n in
            (match sample_scalars !st (nat_of_int n) with
             | Panic -> raise Exit
             | OutOfFuel -> failwith "fuel"
             | Ok (xs, st') ->
                 let (sxs, sp') = spec_sample_scalars !sp (nat_of_int n) in
                 if List.length xs <> n then raise (Specdiff "number of scalars");
                 check "scalars" (List.concat xs) (List.concat sxs);
                 check "state after sample_scalars" st' sp';
                 st := st'; sp := sp';
                 emit ("X " ^ show (List.concat xs)); go r)
        | "P" :: k :: r ->
            let k = int_of_string k in
            let inp = take k r in
            (match tip5_pad_and_absorb_all !st (words inp) with
             | None -> raise Exit
             | Some st' ->
                 (* spec: absorb the padded input block by block *)
                 let padded = spec_pad (vals inp) in
                 let rec blocks sp l = match l with [] -> sp | _ -> blocks (spec_absorb sp (take 10 l)) (drop 10 l) in
                 sp := blocks !sp padded;
                 check "state after pad_and_absorb_all" st' !sp;
                 st := st');
            emit "P"; go (drop k r)
        | _ -> failwith "sponge op"
      in
      (try go (drop 16 a); emit ("ST " ^ show !st); String.concat " " (List.rev !out)
       with Exit -> "PANIC")
  | _ -> "UNKNOWN-OP"

let () =
  try
    while true do
      let line = String.trim (input_line stdin) in
      if line <> "" && line.[0] <> '#' then begin
        match String.split_on_char ' ' line |> List.filter (fun x -> x <> "") with
        | id :: op :: args ->
            let r = try run op args with
              | Specdiff m -> "SPECDIFF " ^ m
              | Stack_overflow -> "ORACLE-ERROR stack"
              | Not_found | Failure _ | Invalid_argument _ -> "ORACLE-ERROR" in
            print_string id; print_char ' '; print_endline r
        | _ -> ()
      end
    done
  with End_of_file -> ()
