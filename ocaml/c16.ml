(* Oracle driver for C16 (MMR index arithmetic).
   For every case prints `<id> <model result>`, the model being the extracted Coq functions
   (gen/MmrIndexGen.v translated from the Rust source + model/MmrIndex.v).  Every result is also checked against
   the extracted forest specification (spec/Forest.v); on disagreement the line is `<id> SPECDIFF ...`.
   Result conventions: decimal numbers separated by spaces, PANIC for a panic (model: None), NONE for Rust's
   Option::None.  Sweep ops print `<count> <checksum>`; the checksum is
   acc <- (acc * 1000003 + v + 1) mod (2^61 - 1) over the emitted values, NONE = 2^64+1, PANIC = 2^64+2. *)
module ZZ = Z
open Model

let z = ZZ.of_string
let s = ZZ.to_string
let zi = ZZ.of_int
let two63 = ZZ.shift_left ZZ.one 63
let two64 = ZZ.shift_left ZZ.one 64
let u64max = ZZ.pred two64
let rec nat_to_int = function O -> 0 | S n -> 1 + nat_to_int n
let zn n = zi (nat_to_int n)
let so f = function Some v -> f v | None -> "PANIC"
let sl l = String.concat " " (List.map s l)
let spair (a, b) = s a ^ " " ^ s b
let zeq = ZZ.equal
let oeq a b = match a, b with Some x, Some y -> zeq x y | None, None -> true | _ -> false
let leq a b = List.length a = List.length b && List.for_all2 zeq a b

(* ---- checksum *)
let cm = zi 1000003
let cp = ZZ.pred (ZZ.shift_left ZZ.one 61)
let c_none = ZZ.add two64 ZZ.one
let c_panic = ZZ.add two64 (zi 2)
let ck acc v = ZZ.rem (ZZ.add (ZZ.mul acc cm) (ZZ.succ v)) cp

exception Specdiff of string
let diff fmt = Printf.ksprintf (fun m -> raise (Specdiff m)) fmt

(* plain-arithmetic node count (independent of model and spec): 2n - popcount n *)
let pop n = zi (ZZ.popcount n)
let ncount n = ZZ.sub (ZZ.mul (zi 2) n) (pop n)
(* smallest leaf count whose MMR contains node x (binary search; ncount is monotone) *)
let nmin x =
  let lo = ref ZZ.zero and hi = ref two63 in   (* ncount lo < x <= ncount hi *)
  while ZZ.gt (ZZ.sub !hi !lo) ZZ.one do
    let mid = ZZ.shift_right (ZZ.add !lo !hi) 1 in
    if ZZ.geq (ncount mid) x then hi := mid else lo := mid
  done; !hi
let next_pow2 n = if ZZ.leq n ZZ.one then ZZ.one else ZZ.shift_left ZZ.one (ZZ.numbits (ZZ.pred n))

(* ---- memoised model functions of a node index / leaf index (pure functions) *)
module ZH = Hashtbl.Make (struct type t = ZZ.t let equal = ZZ.equal let hash = ZZ.hash end)
let memo f = let t = ZH.create 4096 in
  fun x -> match ZH.find_opt t x with Some v -> v | None -> let v = f x in ZH.add t x v; v
let m_rllh = memo mm_right_lineage_length_and_own_height
let m_rlln = memo mm_right_lineage_length_from_node_index
let m_parent = memo mm_parent
let m_n2l = memo mm_node_index_to_leaf_index
let m_l2n = memo mm_leaf_index_to_node_index
let m_rllleaf = memo mm_right_lineage_length_from_leaf_index
let forest_memo = memo forest
let bigforest = lazy (forest two63)

(* ---- spec checks for one node x against the forest fs (of leaf count n) *)
let check_node what n fs x ~strict =
  (* strict: also require parent/sibling None-ness is not contradicted: for a peak of this forest the model's
     parent is the future parent, which this forest cannot know; it is checked against the big tree instead *)
  match f_locate_in fs x ZZ.zero with
  | None -> diff "%s n=%s x=%s spec: not a node of the forest" what (s n) (s x)
  | Some ((_pk, _t), ni) ->
      (match m_rllh x with
       | None -> diff "%s n=%s x=%s rll_and_height model=PANIC spec=%s %s" what (s n) (s x) (s ni.ni_rll) (s ni.ni_height)
       | Some (r, h) ->
           if not (zeq r ni.ni_rll && zeq h ni.ni_height) then
             diff "%s n=%s x=%s rll_and_height model=%s %s spec=%s %s" what (s n) (s x) (s r) (s h) (s ni.ni_rll) (s ni.ni_height);
           if (not (zeq r ZZ.zero)) <> ni.ni_is_right then diff "%s n=%s x=%s is_right" what (s n) (s x);
           (match ni.ni_sibling with
            | Some sb ->
                let msb = if ni.ni_is_right then mm_left_sibling x h else mm_right_sibling x h in
                if not (oeq msb (Some sb)) then diff "%s n=%s x=%s sibling model=%s spec=%s" what (s n) (s x) (so s msb) (s sb)
            | None -> ());
           (match ni.ni_children with
            | Some (lc, rc) ->
                if not (oeq (mm_left_child x h) (Some lc) && oeq (mm_right_child x) (Some rc)) then
                  diff "%s n=%s x=%s children model=%s %s spec=%s %s" what (s n) (s x) (so s (mm_left_child x h)) (so s (mm_right_child x)) (s lc) (s rc)
            | None -> if not (zeq h ZZ.zero) then diff "%s n=%s x=%s leaf/height" what (s n) (s x)));
      if not (oeq (m_rlln x) (Some ni.ni_rll)) then
        diff "%s n=%s x=%s rll_from_node_index model=%s spec=%s" what (s n) (s x) (so s (m_rlln x)) (s ni.ni_rll);
      (match ni.ni_parent with
       | Some p -> if not (oeq (m_parent x) (Some p)) then diff "%s n=%s x=%s parent model=%s spec=%s" what (s n) (s x) (so s (m_parent x)) (s p)
       | None -> ignore strict);
      let sp = if zeq ni.ni_height ZZ.zero then Some (Some ni.ni_first_leaf) else Some None in
      (match m_n2l x, sp with
       | Some (Some a), Some (Some b) when zeq a b -> ()
       | Some None, Some None -> ()
       | m, _ -> diff "%s n=%s x=%s node_index_to_leaf_index model=%s spec=%s" what (s n) (s x)
                   (match m with None -> "PANIC" | Some None -> "NONE" | Some (Some a) -> s a)
                   (if zeq ni.ni_height ZZ.zero then s ni.ni_first_leaf else "NONE"))

(* leaf counts against which a single node index is checked *)
let counts_for_node x =
  let a = nmin x in
  List.sort_uniq ZZ.compare (List.filter (fun n -> ZZ.leq n two63 && ZZ.geq (ncount n) x)
    [a; ZZ.succ a; next_pow2 a; ZZ.pred (next_pow2 (ZZ.succ a)); two63; ZZ.pred two63])
let check_node_all what x =
  if ZZ.geq x ZZ.one && ZZ.leq x u64max then
    List.iter (fun n -> check_node what n (forest_memo n) x ~strict:false) (counts_for_node x)

(* ---- spec checks for one leaf i in the forest fs of n *)
let check_leaf what n fs i =
  match f_find_leaf fs i ZZ.zero with
  | None -> diff "%s n=%s i=%s spec: not a leaf of the forest" what (s n) (s i)
  | Some (pk, t) ->
      let nd = t_leaf_node t.pt_height t.pt_offset t.pt_first_leaf i in
      if ZZ.lt i two63 && not (oeq (m_l2n i) (Some nd)) then diff "%s n=%s i=%s leaf_index_to_node_index model=%s spec=%s" what (s n) (s i) (so s (m_l2n i)) (s nd);
      let mt = t_leaf_mt t.pt_height t.pt_first_leaf i ZZ.one in
      (match mm_leaf_index_to_mt_index_and_peak_index i n with
       | Some (a, b) when zeq a mt && zeq b pk -> ()
       | m -> diff "%s n=%s i=%s mt_index_and_peak_index model=%s spec=%s %s" what (s n) (s i) (so spair m) (s mt) (s pk));
      (match f_locate_in fs nd ZZ.zero with
       | Some ((_, _), ni) ->
           if ZZ.lt i two63 && not (oeq (m_rllleaf i) (Some ni.ni_rll)) then diff "%s n=%s i=%s right_lineage_length_from_leaf_index model=%s spec=%s" what (s n) (s i) (so s (m_rllleaf i)) (s ni.ni_rll);
           if not (zeq ni.ni_height ZZ.zero && zeq ni.ni_first_leaf i) then diff "%s n=%s i=%s spec leaf/node round trip" what (s n) (s i)
       | None -> diff "%s n=%s i=%s spec: leaf node not located" what (s n) (s i))
let counts_for_leaf i =
  let a = ZZ.succ i in
  List.sort_uniq ZZ.compare (List.filter (fun n -> ZZ.leq n two63 && ZZ.gt n i)
    [a; ZZ.succ a; next_pow2 a; ZZ.pred (next_pow2 (ZZ.succ a)); two63; ZZ.pred two63])

let emit_opt acc = function Some v -> ck acc v | None -> ck acc c_panic

let run op a =
  let n i = z (List.nth a i) in
  match op with
  (* ---------------- single-call ops *)
  | "lchild" -> so s (mm_left_child (n 0) (n 1))
  | "rchild" -> so s (mm_right_child (n 0))
  | "lsib" -> so s (mm_left_sibling (n 0) (n 1))
  | "rsib" -> so s (mm_right_sibling (n 0) (n 1))
  | "lmost" ->
      let x = n 0 in
      let r = mm_leftmost_ancestor x in
      (* spec: the smallest perfect tree at offset 0 that contains x, capped at height 63 *)
      (if ZZ.geq x ZZ.one then
         let rec find h k = if ZZ.geq (tsize h) x || k = 63 then (tsize h, zi k) else find (S h) (k + 1) in
         let (c, h) = find O 0 in
         match r with
         | Some (c', h') when zeq c c' && zeq h h' -> ()
         | _ -> diff "lmost x=%s model=%s spec=%s %s" (s x) (so spair r) (s c) (s h));
      so spair r
  | "l2n" ->
      let i = n 0 in
      if ZZ.lt i two63 then List.iter (fun c -> check_leaf "l2n" c (forest_memo c) i) (counts_for_leaf i);
      so s (m_l2n i)
  | "rllleaf" ->
      let i = n 0 in
      if ZZ.lt i two63 then List.iter (fun c -> check_leaf "rllleaf" c (forest_memo c) i) (counts_for_leaf i);
      so s (m_rllleaf i)
  | "mtpk" ->
      let i = n 0 and c = n 1 in
      if ZZ.lt i c then check_leaf "mtpk" c (forest_memo c) i
      else if mm_leaf_index_to_mt_index_and_peak_index i c <> None then diff "mtpk: model accepts leaf_index >= leaf_count";
      so spair (mm_leaf_index_to_mt_index_and_peak_index i c)
  | "nln" ->
      let c = n 0 in
      let r = mm_num_leafs_to_num_nodes c in
      if ZZ.lt c two63 then begin
        if not (oeq r (Some (spec_node_count c))) then diff "nln n=%s model=%s spec=%s" (s c) (so s r) (s (spec_node_count c));
        if not (zeq (spec_node_count c) (ncount c)) then diff "nln n=%s spec=%s arithmetic=%s" (s c) (s (spec_node_count c)) (s (ncount c))
      end;
      so s r
  | "rllh" -> check_node_all "rllh" (n 0); so spair (m_rllh (n 0))
  | "rlln" -> check_node_all "rlln" (n 0); so s (m_rlln (n 0))
  | "parent" -> check_node_all "parent" (n 0); so s (m_parent (n 0))
  | "n2l" -> check_node_all "n2l" (n 0);
      (match m_n2l (n 0) with None -> "PANIC" | Some None -> "NONE" | Some (Some l) -> s l)
  | "added" ->
      let c = n 0 in
      let r = mm_node_indices_added_by_append c in
      if ZZ.lt c two63 then begin
        let sp = spec_added_by_append c in
        (match r with Some l when leq l sp -> () | _ -> diff "added n=%s model=%s spec=%s" (s c) (so sl r) (sl sp));
        (* the added nodes are exactly ncount n + 1 .. ncount (n+1) *)
        let rec range a b = if ZZ.gt a b then [] else a :: range (ZZ.succ a) b in
        if not (leq sp (range (ZZ.succ (ncount c)) (ncount (ZZ.succ c)))) then diff "added n=%s spec is not the range of new nodes" (s c)
      end;
      so sl r
  | "pheights" ->
      let c = n 0 in
      let r = mm_get_peak_heights c in
      (match r with Some l when leq l (spec_peak_heights c) -> () | _ -> diff "pheights n=%s model=%s spec=%s" (s c) (so sl r) (sl (spec_peak_heights c)));
      so sl r
  | "peaks" ->
      let c = n 0 in
      let r = mm_get_peak_heights_and_peak_node_indices c in
      if ZZ.lt c two63 then
        (match r with
         | Some (hs, ns) when leq hs (spec_peak_heights c) && leq ns (spec_peak_node_indices c) -> ()
         | _ -> diff "peaks n=%s model=%s spec=%s | %s" (s c) (so (fun (h, x) -> sl h ^ " | " ^ sl x) r) (sl (spec_peak_heights c)) (sl (spec_peak_node_indices c)));
      so (fun (h, x) -> sl h ^ " | " ^ sl x) r
  | "auth" ->
      (* auth start target node_count leaf_count ; node_count = ncount leaf_count is guaranteed by the generator *)
      let st = n 0 and tg = n 1 and nc = n 2 and c = n 3 in
      let r = mm_get_authentication_path_node_indices st tg nc in
      if ZZ.geq st ZZ.one && ZZ.leq st nc && ZZ.geq tg ZZ.one && ZZ.leq tg nc && zeq nc (ncount c) && ZZ.lt c two63 then begin
        let sp = spec_auth_path c st tg in
        match r, sp with
        | Some (Some l), Some (Some l') when leq l l' -> ()
        | Some None, Some None -> ()
        | _ -> diff "auth %s %s n=%s model=%s spec=%s" (s st) (s tg) (s c)
                 (match r with None -> "PANIC" | Some None -> "NONE" | Some (Some l) -> "[" ^ sl l ^ "]")
                 (match sp with None -> "not-a-node" | Some None -> "NONE" | Some (Some l) -> "[" ^ sl l ^ "]")
      end;
      (match r with None -> "PANIC" | Some None -> "NONE" | Some (Some l) -> "SOME " ^ sl l)
  (* ---------------- out-of-contract widths: checked build panics, release build wraps *)
  | "x_l2n" ->
      let i = n 0 in
      if leaf_index_to_node_index_ok i then "both:" ^ s (leaf_index_to_node_index i)
      else "chk:PANIC rel:" ^ s (leaf_index_to_node_index i)
  | "x_nln" ->
      let i = n 0 in
      if num_leafs_to_num_nodes_ok i then "both:" ^ s (num_leafs_to_num_nodes i)
      else "chk:PANIC rel:" ^ s (num_leafs_to_num_nodes i)
  | "x_rllleaf" ->
      let i = n 0 in
      if right_lineage_length_from_leaf_index_ok i then "both:" ^ s (right_lineage_length_from_leaf_index i)
      else "chk:PANIC rel:" ^ s (right_lineage_length_from_leaf_index i)
  (* ---------------- sweeps *)
  | "leafsweep" ->
      let c = n 0 in
      let fs = forest_memo c in
      let acc = ref ZZ.zero and cnt = ref 0 in
      let i = ref ZZ.zero in
      while ZZ.lt !i c do
        check_leaf "leafsweep" c fs !i;
        acc := emit_opt !acc (m_l2n !i);
        acc := emit_opt !acc (m_rllleaf !i);
        (match mm_leaf_index_to_mt_index_and_peak_index !i c with
         | Some (mt, pk) -> acc := ck (ck !acc mt) pk
         | None -> acc := ck !acc c_panic);
        incr cnt; i := ZZ.succ !i
      done;
      Printf.sprintf "%d %s" !cnt (s !acc)
  | "nodesweep" ->
      let c = n 0 and nc = n 1 in
      if not (zeq nc (ncount c)) then diff "nodesweep: generator node count";
      if not (oeq (mm_num_leafs_to_num_nodes c) (Some nc)) then diff "nodesweep n=%s node count model=%s" (s c) (so s (mm_num_leafs_to_num_nodes c));
      let fs = forest_memo c in
      let acc = ref ZZ.zero and cnt = ref 0 in
      let x = ref ZZ.one in
      while ZZ.leq !x nc do
        check_node "nodesweep" c fs !x ~strict:true;
        (match m_rllh !x with
         | Some (r, h) ->
             acc := ck (ck !acc r) h;
             acc := emit_opt !acc (if zeq r ZZ.zero then mm_right_sibling !x h else mm_left_sibling !x h);
             if ZZ.gt h ZZ.zero then begin
               acc := emit_opt !acc (mm_left_child !x h);
               acc := emit_opt !acc (mm_right_child !x)
             end
         | None -> acc := ck !acc c_panic);
        acc := emit_opt !acc (m_rlln !x);
        acc := emit_opt !acc (m_parent !x);
        (match m_n2l !x with
         | None -> acc := ck !acc c_panic
         | Some None -> acc := ck !acc c_none
         | Some (Some l) -> acc := ck !acc l);
        incr cnt; x := ZZ.succ !x
      done;
      (* peaks of this forest: their (future) parent and sibling are checked in the single tree of height 63 *)
      List.iter (fun t -> check_node "nodesweep-peak" two63 (Lazy.force bigforest) (pt_root t) ~strict:false) fs;
      Printf.sprintf "%d %s" !cnt (s !acc)
  | "authsweep" ->
      (* all pairs (start, target) in 1..nc+1 *)
      let c = n 0 and nc = n 1 in
      if not (zeq nc (ncount c)) then diff "authsweep: generator node count";
      let acc = ref ZZ.zero and cnt = ref 0 in
      let lim = ZZ.succ nc in
      let st = ref ZZ.one in
      while ZZ.leq !st lim do
        let tg = ref ZZ.one in
        while ZZ.leq !tg lim do
          let r = mm_get_authentication_path_node_indices !st !tg nc in
          if ZZ.leq !st nc && ZZ.leq !tg nc then begin
            match r, spec_auth_path c !st !tg with
            | Some (Some l), Some (Some l') when leq l l' -> ()
            | Some None, Some None -> ()
            | _ -> diff "authsweep n=%s start=%s target=%s model=%s" (s c) (s !st) (s !tg)
                     (match r with None -> "PANIC" | Some None -> "NONE" | Some (Some l) -> "[" ^ sl l ^ "]")
          end;
          (match r with
           | None -> acc := ck !acc c_panic
           | Some None -> acc := ck !acc c_none
           | Some (Some l) -> acc := ck !acc (zi (List.length l)); List.iter (fun v -> acc := ck !acc v) l);
          incr cnt; tg := ZZ.succ !tg
        done;
        st := ZZ.succ !st
      done;
      Printf.sprintf "%d %s" !cnt (s !acc)
  | "selfcheck" ->
      (* the descent-based specification against the materialised forest and the forest grown leaf by leaf *)
      let c = n 0 in
      let fs = forest c in
      let mf = mforest c in
      let nc = spec_node_count c in
      let post = List.concat_map m_postorder mf in
      let rec range a b = if ZZ.gt a b then [] else a :: range (ZZ.succ a) b in
      if not (leq post (range ZZ.one nc)) then diff "selfcheck n=%s post-order numbering" (s c);
      let leafs = List.concat_map m_leafs mf in
      if List.length leafs <> ZZ.to_int c then diff "selfcheck n=%s number of leafs" (s c);
      List.iteri (fun k (i, x) ->
        if not (zeq i (zi k)) then diff "selfcheck n=%s leaf order" (s c);
        if not (oeq (spec_leaf_index_to_node_index c i) (Some x)) then diff "selfcheck n=%s leaf %s node" (s c) (s i)) leafs;
      List.iter (fun t ->
        List.iter (fun (x, ni) ->
          match f_locate_in fs x ZZ.zero with
          | Some ((_, _), ni') ->
              if not (zeq ni.ni_height ni'.ni_height && zeq ni.ni_rll ni'.ni_rll && ni.ni_is_right = ni'.ni_is_right
                      && oeq ni.ni_parent ni'.ni_parent && oeq ni.ni_sibling ni'.ni_sibling
                      && zeq ni.ni_first_leaf ni'.ni_first_leaf
                      && (match ni.ni_children, ni'.ni_children with
                          | Some (a1, b1), Some (a2, b2) -> zeq a1 a2 && zeq b1 b2 | None, None -> true | _ -> false))
              then diff "selfcheck n=%s node %s: descent and materialised tree disagree" (s c) (s x)
          | None -> diff "selfcheck n=%s node %s not located" (s c) (s x))
          (m_infos t ZZ.zero false None None)) mf;
      let rec nat_of k = if k = 0 then O else S (nat_of (k - 1)) in
      let g = List.rev (grow (nat_of (ZZ.to_int c))) in
      if not (List.length g = List.length fs && List.for_all2 (fun t t' ->
                nat_to_int t.pt_height = nat_to_int t'.pt_height && zeq t.pt_offset t'.pt_offset
                && zeq t.pt_first_leaf t'.pt_first_leaf) g fs)
      then diff "selfcheck n=%s grown forest differs from decomposed forest" (s c);
      "OK " ^ s nc
  | _ -> "UNKNOWN-OP"

let () =
  try
    while true do
      let line = String.trim (input_line stdin) in
      if line <> "" && line.[0] <> '#' then begin
        match String.split_on_char ' ' line |> List.filter (fun x -> x <> "") with
        | id :: op :: args ->
            let r = try run op args with
              | Specdiff m -> "SPECDIFF " ^ m
              | Stack_overflow -> "ORACLE-ERROR stack"
              | Not_found | Failure _ | Invalid_argument _ -> "ORACLE-ERROR" in
            print_string id; print_char ' '; print_endline r
        | _ -> ()
      end
    done
  with End_of_file -> ()
