(* Oracle driver for C18 (lattice ring and KEM): runs the extracted Coq model of lattice.rs on a case file.
   For every case prints `<id> <model result>`.  Ring and module products are additionally checked against
   (a) the extracted O(n^2) specification (LatticeSpec.negacyclic / module_product) and (b) a native zarith
   implementation of the explicit negacyclic index formula; a disagreement prints `SPECDIFF ...`.
   SHAKE256 and SHA3-256 are parameters of the Coq model; this driver instantiates them with the Keccak
   implementation below, which is itself tied to the `sha3` crate by the `shake` / `sha3` case classes. *)
module ZZ = Z
open Model
let z = ZZ.of_string
let s = ZZ.to_string
let p = Model.p
let md x = ZZ.erem x p

(* ------------------------------------------------------------------ Keccak-f[1600], SHAKE256, SHA3-256 *)
let rc = [| 0x0000000000000001L; 0x0000000000008082L; 0x800000000000808AL; 0x8000000080008000L;
            0x000000000000808BL; 0x0000000080000001L; 0x8000000080008081L; 0x8000000000008009L;
            0x000000000000008AL; 0x0000000000000088L; 0x0000000080008009L; 0x000000008000000AL;
            0x000000008000808BL; 0x800000000000008BL; 0x8000000000008089L; 0x8000000000008003L;
            0x8000000000008002L; 0x8000000000000080L; 0x000000000000800AL; 0x800000008000000AL;
            0x8000000080008081L; 0x8000000000008080L; 0x0000000080000001L; 0x8000000080008008L |]
let rotc = [| 1; 3; 6; 10; 15; 21; 28; 36; 45; 55; 2; 14; 27; 41; 56; 8; 25; 43; 62; 18; 39; 61; 20; 44 |]
let piln = [| 10; 7; 11; 17; 18; 3; 5; 16; 8; 21; 24; 4; 15; 23; 19; 13; 12; 2; 20; 14; 22; 9; 6; 1 |]
let rotl x n = Int64.logor (Int64.shift_left x n) (Int64.shift_right_logical x (64 - n))
let keccakf st =
  let c = Array.make 5 0L in
  for round = 0 to 23 do
    for x = 0 to 4 do
      c.(x) <- Int64.logxor st.(x) (Int64.logxor st.(x + 5) (Int64.logxor st.(x + 10) (Int64.logxor st.(x + 15) st.(x + 20))))
    done;
    for x = 0 to 4 do
      let d = Int64.logxor c.((x + 4) mod 5) (rotl c.((x + 1) mod 5) 1) in
      for y = 0 to 4 do st.(5 * y + x) <- Int64.logxor st.(5 * y + x) d done
    done;
    let t = ref st.(1) in
    for i = 0 to 23 do
      let j = piln.(i) in
      let bc = st.(j) in
      st.(j) <- rotl !t rotc.(i);
      t := bc
    done;
    for y = 0 to 4 do
      for x = 0 to 4 do c.(x) <- st.(5 * y + x) done;
      for x = 0 to 4 do
        st.(5 * y + x) <- Int64.logxor c.(x) (Int64.logand (Int64.lognot c.((x + 1) mod 5)) c.((x + 2) mod 5))
      done
    done;
    st.(0) <- Int64.logxor st.(0) rc.(round)
  done
let xor_byte st i b =
  st.(i / 8) <- Int64.logxor st.(i / 8) (Int64.shift_left (Int64.of_int b) (8 * (i mod 8)))
let get_byte st i = Int64.to_int (Int64.logand (Int64.shift_right_logical st.(i / 8) (8 * (i mod 8))) 0xFFL)
let sponge rate suffix (input : int list) (outlen : int) : int list =
  let st = Array.make 25 0L in
  let pos = ref 0 in
  List.iter (fun b -> xor_byte st !pos b; incr pos; if !pos = rate then (keccakf st; pos := 0)) input;
  xor_byte st !pos suffix;
  xor_byte st (rate - 1) 0x80;
  keccakf st;
  let out = ref [] and k = ref 0 in
  for _ = 1 to outlen do
    if !k = rate then (keccakf st; k := 0);
    out := get_byte st !k :: !out; incr k
  done;
  List.rev !out
let zb (l : ZZ.t list) = List.map ZZ.to_int l
let bz (l : int list) = List.map ZZ.of_int l
let shake_tbl : (int list * int, ZZ.t list) Hashtbl.t = Hashtbl.create 64
let shake256 (input : ZZ.t list) (outlen : ZZ.t) : ZZ.t list =
  let key = (zb input, ZZ.to_int outlen) in
  match Hashtbl.find_opt shake_tbl key with
  | Some r -> r
  | None ->
      let r = bz (sponge 136 0x1F (fst key) (snd key)) in
      if Hashtbl.length shake_tbl > 4096 then Hashtbl.reset shake_tbl;
      Hashtbl.add shake_tbl key r; r
let sha3_256 (input : ZZ.t list) : ZZ.t list = bz (sponge 136 0x06 (zb input) 32)

(* ------------------------------------------------------------------ helpers *)
let rec nat_of_int n = if n <= 0 then O else S (nat_of_int (n - 1))
let hexval c = match c with
  | '0'..'9' -> Char.code c - 48 | 'a'..'f' -> Char.code c - 87 | 'A'..'F' -> Char.code c - 55
  | _ -> failwith "hex"
let of_hex (h : string) : ZZ.t list =
  if h = "-" then [] else
  List.init (String.length h / 2) (fun i -> ZZ.of_int (16 * hexval h.[2 * i] + hexval h.[2 * i + 1]))
let to_hex (l : ZZ.t list) : string =
  if l = [] then "-" else String.concat "" (List.map (fun b -> Printf.sprintf "%02x" (ZZ.to_int b)) l)
let vals (l : ZZ.t list) = String.concat " " (List.map s l)
let mvals (m : ZZ.t list list) = vals (List.concat m)
let elems a = List.map (fun x -> fp_new (z x)) a
let rec take n l = if n = 0 then [] else match l with [] -> [] | x :: r -> x :: take (n - 1) r
let rec drop n l = if n = 0 then l else match l with [] -> [] | _ :: r -> drop (n - 1) r
let rec split64 l = match l with [] -> [] | _ -> take 64 l :: split64 (drop 64 l)
let opt f = function Some v -> f v | None -> "PANIC"
let bit b = if b then "1" else "0"
let eql a b = List.length a = List.length b && List.for_all2 ZZ.equal a b
let eqm a b = List.length a = List.length b && List.for_all2 eql a b

(* native O(n^2) negacyclic convolution: c_k = sum_{i+j=k} a_i b_j - sum_{i+j=k+64} a_i b_j mod p *)
let native_negacyclic (a : ZZ.t list) (b : ZZ.t list) : ZZ.t list =
  let a = Array.of_list a and b = Array.of_list b in
  let n = 64 in
  List.init n (fun k ->
    let acc = ref ZZ.zero in
    for i = 0 to n - 1 do
      if i <= k then acc := ZZ.add !acc (ZZ.mul a.(i) b.(k - i))
      else acc := ZZ.sub !acc (ZZ.mul a.(i) b.(k + n - i))
    done;
    md !acc)

let ring_mul_checked a b =
  match re_mul a b with
  | None -> "PANIC"
  | Some c ->
      let n1 = native_negacyclic a b in
      if not (eql c n1) then "SPECDIFF model product differs from the native negacyclic convolution"
      else if not (eql c (negacyclic a b)) then "SPECDIFF model product differs from LatticeSpec.negacyclic"
      else if not (eql c (negacyclic_explicit a b)) then "SPECDIFF model product differs from LatticeSpec.negacyclic_explicit"
      else vals c

(* shapes: (LHS_H, LHS_N, RHS_W, RHS_N, INNER, OUT_N) *)
let mk6 a b c d e f = (((((nat_of_int a, nat_of_int b), nat_of_int c), nat_of_int d), nat_of_int e), nat_of_int f)
let shape_of_id = function
  | 0 -> sHAPE_GA | 1 -> sHAPE_BG | 2 -> sHAPE_BGA
  | 3 -> mk6 2 4 2 4 2 4 | 4 -> mk6 1 1 1 1 1 1 | 5 -> mk6 2 2 3 3 1 6 | 6 -> mk6 3 6 1 2 2 3
  | _ -> failwith "shape"
let rec int_of_nat = function O -> 0 | S n -> 1 + int_of_nat n
let dims shape = let (((((a, b), c), d), e), f) = shape in
  (int_of_nat a, int_of_nat b, int_of_nat c, int_of_nat d, int_of_nat e, int_of_nat f)

(* keygen and enc are pure functions of their seeds: memoised, many cases share a key pair / ciphertext *)
let kg_tbl : (string, _) Hashtbl.t = Hashtbl.create 64
let kg seed =
  match Hashtbl.find_opt kg_tbl seed with
  | Some r -> r
  | None ->
      let r = keygen shake256 (of_hex seed) in
      if Hashtbl.length kg_tbl > 256 then Hashtbl.reset kg_tbl;
      Hashtbl.add kg_tbl seed r; r
let enc_tbl : (string * string, _) Hashtbl.t = Hashtbl.create 64
let enc_memo kseed pk eseed =
  match Hashtbl.find_opt enc_tbl (kseed, eseed) with
  | Some r -> r
  | None ->
      let r = enc shake256 sha3_256 pk (of_hex eseed) in
      if Hashtbl.length enc_tbl > 256 then Hashtbl.reset enc_tbl;
      Hashtbl.add enc_tbl (kseed, eseed) r; r
let show_ct ((bg, bga_m) : ZZ.t list list * ZZ.t list list) = mvals bg ^ " " ^ mvals bga_m
let show_dec = function
  | None -> "PANIC"
  | Some None -> "NONE"
  | Some (Some k) -> to_hex k
let le_bytes (v : ZZ.t) = List.init 8 (fun i -> ZZ.logand (ZZ.shift_right v (8 * i)) (ZZ.of_int 255))

let run id op a =
  let n i = List.nth a i in
  match op with
  | "ntt" -> opt vals (coset_ntt_noswap_64 (elems a))
  | "intt" -> opt vals (coset_intt_noswap_64 (elems a))
  | "nttintt" ->
      (match coset_ntt_noswap_64 (elems a) with None -> "PANIC" | Some f ->
       (match coset_intt_noswap_64 f with None -> "PANIC" | Some r ->
          if eql r (elems a) then vals r else "SPECDIFF intt(ntt a) differs from a"))
  | "nttspec" ->
      (* output slot k is the evaluation of the polynomial at psi^(2 bitrev6(k) + 1) *)
      let v = elems a in
      let psi = List.nth pSI_BITREV 32 in
      (match coset_ntt_noswap_64 v with None -> "PANIC" | Some f ->
         let e = List.init 64 (fun k -> md (zeval v (ntt_root psi (nat_of_int k)))) in
         if eql f e then vals f else "SPECDIFF ntt differs from evaluation at the odd powers of psi")
  | "mul" -> let v = elems a in ring_mul_checked (take 64 v) (drop 64 v)
  | "mulu" ->
      let i = int_of_string (n 0) and j = int_of_string (n 1) in
      let ca = fp_new (z (n 2)) and cb = fp_new (z (n 3)) in
      let u k c = List.init 64 (fun t -> if t = k then c else ZZ.zero) in
      ring_mul_checked (u i ca) (u j cb)
  | "add" -> let v = elems a in vals (re_add (take 64 v) (drop 64 v))
  | "sub" -> let v = elems a in vals (re_sub (take 64 v) (drop 64 v))
  | "had" -> let v = elems a in vals (re_hadamard (take 64 v) (drop 64 v))
  | "iszero" -> bit (re_is_zero (elems a))
  | "mm3" ->
      let shape = shape_of_id (int_of_string (n 0)) in
      let (lh, ln, rw, rn, inner, outn) = dims shape in
      let v = elems (List.tl a) in
      let lhs = split64 (take (64 * ln) v) and rhs = split64 (drop (64 * ln) v) in
      (match me_multiply shape lhs rhs, me_fast_multiply shape lhs rhs with
       | Some m1, Some m2 ->
           let had_ok = (match me_ntt lhs, me_ntt rhs, me_ntt m1 with
             | Some l, Some r, Some m1n -> (match me_multiply_hadamard shape l r with Some h -> eqm h m1n | None -> false)
             | _ -> false) in
           let spec = module_product (nat_of_int lh) (nat_of_int rw) (nat_of_int inner) lhs rhs in
           if not (eqm m1 spec) then "SPECDIFF multiply differs from LatticeSpec.module_product"
           else Printf.sprintf "%s %s %s" (mvals m1) (if eqm m1 m2 then "FAST=PLAIN" else "FAST<>PLAIN")
                  (if had_ok then "HAD=NTT(PLAIN)" else "HAD<>NTT(PLAIN)")
       | _ -> "PANIC")
  | "mmul" | "mhad" | "mfast" ->
      let shape = shape_of_id (int_of_string (n 0)) in
      let (_, ln, _, _, _, _) = dims shape in
      let v = elems (List.tl a) in
      let lhs = split64 (take (64 * ln) v) and rhs = split64 (drop (64 * ln) v) in
      opt mvals ((match op with "mmul" -> me_multiply | "mhad" -> me_multiply_hadamard | _ -> me_fast_multiply) shape lhs rhs)
  | "mntt" -> opt mvals (me_ntt (split64 (elems a)))
  | "mintt" -> opt mvals (me_intt (split64 (elems a)))
  | "madd" -> let v = elems a in let h = List.length v / 2 in mvals (me_add (split64 (take h v)) (split64 (drop h v)))
  | "msub" -> let v = elems a in let h = List.length v / 2 in mvals (me_sub (split64 (take h v)) (split64 (drop h v)))
  | "short8" -> s (sample_short_bfield_element (of_hex (n 0)))
  | "rshort" -> opt vals (re_sample_short (of_hex (n 0)))
  | "runiform" -> opt vals (re_sample_uniform (of_hex (n 0)))
  | "mshort" -> opt mvals (me_sample_short (nat_of_int (int_of_string (n 0))) (of_hex (n 1)))
  | "muniform" -> opt mvals (me_sample_uniform (nat_of_int (int_of_string (n 0))) (of_hex (n 1)))
  | "embed" -> vals (embed_msg (of_hex (n 0)))
  | "extract" -> opt to_hex (extract_msg (elems a))
  | "embx" ->
      let m = embed_msg (of_hex (n 0)) in
      let e = elems (List.tl a) in
      opt to_hex (extract_msg (re_add m e))
  | "shake" -> to_hex (shake256 (of_hex (n 1)) (z (n 0)))
  | "sha3" -> to_hex (sha3_256 (of_hex (n 0)))
  | "keygen" ->
      (match kg (n 0) with None -> "PANIC" | Some ((key, seed), (pkseed, ga)) ->
         Printf.sprintf "%s %s %s %s" (to_hex key) (to_hex seed) (to_hex pkseed) (mvals ga))
  | "enc" ->
      (match kg (n 0) with None -> "PANIC" | Some (_, pk) ->
         (match enc_memo (n 0) pk (n 1) with None -> "PANIC" | Some (k, ct) ->
            Printf.sprintf "%s %s" (to_hex k) (show_ct ct)))
  | "encpk" ->
      let seed = of_hex (n 0) in
      let ga = split64 (elems (take 256 (List.tl a))) in
      (match enc shake256 sha3_256 (seed, ga) (of_hex (n 257)) with None -> "PANIC" | Some (k, ct) ->
         Printf.sprintf "%s %s" (to_hex k) (show_ct ct))
  | "kem" ->
      (match kg (n 0) with None -> "PANIC" | Some (sk, pk) ->
         (match enc_memo (n 0) pk (n 1) with None -> "PANIC" | Some (k, ct) ->
            (match dec shake256 sha3_256 sk ct with
             | None -> "PANIC"
             | Some None -> "NONE"
             | Some (Some k') -> if eql k k' then "OK " ^ to_hex k' else "MISMATCH " ^ to_hex k')))
  | "tamper" ->
      (match kg (n 0) with None -> "PANIC" | Some (sk, pk) ->
         (match enc_memo (n 0) pk (n 1) with None -> "PANIC" | Some (_, ct) ->
            (match array_of_ct ct with None -> "PANIC" | Some arr ->
               let arr = Array.of_list arr in
               let cnt = int_of_string (n 2) in
               for t = 0 to cnt - 1 do
                 let pos = int_of_string (n (3 + 2 * t)) and delta = fp_new (z (n (4 + 2 * t))) in
                 arr.(pos) <- fp_add arr.(pos) delta
               done;
               (match ct_of_array (Array.to_list arr) with None -> "PANIC" | Some ct' ->
                  show_dec (dec shake256 sha3_256 sk ct')))))
  | "tamperntt" ->
      (match kg (n 0) with None -> "PANIC" | Some (sk, pk) ->
         (match enc_memo (n 0) pk (n 1) with None -> "PANIC" | Some (_, ct) ->
            (match array_of_ct ct, coset_ntt_noswap_64 (elems (List.tl (List.tl a))) with
             | Some arr, Some e ->
                 let arr = Array.of_list arr and e = Array.of_list e in
                 for i = 0 to 63 do arr.(256 + i) <- fp_add arr.(256 + i) e.(i) done;
                 (match ct_of_array (Array.to_list arr) with None -> "PANIC" | Some ct' ->
                    show_dec (dec shake256 sha3_256 sk ct'))
             | _ -> "PANIC")))
  | "decother" ->
      (match kg (n 0), kg (n 1) with
       | Some (_, pk1), Some (sk2, _) ->
           (match enc_memo (n 0) pk1 (n 2) with None -> "PANIC" | Some (_, ct) ->
              show_dec (dec shake256 sha3_256 sk2 ct))
       | _ -> "PANIC")
  | "decraw" ->
      (match kg (n 0) with None -> "PANIC" | Some (sk, _) ->
         (match ct_of_array (elems (List.tl a)) with None -> "PANIC" | Some ct -> show_dec (dec shake256 sha3_256 sk ct)))
  | "ctrt" ->
      let v = elems a in
      (match ct_of_array v with None -> "PANIC" | Some ct ->
         (match array_of_ct ct with None -> "PANIC" | Some w ->
            if eql v w then vals w else "SPECDIFF array -> ciphertext -> array is not the identity"))
  | "ctser" ->
      (match kg (n 0) with None -> "PANIC" | Some (_, pk) ->
         (match enc_memo (n 0) pk (n 1) with None -> "PANIC" | Some (_, ct) ->
            (match array_of_ct ct with None -> "PANIC" | Some arr ->
               (match ct_of_array arr with
                | Some ct' when ct_eqb ct ct' -> "1 " ^ to_hex (List.concat_map le_bytes arr)
                | _ -> "SPECDIFF ciphertext -> array -> ciphertext is not the identity"))))
  | _ -> "UNKNOWN-OP"

let () =
  try
    while true do
      let line = String.trim (input_line stdin) in
      if line <> "" && line.[0] <> '#' then begin
        match String.split_on_char ' ' line |> List.filter (fun x -> x <> "") with
        | id :: op :: args ->
            let r = try run id op args with Stack_overflow -> "ORACLE-ERROR stack" | Not_found | Failure _ | Invalid_argument _ -> "ORACLE-ERROR" in
            print_string id; print_char ' '; print_endline r
        | _ -> ()
      end
    done
  with End_of_file -> ()
