(* Oracle driver for C19 (U32s<N>): runs the extracted Coq model on a case file.
   For every case prints `<id> <model result>` in the harness format (`OK ...` / `ERR` / `PANIC`).
   The independent specification - plain big-integer arithmetic on the values of the limb lists, computed here
   with zarith - is checked against the model result; a disagreement prints `<id> SPECDIFF model=... spec=...`
   instead (that is what finds the failing input when the model, regenerated guards included, stops meeting
   the property). *)
module ZZ = Z
open Model
let z = ZZ.of_string
let s = ZZ.to_string
let rec nat_of_int n = if n <= 0 then O else S (nat_of_int (n - 1))
let rec int_of_nat = function O -> 0 | S k -> 1 + int_of_nat k
let b32 = ZZ.shift_left ZZ.one 32
let u32max = ZZ.pred b32
(* spec side: value and representability, written independently of the extracted u32s_value *)
let value l = List.fold_right (fun x acc -> ZZ.add x (ZZ.mul b32 acc)) l ZZ.zero
let pow32 n = ZZ.shift_left ZZ.one (32 * n)
let fits n v = ZZ.geq v ZZ.zero && ZZ.lt v (pow32 n)
let wf n l = List.length l = n && List.for_all (fun x -> ZZ.geq x ZZ.zero && ZZ.leq x u32max) l
let rec take n l = if n = 0 then [] else match l with [] -> failwith "short" | x :: t -> x :: take (n - 1) t
let rec drop n l = if n = 0 then l else match l with [] -> failwith "short" | _ :: t -> drop (n - 1) t
let show l = String.concat " " ("OK" :: List.map s l)
let showo = function Some l -> show l | None -> "PANIC"
let showr = function Done l -> show l | Rej -> "ERR" | Pan -> "PANIC"
let specs = function Some v -> "OK " ^ s v | None -> "PANIC"
let diff m sp = Printf.sprintf "SPECDIFF model=[%s] spec=[%s]" m sp
(* model result r : limb list option ; spec: Some v (value, must fit: caller decides) | None (must panic) *)
let check_val n r spec =
  let m = showo r in
  match r, spec with
  | Some l, Some v -> if wf n l && ZZ.equal (value l) v && ZZ.equal (u32s_value l) v then m else diff m (specs spec)
  | None, None -> m
  | _ -> diff m (specs spec)
let exact n v = if fits n v then Some v else None
let bit b = if b then "1" else "0"
let cmpi = function Eq -> 0 | Lt -> -1 | Gt -> 1

let rec run op args =
  if op = "remdiv_same" then run "remdiv" (args @ List.tl args)
  else if op = "cmp_same" then run "cmp" (args @ List.tl args) else
  let n = int_of_string (List.hd args) in
  let nn = nat_of_int n in
  let a = List.map z (List.tl args) in
  let x () = take n a and y () = take n (drop n a) in
  let binop f spec =
    let x = x () and y = y () in
    check_val n (f x y) (spec (value x) (value y)) in
  match op with
  | "add" -> binop u32s_add (fun u v -> exact n (ZZ.add u v))
  | "sub" -> binop u32s_sub (fun u v -> exact n (ZZ.sub u v))
  | "mul" -> binop u32s_mul (fun u v -> exact n (ZZ.mul u v))
  | "div" -> binop u32s_div (fun u v -> if ZZ.equal v ZZ.zero then None else exact n (ZZ.div u v))
  | "rem" -> binop u32s_rem (fun u v -> if ZZ.equal v ZZ.zero then None else exact n (ZZ.rem u v))
  | "remdiv" ->
      let x = x () and y = y () in
      let u = value x and v = value y in
      (match u32s_rem_div x y with
       | None -> if ZZ.equal v ZZ.zero then "PANIC" else diff "PANIC" "quotient and remainder exist"
       | Some (q, r) ->
           let m = show q ^ " | " ^ show r in
           if ZZ.equal v ZZ.zero then diff m "PANIC (zero divisor)"
           else if wf n q && wf n r && ZZ.equal (value q) (ZZ.div u v) && ZZ.equal (value r) (ZZ.rem u v)
                   && ZZ.equal u (ZZ.add (ZZ.mul (value q) v) (value r)) && ZZ.lt (value r) v then m
           else diff m (Printf.sprintf "q=%s r=%s" (s (ZZ.div u v)) (s (ZZ.rem u v))))
  | "cmp" ->
      let x = x () and y = y () in
      let c = u32s_cmp x y in
      let ci = cmpi c in
      let ge = u32s_ge x y in
      let eq = u32s_eqb x y in
      let m = Printf.sprintf "OK %d %d %s %s %s %s %s" ci ci (bit (ci < 0)) (bit (ci <= 0)) (bit (ci > 0)) (bit ge) (bit eq) in
      let sc = ZZ.compare (value x) (value y) in
      if ci = sc && ge = (sc >= 0) && eq = (sc = 0) then m else diff m (Printf.sprintf "compare=%d" sc)
  | "mul_two" -> let x = x () in check_val n (u32s_mul_two x) (exact n (ZZ.mul (ZZ.of_int 2) (value x)))
  | "div_two" -> let x = x () in check_val n (Some (u32s_div_two x)) (Some (ZZ.shift_right (value x) 1))
  | "is_zero" ->
      let x = x () in
      let m = u32s_is_zero x in
      if m = ZZ.equal (value x) ZZ.zero then "OK " ^ bit m else diff ("OK " ^ bit m) "value = 0 ?"
  | "is_one" ->
      let x = x () in
      (match u32s_is_one x with
       | None -> if n = 0 then "PANIC" else diff "PANIC" "defined"
       | Some m -> if m = ZZ.equal (value x) ZZ.one then "OK " ^ bit m else diff ("OK " ^ bit m) "value = 1 ?")
  | "set_one" | "one" -> check_val n (u32s_one nn) (exact n ZZ.one)
  | "zero" -> check_val n (Some (u32s_zero nn)) (Some ZZ.zero)
  | "from_u32" -> check_val n (u32s_from_u32 nn (List.hd a)) (exact n (List.hd a))
  | "try_u64" | "try_u128" ->
      let v = List.hd a in
      let r = if op = "try_u64" then u32s_try_from_u64 nn v else u32s_try_from_u128 nn v in
      let side = if op = "try_u64" then tryfrom_u64_rejects_ok (ZZ.of_int n) v else tryfrom_u128_rejects_ok (ZZ.of_int n) v in
      let m = showr r in
      let sp = if fits n v then "OK value " ^ s v else "ERR" in
      if not side then diff m "guard side condition (overflow in a guard expression)" else
      (match r with
       | Done l -> if fits n v && wf n l && ZZ.equal (value l) v then m else diff m sp
       | Rej -> if fits n v then diff m sp else m
       | Pan -> diff m sp)
  | "to_big" | "display" ->
      let x = x () in
      let m = u32s_to_big x in
      if ZZ.equal m (value x) then "OK " ^ s m else diff ("OK " ^ s m) (s (value x))
  | "from_big" ->
      let v = List.hd a in
      (* From<BigUint> is infallible in the code: it keeps the low 32 N bits *)
      check_val n (u32s_from_big nn v) (Some (ZZ.erem v (pow32 n)))
  | "to_bfes" | "encode" ->
      let x = x () in
      let r = if op = "to_bfes" then u32s_to_bfes x else u32s_encode x in
      let m = String.concat " " ("OK" :: List.map (fun w -> s w ^ ":" ^ s (bfe_value w)) r) in
      if List.length r = n && List.for_all2 (fun w l -> ZZ.equal (bfe_value w) l && ZZ.lt w p) r x then m
      else diff m "one element per limb, element value = limb"
  | "static_length" ->
      (match u32s_static_length nn with
       | Some k -> if int_of_nat k = n then Printf.sprintf "OK %d" n else diff (string_of_int (int_of_nat k)) (string_of_int n)
       | None -> diff "NONE" (string_of_int n))
  | "decode" ->
      let vals = List.map (fun v -> ZZ.erem v p) a in
      let r = u32s_decode nn (List.map bfe_new a) in
      let m = showr r in
      let good = List.length vals = n && List.for_all (fun v -> ZZ.leq v u32max) vals in
      (match r with
       | Done l -> if good && l = vals then m else diff m (if good then show vals else "ERR")
       | Rej -> if good then diff m (show vals) else m
       | Pan -> diff m (if good then show vals else "ERR"))
  | "sum" ->
      let k = int_of_string (s (List.hd a)) in
      let rest = List.tl a in
      let items = List.init k (fun i -> take n (drop (i * n) rest)) in
      let total = List.fold_left (fun acc l -> ZZ.add acc (value l)) ZZ.zero items in
      check_val n (u32s_sum nn items) (exact n total)
  | "rt_big" ->
      let x = x () in
      let r = u32s_from_big nn (u32s_to_big x) in
      if r = Some x then showo r else diff (showo r) (show x)
  | "rt_codec" ->
      let x = x () in
      let r = u32s_decode nn (u32s_encode x) in
      if r = Done x then showr r else diff (showr r) (show x)
  | "rt_bfes" ->
      let x = x () in
      let r = u32s_decode nn (u32s_to_bfes x) in
      if r = Done x then showr r else diff (showr r) (show x)
  | _ -> "UNKNOWN-OP " ^ op

let () =
  try
    while true do
      let line = String.trim (input_line stdin) in
      if line <> "" && line.[0] <> '#' then begin
        match String.split_on_char ' ' line |> List.filter (fun t -> t <> "") with
        | id :: op :: args ->
            let res = try run op args with e -> "ORACLE-EXCEPTION " ^ Printexc.to_string e in
            print_string id; print_char ' '; print_string res; print_newline ()
        | _ -> ()
      end
    done
  with End_of_file -> ()
