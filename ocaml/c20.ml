(* Oracle driver for C20 (digest and element conversions): runs the extracted Coq model
   (coq/model/DigestConv.v) on a case file and prints `<id> <model result>` per case.
   Where the property fixes the observable independently of the model (round trips must return the
   input, `cmp` must be the numeric order of the base-p value, `to_big` must be the positional value)
   the expectation is computed here with plain zarith / OCaml code, and a disagreement with the model
   prints `<id> SPECDIFF model=<..> spec=<..>` instead.

   Line protocol.  Field elements: decimal u64 (reduced mod p, as `BFieldElement::new` does).
   Byte strings and strings: lowercase hex of the bytes, `-` for the empty string.
   JSON documents: `s:<hex of the string>` | `n:<integer literal>` | `a:<int>,<int>,...` | null | true | false. *)
module ZZ = Z
open Model

let z = ZZ.of_string
let s = ZZ.to_string
let zi = ZZ.of_int
let md v = ZZ.erem v Model.p

(* ---- text <-> model byte lists *)
let unhex (t : string) : ZZ.t list =
  if t = "-" then []
  else begin
    let n = String.length t / 2 in
    List.init n (fun i -> zi (int_of_string ("0x" ^ String.sub t (2 * i) 2)))
  end
let hex (l : ZZ.t list) : string =
  if l = [] then "-" else String.concat "" (List.map (fun b -> Printf.sprintf "%02x" (ZZ.to_int b)) l)
let ascii (l : ZZ.t list) : string = String.concat "" (List.map (fun b -> String.make 1 (Char.chr (ZZ.to_int b))) l)
let of_ascii (t : string) : ZZ.t list = List.init (String.length t) (fun i -> zi (Char.code t.[i]))

let vals (l : ZZ.t list) = String.concat " " (List.map s l)
let show_d = function Some d -> "OK " ^ vals d | None -> "ERR"
let show_v = function Some v -> "OK " ^ s v | None -> "ERR"
let show_x = function Some ((c0, c1), c2) -> Printf.sprintf "OK %s %s %s" (s c0) (s c1) (s c2) | None -> "ERR"

let rec take n l = if n = 0 then [] else match l with [] -> [] | x :: r -> x :: take (n - 1) r
let rec drop n l = if n = 0 then l else match l with [] -> [] | _ :: r -> drop (n - 1) r
let digest a i = List.map (fun t -> md (z t)) (take 5 (drop i a))

let parse_json (t : string) : json =
  if t = "null" then JNull
  else if t = "true" then JBool true
  else if t = "false" then JBool false
  else
    let body = String.sub t 2 (String.length t - 2) in
    match t.[0] with
    | 's' -> JStr (unhex body)
    | 'n' -> JNum (z body)
    | 'a' -> JArrNum (if body = "" then [] else List.map z (String.split_on_char ',' body))
    | _ -> failwith "bad json token"
(* serde_json's compact text of the documents the two Serialize impls produce *)
let json_text = function
  | JStr b -> "\"" ^ ascii b ^ "\""          (* only hex digits occur: no escaping *)
  | JNum n -> s n
  | _ -> failwith "not produced by the model"

(* round trip: spec = Ok of the input *)
let rt_d (d : ZZ.t list) (r : ZZ.t list option) =
  match r with
  | Some d' when List.length d' = List.length d && List.for_all2 ZZ.equal d d' -> show_d r
  | _ -> Printf.sprintf "SPECDIFF model=%s spec=%s" (String.concat "_" (String.split_on_char ' ' (show_d r)))
           (String.concat "_" (String.split_on_char ' ' (show_d (Some d))))
let rt_v (v : ZZ.t) (r : ZZ.t option) =
  match r with
  | Some v' when ZZ.equal v v' -> show_v r
  | _ -> Printf.sprintf "SPECDIFF model=%s spec=OK_%s" (String.concat "_" (String.split_on_char ' ' (show_v r))) (s v)

let p5 = ZZ.pow Model.p 5
let spec_big d = List.fold_right (fun x acc -> ZZ.add x (ZZ.mul Model.p acc)) d ZZ.zero

let run op a =
  let n i = List.nth a i in
  match op with
  (* ---- Digest <-> bytes *)
  | "to_bytes" -> hex (digest_to_bytes (digest a 0))
  | "from_bytes" ->
      let b = unhex (n 0) in
      let r = digest_try_from_slice b in
      if List.length b = 40 && digest_try_from_array b <> r then "SPECDIFF array and slice conversions differ"
      else show_d r
  | "bytes_rt" -> let d = digest a 0 in rt_d d (digest_try_from_slice (digest_to_bytes d))
  (* ---- hex *)
  | "to_hex" -> let d = digest a 0 in ascii (digest_to_hex d) ^ " " ^ ascii (digest_to_hex_upper d)
  | "from_hex" -> show_d (digest_try_from_hex (unhex (n 0)))
  | "hex_rt" ->
      let d = digest a 0 in
      let r1 = digest_try_from_hex (digest_to_hex d) and r2 = digest_try_from_hex (digest_to_hex_upper d) in
      if r1 <> r2 then "SPECDIFF lower and upper hex decode differently" else rt_d d r1
  (* ---- decimal strings *)
  | "to_string" -> hex (digest_to_string (digest a 0))
  | "from_str" -> show_d (digest_from_str (unhex (n 0)))
  | "display_rt" -> let d = digest a 0 in rt_d d (digest_from_str (digest_to_string d))
  (* ---- BigUint *)
  | "to_big" ->
      let d = digest a 0 in
      let m = digest_to_big d in
      if ZZ.equal m (spec_big d) && ZZ.equal m (big_value d) then s m
      else Printf.sprintf "SPECDIFF model=%s spec=%s" (s m) (s (spec_big d))
  | "from_big" ->
      let v = z (n 0) in
      let r = digest_try_from_big v in
      (* spec: accepted iff v < p^5, and then the base-p digits *)
      let ok = match r with
        | None -> ZZ.geq v p5
        | Some d -> ZZ.lt v p5 && ZZ.equal (spec_big d) v && List.for_all (fun x -> ZZ.lt x Model.p && ZZ.geq x ZZ.zero) d in
      if ok then show_d r else "SPECDIFF model=" ^ String.concat "_" (String.split_on_char ' ' (show_d r))
  | "big_rt" -> let d = digest a 0 in rt_d d (digest_try_from_big (digest_to_big d))
  (* ---- order *)
  | "cmp" ->
      let d1 = digest a 0 and d2 = digest a 5 in
      let c = match digest_cmp d1 d2 with Lt -> -1 | Eq -> 0 | Gt -> 1 in
      let sp = ZZ.compare (spec_big d1) (spec_big d2) in
      let sp = if sp < 0 then -1 else if sp > 0 then 1 else 0 in
      let name = function -1 -> "LT" | 0 -> "EQ" | _ -> "GT" in
      if c = sp then Printf.sprintf "%s %d" (name c) (if d1 = d2 || List.for_all2 ZZ.equal d1 d2 then 1 else 0)
      else Printf.sprintf "SPECDIFF model=%s spec=%s" (name c) (name sp)
  | "reversed" -> vals (digest_reversed (digest a 0))
  (* ---- Vec<BFieldElement> *)
  | "from_vec" -> show_d (digest_try_from_vec (List.map (fun t -> md (z t)) a))
  | "to_vec" -> vals (digest_to_vec (digest a 0))
  (* ---- serde *)
  | "ser_json" -> hex (of_ascii (json_text (digest_ser_json (digest a 0))))
  | "de_json" -> show_d (digest_de_json (parse_json (n 0)))
  | "json_rt" -> let d = digest a 0 in rt_d d (digest_de_json (digest_ser_json d))
  | "ser_bincode" -> hex (digest_ser_bincode (digest a 0))
  | "de_bincode" -> show_d (digest_de_bincode (unhex (n 0)))
  | "bincode_rt" -> let d = digest a 0 in rt_d d (digest_de_bincode (digest_ser_bincode d))
  (* ---- BFieldElement *)
  | "bfe_to_bytes" -> hex (bfe_to_bytes (md (z (n 0))))
  | "bfe_from_bytes" ->
      let b = unhex (n 0) in
      let r = bfe_try_from_slice b in
      if List.length b = 8 && bfe_try_from_array b <> r then "SPECDIFF array and slice conversions differ"
      else show_v r
  | "bfe_bytes_rt" -> let v = md (z (n 0)) in rt_v v (bfe_try_from_slice (bfe_to_bytes v))
  | "bfe_to_string" -> hex (bfe_display (md (z (n 0))))
  | "bfe_from_str" -> show_v (bfe_from_str (unhex (n 0)))
  | "bfe_dec_rt" ->
      (* canonical decimal string = value().to_string() *)
      let v = md (z (n 0)) in
      let t = u64_to_string v in
      if ascii t <> s v then "SPECDIFF decimal printing" else rt_v v (bfe_from_str t)
  | "bfe_ser_json" -> hex (of_ascii (json_text (bfe_ser_json (md (z (n 0))))))
  | "bfe_de_json" -> show_v (bfe_de_json (parse_json (n 0)))
  | "bfe_json_rt" -> let v = md (z (n 0)) in rt_v v (bfe_de_json (bfe_ser_json v))
  | "bfe_ser_bincode" -> hex (bfe_ser_bincode (md (z (n 0))))
  | "bfe_de_bincode" -> show_v (bfe_de_bincode (unhex (n 0)))
  | "bfe_bincode_rt" -> let v = md (z (n 0)) in rt_v v (bfe_de_bincode (bfe_ser_bincode v))
  (* ---- XFieldElement <-> Digest *)
  | "xfe_to_digest" -> vals (digest_from_xfe ((md (z (n 0)), md (z (n 1))), md (z (n 2))))
  | "digest_to_xfe" ->
      let d = digest a 0 in
      let r = xfe_try_from_digest d in
      (* spec: invertible exactly on digests whose last two elements are zero *)
      let zero2 = ZZ.equal (List.nth d 3) ZZ.zero && ZZ.equal (List.nth d 4) ZZ.zero in
      (match r with
       | Some x when zero2 && digest_from_xfe x = d -> show_x r
       | None when not zero2 -> show_x r
       | _ -> "SPECDIFF xfe embedding")
  | "xfe_rt" ->
      let x = ((md (z (n 0)), md (z (n 1))), md (z (n 2))) in
      let r = xfe_try_from_digest (digest_from_xfe x) in
      if r = Some x then show_x r else "SPECDIFF xfe round trip"
  | _ -> "UNKNOWN-OP"

let () =
  try
    while true do
      let line = String.trim (input_line stdin) in
      if line <> "" && line.[0] <> '#' then begin
        match List.filter (fun t -> t <> "") (String.split_on_char ' ' line) with
        | id :: op :: args ->
            let r = try run op args with e -> "ORACLE-EXCEPTION " ^ Printexc.to_string e in
            print_string id; print_char ' '; print_endline r
        | _ -> ()
      end
    done
  with End_of_file -> ()
