(* Oracle driver for the MMR properties C05, C11, C12: runs the extracted Coq model (Mmr.v) and the
   extracted specification (MmrSpec.v) with the free hash.

   A digest is a term of the free algebra (Atom k | Dflt | Varlen l | Node (a, b)) together with a
   cached 61-bit structural fingerprint `s` (a function of the term).  Equality inside the model is
   structural equality of terms.  Digests are *printed* as fingerprints; the Rust harness prints the
   fingerprint of the term whose Tip5 evaluation a digest is (harness/src/bin/mmr.rs), so equal output
   means: implementation digests = Tip5 evaluation of the model's terms.

   Case lines (see tools/props/c05.py, c11.py, c12.py):
     hist <op> <op> ...        a whole operation history; after every op a record is printed
     nfl <n>                   MmrAccumulator::new_from_leafs
     vfy <count> <idx> <dpeaks> <dpath> <fix>      synthetic membership-verification claims
     succ|succs <old> <n> <tweak> [<arg>]          successor proofs (real / synthetic old accumulator)
   Wherever the specification gives the answer, it is computed too and `SPECDIFF` is printed inside the
   record when the model disagrees with it. *)
module ZZ = Z
open Model

type d = { t : term; s : ZZ.t }

let zi = ZZ.of_int
let zs = ZZ.of_string
let p61 = zs "2305843009213693951"
let k1 = zs "1469598103934665603"
let k2 = zs "1099511628211"
let k3 = zs "1442695040888963407"
let k4 = zs "88172645463325252"
let md x = ZZ.erem x p61
let s_atom k = let x = md k in md (ZZ.add (ZZ.add (ZZ.mul x x) (ZZ.mul x k1)) k3)
let s_node a b = md (ZZ.add (ZZ.add (ZZ.mul a k1) (ZZ.mul b k2)) (ZZ.add (ZZ.mul (md (ZZ.mul a b)) k3) k4))
let s_varlen l = md (ZZ.add (List.fold_left (fun acc e -> md (ZZ.add (ZZ.add (ZZ.mul acc k2) e) ZZ.one)) (zi 11) l) k3)
let atom k = { t = Atom k; s = s_atom k }
let h a b = { t = Node (a.t, b.t); s = s_node a.s b.s }
let deq a b = ZZ.equal a.s b.s && (a.t == b.t || term_eqb a.t b.t)
let dflt = { t = Dflt; s = zi 7 }
let hash0 = let l = [ZZ.zero; ZZ.zero; ZZ.zero; ZZ.zero] in { t = Varlen l; s = s_varlen l }

let rec nat_of_int n = if n <= 0 then O else S (nat_of_int (n - 1))
let hex x = ZZ.format "%x" x
let show_ds l = if l = [] then "-" else String.concat "," (List.map (fun x -> hex x.s) l)
let show_zs l = if l = [] then "-" else String.concat "," (List.map ZZ.to_string l)
let vd = function Some true -> "T" | Some false -> "F" | None -> "P"
let list_deq a b = List.length a = List.length b && List.for_all2 deq a b

let fnv s =
  let hsh = ref 0xcbf29ce484222325L in
  String.iter (fun c ->
      hsh := Int64.logxor !hsh (Int64.of_int (Char.code c));
      hsh := Int64.mul !hsh 0x100000001b3L) s;
  Printf.sprintf "%016Lx" !hsh

let split_on c s = if s = "" || s = "-" then [] else String.split_on_char c s
let zlist s = List.map zs (split_on ',' s)

exception Panic

let get = function Some x -> x | None -> raise Panic

(* ------------------------------------------------------------------ histories *)
type st = {
  mutable acc : d accumulator;
  mutable ls : d list;                        (* the leaf list (specification side) *)
  mutable tracked : (ZZ.t * d list) list;     (* (leaf index, membership proof), in hand-over order *)
}

let spec_path st i = if ZZ.geq i (zlength st.ls) || ZZ.lt i ZZ.zero then [] else path h dflt st.ls i
let leaf_at st i = List.nth st.ls (ZZ.to_int i)
let count st = zlength st.ls

let render st modified specdiff =
  let (n, peaks) = st.acc in
  let tr =
    if st.tracked = [] then "-"
    else String.concat ";" (List.map (fun (i, mp) ->
             let v = if ZZ.lt i (count st) then vd (mp_verify h deq mp i (leaf_at st i) peaks n) else "?" in
             Printf.sprintf "%s:%s:%s" (ZZ.to_string i) (show_ds mp) v) st.tracked) in
  Printf.sprintf "%sn=%s e=%s P=%s B=%s X=%s T=%s" specdiff (ZZ.to_string n)
    (if acc_is_empty st.acc then "1" else "0") (show_ds peaks) (hex (bag_peaks h hash0 peaks).s)
    (show_zs modified) tr

(* specification checks after a state-changing op *)
let spec_check st old_tracked modified exact =
  let (n, peaks) = st.acc in
  let errs = ref [] in
  let add e = errs := e :: !errs in
  if not (ZZ.equal n (count st)) then add "count";
  if not (list_deq peaks (peaks_spec h dflt st.ls)) then add "peaks";
  if not (deq (bag_peaks h hash0 peaks) (bag_spec h hash0 peaks)) then add "bag";
  List.iteri (fun pos (i, mp) ->
      if not (list_deq mp (spec_path st i)) then add (Printf.sprintf "path%d" pos);
      if mp_verify h deq mp i (leaf_at st i) peaks n <> Some true then add (Printf.sprintf "verify%d" pos);
      if not (mp_verify_spec h deq dflt mp i (leaf_at st i) peaks n) then add (Printf.sprintf "verifyspec%d" pos))
    st.tracked;
  (match old_tracked with
   | None -> ()
   | Some old ->
       let changed = List.concat (List.mapi (fun pos ((_, a), (_, b)) ->
                         if list_deq a b then [] else [zi pos]) (List.combine old st.tracked)) in
       let reported = List.sort_uniq ZZ.compare modified in
       if exact then (if not (List.equal ZZ.equal changed modified) then add "modified")
       else if not (List.for_all (fun c -> List.exists (ZZ.equal c) reported) changed) then add "modified-missed");
  if !errs = [] then "" else "SPECDIFF(" ^ String.concat "," (List.rev !errs) ^ ") "

let split2 s = match String.index_opt s ':' with
  | Some k -> (String.sub s 0 k, String.sub s (k + 1) (String.length s - k - 1))
  | None -> (s, "")

let do_op st tok =
  let c = tok.[0] and rest = String.sub tok 1 (String.length tok - 1) in
  let mps () = List.map snd st.tracked and idxs () = List.map fst st.tracked in
  let set_tracked mps' = st.tracked <- List.map2 (fun (i, _) mp -> (i, mp)) st.tracked mps' in
  match c with
  | 'a' | 'A' ->
      let track = String.length rest > 0 && rest.[String.length rest - 1] = '+' in
      let k = zs (if track then String.sub rest 0 (String.length rest - 1) else rest) in
      let leaf = atom k in
      let (n, peaks) = st.acc in
      let old = st.tracked in
      let modified =
        if c = 'a' then begin
          let (mps', md) = get (batch_update_from_append h (mps ()) (idxs ()) n leaf peaks) in
          set_tracked mps'; md
        end else begin
          let res = List.map (fun (i, mp) -> get (update_from_append h mp i n leaf peaks)) st.tracked in
          set_tracked (List.map fst res);
          List.concat (List.mapi (fun pos (_, b) -> if b then [zi pos] else []) res)
        end in
      let (acc', mp) = get (acc_append h st.acc leaf) in
      st.acc <- acc';
      st.ls <- st.ls @ [leaf];
      let sd = spec_check st (Some old) modified true in
      if track then st.tracked <- st.tracked @ [(n, mp)];
      let sd2 = if track then spec_check st None [] true else "" in
      render st modified (sd ^ sd2)
  | 'm' | 'M' | 'n' ->
      let (si, sk) = split2 rest in
      let i = zs si and leaf = atom (zs sk) in
      let lm = ((i, leaf), spec_path st i) in
      let old = st.tracked in
      let (modified, exact) =
        match c with
        | 'm' -> let (mps', md) = get (batch_update_from_leaf_mutation h deq (mps ()) (idxs ()) lm) in
                 set_tracked mps'; (md, true)
        | 'M' -> let res = List.map (fun (j, mp) -> get (update_from_leaf_mutation h mp j lm)) st.tracked in
                 set_tracked (List.map fst res);
                 (List.concat (List.mapi (fun pos (_, b) -> if b then [zi pos] else []) res), false)
        | _ -> let (mps', md) = get (batch_update_from_batch_leaf_mutation h deq (mps ()) (idxs ()) [lm]) in
               set_tracked mps'; (md, true) in
      st.acc <- get (acc_mutate_leaf h st.acc lm);
      st.ls <- upd st.ls i leaf;
      let sd = spec_check st (Some old) modified exact in
      render st modified sd
  | 'b' | 'B' ->
      let (sis, sks) = split2 rest in
      let is = zlist sis and ks = zlist sks in
      let ivs = List.map2 (fun i k -> (i, atom k)) is ks in
      let lms = List.map (fun (i, l) -> ((i, l), spec_path st i)) ivs in
      let old = st.tracked in
      let modified =
        if c = 'b' then begin
          let ((acc', mps'), md) = get (batch_mutate_leaf_and_update_mps h deq st.acc (mps ()) (idxs ()) lms) in
          st.acc <- acc'; set_tracked mps';
          st.ls <- apply_muts st.ls ivs; md
        end else begin
          let (mps', md) = get (batch_update_from_batch_leaf_mutation h deq (mps ()) (idxs ()) lms) in
          set_tracked mps';
          List.iter (fun (i, l) ->
              st.acc <- get (acc_mutate_leaf h st.acc ((i, l), spec_path st i));
              st.ls <- upd st.ls i l) ivs;
          md
        end in
      let sd = spec_check st (Some old) modified true in
      render st modified sd
  | 't' | 'T' ->
      let i = zs rest in
      let e = (i, spec_path st i) in
      st.tracked <- (if c = 't' then st.tracked @ [e] else e :: st.tracked);
      render st [] (spec_check st None [] true)
  | 'u' ->
      let pos = int_of_string rest in
      st.tracked <- List.filteri (fun p _ -> p <> pos) st.tracked;
      render st [] ""
  | 'w' ->
      (match String.split_on_char ':' rest with
       | [sis; sks; sas; tweak] ->
           let is = zlist sis and ks = zlist sks and apps = List.map atom (zlist sas) in
           let ivs = List.map2 (fun i k -> (i, atom k)) is ks in
           let lms = List.map (fun (i, l) -> ((i, l), spec_path st i)) ivs in
           let expected = peaks_spec h dflt (apply_muts st.ls ivs @ apps) in
           let n = count st in
           let tw = String.sub tweak 0 (min 4 (String.length tweak)) in
           let (p_peaks, p_apps, p_lms, has_spec) =
             if tweak = "ok" then (expected, apps, lms, true)
             else if tw = "peak" then begin
               let j = int_of_string (String.sub tweak 4 (String.length tweak - 4)) in
               if expected = [] then (expected, apps, lms, true)
               else (List.mapi (fun p x -> if p = j mod List.length expected then atom (zi 999999) else x) expected,
                     apps, lms, true)
             end
             else if tweak = "swapv" then
               (match lms with
                | ((i1, l1), p1) :: ((i2, l2), p2) :: r -> (expected, apps, ((i1, l2), p1) :: ((i2, l1), p2) :: r, true)
                | _ -> (expected, apps, lms, true))
             else if tweak = "order" then (expected, apps, List.rev lms, true)
             else if tweak = "dup" then
               (match lms with x :: _ -> (expected, apps, lms @ [x], true) | [] -> (expected, apps, lms, true))
             else if tweak = "oob" then (expected, apps, lms @ [((n, atom (zi 5)), [])], true)
             else if tweak = "appp" then (expected, apps @ [atom (zi 424242)], lms, true)
             else if tweak = "appm" then
               (expected, (match List.rev apps with _ :: r -> List.rev r | [] -> []), lms, true)
             else if tweak = "bp" then
               (match lms with
                | (iv, (_ :: pr)) :: r -> (expected, apps, (iv, atom (zi 999999) :: pr) :: r, false)
                | _ -> (expected, apps, lms, true))
             else failwith "tweak" in
           let res = verify_batch_update h deq st.acc p_peaks p_apps p_lms in
           let sd =
             if not has_spec then ""
             else begin
               let pis = List.map (fun ((i, _), _) -> i) p_lms in
               let distinct = List.length (List.sort_uniq ZZ.compare pis) = List.length pis in
               let inr = List.for_all (fun i -> ZZ.lt i n) pis in
               let ans = distinct && inr &&
                         list_deq (peaks_spec h dflt (apply_muts st.ls (List.map fst p_lms) @ p_apps)) p_peaks in
               if res = Some ans then "" else "SPECDIFF(vbu) "
             end in
           Printf.sprintf "%sw=%s" sd (vd res)
       | _ -> failwith "w")
  | _ -> failwith ("op " ^ tok)

let run_hist ops =
  let st = { acc = (ZZ.zero, []); ls = []; tracked = [] } in
  let compact = List.length ops > 24 in
  let out = ref [] in
  (try
     List.iter (fun tok ->
         let r = try do_op st tok with Panic -> "PANIC" in
         out := (if compact then fnv r else r) :: !out;
         if r = "PANIC" then raise Exit) ops
   with Exit -> ());
  String.concat " | " (List.rev !out)

(* ------------------------------------------------------------------ successor proofs *)
let rec take n l = if n <= 0 then [] else match l with [] -> [] | x :: r -> x :: take (n - 1) r
let rec drop n l = if n <= 0 then l else match l with [] -> [] | _ :: r -> drop (n - 1) r
let set_at j v l = List.mapi (fun p x -> if p = j then v else x) l

let rec run_succ synthetic a = run_succ_q synthetic 0 a
and run_succ_q synthetic q a =
  let oldc = zs (List.nth a 0) and nn = int_of_string (List.nth a 1) in
  let tweak = List.nth a 2 in
  let arg = if List.length a > 3 then List.nth a 3 else "0" in
  try
    let old =
      if synthetic then
        (oldc, List.init (ZZ.to_int (num_peaks oldc)) (fun j -> atom (zi (1000000 + (if q > 0 then j mod q else j)))))
      else get (new_from_leafs h (List.init (ZZ.to_int oldc) (fun j -> atom (zi j)))) in
    let base = if synthetic then 0 else ZZ.to_int oldc in
    let new_leafs = List.init nn (fun j -> if q > 0 then atom (zi (1000000 + (j + 1) mod q)) else atom (zi (base + j))) in
    let sp = get (sp_new_from_batch_append h dflt old new_leafs) in
    let nw = List.fold_left (fun acc l -> fst (get (acc_append h acc l))) old new_leafs in
    let bad = atom (zi 777777) in
    let j = try int_of_string arg with _ -> 0 in
    let (sp', old', new') =
      match tweak with
      | "ok" -> (sp, old, nw)
      | "alt" -> (set_at j bad sp, old, nw)
      | "rot" -> let r = if sp = [] then 0 else j mod List.length sp in (drop r sp @ take r sp, old, nw)
      | "drop" -> (take (List.length sp - 1) sp, old, nw)
      | "dropf" -> (drop 1 sp, old, nw)
      | "add" -> (sp @ [bad], old, nw)
      | "addd" -> (sp @ [dflt], old, nw)
      | "oldpk" -> (sp, (fst old, set_at j bad (snd old)), nw)
      | "newpk" -> (sp, old, (fst nw, set_at j bad (snd nw)))
      | "oldlong" -> (sp, (fst old, snd old @ [atom (zi 5)]), nw)
      | "oldpad" -> (sp, (fst old, snd old @ List.init (int_of_string arg) (fun _ -> atom (zi 5))), nw)
      | "newpad" -> (sp, old, (fst nw, snd nw @ List.init (int_of_string arg) (fun _ -> atom (zi 5))))
      | "oldshort" -> (sp, (fst old, take (List.length (snd old) - 1) (snd old)), nw)
      | "oldcut" ->
          (* drop the last old peak together with its segment of the proof *)
          let oc = fst old in
          if ZZ.equal oc ZZ.zero then (sp, old, nw)
          else begin
            let hgt = ZZ.trailing_zeros oc in
            let offset = ZZ.sub oc (ZZ.shift_left ZZ.one hgt) in
            let ((_, hh), _) = locate (fst nw) offset in
            let seg = ZZ.to_int hh - hgt in
            (take (List.length sp - seg) sp, (oc, take (List.length (snd old) - 1) (snd old)), nw)
          end
      | "oldshortf" -> (sp, (fst old, drop 1 (snd old)), nw)
      | "newlong" -> (sp, old, (fst nw, snd nw @ [atom (zi 5)]))
      | "newshort" -> (sp, old, (fst nw, take (List.length (snd nw) - 1) (snd nw)))
      | "oldcnt" -> (sp, (zs arg, snd old), nw)
      | "newcnt" -> (sp, old, (zs arg, snd nw))
      | "swap" -> (sp, nw, old)
      | "zero" -> (sp, (ZZ.zero, [atom (zi 5)]), nw)
      | _ -> failwith "tweak" in
    let v0 = sp_verify_v0 h deq dflt sp' old' new' in
    let v1 = sp_verify_v1 h deq dflt sp' old' new' in
    let spec = succ_verify_spec h deq dflt sp' old' new' in
    let shown = let x = show_ds sp in if List.length sp > 32 then "#" ^ fnv x else x in
    Printf.sprintf "S=%s V0=%s V1=%s SP=%s" shown (vd v0) (vd v1) (if spec then "T" else "F")
  with Panic -> "PANIC"

(* ------------------------------------------------------------------ membership verification claims *)
let run_vfy a =
  let n = zs (List.nth a 0) and i = zs (List.nth a 1) in
  let dpeaks = int_of_string (List.nth a 2) and dpath = int_of_string (List.nth a 3) in
  let fix = List.nth a 4 = "1" in
  let ((pk, hh), j) = if ZZ.lt i n then locate n i else ((ZZ.zero, ZZ.zero), ZZ.zero) in
  let npeaks = max 0 (ZZ.to_int (num_peaks n) + dpeaks) in
  let plen = max 0 (ZZ.to_int hh + dpath) in
  let peaks = List.init npeaks (fun t -> atom (zi (2000000 + t))) in
  let pth = List.init plen (fun t -> atom (zi (3000000 + t))) in
  let leaf = atom ZZ.one in
  let peaks =
    if fix && ZZ.lt i n && ZZ.to_int pk < npeaks then set_at (ZZ.to_int pk) (fold_up h j leaf pth) peaks
    else peaks in
  let res = mp_verify h deq pth i leaf peaks n in
  let spec = mp_verify_spec h deq dflt pth i leaf peaks n in
  let sd = if res = Some spec then "" else "SPECDIFF(verify) " in
  Printf.sprintf "%sv=%s" sd (vd res)

let run_nfl a =
  let n = int_of_string (List.nth a 0) in
  let ls = List.init n (fun j -> atom (zi j)) in
  match new_from_leafs h ls with
  | None -> "PANIC"
  | Some acc ->
      let (c, peaks) = acc in
      let sd = if ZZ.equal c (zi n) && list_deq peaks (peaks_spec h dflt ls) then "" else "SPECDIFF(nfl) " in
      Printf.sprintf "%sn=%s e=%s P=%s B=%s" sd (ZZ.to_string c) (if acc_is_empty acc then "1" else "0")
        (show_ds peaks) (hex (bag_peaks h hash0 peaks).s)


(* ------------------------------------------------------------------ synthetic accumulators
   An MMR with n leafs of which only the chosen ones exist: a block without a chosen leaf has a fresh atom as
   root, the others are hashed from their children (same construction as in the harness).  The tree of a leaf
   is found with the SPECIFICATION's locate. *)
let two64 = ZZ.shift_left ZZ.one 64
let fresh a t = atom (ZZ.erem (ZZ.add (ZZ.add (ZZ.mul a (zi 128)) (zi t)) (zi 5000000)) two64)
let rec syn_value idx leaves a t =
  let inside = List.filter (fun (i, _) -> ZZ.equal (ZZ.shift_right i t) a) (List.combine idx leaves) in
  match inside with
  | [] -> fresh a t
  | (_, l) :: _ ->
      if t = 0 then l
      else h (syn_value idx leaves (ZZ.mul a (zi 2)) (t - 1))
             (syn_value idx leaves (ZZ.add (ZZ.mul a (zi 2)) ZZ.one) (t - 1))
let syn_peaks n idx leaves =
  let out = ref [] and offset = ref ZZ.zero in
  for k = 63 downto 0 do
    let p = ZZ.shift_left ZZ.one k in
    if not (ZZ.equal (ZZ.logand n p) ZZ.zero) then begin
      out := syn_value idx leaves (ZZ.shift_right !offset k) k :: !out;
      offset := ZZ.add !offset p
    end
  done;
  List.rev !out
let syn_path n idx leaves i =
  let ((_, hh), _) = locate n i in
  List.init (ZZ.to_int hh) (fun t -> syn_value idx leaves (ZZ.logxor (ZZ.shift_right i t) ZZ.one) t)
let show_long l = let x = show_ds l in if List.length l > 32 then "#" ^ fnv x else x
let show_tracked idx leaves mps peaks n =
  if idx = [] then "-"
  else String.concat ";" (List.map2 (fun (i, l) mp ->
           Printf.sprintf "%s:%s:%s" (ZZ.to_string i) (show_long mp) (vd (mp_verify h deq mp i l peaks n)))
         (List.combine idx leaves) mps)
let all_verify idx leaves mps peaks n =
  List.for_all2 (fun (i, l) mp -> mp_verify h deq mp i l peaks n = Some true) (List.combine idx leaves) mps
let flag b = if b then "1" else "0"

let run_syn a =
  let n = zs (List.nth a 0) in
  let idx = zlist (List.nth a 1) in
  let op = List.nth a 2 in
  let leaves = List.mapi (fun k _ -> atom (zi (2000000 + k))) idx in
  let peaks = syn_peaks n idx leaves in
  let mps = List.map (syn_path n idx leaves) idx in
  let acc = (n, peaks) in
  let sd ok what = if ok then "" else "SPECDIFF(" ^ what ^ ") " in
  try
    match op with
    | "v" ->
        sd (all_verify idx leaves mps peaks n) "verify"
        ^ Printf.sprintf "P=%s T=%s" (show_long peaks) (show_tracked idx leaves mps peaks n)
    | "a" ->
        let leaf = atom (zi 77) in
        let single = List.map2 (fun i mp -> get (update_from_append h mp i n leaf peaks)) idx mps in
        let (batch, modified) = get (batch_update_from_append h mps idx n leaf peaks) in
        let ((n', np), new_mp) = get (acc_append h acc leaf) in
        let sproofs = List.map fst single in
        let same = List.for_all2 list_deq sproofs batch in
        (* specification: the proof changes iff the leaf's tree is merged, i.e. all bits of n up to the tree's
           height are set *)
        let expect_changed = List.map (fun i ->
            let ((_, hh), _) = locate n i in
            ZZ.equal (ZZ.erem (ZZ.add n ZZ.one) (ZZ.shift_left ZZ.one (ZZ.to_int hh + 1))) ZZ.zero) idx in
        let flags_ok = List.for_all2 (fun (_, b) e -> b = e) single expect_changed in
        let md_ok = List.equal ZZ.equal modified
            (List.concat (List.mapi (fun p e -> if e then [zi p] else []) expect_changed)) in
        let newleaf_ok = mp_verify h deq new_mp n leaf np n' = Some true in
        sd (all_verify idx leaves sproofs np n' && flags_ok && md_ok && same && newleaf_ok) "append"
        ^ Printf.sprintf "n=%s P=%s F=%s X=%s S=%s N=%s T=%s" (ZZ.to_string n') (show_long np)
            (if single = [] then "-" else String.concat "," (List.map (fun (_, b) -> flag b) single))
            (show_zs modified) (flag same) (show_long new_mp) (show_tracked idx leaves sproofs np n')
    | "m" ->
        let newleaf = atom (zi 88) in
        let lm = ((List.hd idx, newleaf), List.hd mps) in
        let (rest, modified) = get (batch_update_from_leaf_mutation h deq mps idx lm) in
        let single = List.map2 (fun i mp -> get (update_from_leaf_mutation h mp i lm)) idx mps in
        let (_, np) = get (acc_mutate_leaf h acc lm) in
        let nl = newleaf :: List.tl leaves in
        let expected = syn_peaks n idx nl in
        let same = List.for_all2 list_deq (List.map fst single) rest in
        sd (all_verify idx nl rest np n && list_deq np expected && same) "mutate"
        ^ Printf.sprintf "P=%s E=%s F=%s X=%s S=%s T=%s" (show_long np) (flag (list_deq np expected))
            (String.concat "," (List.map (fun (_, b) -> flag b) single)) (show_zs modified) (flag same)
            (show_tracked idx nl rest np n)
    | "b" | "w" | "wx" ->
        let nl = List.mapi (fun k _ -> atom (zi (90 + k))) idx in
        let lms = List.map2 (fun (i, l) mp -> ((i, l), mp)) (List.combine idx nl) mps in
        let expected = syn_peaks n idx nl in
        if op = "b" then begin
          let (((_, np), tracked), modified) = get (batch_mutate_leaf_and_update_mps h deq acc mps idx lms) in
          sd (all_verify idx nl tracked np n && list_deq np expected) "batch"
          ^ Printf.sprintf "P=%s E=%s X=%s T=%s" (show_long np) (flag (list_deq np expected)) (show_zs modified)
              (show_tracked idx nl tracked np n)
        end else begin
          let apps = [atom (zi 77)] in
          let ((_, e2), _) = get (acc_append h (n, expected) (List.hd apps)) in
          let e2 = if op = "wx" && e2 <> [] then take (List.length e2 - 1) e2 @ [atom (zi 999999)] else e2 in
          let r = verify_batch_update h deq acc e2 apps lms in
          sd (r = Some (op = "w")) "vbu" ^ Printf.sprintf "w=%s" (vd r)
        end
    | _ -> "UNKNOWN-OP"
  with Panic -> "PANIC"

let run op a =
  match op with
  | "hist" -> run_hist a
  | "nfl" -> run_nfl a
  | "vfy" -> run_vfy a
  | "succ" -> run_succ false a
  | "succs" -> run_succ true a
  | "succq1" -> run_succ_q true 1 a
  | "succq2" -> run_succ_q true 2 a
  | "succq3" -> run_succ_q true 3 a
  | "syn" -> run_syn a
  | _ -> "UNKNOWN-OP"

let () =
  try
    while true do
      let line = String.trim (input_line stdin) in
      if line <> "" && line.[0] <> '#' then begin
        match List.filter (fun s -> s <> "") (String.split_on_char ' ' line) with
        | id :: op :: a ->
            let r = try run op a with e -> "ORACLE-ERROR " ^ Printexc.to_string e in
            print_string id; print_char ' '; print_endline r
        | [id] -> print_endline (id ^ " UNKNOWN-OP")
        | [] -> ()
      end
    done
  with End_of_file -> ()
