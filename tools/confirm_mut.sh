#!/bin/bash
# confirm_mut.sh <worktree> <ID>  : independently confirm a seeded change produced in <worktree>/OUT:
#  (1) suite passes with the change, (2) demo fails with it, (3) demo passes without it.
# Then store it under /verif/seeded/<name>/ with meta.json extended by what was run here.
set -u
WT=$1; ID=$2; NAME=$(basename $WT)
LOW=$(echo $ID | tr A-Z a-z)
cd $WT || exit 2
export CARGO_NET_OFFLINE=true
git checkout -q -- twenty-first/src bfieldcodec_derive/src
rm -f twenty-first/tests/demo_*.rs
git apply OUT/patch.diff || { echo "patch does not apply"; exit 2; }
SUITE=$(timeout 3000 cargo test --workspace --no-fail-fast --offline 2>&1 | grep -E "^test result|FAILED|failed" | tr '\n' ';')
cp OUT/demo.rs twenty-first/tests/demo_$LOW.rs
WITH=$(timeout 1500 cargo test --offline -p twenty-first --test demo_$LOW 2>&1 | grep -E "^test result" | tr '\n' ';')
git checkout -q -- twenty-first/src bfieldcodec_derive/src
WITHOUT=$(timeout 1500 cargo test --offline -p twenty-first --test demo_$LOW 2>&1 | grep -E "^test result" | tr '\n' ';')
rm -f twenty-first/tests/demo_$LOW.rs
echo "suite(with change): $SUITE"
echo "demo with change:   $WITH"
echo "demo without:       $WITHOUT"
ok=1
echo "$SUITE" | grep -q "FAILED\|failed;" && echo "$SUITE" | grep -qv " 0 failed" && ok=0
echo "$SUITE" | grep -q "[1-9][0-9]* failed" && ok=0
echo "$WITH" | grep -q "[1-9][0-9]* failed" || ok=0
echo "$WITHOUT" | grep -q " 0 failed" || ok=0
echo "$WITHOUT" | grep -q "[1-9][0-9]* passed" || ok=0
if [ $ok = 1 ]; then
  mkdir -p /verif/seeded/$NAME
  cp OUT/patch.diff OUT/demo.rs /verif/seeded/$NAME/
  python3 - "$SUITE" "$WITH" "$WITHOUT" <<PY
import json,sys
m=json.load(open('OUT/meta.json'))
m['confirmed_by_lead']={'suite_with_change':sys.argv[1],'demo_with_change':sys.argv[2],'demo_without_change':sys.argv[3]}
json.dump(m,open('/verif/seeded/$NAME/meta.json','w'),indent=1)
PY
  echo "CONFIRMED -> /verif/seeded/$NAME"
else
  echo "NOT CONFIRMED"
fi
