#!/bin/bash
# variant of confirm_mut for C14: the demo lives in bfieldcodec_derive/tests
WT=$1; NAME=$(basename $WT); cd $WT; export CARGO_NET_OFFLINE=true
git checkout -q -- twenty-first/src bfieldcodec_derive/src; rm -f twenty-first/tests/demo_*.rs bfieldcodec_derive/tests/demo_*.rs
git apply OUT/patch.diff || exit 2
SUITE=$(timeout 3000 cargo test --workspace --no-fail-fast --offline 2>&1 | grep -E "^test result|FAILED|failed" | tr '\n' ';')
mkdir -p bfieldcodec_derive/tests; cp OUT/demo.rs bfieldcodec_derive/tests/demo_c14.rs
WITH=$(timeout 1500 cargo test --offline -p bfieldcodec_derive --test demo_c14 2>&1 | grep -E "^test result" | tr '\n' ';')
git checkout -q -- twenty-first/src bfieldcodec_derive/src
WITHOUT=$(timeout 1500 cargo test --offline -p bfieldcodec_derive --test demo_c14 2>&1 | grep -E "^test result" | tr '\n' ';')
rm -rf bfieldcodec_derive/tests
echo "suite: $SUITE"; echo "with: $WITH"; echo "without: $WITHOUT"
if echo "$SUITE" | grep -q "[1-9][0-9]* failed"; then echo NOT CONFIRMED; exit 1; fi
echo "$WITH" | grep -q "[1-9][0-9]* failed" || { echo NOT CONFIRMED; exit 1; }
echo "$WITHOUT" | grep -q " 0 failed" || { echo NOT CONFIRMED; exit 1; }
mkdir -p /verif/seeded/$NAME; cp OUT/patch.diff OUT/demo.rs /verif/seeded/$NAME/
python3 - "$SUITE" "$WITH" "$WITHOUT" <<PY
import json,sys
m=json.load(open('OUT/meta.json'))
m['confirmed_by_lead']={'suite_with_change':sys.argv[1],'demo_with_change':sys.argv[2],'demo_without_change':sys.argv[3],'demo_location':'bfieldcodec_derive/tests/demo_c14.rs'}
json.dump(m,open('/verif/seeded/$NAME/meta.json','w'),indent=1)
PY
echo "CONFIRMED -> /verif/seeded/$NAME"
