#!/usr/bin/env python3
"""Regenerate coq/_CoqProject (all .v files under coq/) and coq/Makefile.coq, write-if-changed."""
import os, subprocess, sys
ROOT = os.path.join(os.path.dirname(os.path.abspath(__file__)), "..", "coq")
def main():
    files = []
    for d in ("lib", "gen", "model", "spec", "proofs", "props", "extract"):
        p = os.path.join(ROOT, d)
        if os.path.isdir(p):
            files += sorted(os.path.join(d, f) for f in os.listdir(p) if f.endswith(".v"))
    txt = "-Q . TF\n-arg -w -arg -notation-overridden,-deprecated-hint-without-locality,-deprecated-instance-without-locality,-ambiguous-paths,-deprecated-syntactic-definition,-extraction-opaque-accessed,-extraction-reserved-identifier\n" + "\n".join(files) + "\n"
    cp = os.path.join(ROOT, "_CoqProject")
    old = open(cp).read() if os.path.exists(cp) else None
    if old != txt or not os.path.exists(os.path.join(ROOT, "Makefile.coq")):
        open(cp, "w").write(txt)
        subprocess.check_call(["coq_makefile", "-f", "_CoqProject", "-o", "Makefile.coq"], cwd=ROOT)
if __name__ == "__main__":
    main()
