"""gen_bfield.py - BFieldGen.v: constants, PRIMITIVE_ROOTS and the straight-line functions of b_field_element.rs."""
import os
import re
import sys
sys.path.insert(0, os.path.dirname(os.path.dirname(os.path.abspath(__file__))))
from rs2v import *  # noqa: F401,F403
from rs2v import Ctx, FnTranslator, Parser, Untranslatable, lex

# ------------------------------------------------------------------ modules
def generate(report):
    path = "twenty-first/src/math/b_field_element.rs"
    src = strip_tests(read(path))
    ctx = Ctx()
    out = HEADER % path
    consts = {}
    for nm in ("P", "R2"):
        _, ex = find_const(src, nm)
        consts[nm] = consts["Self::" + nm] = consts["BFieldElement::" + nm] = const_eval(ex, consts)
        out += "Definition %s : Z := %d.\n" % (nm, consts[nm])
        ctx.add_const([nm, "Self::" + nm, "BFieldElement::" + nm], nm, "u64")
    _, ex = find_const(src, "MAX")
    out += "Definition MAX : Z := %d.\n" % const_eval(ex, consts)
    consts["MAX"] = consts["Self::MAX"] = consts["BFieldElement::MAX"] = const_eval(ex, consts)
    ctx.add_const(["MAX", "Self::MAX", "BFieldElement::MAX"], "MAX", "u64")
    # any FURTHER integer constant the impl declares (e.g. a named 2^32 - 1 introduced by a rewrite): evaluated in the
    # order of declaration; one whose initialiser is outside the constant subset is skipped (a function that uses it is then
    # reported as untranslatable, as before)
    for m in re.finditer(r"^\s*(?:pub(?:\([a-z]+\))?\s+)?const\s+([A-Z][A-Z0-9_]*)\s*:\s*(u8|u16|u32|u64|u128|usize)\s*=\s*([^;]+);",
                         src, re.M):
        nm, ty, ex = m.group(1), m.group(2), m.group(3)
        if nm in consts:
            continue
        try:
            val = const_eval(ex.replace("!Self::P", str((~consts["P"]) % 2 ** 64)).replace("!P", str((~consts["P"]) % 2 ** 64)),
                             consts) % 2 ** WIDTH[ty]
        except Exception:
            continue
        consts[nm] = consts["Self::" + nm] = consts["BFieldElement::" + nm] = val
        # used as a LITERAL in the generated code (no named definition: the arithmetic proofs see the value)
        ctx.add_const([nm, "Self::" + nm, "BFieldElement::" + nm], zlit(val), ty)
    m = re.search(r"MINUS_TWO_INVERSE\s*:\s*Self\s*=\s*Self::new\((.*?)\)", src)
    out += "Definition MINUS_TWO_INVERSE_ARG : Z := %d.\n" % const_eval(m.group(1), consts)
    roots = re.search(r"PRIMITIVE_ROOTS[^=]*=\s*phf_map!\s*\{(.*?)\};", src, re.S).group(1)
    pairs = re.findall(r"(\d+)u64\s*=>\s*(\d+)", roots)
    out += "Definition PRIMITIVE_ROOTS : list (Z * Z) :=\n  [" + ";\n   ".join(
        "(%s, %s)" % p for p in pairs) + "].\n\n"
    ctx.bfe_ops = {"add": "bfe_add", "sub": "bfe_sub", "mul": "bfe_mul", "neg": "bfe_neg"}
    implsrc = src
    fns = [
        ("montyred", "montyred", None, 0, ["Self::montyred", "BFieldElement::montyred"]),
        ("new", "bfe_new", None, 0, ["Self::new", "BFieldElement::new"]),
        ("canonical_representation", "bfe_value", "bfe", 0, ["bfe.canonical_representation", "bfe.value",
                                                              "Self::canonical_representation"]),
        ("add", "bfe_add", "bfe", 0, []),
        ("sub", "bfe_sub", "bfe", 0, []),
        ("mul", "bfe_mul", "bfe", 0, []),
        ("mod_reduce", "mod_reduce", None, 0, ["mod_reduce"]),
        ("bfe_to_i64", "bfe_to_i64", None, 0, ["bfe_to_i64"]),
    ]
    ctx.add_func(["Self::zero", "BFieldElement::zero"], "bfe_zero", [], "bfe", has_ok=False)
    done = []
    for rust, coq, selfty, nth, paths in fns:
        try:
            if rust == "add":
                s = find_in(implsrc, r"impl Add for BFieldElement\s*\{")
            elif rust == "sub":
                s = find_in(implsrc, r"impl Sub for BFieldElement\s*\{")
            elif rust == "mul":
                s = find_in(implsrc, r"impl Mul for BFieldElement\s*\{")
            else:
                s = implsrc
            if rust == "sub":
                # Neg is `Self::zero() - self`
                pass
            out += translate_fn(ctx, s, rust, coq, selfty, nth, paths)
            done.append(rust)
            if rust == "new":
                out += "Definition bfe_zero : Z := bfe_new 0.\nDefinition bfe_one : Z := bfe_new 1.\n\n"
        except Untranslatable as ex:
            report.append(("BFieldGen", rust, str(ex)))
    try:
        s = find_in(implsrc, r"impl Neg for BFieldElement\s*\{")
        out += translate_fn(ctx, s, "neg", "bfe_neg", "bfe", 0, [])
    except Untranslatable as ex:
        report.append(("BFieldGen", "neg", str(ex)))
    # From<i64>
    try:
        s = find_in(implsrc, r"impl From<i64> for BFieldElement\s*\{")
        psrc, ret, body = find_fn(s, "from")
        body = body.strip()
        # body is `{ match ... { .. } .into() }` : translate the match, result u128
        m = re.match(r"\{\s*(match.*\})\s*\.into\(\)\s*\}$", body, re.S)
        if m:
            e = Parser(lex(m.group(1))).expr()
            ft = FnTranslator(ctx, "from_i64")
            v, ty, ok = ft.ex(e, {"value": ("value", "i64")}, "u128")
            if ty != "u128":
                raise Untranslatable("From<i64> type %s" % ty)
            out += "Definition from_i64_u128 (value : Z) : Z :=\n  %s.\n\n" % v
            out += "Definition from_i64_u128_ok (value : Z) : bool :=\n  %s.\n\n" % ok
        else:
            # any other body that hands a u128 to From<u128> (`E.into()` as the value, `return E.into();` in branches): the
            # `.into()`s are dropped and the rest is translated as a function i64 -> u128
            b2 = re.sub(r"//[^\n]*", "", body)
            n_into = len(re.findall(r"\.into\(\)", b2))
            b3 = re.sub(r"return\s+\((.*?)\)\.into\(\)\s*;", r"return \1;", b2, flags=re.S)
            b3 = re.sub(r"return\s+([A-Za-z_][A-Za-z_0-9]*)\.into\(\)\s*;", r"return \1;", b3)
            b3 = re.sub(r"\(([^()]*(?:\([^()]*\)[^()]*)*)\)\.into\(\)(\s*\}\s*)$", r"\1\2", b3, flags=re.S)
            b3 = re.sub(r"([A-Za-z_][A-Za-z_0-9]*)\.into\(\)(\s*\}\s*)$", r"\1\2", b3)
            if ".into()" in b3 or n_into == 0:
                raise Untranslatable("From<i64> shape changed")
            b3 = re.sub(r"\bu128::from\(([^()]*)\)", r"(\1 as u128)", b3)
            b3 = re.sub(r"\bi128::from\(([^()]*)\)", r"(\1 as i128)", b3)
            synth = "fn from_i64_u128(value: i64) -> u128 %s\n" % b3
            out += translate_fn(ctx, synth, "from_i64_u128", "from_i64_u128", None, 0, [])
    except Untranslatable as ex:
        report.append(("BFieldGen", "from_i64", str(ex)))
    write_if_changed(os.path.join(OUT, "BFieldGen.v"), out)


