"""gen_lattice.py - LatticeGen.v: the two 64-entry psi tables, N_INV and the other numeric constants of
twenty-first/src/math/lattice.rs (C18), regenerated from the source on every run.

Table entries are read together with their constructor.  `BFieldElement::new(v)` denotes the field VALUE
v mod P (C01_value_new); `BFieldElement::from_raw_u64(w)` denotes the value w * 2^-64 mod P (the C01 `val`).
The emitted Coq lists hold field values in both cases; the header comment of the generated file says which
constructor the source uses."""
import os
import re
import sys
sys.path.insert(0, os.path.dirname(os.path.dirname(os.path.abspath(__file__))))
from rs2v import *  # noqa: F401,F403
from rs2v import Untranslatable

PATH = "twenty-first/src/math/lattice.rs"
P = 2**64 - 2**32 + 1
RINV = pow(2**64, -1, P)


def _need(m, what):
    if not m:
        raise Untranslatable("lattice.rs: shape changed: " + what)
    return m


def _table(body, name):
    m = _need(re.search(r"let\s+%s\s*=\s*\[(.*?)\]\s*;" % name, body, re.S), "table " + name)
    ents = re.findall(r"BFieldElement::(\w+)\(\s*([0-9a-fA-Fx_]+)(?:u64)?\s*\)", m.group(1))
    leftover = re.sub(r"BFieldElement::\w+\(\s*[0-9a-fA-Fx_]+(?:u64)?\s*\)\s*,?", "", m.group(1)).strip()
    if leftover:
        raise Untranslatable("table %s has entries of unknown form: %r" % (name, leftover[:40]))
    ctors = sorted({c for c, _ in ents})
    if len(ctors) != 1 or ctors[0] not in ("new", "from_raw_u64"):
        raise Untranslatable("table %s: constructors %s" % (name, ctors))
    return ctors[0], [int(v.replace("_", ""), 0) for _, v in ents]


def _val_expr(ctor):
    return "(fun v => v mod P)" if ctor == "new" else "(fun w => (w * LAT_RINV) mod P)"


def _local_const(body, name, consts):
    _, ex = find_const(body, name)
    return const_eval(ex, consts)


def generate(report):
    src = strip_tests(read(PATH))
    out = HEADER % PATH
    out = out.replace("From TF Require Import Word.", "From TF Require Import Word BFieldGen.")
    try:
        consts = {}
        # ---------------- coset_ntt_noswap_64 / coset_intt_noswap_64
        _, _, intt = find_fn(src, "coset_intt_noswap_64")
        _, _, ntt = find_fn(src, "coset_ntt_noswap_64")
        n_ntt = _local_const(ntt, "N", consts)
        n_intt = _local_const(intt, "N", consts)
        logn = _local_const(intt, "LOGN", consts)
        m = _need(re.search(r"const\s+N_INV\s*:\s*BFieldElement\s*=\s*BFieldElement::(\w+)\(\s*([0-9a-fA-Fx_]+)\s*\)\s*;",
                            intt), "N_INV")
        ninv_ctor, ninv = m.group(1), int(m.group(2).replace("_", ""), 0)
        if ninv_ctor not in ("new", "from_raw_u64"):
            raise Untranslatable("N_INV constructor " + ninv_ctor)
        c_fwd, t_fwd = _table(ntt, "powers_of_psi_bitreversed")
        c_inv, t_inv = _table(intt, "powers_of_psi_inv_bitreversed")
        out += ("(* constructors in the source: powers_of_psi_bitreversed: BFieldElement::%s ; "
                "powers_of_psi_inv_bitreversed: BFieldElement::%s ; N_INV: BFieldElement::%s.\n"
                "   `new v` is the field value v mod P; `from_raw_u64 w` is the value (w * 2^-64) mod P. "
                "The lists below hold field VALUES. *)\n" % (c_fwd, c_inv, ninv_ctor))
        out += "Definition LAT_RINV : Z := %d.  (* 2^-64 mod P, used only for from_raw_u64 entries *)\n" % RINV
        out += "Definition NTT_N : nat := %d.\nDefinition INTT_N : nat := %d.\nDefinition INTT_LOGN : nat := %d.\n" % (
            n_ntt, n_intt, logn)
        out += "Definition N_INV : Z := %s %d.\n" % (_val_expr(ninv_ctor), ninv)
        out += "Definition PSI_BITREV : list Z := map %s\n  %s.\n" % (_val_expr(c_fwd), coq_zlist(t_fwd))
        out += "Definition PSI_INV_BITREV : list Z := map %s\n  %s.\n\n" % (_val_expr(c_inv), coq_zlist(t_inv))
        # ---------------- sizes
        _, ex = find_const(src, "CYCLOTOMIC_RING_ELEMENT_SIZE_IN_BFES")
        ring = consts["CYCLOTOMIC_RING_ELEMENT_SIZE_IN_BFES"] = const_eval(ex, consts)
        _, ex = find_const(src, "CIPHERTEXT_SIZE_IN_BFES")
        ct = const_eval(ex, consts)
        out += "Definition RING_SIZE : nat := %d.\nDefinition CIPHERTEXT_SIZE : nat := %d.\n" % (ring, ct)
        # ---------------- sampling
        _, _, su = find_fn(src, "sample_uniform", 0)
        m = _need(re.search(r"for\s+i\s+in\s+0\.\.(\d+)\s*\{.*?for\s+j\s+in\s+0\.\.(\d+)\s*\{\s*"
                            r"acc\s*=\s*acc\s*\*\s*(\d+)\s*\+\s*randomness\[i\s*\*\s*(\d+)\s*\+\s*j\]\s*as\s*u128\s*;",
                            su, re.S), "sample_uniform loop")
        if int(m.group(2)) != int(m.group(4)):
            raise Untranslatable("sample_uniform: stride %s differs from inner bound %s" % (m.group(4), m.group(2)))
        _need(re.search(r"acc\s*%=\s*BFieldElement::P\s+as\s+u128\s*;", su), "sample_uniform reduction")
        out += "Definition UNIFORM_COEFFS : nat := %s.\nDefinition UNIFORM_BYTES : nat := %s.\nDefinition UNIFORM_RADIX : Z := %s.\n" % (
            m.group(1), m.group(2), m.group(3))
        _, _, ss = find_fn(src, "sample_short", 0)
        m = _need(re.search(r"\.chunks\((\d+)\)", ss), "sample_short chunks")
        out += "Definition SHORT_BYTES : nat := %s.\n" % m.group(1)
        _, _, ssb = find_fn(src, "sample_short_bfield_element")
        sh = re.findall(r"\[randomness\[(\d+)\]\s+as\s+usize\]\s+as\s+u64\)(?:\s*<<\s*(\(?[\d\s*]+\)?))?", ssb)
        if len(sh) != 8 or [int(i) for i, _ in sh] != list(range(8)):
            raise Untranslatable("sample_short_bfield_element shape")
        shifts = [const_eval(s, consts) if s else 0 for _, s in sh]
        _need(re.search(r"BFieldElement::new\(left\)\s*-\s*BFieldElement::new\(right\)", ssb), "short: left - right")
        out += "Definition SHORT_SHIFTS : list Z := %s.\n" % coq_zlist(shifts, 8)
        _, _, mss = find_fn(src, "sample_short", 1)
        m = _need(re.search(r"randomness\[\s*([\d\s*]+)\*\s*n\s*\.\.\s*([\d\s*]+)\*\s*\(n\s*\+\s*1\)\s*\]", mss),
                  "module sample_short slice")
        a, b = const_eval(m.group(1).strip().rstrip("*").strip(), consts), const_eval(m.group(2).strip().rstrip("*").strip(), consts)
        if a != b:
            raise Untranslatable("module sample_short slice bounds differ")
        out += "Definition MODULE_SHORT_STRIDE : nat := %d.\n" % a
        _, _, msu = find_fn(src, "sample_uniform", 1)
        m = _need(re.search(r"randomness\[\s*i\s*\*\s*([\d\s*]+)\.\.\s*\(i\s*\+\s*1\)\s*\*\s*([\d\s*]+)\]", msu),
                  "module sample_uniform slice")
        a, b = const_eval(m.group(1), consts), const_eval(m.group(2), consts)
        if a != b:
            raise Untranslatable("module sample_uniform slice bounds differ")
        out += "Definition MODULE_UNIFORM_STRIDE : nat := %d.\n" % a
        # ---------------- embed / extract
        _, _, em = find_fn(src, "embed_msg")
        lanes = re.findall(r"for\s+j\s+in\s+0\.\.(\d+)", em)
        offs = re.findall(r"<<\s*\((\d+)\s*\+\s*(\d+)\s*\*\s*j\)", em)
        # the same shift amount with the summands / factors in another order: (16 * j + 15), (15 + j * 16), (j * 16 + 15)
        offs += [(o, w) for w, o in re.findall(r"<<\s*\((\d+)\s*\*\s*j\s*\+\s*(\d+)\)", em)]
        offs += re.findall(r"<<\s*\((\d+)\s*\+\s*j\s*\*\s*(\d+)\)", em)
        offs += [(o, w) for w, o in re.findall(r"<<\s*\(j\s*\*\s*(\d+)\s*\+\s*(\d+)\)", em)]
        his = re.findall(r"msg\[i\]\s*>>\s*\((\d+)\s*\+\s*j\)", em)
        if len(set(lanes)) != 1 or len(lanes) != 2 or len(set(offs)) != 1 or len(offs) != 2 or len(his) != 1:
            raise Untranslatable("embed_msg shape")
        out += "Definition LANES : nat := %s.\nDefinition EMBED_OFFSET : Z := %s.\nDefinition LANE_BITS : Z := %s.\nDefinition HI_NIBBLE_SHIFT : Z := %s.\n" % (
            lanes[0], offs[0][0], offs[0][1], his[0])
        _, _, exm = find_fn(src, "extract_msg")
        masks = re.findall(r"let\s+chunk\s*=\s*value\s*&\s*(0x[0-9a-fA-F]+|\d+)\s*;", exm)
        shr = re.findall(r"value\s*>>=\s*(\d+)\s*;", exm)
        conds = re.findall(r"if\s+chunk\s*<\s*\(1\s*<<\s*(\d+)\)\s*\|\|\s*\(1\s*<<\s*(\d+)\)\s*-\s*chunk\s*<\s*\(1\s*<<\s*(\d+)\)\s*\{\s*0\s*\}\s*else\s*\{\s*1\s*\}", exm)
        # the same window with the bounds written as literals: `chunk < T || chunk > W - T` (chunk is masked to 16 bits, so
        # `W - chunk < T` is `chunk > W - T`); accepted only when T and W are powers of two
        for lo_, hi_ in re.findall(r"if\s+chunk\s*<\s*(0x[0-9a-fA-F_]+|\d[\d_]*)\s*\|\|\s*chunk\s*>\s*(0x[0-9a-fA-F_]+|\d[\d_]*)"
                                   r"\s*\{\s*0\s*\}\s*else\s*\{\s*1\s*\}", exm):
            t_, h_ = int(lo_.replace("_", ""), 0), int(hi_.replace("_", ""), 0)
            w_ = t_ + h_
            if t_ > 0 and t_ & (t_ - 1) == 0 and w_ & (w_ - 1) == 0:
                conds.append((str(t_.bit_length() - 1), str(w_.bit_length() - 1), str(t_.bit_length() - 1)))
        xl = re.findall(r"for\s+j\s+in\s+0\.\.(\d+)", exm)
        xh = re.findall(r"byte\s*\|=\s*bit\s*<<\s*\((\d+)\s*\+\s*j\)\s*;", exm)
        xlo = re.findall(r"byte\s*\|=\s*bit\s*<<\s*j\s*;", exm)
        if len(xh) != 1 or len(xlo) != 1:
            raise Untranslatable("extract_msg bit placement")
        if (len(masks) != 2 or len(set(masks)) != 1 or len(shr) != 2 or len(set(shr)) != 1 or len(conds) != 2
                or len(set(conds)) != 1 or conds[0][0] != conds[0][2] or len(xl) != 2 or len(set(xl)) != 1):
            raise Untranslatable("extract_msg shape")
        out += "Definition LANE_MASK : Z := %d.\nDefinition EXTRACT_SHIFT : Z := %s.\nDefinition EXTRACT_THRESHOLD : Z := %d.\nDefinition EXTRACT_WRAP : Z := %d.\nDefinition EXTRACT_LANES : nat := %s.\nDefinition EXTRACT_HI_SHIFT : Z := %s.\n" % (
            int(masks[0], 0), shr[0], 1 << int(conds[0][0]), 1 << int(conds[0][1]), xl[0], xh[0])
        # ---------------- KEM
        kem = find_in(src, r"pub mod kem\s*\{")
        _, _, dpm = find_fn(kem, "derive_public_matrix")
        _, _, dsv = find_fn(kem, "derive_secret_vectors")
        out += "Definition PUBLIC_MATRIX_BYTES : Z := %d.\n" % _local_const(dpm, "NUM_BYTES", consts)
        m = _need(re.search(r"ModuleElement::<(\d+)>::sample_uniform", dpm), "public matrix size")
        out += "Definition PUBLIC_MATRIX_N : nat := %s.\n" % m.group(1)
        out += "Definition SECRET_VECTORS_BYTES : Z := %d.\n" % _local_const(dsv, "NUM_BYTES", consts)
        ms = re.findall(r"ModuleElement::<(\d+)>::sample_short\(&randomness\[(.*?)\]\)", dsv)
        if len(ms) != 2 or ms[0][0] != ms[1][0] or not re.match(r"0\.\.\(NUM_BYTES\s*/\s*2\)$", ms[0][1].strip()) \
                or not re.match(r"\(NUM_BYTES\s*/\s*2\)\.\.$", ms[1][1].strip()):
            raise Untranslatable("derive_secret_vectors shape")
        out += "Definition SECRET_VECTOR_N : nat := %s.\n" % ms[0][0]
        _, _, kg = find_fn(kem, "keygen")
        _, _, en = find_fn(kem, "enc")
        out += "Definition KEYGEN_OUTPUT_LENGTH : Z := %d.\nDefinition ENC_OUTPUT_LENGTH : Z := %d.\n" % (
            _local_const(kg, "OUTPUT_LENGTH", consts), _local_const(en, "OUTPUT_LENGTH", consts))
        tags = re.findall(r"shake256\(\[randomness\.to_vec\(\),\s*vec!\[(\d+)u8\]\]\.concat\(\)\)", kg)
        if len(tags) != 2:
            raise Untranslatable("keygen domain separation bytes")
        out += "Definition KEYGEN_SEED_TAG : Z := %s.\nDefinition KEYGEN_KEY_TAG : Z := %s.\n" % (tags[0], tags[1])

        def shapes(fn_name, count):
            _, _, body = find_fn(kem, fn_name)
            hs = re.findall(r"multiply_hadamard::<\s*([\d\s,]+?)\s*>", body)
            if len(hs) != count:
                raise Untranslatable("%s: expected %d multiply_hadamard calls, found %d" % (fn_name, count, len(hs)))
            res = []
            for h in hs:
                v = [int(x) for x in h.replace(" ", "").split(",") if x]
                if len(v) != 6:
                    raise Untranslatable("%s: const generics %r" % (fn_name, h))
                res.append(v)
            return res
        # const generics are <LHS_H, LHS_N, RHS_W, RHS_N, INNER, OUT_N>
        names = [("SHAPE_GA", shapes("derive_public_key", 1)[0])]
        g = shapes("generate_ciphertext_derandomized", 2)
        names += [("SHAPE_BG", g[0]), ("SHAPE_BGA", g[1]), ("SHAPE_DEC", shapes("dec", 1)[0])]
        out += "(* multiply_hadamard const generics as written: (LHS_H, LHS_N, RHS_W, RHS_N, INNER, OUT_N) *)\n"
        for nm, v in names:
            out += "Definition %s : nat * nat * nat * nat * nat * nat := (%s)%%nat.\n" % (nm, ", ".join(map(str, v)))
    except Untranslatable as ex:
        report.append(("LatticeGen", "constants", str(ex)))
        return
    write_if_changed(os.path.join(OUT, "LatticeGen.v"), out)
