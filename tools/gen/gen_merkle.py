"""gen_merkle.py - MerkleGen.v: the constants of merkle_tree.rs and the *variant* of the two functions whose
model exists in two forms (coq/model/Merkle.v: `mt_leaf fixed`, `from_digests fixed`).

Nothing here is guessed: a function body is recognised only if, after whitespace normalisation and comment
removal, it is literally one of the two modelled forms; anything else is reported as untranslatable (the
generated flag then keeps the golden value so that the model still compiles and the correspondence run decides).
proofs/MerkleProofs.v pins the hand-written model's constants and variant flags to these definitions."""
import os
import re
import sys
sys.path.insert(0, os.path.dirname(os.path.dirname(os.path.abspath(__file__))))
from rs2v import *  # noqa: F401,F403
from rs2v import Untranslatable

PATH = "twenty-first/src/util_types/merkle_tree.rs"

LEAF_V0 = "{ let first_leaf_index = self.nodes.len() / 2; self.nodes.get(first_leaf_index + index).copied() }"
LEAF_V1 = ("{ let first_leaf_index = self.nodes.len() / 2; let node_index = first_leaf_index.checked_add(index)?; "
           "self.nodes.get(node_index).copied() }")
GUARD_V0 = "node_count_on_this_level >= *PARALLELIZATION_CUTOFF"
GUARD_V1 = "node_count_on_this_level > 0 && node_count_on_this_level >= *PARALLELIZATION_CUTOFF"


# the same two forms up to spellings that cannot change the meaning: the names of the two locals, `/ 2` or `>> 1` for
# halving the (unsigned) node count, the checked sum bound to a local or used in place, the two conjuncts of the guard in
# either order, `> 0` / `!= 0` / `>= 1` for "not zero".  Still nothing is guessed: every alternative is listed.
_HALF = r"self\.nodes\.len\(\) (?:/ 2|>> 1)"
LEAF_V1_RE = re.compile(
    r"^\{ let (?P<a>\w+) = " + _HALF + r"; (?:let (?P<b>\w+) = (?:(?P=a)\.checked_add\(index\)|index\.checked_add\((?P=a)\))\?; "
    r"self\.nodes\.get\((?P=b)\)\.copied\(\)|self\.nodes\.get\((?P=a)\.checked_add\(index\)\?\)\.copied\(\)) \}$")
LEAF_V0_RE = re.compile(
    r"^\{ let (?P<a>\w+) = " + _HALF + r"; (?:self\.nodes\.get\((?P=a) \+ index\)\.copied\(\)|"
    r"self\.nodes\.get\(index \+ (?P=a)\)\.copied\(\)) \}$")
_NZ = r"(?:node_count_on_this_level > 0|node_count_on_this_level != 0|node_count_on_this_level >= 1|0 < node_count_on_this_level)"
_GE = r"(?:node_count_on_this_level >= \*PARALLELIZATION_CUTOFF|\*PARALLELIZATION_CUTOFF <= node_count_on_this_level)"
GUARD_V1_RE = re.compile(r"^(?:" + _NZ + r" && " + _GE + r"|" + _GE + r" && " + _NZ + r")$")


def norm(s):
    s = re.sub(r"//[^\n]*", "", s)
    return re.sub(r"\s+", " ", s).strip()


def generate(report):
    src = strip_tests(read(PATH))
    out = HEADER % PATH
    consts = {}
    for nm in ("DEFAULT_PARALLELIZATION_CUTOFF", "MAX_NUM_NODES", "MAX_NUM_LEAFS", "ROOT_INDEX"):
        try:
            _, ex = find_const(src, nm)
            consts[nm] = const_eval(ex, consts)
            out += "Definition GEN_%s : Z := %d.\n" % (nm, consts[nm])
        except Untranslatable as ex_:
            report.append(("MerkleGen", nm, str(ex_)))
    # MAX_TREE_HEIGHT = MAX_NUM_LEAFS.ilog2() as usize
    try:
        _, ex = find_const(src, "MAX_TREE_HEIGHT")
        if norm(ex) != "MAX_NUM_LEAFS.ilog2() as usize":
            raise Untranslatable("MAX_TREE_HEIGHT is not MAX_NUM_LEAFS.ilog2(): %s" % norm(ex))
        out += "Definition GEN_MAX_TREE_HEIGHT : Z := ilog2 GEN_MAX_NUM_LEAFS.\n"
    except Untranslatable as ex_:
        report.append(("MerkleGen", "MAX_TREE_HEIGHT", str(ex_)))
        out += "Definition GEN_MAX_TREE_HEIGHT : Z := 31.\n"
    m = re.search(r'std::env::var\("([A-Z0-9_]+)"\)', src)
    if m:
        out += "(* ENV %s *)\n" % m.group(1)
    else:
        report.append(("MerkleGen", "PARALLELIZATION_CUTOFF", "environment variable name not found"))
    if norm(re.search(r"static ref PARALLELIZATION_CUTOFF: usize =(.*?);", src, re.S).group(1)) != norm(
            'std::env::var("%s") .ok() .and_then(|v| v.parse().ok()) .unwrap_or(DEFAULT_PARALLELIZATION_CUTOFF)'
            % (m.group(1) if m else "")):
        report.append(("MerkleGen", "PARALLELIZATION_CUTOFF", "initialiser is not env -> parse -> default"))
    # MerkleTree::leaf
    try:
        _, _, body = find_fn(src, "leaf")
        b = norm(body)
        if b == LEAF_V1 or LEAF_V1_RE.match(b):
            out += "Definition GEN_LEAF_CHECKED_ADD : bool := true.\n"
        elif b == LEAF_V0 or LEAF_V0_RE.match(b):
            out += "Definition GEN_LEAF_CHECKED_ADD : bool := false.\n"
        else:
            raise Untranslatable("body of MerkleTree::leaf is neither modelled form: %s" % b)
    except Untranslatable as ex_:
        report.append(("MerkleGen", "leaf", str(ex_)))
        out += "Definition GEN_LEAF_CHECKED_ADD : bool := true.\n"
    # the `while` guard of CpuParallel::from_digests
    try:
        _, _, body = find_fn(src, "from_digests", nth=1)
        ws = re.findall(r"\bwhile\s+(.*?)\s*\{", body, re.S)
        if len(ws) != 1:
            raise Untranslatable("expected exactly one while loop in CpuParallel::from_digests")
        g = norm(ws[0])
        if g == GUARD_V1 or GUARD_V1_RE.match(g):
            out += "Definition GEN_CUTOFF_LOOP_GUARDS_ZERO : bool := true.\n"
        elif g == GUARD_V0:
            out += "Definition GEN_CUTOFF_LOOP_GUARDS_ZERO : bool := false.\n"
        else:
            raise Untranslatable("loop guard of CpuParallel::from_digests is neither modelled form: %s" % g)
    except Untranslatable as ex_:
        report.append(("MerkleGen", "from_digests", str(ex_)))
        out += "Definition GEN_CUTOFF_LOOP_GUARDS_ZERO : bool := true.\n"
    write_if_changed(os.path.join(os.path.dirname(os.path.abspath(__file__)), "..", "..", "coq", "gen", "MerkleGen.v"), out)
