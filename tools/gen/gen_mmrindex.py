"""gen_mmrindex.py - MmrIndexGen.v: the straight-line index functions of util_types/mmr/shared_basic.rs
and shared_advanced.rs (property C16).

Everything goes through rs2v.translate_fn.  Two small, local extensions of the expression translator are
installed for the duration of this plug-in only (rs2v.py itself is not modified):
  * a tuple expression in a position whose expected type is a tuple type passes the component types down as
    hints (so that `return (u64::MAX, 63);` types the literal 63 as the declared u32);
  * `let x = <expression built from untyped literals only>;` takes the type of `x` from the function's return
    type when `x` itself is (a component of) the returned value - that is what rustc's inference does for
    `let ret = (1 << (h + 1)) - 1; (ret, h)`.  Anything else is still refused.
"""
import os
import sys
sys.path.insert(0, os.path.dirname(os.path.dirname(os.path.abspath(__file__))))
import rs2v
from rs2v import *  # noqa: F401,F403
from rs2v import Ctx, FnTranslator, Untranslatable

BASIC = "twenty-first/src/util_types/mmr/shared_basic.rs"
ADVANCED = "twenty-first/src/util_types/mmr/shared_advanced.rs"


class MmrFnTranslator(FnTranslator):
    rty = None      # declared return type of the function being translated (set through the blk hint)

    def ex(self, e, env, hint=None):
        if e[0] == "tuple" and isinstance(hint, tuple) and hint[0] == "tuple" and len(hint[1]) == len(e[1]):
            parts = [self.ex(p, env, h) for p, h in zip(e[1], hint[1])]
            return ("(" + ", ".join(p[0] for p in parts) + ")",
                    ("tuple", tuple(p[1] for p in parts)), rs2v.conj([p[2] for p in parts]))
        return FnTranslator.ex(self, e, env, hint)

    @staticmethod
    def _final_type_of(name, final, rty):
        """type that the declared return type forces on variable `name`, if `name` is returned directly."""
        if final is None or rty is None:
            return None
        if final[0] == "return":
            final = final[1]
        if final[0] == "path" and final[1] == name and not isinstance(rty, tuple):
            return rty
        if final[0] == "tuple" and isinstance(rty, tuple) and rty[0] == "tuple" and len(rty[1]) == len(final[1]):
            for p, t in zip(final[1], rty[1]):
                if p[0] == "path" and p[1] == name:
                    return t
        return None

    def seq(self, stmts, final, env, hint):
        if stmts and stmts[0][0] == "let" and stmts[0][2] is None and stmts[0][1][0] == "pvar" \
                and self.is_untyped_lit(stmts[0][3]):
            t = self._final_type_of(stmts[0][1][1], final, hint)
            # only when no later statement rebinds the name
            rebound = any(s[0] == "let" and s[1] == stmts[0][1] for s in stmts[1:])
            if t is not None and not rebound:
                s = stmts[0]
                stmts = [("let", s[1], t, s[3])] + list(stmts[1:])
        return FnTranslator.seq(self, stmts, final, env, hint)


FNS = [
    # (file, rust name, coq name, call paths)
    (BASIC, "left_child", "left_child", ["left_child"]),
    (BASIC, "right_child", "right_child", ["right_child"]),
    (BASIC, "leaf_index_to_mt_index_and_peak_index", "leaf_index_to_mt_index_and_peak_index",
     ["leaf_index_to_mt_index_and_peak_index"]),
    (BASIC, "right_lineage_length_from_leaf_index", "right_lineage_length_from_leaf_index",
     ["right_lineage_length_from_leaf_index"]),
    (ADVANCED, "leftmost_ancestor", "leftmost_ancestor", ["leftmost_ancestor"]),
    (ADVANCED, "leaf_index_to_node_index", "leaf_index_to_node_index", ["leaf_index_to_node_index"]),
    (ADVANCED, "left_sibling", "left_sibling", ["left_sibling"]),
    (ADVANCED, "right_sibling", "right_sibling", ["right_sibling"]),
    (ADVANCED, "num_leafs_to_num_nodes", "num_leafs_to_num_nodes", ["num_leafs_to_num_nodes"]),
]


def generate(report):
    srcs = {p: strip_tests(read(p)) for p in (BASIC, ADVANCED)}
    ctx = Ctx()
    out = HEADER % (BASIC + " and " + ADVANCED)
    out += ("(* Straight-line MMR index functions.  Every value is a Z holding a u64 (u32 for heights and counts).\n"
            "   f_ok collects the conditions under which the unchecked operators of f neither overflow nor shift out of\n"
            "   range and its assert! holds: f_ok = true  <->  no panic in a checked build and no wrap in a release build. *)\n\n")
    orig = rs2v.FnTranslator
    rs2v.FnTranslator = MmrFnTranslator
    try:
        for path, rust, coq, paths in FNS:
            try:
                out += translate_fn(ctx, srcs[path], rust, coq, None, 0, paths)
            except Untranslatable as ex:
                report.append(("MmrIndexGen", rust, str(ex)))
    finally:
        rs2v.FnTranslator = orig
    write_if_changed(os.path.join(OUT, "MmrIndexGen.v"), out)
