"""gen_poly.py - PolyGen.v: every dispatch threshold constant of polynomial.rs and zerofier_tree.rs.

All values are re-read from the current source on every run (Tie 1).  `CLEAN_DIVIDE_CUTOFF_THRESHOLD` is a
`cfg!(test)` expression: both arms are emitted (`..._TEST` is what the crate's own test-suite runs, `..._PROD` is what
every dependent crate - and the correspondence harness - gets).  The literal `64` of `Polynomial::square` is not a
named constant in the source; it is extracted from the comparison inside `fn square`.
"""
import os
import re
import sys
sys.path.insert(0, os.path.dirname(os.path.dirname(os.path.abspath(__file__))))
from rs2v import *  # noqa: F401,F403
from rs2v import Untranslatable

POLY_CONSTS = [
    "FAST_MULTIPLY_CUTOFF_THRESHOLD",
    "FAST_INTERPOLATE_CUTOFF_THRESHOLD_SEQUENTIAL",
    "FAST_INTERPOLATE_CUTOFF_THRESHOLD_PARALLEL",
    "FAST_MODULAR_COSET_INTERPOLATE_CUTOFF_THRESHOLD_PREFER_LAGRANGE",
    "FAST_MODULAR_COSET_INTERPOLATE_CUTOFF_THRESHOLD_PREFER_INTT",
    "FAST_COSET_EXTRAPOLATE_THRESHOLD",
    "FORMAL_POWER_SERIES_INVERSE_CUTOFF",
    "FAST_REDUCE_CUTOFF_THRESHOLD",
    "REDUCE_BEFORE_EVALUATE_THRESHOLD_RATIO",
    "FAST_REDUCE_MAKES_SENSE_MULTIPLE",
    "FAST_ZEROFIER_CUTOFF_THRESHOLD",
    "OPTIMAL_CUTOFF_POINT_FOR_BATCHED_INTERPOLATION",
]


def generate(report):
    path = "twenty-first/src/math/polynomial.rs"
    src = strip_tests(read(path))
    out = HEADER % (path + " and twenty-first/src/math/zerofier_tree.rs")
    for nm in POLY_CONSTS:
        try:
            ty, ex = find_const(src, nm)
            out += "(* const %s: %s = %s *)\nDefinition %s : Z := %d.\n" % (nm, ty, " ".join(ex.split()), nm,
                                                                              const_eval(ex, {}))
        except Untranslatable as e:
            report.append(("PolyGen", nm, str(e)))
    # const CLEAN_DIVIDE_CUTOFF_THRESHOLD: isize = { if cfg!(test) { A } else { B } };
    m = re.search(r"const\s+CLEAN_DIVIDE_CUTOFF_THRESHOLD\s*:\s*isize\s*=\s*\{\s*if\s+cfg!\(test\)\s*\{(.*?)\}\s*else\s*"
                  r"\{(.*?)\}\s*\}\s*;", src, re.S)
    try:
        if m:
            out += "(* const CLEAN_DIVIDE_CUTOFF_THRESHOLD: isize = if cfg!(test) { %s } else { %s } *)\n" % (
                m.group(1).strip(), m.group(2).strip())
            out += "Definition CLEAN_DIVIDE_CUTOFF_THRESHOLD_TEST : Z := %d.\n" % const_eval(m.group(1), {})
            out += "Definition CLEAN_DIVIDE_CUTOFF_THRESHOLD_PROD : Z := %d.\n" % const_eval(m.group(2), {})
        else:
            # perhaps the cfg!(test) switch was removed: a plain constant serves both configurations
            ty, ex = find_const(src, "CLEAN_DIVIDE_CUTOFF_THRESHOLD")
            v = const_eval(ex, {})
            out += "Definition CLEAN_DIVIDE_CUTOFF_THRESHOLD_TEST : Z := %d.\n" % v
            out += "Definition CLEAN_DIVIDE_CUTOFF_THRESHOLD_PROD : Z := %d.\n" % v
    except Untranslatable as e:
        report.append(("PolyGen", "CLEAN_DIVIDE_CUTOFF_THRESHOLD", str(e)))
    # the unnamed cutoff of `square`: `if squared_coefficient_len > 64 { return self.fast_square(); }`
    try:
        _, _, body = find_fn(src, "square")
        # `if len > C { return self.fast_square(); }`  or  `if len > C { self.fast_square() } else { .. }`  or the mirrored
        # `if len <= C { .. } else { self.fast_square() }`: the same threshold either way
        m = re.search(r"if\s+squared_coefficient_len\s*>\s*([0-9_]+|[A-Z_:a-z]+)\s*\{\s*(?:return\s+)?self\.fast_square\(\)", body)
        if not m:
            m = re.search(r"if\s+squared_coefficient_len\s*<=\s*([0-9_]+|[A-Z_:a-z]+)\s*\{[^{}]*\}\s*else\s*\{\s*(?:return\s+)?"
                          r"self\.fast_square\(\)", body)
        if not m:
            raise Untranslatable("shape of the dispatch in `square` changed")
        tok = m.group(1)
        if re.fullmatch(r"[0-9_]+", tok):
            v = int(tok.replace("_", ""))
        else:
            _, ex = find_const(src, tok.split("::")[-1])
            v = const_eval(ex, {})
        out += "(* fn square: if squared_coefficient_len > %s { return self.fast_square() } *)\n" % tok
        out += "Definition SQUARE_FAST_CUTOFF_LEN : Z := %d.\n" % v
    except Untranslatable as e:
        report.append(("PolyGen", "square-cutoff", str(e)))
    # zerofier_tree.rs
    zsrc = strip_tests(read("twenty-first/src/math/zerofier_tree.rs"))
    try:
        ty, ex = find_const(zsrc, "RECURSION_CUTOFF_THRESHOLD")
        out += "(* ZerofierTree::RECURSION_CUTOFF_THRESHOLD: %s = %s *)\n" % (ty, ex)
        out += "Definition ZEROFIER_TREE_RECURSION_CUTOFF_THRESHOLD : Z := %d.\n" % const_eval(ex, {})
    except Untranslatable as e:
        report.append(("PolyGen", "RECURSION_CUTOFF_THRESHOLD", str(e)))
    write_if_changed(os.path.join(OUT, "PolyGen.v"), out)
