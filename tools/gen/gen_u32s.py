"""gen_u32s.py - U32sGen.v: the width guards of `TryFrom<u64> / TryFrom<u128> for U32s<N>` (amount/u32s.rs).

Both functions have the shape

    let err = Err(Self::Error::InsufficientSize);
    match N { <pat> [if <guard>] => err, ..., _ => Ok(U32s::from(BigUint::from(value))) }

The plug-in checks that shape token by token, replaces every `err` arm by `true` ("rejects") and the single
`Ok(U32s::from(BigUint::from(value)))` arm by `false`, and sends the resulting integer `match` (patterns and guard
expressions untouched) through the ordinary expression translator.  The const generic `N` is a `usize` parameter.
Result:  tryfrom_u64_rejects (N value : Z) : bool,  tryfrom_u128_rejects (N value : Z) : bool  and their `_ok`
companions (no unchecked operator in a guard overflows).  Anything else in those bodies -> Untranslatable."""
import os
import re
import sys
sys.path.insert(0, os.path.dirname(os.path.dirname(os.path.abspath(__file__))))
from rs2v import *  # noqa: F401,F403
from rs2v import Ctx, FnTranslator, Parser, Untranslatable, lex, HEADER, OUT

PATH = "twenty-first/src/amount/u32s.rs"
OK_ARM = ("call", "Ok", [("call", "U32s::from", [("call", "BigUint::from", [("path", "value")])])])
ERR_LET = ("let", ("pvar", "err"), None, ("call", "Err", [("path", "Self::Error::InsufficientSize")]))


def guard_of(src, header_re, vty, coq_name):
    impl = find_in(src, header_re)
    psrc, ret, body = find_fn(impl, "try_from")
    if re.sub(r"\s+", "", psrc) != "value:" + vty:
        raise Untranslatable("try_from parameters changed: %s" % psrc.strip())
    blk = Parser(lex(body)).block()
    stmts, final = blk[1], blk[2]
    if len(stmts) != 1 or stmts[0] != ERR_LET:
        raise Untranslatable("try_from: expected exactly `let err = Err(Self::Error::InsufficientSize);` before the match")
    if final is None or final[0] != "match" or final[1] != ("path", "N"):
        raise Untranslatable("try_from: body is not `match N { .. }`")
    arms = []
    n_ok = 0
    for pat, guard, b in final[2]:
        if b == ("path", "err"):
            arms.append((pat, guard, ("bool", True)))
        elif b == OK_ARM:
            n_ok += 1
            arms.append((pat, guard, ("bool", False)))
        else:
            raise Untranslatable("try_from: unexpected arm body %r" % (b,))
    if n_ok < 1:
        raise Untranslatable("try_from: no Ok arm")
    ft = FnTranslator(Ctx(), coq_name)
    env = {"N": ("N", "usize"), "value": ("value", vty)}
    # nested ifs, last arm first (same construction as rs2v's `match`).  Side conditions: the guard expression of
    # an arm is evaluated only if its pattern matches; `_ok` requires the guard's own side conditions whenever the
    # pattern matches (slightly stronger than necessary: it ignores that an earlier arm may already have been taken).
    v, oks = None, []
    for pat, guard, b in reversed(arms):
        bv = "true" if b[1] else "false"
        if pat[0] == "wild":
            c = "true"
        elif pat[0] == "plit" and pat[1][2] in (None, "usize"):
            c = "(N =? %d)" % pat[1][1]
        else:
            raise Untranslatable("try_from: pattern %r" % (pat,))
        gv, gok = "true", "true"
        if guard is not None:
            gv, gty, gok = ft.ex(guard, env)
            if gty != "bool":
                raise Untranslatable("guard type %s" % (gty,))
        if v is None:
            if c != "true" or guard is not None:
                raise Untranslatable("try_from: last arm must be `_ =>`")
            v = bv
        else:
            cond = c if guard is None else ("(%s && %s)" % (c, gv) if c != "true" else gv)
            v = "(if %s then %s else %s)" % (cond, bv, v)
            if gok != "true":
                oks.append("(if %s then %s else true)" % (c, gok))
    ok = " && ".join(reversed(oks)) if oks else "true"
    txt = "Definition %s (N value : Z) : bool :=\n  %s.\n\n" % (coq_name, v)
    txt += "Definition %s_ok (N value : Z) : bool :=\n  %s.\n\n" % (coq_name, ok)
    return txt


def generate(report):
    src = strip_tests(read(PATH))
    out = HEADER % PATH
    for hdr, vty, nm in ((r"impl<const N: usize> TryFrom<u64> for U32s<N>\s*\{", "u64", "tryfrom_u64_rejects"),
                         (r"impl<const N: usize> TryFrom<u128> for U32s<N>\s*\{", "u128", "tryfrom_u128_rejects")):
        try:
            try:
                out += guard_of(src, hdr, vty, nm)
            except Untranslatable as first:
                # another arrangement of the same decision (a `fits` flag, an early return, an if chain): every
                # `Err(Self::Error::InsufficientSize)` becomes `true` ("rejects"), the one conversion
                # `Ok(U32s::from(BigUint::from(value)))` becomes `false`, and the body is translated as a function
                # (N: usize, value) -> bool by the ordinary translator; anything it cannot express is reported as before
                impl = find_in(src, hdr)
                psrc, ret, body = find_fn(impl, "try_from")
                if re.sub(r"\s+", "", psrc) != "value:" + vty:
                    raise first
                b2 = re.sub(r"//[^\n]*", "", body)
                n_err = len(re.findall(r"Err\(\s*Self::Error::InsufficientSize\s*\)", b2))
                n_ok = len(re.findall(r"Ok\(\s*U32s::from\(\s*BigUint::from\(\s*value\s*\)\s*\)\s*\)", b2))
                if n_err < 1 or n_ok != 1 or "Err(" in re.sub(r"Err\(\s*Self::Error::InsufficientSize\s*\)", "", b2) \
                        or "Ok(" in re.sub(r"Ok\(\s*U32s::from\(\s*BigUint::from\(\s*value\s*\)\s*\)\s*\)", "", b2):
                    raise first
                b2 = re.sub(r"Err\(\s*Self::Error::InsufficientSize\s*\)", "true", b2)
                b2 = re.sub(r"Ok\(\s*U32s::from\(\s*BigUint::from\(\s*value\s*\)\s*\)\s*\)", "false", b2)
                synth = "fn %s(N: usize, value: %s) -> bool %s\n" % (nm, vty, b2)
                try:
                    out += translate_fn(Ctx(), synth, nm, nm, None, 0, [])
                except Untranslatable as second:
                    raise Untranslatable("%s; generic form: %s" % (first, second))
        except Untranslatable as ex:
            report.append(("U32sGen", nm, str(ex)))
    write_if_changed(os.path.join(OUT, "U32sGen.v"), out)
