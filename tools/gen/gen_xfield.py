"""gen_xfield.py - XFieldGen.v: the straight-line extension-field multiplication of x_field_element.rs
(`impl Mul<XFieldElement> for XFieldElement`), regenerated on every run in terms of the regenerated base-field
operations.  model/XField.v's hand-written xmul is proved equal to it (proofs/XFieldGenProofs.v)."""
import os
import sys
sys.path.insert(0, os.path.dirname(os.path.dirname(os.path.abspath(__file__))))
from rs2v import *  # noqa: F401,F403
from rs2v import Ctx, Untranslatable


def generate(report):
    path = "twenty-first/src/math/x_field_element.rs"
    src = strip_tests(read(path))
    out = (HEADER % path).replace("From TF Require Import Word.", "From TF Require Import Word BFieldGen.")
    ctx = Ctx()
    ctx.bfe_ops = {"add": "bfe_add", "sub": "bfe_sub", "mul": "bfe_mul", "neg": "bfe_neg"}
    ctx.xfe_ctors = ("Self::new", "XFieldElement::new")
    try:
        s = find_in(src, r"impl Mul<XFieldElement> for XFieldElement\s*\{")
        s = s.replace("other: Self", "other: XFieldElement").replace("-> Self", "-> XFieldElement")
        # norm_ty maps Self/BFieldElement to bfe; map XFieldElement to xfe by textual substitution of the type names
        import rs2v as R
        old_norm = R.norm_ty

        def norm(t):
            if t == "XFieldElement":
                return "xfe"
            return old_norm(t)
        R.norm_ty = norm
        try:
            out += R.translate_fn(ctx, s, "mul", "xfe_mul_gen", "xfe", 0, [])
        finally:
            R.norm_ty = old_norm
    except Untranslatable as ex:
        report.append(("XFieldGen", "mul", str(ex)))
    write_if_changed(os.path.join(OUT, "XFieldGen.v"), out)
