"""gen_xfield.py - XFieldGen.v: the straight-line extension-field multiplication of x_field_element.rs
(`impl Mul<XFieldElement> for XFieldElement`), regenerated on every run in terms of the regenerated base-field
operations.  model/XField.v's hand-written xmul is proved equal to it (proofs/XFieldGenProofs.v)."""
import os
import sys
sys.path.insert(0, os.path.dirname(os.path.dirname(os.path.abspath(__file__))))
from rs2v import *  # noqa: F401,F403
from rs2v import Ctx, Untranslatable


def generate(report):
    path = "twenty-first/src/math/x_field_element.rs"
    src = strip_tests(read(path))
    out = (HEADER % path).replace("From TF Require Import Word.", "From TF Require Import Word BFieldGen.")
    ctx = Ctx()
    ctx.bfe_ops = {"add": "bfe_add", "sub": "bfe_sub", "mul": "bfe_mul", "neg": "bfe_neg"}
    ctx.xfe_ctors = ("Self::new", "XFieldElement::new")
    try:
        s = find_in(src, r"impl Mul<XFieldElement> for XFieldElement\s*\{")
        s = s.replace("other: Self", "other: XFieldElement").replace("-> Self", "-> XFieldElement")
        # norm_ty maps Self/BFieldElement to bfe; map XFieldElement to xfe by textual substitution of the type names
        import rs2v as R
        old_norm = R.norm_ty

        def norm(t):
            if t == "XFieldElement":
                return "xfe"
            return old_norm(t)
        R.norm_ty = norm
        try:
            out += R.translate_fn(ctx, s, "mul", "xfe_mul_gen", "xfe", 0, [])
        finally:
            R.norm_ty = old_norm
    except Untranslatable as ex:
        report.append(("XFieldGen", "mul", str(ex)))
    # ---- the other straight-line operators.  Their bodies use idioms outside the translated subset
    # (`Self { coefficients }`, `.map(|c| c * other)`, `.map(Neg::neg)`, `x.coefficients[0] += y; x`, `self + (-other)`):
    # each is first rewritten TEXTUALLY, by an exact-match rule, into the destructure / `new([..])` form the translator
    # handles; a body that matches no rule is reported as untranslatable (never guessed).
    import re
    import rs2v as R
    old_norm = R.norm_ty

    def norm2(t):
        if t == "XFieldElement":
            return "xfe"
        return old_norm(t)

    def normalise(body_src):
        b = body_src
        # [A, B, C] bound to `coefficients`, then the struct literal
        b = re.sub(r"let coefficients = \[([^\]]*)\];\s*(?:Self|XFieldElement) \{ coefficients \}",
                   lambda m: "XFieldElement::new([%s])" % m.group(1), b)
        # x.coefficients.map(|c| c * y)
        b = re.sub(r"let coefficients = (\w+)\.coefficients\.map\(\|c\| c \* (\w+)\);\s*(?:Self|XFieldElement) \{ coefficients \}",
                   lambda m: "let [m0, m1, m2] = %s.coefficients;\n XFieldElement::new([m0 * %s, m1 * %s, m2 * %s])"
                   % (m.group(1), m.group(2), m.group(2), m.group(2)), b)
        # x.coefficients.map(Neg::neg)
        b = re.sub(r"let coefficients = (\w+)\.coefficients\.map\(Neg::neg\);\s*(?:Self|XFieldElement) \{ coefficients \}",
                   lambda m: "let [m0, m1, m2] = %s.coefficients;\n XFieldElement::new([-m0, -m1, -m2])" % m.group(1), b)
        # x.coefficients[0] += y; x     /  -= likewise
        b = re.sub(r"(\w+)\.coefficients\[0\] (\+|-)= (\w+);\s*\1\s*(?=\})",
                   lambda m: "let [m0, m1, m2] = %s.coefficients;\n XFieldElement::new([m0 %s %s, m1, m2])\n"
                   % (m.group(1), m.group(2), m.group(3)), b)
        b = b.replace("mut self", "self").replace("mut other", "other")
        return b

    OPS = [  # (impl header regex, rust fn, coq name, self type)
        (r"impl Add<XFieldElement> for XFieldElement\s*\{", "add", "xfe_add_gen", "xfe"),
        (r"impl Neg for XFieldElement\s*\{", "neg", "xfe_neg_gen", "xfe"),
        (r"impl Mul<BFieldElement> for XFieldElement\s*\{", "mul", "xfe_scale_gen", "xfe"),
        (r"impl Mul<XFieldElement> for BFieldElement\s*\{", "mul", "bfe_mul_xfe_gen", "bfe"),
        (r"impl Add<BFieldElement> for XFieldElement\s*\{", "add", "xfe_add_bfe_gen", "xfe"),
        (r"impl Add<XFieldElement> for BFieldElement\s*\{", "add", "bfe_add_xfe_gen", "bfe"),
    ]
    R.norm_ty = norm2
    try:
        for hdr, fn, cname, selfty in OPS:
            try:
                s2 = find_in(src, hdr)
                s2 = s2.replace("other: Self", "other: XFieldElement").replace("-> Self", "-> XFieldElement")
                s2 = normalise(s2)
                out += R.translate_fn(ctx, s2, fn, cname, selfty, 0, [])
            except Untranslatable as ex:
                report.append(("XFieldGen", cname, str(ex)))
        # subtraction is `self + (-other)` in all three impls: emitted as that composition, after checking the text
        SUBS = [
            (r"impl Sub<XFieldElement> for XFieldElement\s*\{", "xfe_sub_gen", "(self_ : (Z * Z * Z)) (other : (Z * Z * Z))",
             "xfe_add_gen self_ (xfe_neg_gen other)"),
            (r"impl Sub<BFieldElement> for XFieldElement\s*\{", "xfe_sub_bfe_gen", "(self_ : (Z * Z * Z)) (other : Z)",
             "xfe_add_bfe_gen self_ (bfe_neg other)"),
            (r"impl Sub<XFieldElement> for BFieldElement\s*\{", "bfe_sub_xfe_gen", "(self_ : Z) (other : (Z * Z * Z))",
             "bfe_add_xfe_gen self_ (xfe_neg_gen other)"),
        ]
        for hdr, cname, args, rhs in SUBS:
            try:
                s2 = find_in(src, hdr)
                _, _, body = R.find_fn(s2, "sub", 0)
                if re.sub(r"\s+", "", re.sub(r"//[^\n]*", "", body)) in ("{self+(-other)}", "self+(-other)"):
                    out += "Definition %s %s : (Z * Z * Z) :=\n  %s.\n\n" % (cname, args, rhs)
                else:
                    # written out coefficient-wise (or in any other form inside the translated subset): translated like
                    # the other operators; the proofs then have to show it equal to the hand model
                    s3 = s2.replace("other: Self", "other: XFieldElement").replace("-> Self", "-> XFieldElement")
                    s3 = re.sub(r"//[^\n]*", "", s3)
                    selfty = "bfe" if "for BFieldElement" in hdr else "xfe"
                    out += R.translate_fn(ctx, normalise(s3), "sub", cname, selfty, 0, [])
            except Untranslatable as ex:
                report.append(("XFieldGen", cname, str(ex)))
    finally:
        R.norm_ty = old_norm
    write_if_changed(os.path.join(OUT, "XFieldGen.v"), out)
