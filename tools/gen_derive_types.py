#!/usr/bin/env python3
"""gen_derive_types.py - the derive-macro shape sample of C14.

A list of type DEFINITIONS (DEFS) over the shape grammar of the property - unit / named-field / tuple structs with
0..5 fields, static / dynamic field mixes, nesting, generics with bounds / where clauses / const and lifetime
parameters, `#[bfield_codec(ignore)]` fields, enums with unit and tuple variants of equal and unequal widths,
explicit Rust discriminants - and a list of concrete INSTANCES (a definition with its generic arguments, or a
composition such as Vec<Def>).  Running this file (re)writes harness/src/bin/c14_types.rs deterministically
(write-if-changed): every definition is emitted TWICE, in `mod ws` deriving the workspace macro
(/repo/bfieldcodec_derive, `ws_derive::BFieldCodec`) and in `mod reg` deriving the published macro the library
itself is compiled with (`twenty_first::bfieldcodec_derive::BFieldCodec`, registry 0.7.x per /repo/Cargo.lock).

Type representation: the nested tuples of tools/gen_types.py (imported, not modified) plus
  ("p", "T")                a type parameter of the enclosing definition
  ("arr", ("cp", "N"), t)   array whose length is a const parameter
  ("d", name, (args..))     an instance of the definition `name` (args: types, or ints for const parameters)
  ("raw", rust, poison)     a type outside the codec grammar (only as the type of an ignored field)
  ("as", rust_in_decl, t)   type t, written `rust_in_decl` inside the declaration (lifetime parameters)

Renderings of a concrete instance type t:
  term(t)     the term parsed by the oracle driver (ocaml/c14.ml): the c03 ty-term syntax plus the SHAPE nodes
              ustruct | nstruct(f(T),i(T),..) | tstruct(f(T),i(T),..) | denum(v(T,..),x<k>(T,..),..)
              (f = included field, i = field carrying #[bfield_codec(ignore)], x<k> = variant with the explicit Rust
              discriminant k); the oracle lowers a shape to the Codec.v grammar with the extracted `lower`
  lower_g(t)  the gen_types representation of the FAITHFUL layout (what the macro does: the ignore attribute is honoured
              on named fields only); used with G.gen_value / G.encode / G.static_len to build valid encodings
  lower_spec(t)  the layout the property text describes (every field carrying the attribute is omitted)
  rust(t, m)  the Rust type expression, derived types taken from module m ("ws" / "reg")
"""
import os
import sys

sys.path.insert(0, os.path.dirname(os.path.abspath(__file__)))
import gen_types as G  # noqa: E402

ROOT = G.ROOT
BFE, U8, U16, U32, U64, U128, BOOL, PH = G.BFE, G.U8, G.U16, G.U32, G.U64, G.U128, G.BOOL, G.PH
box, opt, vec, arr, tup, poly, u32s = G.box, G.opt, G.vec, G.arr, G.tup, G.poly, G.u32s
XFE, DIGEST, MMRACC, MMRMP, POLYB, POLYX = G.XFE, G.DIGEST, G.MMRACC, G.MMRMP, G.POLYB, G.POLYX

STD_DERIVES = "Debug, Clone, PartialEq, Eq"


def p(name): return ("p", name)
def cp(name): return ("cp", name)
def d(name, *args): return ("d", name, tuple(args))
def raw(rust, poison): return ("raw", rust, poison)


class Def:
    """kind: unit | named | tuple | enum.  fields: [(name|None, type, ignored)].
    variants: [(name, [types], explicit discriminant text | None, attribute text)]."""

    def __init__(self, name, kind, fields=(), variants=(), generics="", params=(), where="", attrs="",
                 derives=STD_DERIVES, lifetime=False, braces=None):
        self.name, self.kind, self.fields, self.variants = name, kind, list(fields), list(variants)
        self.generics, self.params, self.where, self.attrs = generics, tuple(params), where, attrs
        self.derives, self.lifetime, self.braces = derives, lifetime, braces


DEFS = []
BY_NAME = {}


def define(*a, **k):
    df = Def(*a, **k)
    assert df.name not in BY_NAME
    DEFS.append(df)
    BY_NAME[df.name] = df
    return df


def named(name, *fields, **k):
    fs = []
    for i, f in enumerate(fields):
        ign = isinstance(f, tuple) and len(f) == 2 and f[0] == "IGN"
        fs.append(("abcdefgh"[i], f[1] if ign else f, ign))
    return define(name, "named", fields=fs, **k)


def tuple_(name, *fields, **k):
    fs = []
    for f in fields:
        ign = isinstance(f, tuple) and len(f) == 2 and f[0] == "IGN"
        fs.append((None, f[1] if ign else f, ign))
    return define(name, "tuple", fields=fs, **k)


def enum(name, *variants, **k):
    vs = []
    for i, v in enumerate(variants):
        disc, attr = None, ""
        if isinstance(v, dict):
            disc, attr, v = v.get("disc"), v.get("attr", ""), v["f"]
        vs.append(("ABCDEFGHIJKLMNOP"[i], list(v), disc, attr))
    return define(name, "enum", variants=vs, **k)


def IGN(t): return ("IGN", t)


# ------------------------------------------------------------------ the definitions
# unit-like
define("U0", "unit", derives=STD_DERIVES + ", Default")                    # struct U0;
define("N0", "named", braces=True)                                          # struct N0 {}
define("T0", "tuple", braces=True)                                          # struct T0();
# named-field structs: 1..5 fields, static / dynamic mixes
named("N1s", U32)
named("N1d", vec(U64))
named("N2ss", BFE, U64)
named("N2sd", U32, vec(BFE))
named("N2ds", opt(U8), U128)
named("N2dd", vec(U8), vec(vec(U32)))
named("N3", BOOL, vec(U64), DIGEST)
named("N3s", U8, U16, U32)
named("N4", vec(BFE), U64, opt(BOOL), arr(3, U16))
named("N5", U8, vec(U8), XFE, opt(U64), tup(U32, vec(U32)))
named("N5s", U128, BOOL, arr(2, U64), BFE, tup(U8, U8))
named("N5d", vec(BOOL), opt(BFE), POLYB, vec(vec(U8)), tup(vec(U8), U8))
named("NZ", PH, arr(0, U64), U32)
named("NPoly", POLYB, vec(XFE), POLYX)
named("NBox", box(U64), box(vec(U8)))
named("NLib", u32s(2), MMRACC, MMRMP)
# tuple structs
tuple_("T1s", U64)
tuple_("T1d", vec(U32))
tuple_("T2sd", U32, vec(U8))
tuple_("T2ds", opt(U64), BFE)
tuple_("T3", opt(U8), DIGEST, vec(BOOL))
tuple_("T4", U8, vec(U16), U32, vec(U64))
tuple_("T5", vec(BFE), U64, opt(U8), XFE, vec(vec(BOOL)))
tuple_("T5s", U8, U16, U32, U64, U128)
tuple_("TZ", PH, arr(0, U8))
tuple_("TTup", tup(U32, U64, vec(U8)), arr(2, tup(U8, BOOL)))
# #[bfield_codec(ignore)] on named fields (honoured): every position, static / dynamic, non-codec types
named("NI1", U32, IGN(U64))
named("NI2", IGN(vec(U32)), vec(U8))
named("NI3", U8, IGN(BOOL), vec(U16), IGN(raw("String", "\"x\".to_string()")), U64)
named("NIall", IGN(U32), IGN(opt(U8)))
named("NIusize", BFE, IGN(raw("usize", "7")))
named("NIarr", IGN(arr(4, U8)), arr(2, U8))
named("NItup", tup(U8, U8), IGN(tup(U32, BOOL)))
named("NIinner", d("N1s"), IGN(d("U0")), vec(d("T2sd")))
named("NImid", vec(U8), IGN(BFE), IGN(vec(BFE)), opt(U32))
# the attribute on a tuple-struct field: accepted by both macro versions, NOT honoured (see DeriveModel.v)
tuple_("TIgn", IGN(U32), U64)
tuple_("TIgn2", U8, IGN(vec(U32)), BOOL)
# nesting: a derived type inside a derived struct / enum / Vec / Option / tuple / array / Box
named("Nest1", d("N2sd"), d("U0"))
tuple_("Nest2", d("T3"), d("N1d"))
named("NestVec", vec(d("N2sd")), vec(d("N2ss")))
tuple_("NestOpt", opt(d("N3")), opt(d("T1s")))
named("NestTup", tup(d("N1s"), d("T1d")), U8)
tuple_("NestArr", arr(2, d("N2ss")), arr(2, d("N1d")))
tuple_("NestBox", box(d("N4")))
named("NestDeep", vec(opt(d("Nest1"))), box(d("Nest2")))
named("NestIgn", d("NI3"), vec(d("NI1")), opt(d("NIall")))
named("NestZero", vec(d("U0")), arr(2, d("N0")), d("T0"))
# generics: injected bounds, user bounds, where clauses, const / lifetime / defaulted parameters
tuple_("G1", p("T"), generics="T", params=("T",))
named("G2", p("T"), vec(p("U")), generics="T, U", params=("T", "U"))
named("GB", p("T"), tup(p("T"), p("T")), generics="T: Clone + Debug", params=("T",))
named("GW", opt(p("T")), U8, generics="T", params=("T",), where="where T: Clone + PartialEq")
named("GWB", p("T"), vec(p("U")), generics="T: BFieldCodec, U", params=("T", "U"),
      where="where U: BFieldCodec + Clone, Vec<U>: BFieldCodec")
tuple_("GC", arr(cp("N"), U32), generics="const N: usize", params=("N",))
named("GCT", arr(cp("N"), p("T")), p("T"), generics="T, const N: usize", params=("T", "N"))
tuple_("GD", p("T"), U8, generics="T = u64", params=("T",))
tuple_("GL", ("as", "Polynomial<'a, BFieldElement>", POLYB), U32, generics="'a", lifetime=True)
named("GI", p("T"), IGN(vec(p("T"))), generics="T: BFieldCodec + Default + PartialEq", params=("T",))
named("GIph", U32, IGN(("as", "PhantomData<T>", PH)), generics="T", params=("T",))
named("GN", d("G1", p("T")), vec(d("G1", p("T"))), generics="T", params=("T",))
tuple_("GA", p("T"), vec(p("T")), generics="T", params=("T",), attrs="#[bfield_codec(ignore)]")
enum("GE", (), (p("T"),), (p("T"), p("T")), generics="T", params=("T",))
enum("GE2", (p("T"),), (p("U"),), (vec(p("T")), p("U")), generics="T: Clone, U", params=("T", "U"), where="where U: Clone")
# enums: unit and tuple variants, equal / unequal widths, zero-width data, explicit discriminants, attributes
enum("E1u", ())
enum("E3u", (), (), ())
enum("E10u", (), (), (), (), (), (), (), (), (), ())
enum("E1t", (U32,))
enum("Eeq", (U64,), (BFE, U32), (arr(2, U8),))
enum("Euneq", (U32,), (U64,))
enum("Eequ", (), (PH,), (arr(0, U8), PH))                    # unit variant next to zero-width data: Some(1)
enum("Eunit1", (), (U8,))                                     # widths 0 and 1: None
enum("Emix", (), (U32,), (vec(BFE), U64), (opt(BOOL),))
enum("Edyn", (vec(U8),), (vec(U8), vec(U16)))
enum("Ezero1", (PH,))
enum("E5", (U8, U16, U32, U64, U128), (U128, U64, U32, U16, U8))
enum("E5d", (vec(U8), U16, opt(U32), U64, vec(vec(BFE))), ())
enum("Edisc", {"f": (), "disc": "5"}, (), {"f": (), "disc": "1"})
enum("EdiscR", {"f": (), "disc": "200"}, {"f": (U32,), "disc": "3"}, (vec(U8),), attrs="#[repr(u8)]")
enum("Evattr", (), {"f": (), "attr": "#[bfield_codec(ignore)] "}, {"f": (U32,), "attr": "#[bfield_codec(ignore)] "})
enum("Enest", (d("N2sd"),), (vec(d("T3")),), (box(d("Emix")), d("U0")))
enum("EstatN", (d("Eeq"),), (U8, U16, U8), (d("N3s"),))
enum("Egen", (d("G1", U32),), (d("GE", vec(U8)), d("G2", U8, BFE)))
# three and more statically sized variants of UNEQUAL widths whose mean / first / last / neighbours coincide: any
# shortcut for "all widths equal" (sum == n * first, first == last, pairwise-adjacent on a prefix, xor, min/max of a
# subset) answers Some(_) on one of these, where the layout says None
enum("Emean3", (U32,), (), (U32, U32))                        # widths 1, 0, 2
enum("Emean3b", (U64,), (), (U64, U64))                       # widths 2, 0, 4
enum("Emean3c", (U8, U8), (U8, U8, U8), (U8,))                # widths 2, 3, 1
enum("Emean4", (U8,), (BFE,), (), (U64,))                     # widths 1, 1, 0, 2
enum("Emean6", (BFE, BFE), (BFE,), (XFE,), (U64,), (XFE,), (U8,))   # widths 2, 1, 3, 2, 3, 1
enum("Elast", (U32,), (U64,), (U32,))                         # widths 1, 2, 1: first == last
enum("Efirst2", (U32,), (BFE,), (U64,))                       # widths 1, 1, 2: only the last differs
enum("Exor", (U32,), (U64,), (U64,), (U32,), (U32,))          # widths 1, 2, 2, 1, 1
enum("Emid", (U64,), (U64,), (DIGEST,), (U64,), (U64,))       # widths 2, 2, 5, 2, 2: only the middle differs
enum("EmeanN", (d("N3s"),), (), (d("N3s"), d("N3s")))         # widths 3, 0, 6 through a derived struct
named("NestMean", d("Emean3"), vec(d("Emean3b")), arr(2, d("Emean4")))
tuple_("NestMean2", opt(d("Emean3c")), tup(d("Elast"), d("Efirst2")), vec(d("EmeanN")))
named("NestEnum", d("Emix"), vec(d("Eeq")), opt(d("E3u")))
tuple_("NestEnum2", arr(2, d("Euneq")), tup(d("Edisc"), d("Edyn")))

# ------------------------------------------------------------------ the instances (top-level types of the cases)
INSTANCES = []


def inst(t):
    if t not in INSTANCES:
        INSTANCES.append(t)


for _df in DEFS:
    if not _df.params:
        inst(d(_df.name))
for _a in (U32, vec(U64), d("N2sd"), PH, d("Emix")):
    inst(d("G1", _a))
inst(d("G2", U8, BFE)), inst(d("G2", vec(U8), opt(U8))), inst(d("G2", d("U0"), d("U0")))
inst(d("GB", U64)), inst(d("GB", vec(BOOL)))
inst(d("GW", U32)), inst(d("GW", d("N1d")))
inst(d("GWB", BFE, U64)), inst(d("GWB", opt(U8), vec(U8)))
inst(d("GC", 0)), inst(d("GC", 1)), inst(d("GC", 3))
inst(d("GCT", U8, 2)), inst(d("GCT", vec(U8), 2)), inst(d("GCT", PH, 3)), inst(d("GCT", U64, 0))
inst(d("GD", U64)), inst(d("GD", vec(U8)))
inst(d("GI", U32)), inst(d("GI", vec(U8)))
inst(d("GIph", raw("String", None))), inst(d("GIph", U8))
inst(d("GN", U16)), inst(d("GN", opt(BFE)))
inst(d("GA", U32))
inst(d("GE", U32)), inst(d("GE", vec(U8))), inst(d("GE", PH)), inst(d("GE", d("N2ss")))
inst(d("GE2", U8, U8)), inst(d("GE2", U64, vec(BFE)))
# compositions with a derived type at the top
for _t in (vec(d("N2sd")), vec(d("N2ss")), vec(d("U0")), opt(d("Emix")), opt(d("NI3")), tup(d("N1s"), d("Eeq")),
           tup(d("T1d"), d("Euneq"), d("U0")), arr(2, d("T2sd")), arr(3, d("Eeq")), box(d("N5")), vec(d("GE", U32)),
           vec(vec(d("T2ds"))), opt(vec(d("NI1"))), vec(d("TIgn")), tup(vec(d("Edyn")), d("G1", U8)),
           vec(d("Emean3")), vec(d("Emean3b")), arr(3, d("Emean4")), tup(d("Emean6"), d("Exor")), vec(vec(d("Emid"))),
           opt(d("Elast")), vec(d("GE", U32)), d("G1", d("Emean3"))):
    inst(_t)


# ------------------------------------------------------------------ substitution
def subst(t, env):
    k = t[0]
    if k == "p":
        return env[t[1]]
    if k == "cp":
        return env[t[1]]
    if k in ("box", "opt", "vec", "poly"):
        return (k, subst(t[1], env))
    if k == "arr":
        n = t[1] if isinstance(t[1], int) else env[t[1][1]]
        return ("arr", n, subst(t[2], env))
    if k == "tup":
        return ("tup",) + tuple(subst(x, env) for x in t[1:])
    if k == "d":
        return ("d", t[1], tuple(a if isinstance(a, int) else subst(a, env) for a in t[2]))
    if k == "as":
        return subst(t[2], env)
    if k == "struct":
        return t
    return t


def members(t):
    """for a concrete ("d", name, args): the definition and its fields / variants with concrete types"""
    df = BY_NAME[t[1]]
    env = dict(zip(df.params, t[2]))
    assert len(df.params) == len(t[2]), t
    if df.kind == "enum":
        return df, [(vn, [subst(x, env) for x in fs], disc, attr) for vn, fs, disc, attr in df.variants]
    return df, [(fn, subst(ft, env), ign) for fn, ft, ign in df.fields]


def _map(t, f_d, f_raw):
    """rebuild a concrete type with ("d",..) nodes replaced by f_d(t) and ("raw",..) by f_raw(t)"""
    k = t[0]
    if k == "d":
        return f_d(t)
    if k == "raw":
        return f_raw(t)
    if k in ("box", "opt", "vec", "poly"):
        return (k, _map(t[1], f_d, f_raw))
    if k == "arr":
        return ("arr", t[1], _map(t[2], f_d, f_raw))
    if k == "tup":
        return ("tup",) + tuple(_map(x, f_d, f_raw) for x in t[1:])
    return t


def _lower(t, honour_everywhere):
    def f_d(n):
        df, ms = members(n)
        if df.kind == "enum":
            return ("enum", df.name) + tuple(tuple(_lower(x, honour_everywhere) for x in fs) for _, fs, _, _ in ms)
        keep = [ft for _, ft, ign in ms if not (ign and (df.kind == "named" or honour_everywhere))]
        return ("struct", df.name) + tuple(_lower(x, honour_everywhere) for x in keep)

    def f_raw(n):
        raise ValueError("a type outside the codec grammar in an included position: %r" % (n,))
    return _map(t, f_d, f_raw)


def lower_g(t):
    return _lower(t, False)


def lower_spec(t):
    return _lower(t, True)


def has_unhonoured_ignore(t):
    """the instance contains a tuple-struct field carrying #[bfield_codec(ignore)] (faithful != property layout)"""
    return lower_g(t) != lower_spec(t)


# ------------------------------------------------------------------ term for the oracle
def term(t):
    k = t[0]
    if k == "d":
        df, ms = members(t)
        if df.kind == "unit":
            return "ustruct"
        if df.kind == "enum":
            return "denum(%s)" % ",".join("%s(%s)" % ("v" if disc is None else "x" + disc, ",".join(term(x) for x in fs))
                                          for _, fs, disc, _ in ms)
        return "%s(%s)" % ("nstruct" if df.kind == "named" else "tstruct",
                           ",".join("%s(%s)" % ("i" if ign else "f", term(ft)) for _, ft, ign in ms))
    if k == "raw":
        return "ph"                                     # stand-in: the type of an ignored named field is never encoded
    if k in ("box", "opt", "vec", "poly"):
        return "%s(%s)" % (k, term(t[1]))
    if k == "arr":
        return "arr(%d,%s)" % (t[1], term(t[2]))
    if k == "tup":
        return "tup(%s)" % ",".join(term(x) for x in t[1:])
    return G.term(t)


# ------------------------------------------------------------------ Rust
def rust(t, m):
    """m = module prefix ("ws" / "reg") for derived types, or None inside a declaration (parameters stay symbolic)"""
    k = t[0]
    if k == "p":
        return t[1]
    if k == "as":
        return t[1] if m is None else rust(t[2], m)
    if k == "raw":
        return t[1]
    if k == "d":
        df = BY_NAME[t[1]]
        args = [str(a) if isinstance(a, int) else (a[1] if a[0] == "cp" else rust(a, m)) for a in t[2]]
        if df.lifetime and m is not None:
            args = ["'static"] + args
        elif df.lifetime:
            args = ["'a"] + args
        return (m + "::" if m else "") + df.name + ("<%s>" % ", ".join(args) if args else "")
    if k in ("box", "opt", "vec"):
        return {"box": "Box", "opt": "Option", "vec": "Vec"}[k] + "<%s>" % rust(t[1], m)
    if k == "poly":
        return "Polynomial<'static, %s>" % rust(t[1], m)
    if k == "arr":
        n = t[1] if isinstance(t[1], int) else t[1][1]
        return "[%s; %s]" % (rust(t[2], m), n)
    if k == "tup":
        return "(%s)" % ", ".join(rust(x, m) for x in t[1:])
    return G.rust(t)


def decl(df, macro):
    gen = "<%s>" % df.generics if df.generics else ""
    head = "#[derive(%s, %s)]\n" % (df.derives, macro)
    if df.attrs:
        head += df.attrs + "\n"
    if df.kind == "unit":
        return head + "pub struct %s;" % df.name
    if df.kind == "enum":
        vs = []
        for vn, fs, disc, attr in df.variants:
            s = attr + vn
            if fs:
                s += "(%s)" % ", ".join(rust(x, None) for x in fs)
            if disc is not None:
                s += " = " + disc
            vs.append(s)
        return head + "pub enum %s%s %s{ %s }" % (df.name, gen, df.where + " " if df.where else "", ", ".join(vs))
    if df.kind == "named":
        fs = ", ".join("%spub %s: %s" % ("#[bfield_codec(ignore)] " if ign else "", fn, rust(ft, None))
                       for fn, ft, ign in df.fields)
        return head + "pub struct %s%s %s{ %s }" % (df.name, gen, df.where + " " if df.where else "", fs)
    fs = ", ".join("%spub %s" % ("#[bfield_codec(ignore)] " if ign else "", rust(ft, None)) for _, ft, ign in df.fields)
    return head + "pub struct %s%s(%s)%s;" % (df.name, gen, fs, " " + df.where if df.where else "")


def poison(t, m):
    """a Rust expression of type t different from Default::default(), or None"""
    k = t[0]
    if k in ("u8", "u16", "u32", "u64", "u128"):
        return "7"
    if k == "bool":
        return "true"
    if k == "bfe":
        return "BFieldElement::new(7)"
    if k == "raw":
        return t[2]
    if k == "vec":
        i = poison(t[1], m)
        return "vec![%s]" % i if i else None
    if k == "opt":
        i = poison(t[1], m)
        return "Some(%s)" % i if i else None
    if k == "arr":
        i = poison(t[2], m)
        return "[%s; %d]" % (i, t[1]) if i and t[1] > 0 else None
    if k == "tup":
        ps = [poison(x, m) for x in t[1:]]
        return "(%s)" % ", ".join(ps) if all(ps) else None
    return None


def probe_impl(t, m):
    ty = rust(t, m)
    body = []
    if t[0] == "d":
        df, ms = members(t)
        if df.kind == "enum":
            body.append("fn disc(&self) -> Option<u64> { Some(self.bfield_codec_discriminant() as u64) }")
        elif df.kind == "named" and any(ign for _, _, ign in ms):
            ps = ["self.%s = %s;" % (fn, poison(ft, m)) for fn, ft, ign in ms if ign and poison(ft, m)]
            body.append("fn poison(&mut self) -> usize { %s %d }" % (" ".join(ps), len(ps)))
            cs = ["is_default(&self.%s)" % fn for fn, ft, ign in ms if ign]
            body.append("fn ignored_default(&self) -> bool { %s }" % " && ".join(cs))
    return "impl Probe for %s { %s }" % (ty, " ".join(body))


def render():
    lines = ["// GENERATED by tools/gen_derive_types.py - do not edit.  Included by c14.rs.",
             "// Every definition of the C14 shape sample twice: `ws` derives the workspace macro (/repo/bfieldcodec_derive),",
             "// `reg` the published macro the library is compiled with (re-exported as twenty_first::bfieldcodec_derive).", ""]
    for m, macro in (("ws", "ws_derive::BFieldCodec"), ("reg", "twenty_first::bfieldcodec_derive::BFieldCodec")):
        lines.append("#[allow(non_camel_case_types, clippy::all)]")
        lines.append("pub mod %s {" % m)
        lines.append("    use super::*;")
        for df in DEFS:
            for ln in decl(df, macro).split("\n"):
                lines.append("    " + ln)
        lines.append("}")
        lines.append("")
    for t in INSTANCES:
        lines.append(probe_impl(t, "ws"))
        lines.append(probe_impl(t, "reg"))
    lines += ["", "pub const NUM_DEFS: usize = %d;" % len(DEFS), "pub const NUM_INSTANCES: usize = %d;" % len(INSTANCES), "",
              "pub fn dispatch(iid: usize, op: &str, s: &[BFieldElement]) -> String {", "    match iid {"]
    for i, t in enumerate(INSTANCES):
        lines.append("        %d => go::<%s, %s>(op, s), // %s" % (i, rust(t, "ws"), rust(t, "reg"), term(t)))
    lines += ["        _ => \"BADTYPE\".to_string(),", "    }", "}", "",
              "/// instance id of a term (corpus lines give `-` as the instance id)",
              "pub fn iid_of_term(term: &str) -> Option<usize> {", "    const TERMS: [&str; NUM_INSTANCES] = ["]
    for t in INSTANCES:
        lines.append("        \"%s\"," % term(t))
    lines += ["    ];", "    TERMS.iter().position(|t| *t == term)", "}", ""]
    return "\n".join(lines)


def write_rust():
    txt = render()
    path = os.path.join(ROOT, "harness", "src", "bin", "c14_types.rs")
    old = open(path).read() if os.path.exists(path) else None
    if old != txt:
        open(path, "w").write(txt)
    return path


def stats():
    kinds = {}
    for df in DEFS:
        kinds[df.kind] = kinds.get(df.kind, 0) + 1
    return {"definitions": len(DEFS), "instances": len(INSTANCES), "by_kind": kinds,
            "generic_definitions": sum(1 for df in DEFS if df.params or df.lifetime),
            "definitions_with_ignored_named_fields": sum(1 for df in DEFS if df.kind == "named" and any(i for _, _, i in df.fields)),
            "definitions_with_ignore_attr_on_tuple_field": sum(1 for df in DEFS if df.kind == "tuple" and any(i for _, _, i in df.fields)),
            "max_depth": max(G.depth(lower_g(t)) for t in INSTANCES)}


if __name__ == "__main__":
    pth = write_rust()
    print("%s -> %s" % (stats(), pth))
