#!/usr/bin/env python3
"""gen_types.py - the codec type sample shared by C03 / C13.

One list of concrete codec types (TYPES).  For every type:
  term(t)       textual `ty` term parsed by the oracle driver (ocaml/c03.ml)
  rust(t)       the Rust type expression compiled into harness/src/bin/c03_types.rs
  static_len(t) / gen_value(t, rng) / encode(t, v)
                an independent Python rendering of the documented layout: it builds VALID encodings from the
                `ty` term, so values are driven from the sequence side and no Rust-side value syntax is needed.
Running this file (re)writes harness/src/bin/c03_types.rs deterministically (write-if-changed).

Type representation: nested tuples
  ("bfe",) ("u8",) ("u16",) ("u32",) ("u64",) ("u128",) ("bool",) ("ph",)
  ("box", t) ("opt", t) ("vec", t) ("arr", n, t) ("tup", t1, ..) ("poly", t) ("u32s", n)
  ("struct", name, t1, ..) ("enum", name, (t..), (t..), ..)      -- name = Rust identifier of the derived type
  library structs are ("struct", "<Rust path>", fields...)  with their real field types.
"""
import os

P = 2**64 - 2**32 + 1
ROOT = os.path.normpath(os.path.join(os.path.dirname(os.path.abspath(__file__)), ".."))

BFE, U8, U16, U32, U64, U128, BOOL, PH = ("bfe",), ("u8",), ("u16",), ("u32",), ("u64",), ("u128",), ("bool",), ("ph",)


def box(t): return ("box", t)
def opt(t): return ("opt", t)
def vec(t): return ("vec", t)
def arr(n, t): return ("arr", n, t)
def tup(*ts): return ("tup",) + tuple(ts)
def poly(t): return ("poly", t)
def u32s(n): return ("u32s", n)


XFE = ("struct", "XFieldElement", arr(3, BFE))
DIGEST = ("struct", "Digest", arr(5, BFE))
TIP5 = ("struct", "Tip5", arr(16, BFE))
MMRACC = ("struct", "MmrAccumulator", U64, vec(DIGEST))
MMRMP = ("struct", "MmrMembershipProof", vec(DIGEST))
MMRSP = ("struct", "MmrSuccessorProof", vec(DIGEST))
LIB_NAMES = {"XFieldElement": "xfe", "Digest": "digest", "Tip5": "tip5", "MmrAccumulator": "mmracc",
             "MmrMembershipProof": "mmrmp", "MmrSuccessorProof": "mmrsp"}
POLYB, POLYX = poly(BFE), poly(XFE)

# structs / enums defined in the harness and derived with the WORKSPACE macro (/repo/bfieldcodec_derive)
D_UNIT = ("struct", "DUnit")
D_NAMED = ("struct", "DNamed", U32, vec(U64), BFE)
D_TUPLE = ("struct", "DTuple", opt(U8), DIGEST)
D_DYN = ("struct", "DDyn", vec(BFE), POLYB, vec(vec(U32)))
D_STATIC = ("struct", "DStatic", U128, arr(2, XFE), BOOL)
D_ZERO = ("struct", "DZero", PH, arr(0, U64))
E_UNITS = ("enum", "EUnits", (), (), ())
E_MIXED = ("enum", "EMixed", (), (U32,), (vec(BFE), U64), (opt(BOOL),))
E_EQUAL = ("enum", "EEqual", (U64,), (BFE, U32), (arr(2, U8),))
E_ZEROW = ("enum", "EZeroW", (), (PH,), (D_UNIT,))
DERIVED = [D_UNIT, D_NAMED, D_TUPLE, D_DYN, D_STATIC, D_ZERO, E_UNITS, E_MIXED, E_EQUAL, E_ZEROW]
DERIVED_SRC = """
#[derive(Debug, Clone, PartialEq, Eq, ws_derive::BFieldCodec)]
pub struct DUnit;
#[derive(Debug, Clone, PartialEq, Eq, ws_derive::BFieldCodec)]
pub struct DNamed { a: u32, b: Vec<u64>, c: BFieldElement }
#[derive(Debug, Clone, PartialEq, Eq, ws_derive::BFieldCodec)]
pub struct DTuple(Option<u8>, Digest);
#[derive(Debug, Clone, PartialEq, Eq, ws_derive::BFieldCodec)]
pub struct DDyn { a: Vec<BFieldElement>, b: Polynomial<'static, BFieldElement>, c: Vec<Vec<u32>> }
#[derive(Debug, Clone, PartialEq, Eq, ws_derive::BFieldCodec)]
pub struct DStatic { a: u128, b: [XFieldElement; 2], c: bool }
#[derive(Debug, Clone, PartialEq, Eq, ws_derive::BFieldCodec)]
pub struct DZero(PhantomData<u8>, [u64; 0]);
#[derive(Debug, Clone, PartialEq, Eq, ws_derive::BFieldCodec)]
pub enum EUnits { A, B, C }
#[derive(Debug, Clone, PartialEq, Eq, ws_derive::BFieldCodec)]
pub enum EMixed { A, B(u32), C(Vec<BFieldElement>, u64), D(Option<bool>) }
#[derive(Debug, Clone, PartialEq, Eq, ws_derive::BFieldCodec)]
pub enum EEqual { A(u64), B(BFieldElement, u32), C([u8; 2]) }
#[derive(Debug, Clone, PartialEq, Eq, ws_derive::BFieldCodec)]
pub enum EZeroW { A, B(PhantomData<u8>), C(DUnit) }
"""


def build_types():
    T = []

    def add(t):
        if t not in T:
            T.append(t)
    leaves = [BFE, U8, U16, U32, U64, U128, BOOL, PH, XFE, DIGEST, TIP5, MMRACC, MMRMP, MMRSP, POLYB, POLYX,
              u32s(0), u32s(1), u32s(2), u32s(5)]
    for t in leaves:
        add(t)
    for t in DERIVED:
        add(t)
    # one constructor over representative leaves
    reps = [BFE, U64, BOOL, PH, XFE, POLYB]
    for c in (box, opt, vec, lambda t: arr(3, t), lambda t: tup(t, U32), lambda t: tup(U8, t)):
        for t in reps:
            add(c(t))
    add(arr(0, BFE)), add(arr(0, vec(U8))), add(arr(1, U128)), add(arr(17, U8)), add(arr(2, DIGEST))
    # every constructor directly under every other one
    unary = {"box": box, "opt": opt, "vec": vec, "arr": lambda t: arr(2, t), "tup": lambda t: tup(t, BFE),
             "tupd": lambda t: tup(vec(U8), t)}
    for o in unary.values():
        for i in unary.values():
            add(o(i(U32)))
            add(o(i(vec(BOOL))))
    for o in unary.values():
        add(o(POLYX)), add(o(MMRACC)), add(o(D_NAMED)), add(o(E_MIXED)), add(o(u32s(2)))
    # zero-width item types under list constructors (the class of the width-0 finding) and elsewhere
    zero_w = [PH, u32s(0), arr(0, U64), tup(PH, PH), box(PH), arr(3, PH), D_UNIT, D_ZERO, tup(u32s(0), arr(2, PH))]
    for z in zero_w:
        add(vec(z)), add(arr(2, z)), add(arr(0, z))
        add(opt(z)), add(tup(z, U8))
    add(vec(vec(PH))), add(opt(vec(PH))), add(tup(vec(PH), vec(U8))), add(vec(tup(vec(PH), U8))), add(box(vec(box(PH))))
    add(vec(arr(2, PH))), add(arr(2, vec(PH)))
    # tuple arities 2..12, static / dynamic / mixed
    pool = [BFE, U64, vec(U8), BOOL, opt(U32), XFE, U128, PH, arr(2, U16), POLYB, U8, vec(vec(BFE))]
    for n in range(2, 13):
        add(tup(*pool[:n]))
        add(tup(*([U32] * n)))
    add(tup(*[vec(U8)] * 3)), add(tup(vec(BFE), U64, vec(U64))), add(tup(tup(U8, vec(U8)), tup(U64, U64)))
    # depth 3 and 4
    add(vec(vec(vec(U8)))), add(vec(opt(vec(U64)))), add(opt(opt(opt(BOOL)))), add(vec(tup(opt(U8), vec(BFE))))
    add(arr(2, arr(2, arr(2, U8)))), add(box(vec(box(opt(U32))))), add(vec(arr(2, tup(U8, vec(U8)))))
    add(opt(tup(vec(opt(U64)), arr(2, BOOL)))), add(tup(vec(POLYB), opt(POLYX))), add(vec(MMRMP)), add(opt(MMRSP))
    add(tup(MMRACC, MMRMP)), add(vec(DIGEST)), add(arr(3, XFE)), add(vec(TIP5)), add(vec(vec(XFE)))
    add(vec(E_MIXED)), add(vec(E_EQUAL)), add(opt(E_UNITS)), add(tup(E_ZEROW, D_DYN)), add(vec(D_STATIC))
    return T


# ------------------------------------------------------------------ renderings
def term(t):
    k = t[0]
    if k in ("bfe", "u8", "u16", "u32", "u64", "u128", "bool", "ph"):
        return k
    if k in ("box", "opt", "vec", "poly"):
        return "%s(%s)" % (k, term(t[1]))
    if k == "arr":
        return "arr(%d,%s)" % (t[1], term(t[2]))
    if k == "u32s":
        return "u32s(%d)" % t[1]
    if k == "tup":
        return "tup(%s)" % ",".join(term(x) for x in t[1:])
    if k == "struct":
        return "struct(%s)" % ",".join(term(x) for x in t[2:])
    if k == "enum":
        return "enum(%s)" % ",".join("v(%s)" % ",".join(term(x) for x in v) for v in t[2:])
    raise ValueError(t)


def rust(t):
    k = t[0]
    prim = {"bfe": "BFieldElement", "u8": "u8", "u16": "u16", "u32": "u32", "u64": "u64", "u128": "u128",
            "bool": "bool", "ph": "PhantomData<u8>"}
    if k in prim:
        return prim[k]
    if k == "box":
        return "Box<%s>" % rust(t[1])
    if k == "opt":
        return "Option<%s>" % rust(t[1])
    if k == "vec":
        return "Vec<%s>" % rust(t[1])
    if k == "poly":
        return "Polynomial<'static, %s>" % rust(t[1])
    if k == "arr":
        return "[%s; %d]" % (rust(t[2]), t[1])
    if k == "u32s":
        return "U32s<%d>" % t[1]
    if k == "tup":
        return "(%s)" % ", ".join(rust(x) for x in t[1:])
    if k in ("struct", "enum"):
        return t[1]
    raise ValueError(t)


def fields_len(fs):
    tot = 0
    for f in fs:
        l = static_len(f)
        if l is None:
            return None
        tot += l
    return tot


def static_len(t):
    k = t[0]
    if k in ("bfe", "u8", "u16", "u32", "bool"):
        return 1
    if k == "u64":
        return 2
    if k == "u128":
        return 4
    if k == "ph":
        return 0
    if k == "box":
        return static_len(t[1])
    if k in ("opt", "vec", "poly"):
        return None
    if k == "arr":
        l = static_len(t[2])
        return None if l is None else l * t[1]
    if k == "u32s":
        return t[1]
    if k == "tup":
        return fields_len(t[1:])
    if k == "struct":
        return fields_len(t[2:])
    if k == "enum":
        ls = [fields_len(v) for v in t[2:]]
        if all(len(v) == 0 for v in t[2:]):
            return 1
        if all(l is not None for l in ls) and all(l == ls[0] for l in ls):
            return ls[0] + 1
        return None
    raise ValueError(t)


def subterms(t):
    yield t
    k = t[0]
    if k in ("box", "opt", "vec", "poly"):
        yield from subterms(t[1])
    elif k == "arr":
        yield from subterms(t[2])
    elif k == "tup":
        for x in t[1:]:
            yield from subterms(x)
    elif k == "struct":
        for x in t[2:]:
            yield from subterms(x)
    elif k == "enum":
        for v in t[2:]:
            for x in v:
                yield from subterms(x)


def has_width0_list(t):
    """a Vec / array / polynomial whose item type has encoded width 0 occurs in t"""
    for s in subterms(t):
        if s[0] in ("vec", "poly") and static_len(s[1]) == 0:
            return True
        if s[0] == "arr" and static_len(s[2]) == 0:
            return True
    return False


def depth(t):
    k = t[0]
    subs = []
    if k in ("box", "opt", "vec", "poly"):
        subs = [t[1]]
    elif k == "arr":
        subs = [t[2]]
    elif k == "tup":
        subs = list(t[1:])
    elif k == "struct":
        subs = list(t[2:])
    elif k == "enum":
        subs = [x for v in t[2:] for x in v]
    return 1 + max([depth(s) for s in subs] + [0])


# ------------------------------------------------------------------ values (Python objects) and the documented layout
def pick(rng, grid, hi):
    c = rng.random()
    if c < 0.55:
        return rng.choice([g for g in grid if 0 <= g < hi])
    return rng.randrange(hi)


def gen_len(rng, small):
    c = rng.random()
    if small:
        return rng.choice((0, 1, 2, 3))
    if c < 0.7:
        return rng.choice((0, 1, 2, 3))
    if c < 0.9:
        return rng.choice((4, 5, 8))
    return 17


def is_zero_val(t, v):
    if t[0] == "bfe":
        return v == 0
    return all(x == 0 for x in v[0])          # xfe: struct with one array field


def gen_value(t, rng, d=0):
    k = t[0]
    small = d >= 1
    if k == "bfe":
        return pick(rng, (0, 1, 2**32 - 1, 2**32, 2**63, P - 2, P - 1), P)
    if k == "u8":
        return pick(rng, (0, 1, 255), 2**8)
    if k == "u16":
        return pick(rng, (0, 1, 65535), 2**16)
    if k == "u32":
        return pick(rng, (0, 1, 2**32 - 1, 2**31), 2**32)
    if k == "u64":
        return pick(rng, (0, 1, 2**32 - 1, 2**32, 2**64 - 1, 2**64 - 2**32, 2**63, P, P - 1), 2**64)
    if k == "u128":
        return pick(rng, (0, 1, 2**32 - 1, 2**32, 2**64 - 1, 2**64, 2**96 - 1, 2**96, 2**128 - 1, 2**127,
                          (2**32 - 1) * 2**64), 2**128)
    if k == "bool":
        return rng.choice((False, True))
    if k == "ph":
        return ()
    if k == "box":
        return gen_value(t[1], rng, d)
    if k == "opt":
        return None if rng.random() < 0.35 else ("some", gen_value(t[1], rng, d + 1))
    if k == "vec":
        return [gen_value(t[1], rng, d + 1) for _ in range(gen_len(rng, small))]
    if k == "arr":
        return [gen_value(t[2], rng, d + 1) for _ in range(t[1])]
    if k == "u32s":
        return [pick(rng, (0, 1, 2**32 - 1), 2**32) for _ in range(t[1])]
    if k == "tup":
        return [gen_value(x, rng, d + 1) for x in t[1:]]
    if k == "struct":
        return [gen_value(x, rng, d + 1) for x in t[2:]]
    if k == "enum":
        i = rng.randrange(len(t) - 2)
        return ("variant", i, [gen_value(x, rng, d + 1) for x in t[2 + i]])
    if k == "poly":
        cs = [gen_value(t[1], rng, d + 1) for _ in range(gen_len(rng, small))]
        while cs and is_zero_val(t[1], cs[-1]):
            cs.pop()
        return cs
    raise ValueError(t)


def with_prefix(t, e):
    return e if static_len(t) is not None else [len(e)] + e


def enc_fields(ts, vs):
    out = []
    for t, v in reversed(list(zip(ts, vs))):
        out += with_prefix(t, encode(t, v))
    return out


def encode(t, v):
    k = t[0]
    if k in ("bfe", "u8", "u16", "u32"):
        return [v]
    if k == "u64":
        return [(v >> (32 * i)) & 0xffffffff for i in range(2)]
    if k == "u128":
        return [(v >> (32 * i)) & 0xffffffff for i in range(4)]
    if k == "bool":
        return [1 if v else 0]
    if k == "ph":
        return []
    if k == "box":
        return encode(t[1], v)
    if k == "opt":
        return [0] if v is None else [1] + encode(t[1], v[1])
    if k == "vec":
        return [len(v)] + [x for it in v for x in with_prefix(t[1], encode(t[1], it))]
    if k == "arr":
        return [x for it in v for x in with_prefix(t[2], encode(t[2], it))]
    if k == "u32s":
        return list(v)
    if k == "tup":
        return enc_fields(t[1:], v)
    if k == "struct":
        return enc_fields(t[2:], v)
    if k == "enum":
        return [v[1]] + enc_fields(t[2 + v[1]], v[2])
    if k == "poly":
        inner = encode(("vec", t[1]), v)
        return [len(inner)] + inner
    raise ValueError(t)


TYPES = build_types()


def write_rust():
    lines = ["// GENERATED by tools/gen_types.py - do not edit.  Included by c03.rs.",
             "// One arm per codec type of the sample; the comment is the model's `ty` term.", DERIVED_SRC.strip(), "",
             "pub const NUM_TYPES: usize = %d;" % len(TYPES), "",
             "pub fn dispatch(tid: usize, op: &str, s: &[BFieldElement]) -> String {", "    match tid {"]
    for i, t in enumerate(TYPES):
        lines.append("        %d => go::<%s>(op, s), // %s" % (i, rust(t), term(t)))
    lines += ["        _ => \"BADTYPE\".to_string(),", "    }", "}", "",
              "/// type id of a `ty` term (used by corpus lines, which give `-` as the type id)",
              "pub fn tid_of_term(term: &str) -> Option<usize> {", "    const TERMS: [&str; NUM_TYPES] = ["]
    for t in TYPES:
        lines.append("        \"%s\"," % term(t))
    lines += ["    ];", "    TERMS.iter().position(|t| *t == term)", "}", ""]
    txt = "\n".join(lines)
    path = os.path.join(ROOT, "harness", "src", "bin", "c03_types.rs")
    old = open(path).read() if os.path.exists(path) else None
    if old != txt:
        open(path, "w").write(txt)
    return path


if __name__ == "__main__":
    p = write_rust()
    print("%d types -> %s (max depth %d, %d with a width-0 list item type)" % (
        len(TYPES), p, max(depth(t) for t in TYPES), sum(1 for t in TYPES if has_width0_list(t))))
