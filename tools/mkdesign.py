#!/usr/bin/env python3
"""Refresh the generated tables of DESIGN.md section 10 (seeded changes) from seeded/*/meta.json."""
import json, os, re
ROOT = os.path.normpath(os.path.join(os.path.dirname(os.path.abspath(__file__)), ".."))
rows = ["| name | property | change | needs | caught by |", "|---|---|---|---|---|"]
for n in sorted(os.listdir(os.path.join(ROOT, "seeded"))):
    mp = os.path.join(ROOT, "seeded", n, "meta.json")
    if not os.path.exists(mp):
        continue
    m = json.load(open(mp))
    def c(x):
        return re.sub(r"\s+", " ", str(x)).replace("|", "/")[:260]
    rows.append("| %s | %s | %s | %s | %s |" % (n, m.get("property", ""), c(m.get("summary", "")), c(m.get("needs", "")), c(m.get("detected_by", "not yet run"))))
tbl = "\n".join(rows)
p = os.path.join(ROOT, "DESIGN.md")
s = open(p).read()
if "SEEDED_TABLE" in s:
    s = s.replace("SEEDED_TABLE", "<!-- seeded:begin -->\n" + tbl + "\n<!-- seeded:end -->")
else:
    s = re.sub(r"<!-- seeded:begin -->.*?<!-- seeded:end -->", lambda _: "<!-- seeded:begin -->\n" + tbl + "\n<!-- seeded:end -->", s, flags=re.S)
open(p, "w").write(s)
