#!/usr/bin/env python3
"""Refresh the generated tables of DESIGN.md section 10 (seeded changes) from seeded/*/meta.json."""
import json, os, re
ROOT = os.path.normpath(os.path.join(os.path.dirname(os.path.abspath(__file__)), ".."))
rows = ["| name | property | change | needs | caught by |", "|---|---|---|---|---|"]
for n in sorted(os.listdir(os.path.join(ROOT, "seeded"))):
    mp = os.path.join(ROOT, "seeded", n, "meta.json")
    if not os.path.exists(mp):
        continue
    m = json.load(open(mp))
    def c(x):
        return re.sub(r"\s+", " ", str(x)).replace("|", "/")[:260]
    rows.append("| %s | %s | %s | %s | %s |" % (n, m.get("property", ""), c(m.get("summary", "")), c(m.get("needs", "")), c(m.get("detected_by", "not yet run"))))
tbl = "\n".join(rows)
p = os.path.join(ROOT, "DESIGN.md")
s = open(p).read()
if "SEEDED_TABLE" in s:
    s = s.replace("SEEDED_TABLE", "<!-- seeded:begin -->\n" + tbl + "\n<!-- seeded:end -->")
else:
    s = re.sub(r"<!-- seeded:begin -->.*?<!-- seeded:end -->", lambda _: "<!-- seeded:begin -->\n" + tbl + "\n<!-- seeded:end -->", s, flags=re.S)
open(p, "w").write(s)


# ---- per-property status table (theorem counts, partial / open statements, correspondence size)
import glob
srows = ["| id | theorems pinned | partial (proved under a stated restriction) | open (full statement visible, not proved) | historical refutations (pre-repair code) | quick cases x profiles |", "|---|---|---|---|---|---|"]
for i in range(1, 21):
    pid = "C%02d" % i
    pf = os.path.join(ROOT, "coq", "props", pid + ".v")
    if not os.path.exists(pf):
        srows.append("| %s | - | | | | |" % pid)
        continue
    src = "\n".join(re.sub(r"\(\*.*?\*\)", "", open(f).read(), flags=re.S)
                    for f in sorted(glob.glob(os.path.join(ROOT, "coq", "props", pid + "*.v"))))
    thms = re.findall(r"^(?:Theorem|Lemma)\s+(\w+)", src, re.M)
    partial = [t for t in thms if "partial" in t]
    hist = [t for t in thms if "refuted" in t or "historical" in t.lower() or "_v0_" in t or "witness" in t]
    openl = [d for d in re.findall(r"^Definition\s+(\w+_full)\b", src, re.M)
             if not re.search(r":\s*%s\s*\." % d, src)      # a _full Definition that some Theorem proves by name
             and d[:-5] not in thms]                          # ... or whose statement is pinned verbatim as Theorem <name>
    ev = os.path.join(ROOT, "evidence", pid + ".json")
    cs = ""
    if os.path.exists(ev):
        try:
            e = json.load(open(ev))
            c = e["coverage"].get("correspondence", {})
            cs = "%s x %d" % (c.get("cases", "?"), len(c.get("profiles", [])))
        except Exception:
            pass
    def short(l):
        return ", ".join(x.replace(pid + "_", "") for x in l) or "-"
    srows.append("| %s | %d | %s | %s | %s | %s |" % (pid, len(thms), short(partial), short(openl), short(hist), cs))
stbl = "\n".join(srows)
s2 = open(p).read()
if "STATUS_TABLE" in s2:
    s2 = s2.replace("STATUS_TABLE", "<!-- status:begin -->\n" + stbl + "\n<!-- status:end -->")
else:
    s2 = re.sub(r"<!-- status:begin -->.*?<!-- status:end -->", lambda _: "<!-- status:begin -->\n" + stbl + "\n<!-- status:end -->", s2, flags=re.S)
open(p, "w").write(s2)
