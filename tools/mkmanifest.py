#!/usr/bin/env python3
"""Regenerate MANIFEST.json from the table below (one entry per registered check)."""
import json
import os

ROOT = os.path.normpath(os.path.join(os.path.dirname(os.path.abspath(__file__)), ".."))

COMMON_NOTE = ("Trusted: Coq 8.16.1 kernel and VM (no native_compute); axioms per theorem as printed by Print Assumptions "
               "(checked against an allow-list on every run; expected: none); tools/rs2v.py + coq/lib/Word.v for translated code; "
               "extraction (ExtrOcamlBasic, ExtrOcamlZBigInt -> zarith) and OCaml; the correspondence harness, oracle driver "
               "and case generator of this property. ")

CHECKS = json.load(open(os.path.join(ROOT, "tools", "manifest_checks.json")))   # per-property texts

ORDER = ["C%02d" % i for i in range(1, 21)]
PENDING_REASON = ("check under construction in this session; the technique applies (see DESIGN.md section 6), "
                  "nothing is claimed until its check is registered")


def main():
    checks = []
    for pid in ORDER:
        if pid not in CHECKS:
            continue
        c = CHECKS[pid]
        checks.append({
            "property_id": pid,
            "quick_cmd": "./check %s --tier quick" % pid,
            "thorough_cmd": "./check %s --tier thorough" % pid,
            "evidence_file": "evidence/%s.json" % pid,
            "replay_cmd_template": "./check %s --replay {path}" % pid,
            "engine": "coq-model+oracle",
            "technique": c["technique"],
            "level_claimed": {"category": "proof", "text": c["text"], "design_ref": "DESIGN.md section 6 / " + pid},
            "level_note": COMMON_NOTE + c["note"],
        })
    m = {
        "version": 1,
        "setup_cmd": "tools/setup.sh",
        "hooks": {
            "guard": "twenty_first_verif",
            "enable": "RUSTFLAGS=\"--cfg twenty_first_verif\" is set by tools/runner.py for every harness build; no hook in /repo is needed (all observation points are public API)",
            "baseline_off_cmd": "cd /repo && cargo nextest run --workspace --no-fail-fast --tool-config-file pb:/w/lib/nextest.toml --profile pb --test-threads 8 --offline",
            "source_commits": [],
            "add_only": True,
        },
        "engines": [{
            "name": "coq-model+oracle", "path": "tools/runner.py", "serves_properties": [c["property_id"] for c in checks],
            "kind_free_text": "Coq 8.16 theorems about a model that is regenerated (tools/rs2v.py) or hand-written from the source, tied to the compiled implementation on every run by a differential correspondence check against the model extracted to OCaml",
        }],
        "checks": checks,
        "not_applicable": [{"property_id": p, "reason": PENDING_REASON} for p in ORDER if p not in CHECKS],
        "notes": "Known findings and repairs: KNOWN_FINDINGS.txt. Seeded changes used to validate the checks: seeded/. See DESIGN.md.",
    }
    with open(os.path.join(ROOT, "MANIFEST.json"), "w") as f:
        json.dump(m, f, indent=1)
        f.write("\n")


if __name__ == "__main__":
    main()
