#!/usr/bin/env python3
"""Regenerate MANIFEST.json from the table below (one entry per registered check)."""
import json
import os

ROOT = os.path.normpath(os.path.join(os.path.dirname(os.path.abspath(__file__)), ".."))

COMMON_NOTE = ("Trusted: Coq 8.16.1 kernel and VM (no native_compute); axioms per theorem as printed by Print Assumptions "
               "(checked against an allow-list on every run; expected: none); tools/rs2v.py + coq/lib/Word.v for translated code; "
               "extraction (ExtrOcamlBasic, ExtrOcamlZBigInt -> zarith) and OCaml; the correspondence harness, oracle driver "
               "and case generator of this property. ")

CHECKS = {
 "C01": dict(
  technique="Coq proof (lia over explicit wrap-around on definitions regenerated from the Rust source by a translator; Lucas primality certificate and Fermat for inversion; ring identities modulo x^3-x+1) + differential correspondence of the extracted model against the compiled code",
  text="Theorems C01_* (props/C01.v) hold for ALL inputs: Montgomery reduction, new/value, add/sub/mul/neg exact and canonical, unique representation, From<u128>/From<i64>/to_i64 exact with no overflow, p prime, mod_pow = repeated product, inverse = the unique inverse (Fermat), batch inversion = point-wise inversion (panic on a zero), extension-field add/sub/neg/mul/scalar-mul = polynomial arithmetic mod x^3-x+1, x^3-x+1 has no root mod p (Frobenius + Bezout certificate) so every non-zero extension element has the inverse the model returns. Straight-line functions are re-translated from the current source on every run and re-proved; loops and XFieldElement are hand models tied by a two-profile (release / overflow-checked) differential run on a boundary grid plus random inputs.",
  note="XFieldElement::inverse is modelled by the closed-form adjugate (the code runs polynomial xgcd: tied by correspondence; both are THE inverse by C01_xinverse + uniqueness); XFE mod_pow_u64 and XFE batch_inversion are correspondence-only; uniqueness of XFE inverses follows from the ring laws but is not pinned."),
 "C20": dict(
  technique="Coq proof (round-trip, strictness, uniqueness and mixed-radix order theorems about a hand-written value-level model of every conversion) + differential correspondence through the real API incl. serde_json and bincode",
  text="54 theorems C20_* (props/C20.v), all inputs: bytes/hex/decimal-string/BigUint/Vec/serde round trips, accept-iff characterisations (strict parsers), cmp = numeric order of the base-p value, XFE<->Digest invertible exactly on digests with two trailing zeros. The model is hand-written and tied to the code by 52k (quick) / 696k (thorough) cases x 2 build profiles.",
  note="All of C20 is hand-modelled (nothing translated); u64::from_str, hex 0.4.3, serde_json and bincode 1.3 framing are modelled by their documented formats. Base-field value semantics rely on C01."),
 "C19": dict(
  technique="Coq proof (induction over limb lists for every limb count N; the TryFrom guards are regenerated from the Rust source by the translator and re-proved) + differential correspondence for N = 0..5 in two build profiles",
  text="33 theorems C19_* (props/C19.v) for every limb count N: add/sub/mul/mul_two/sum return exactly the big-integer result and panic exactly when it is not representable; rem_div/div/rem exact, panic exactly on a zero divisor and never overflow internally; div_two, cmp, eq; try_from u64/u128 succeed exactly when the value fits (about the regenerated guards); BigUint, field-element-array and codec round trips; decode total, strict and unique. Hand-written limb model tied by 71k (quick) / 548k (thorough) cases x 2 profiles.",
  note="Known finding (not repaired, printed as KNOWN-FINDING): U32s<0> conversions of 0 (key u32s0-tryfrom-zero). Everything except the two TryFrom guards is hand-modelled; index sums i+j+k assumed not to overflow usize (N < 2^58). One extra extraction directive: Z.pow -> zarith power."),
 "C03": dict(
  technique="Coq proof by nested induction over the codec type grammar (unbounded depth) about a clause-for-clause model of the hand-written and derived BFieldCodec impls + differential correspondence on 267 concrete Rust types",
  text="14 theorems C03_* (props/C03.v) for every type of the grammar (primitives, Option/Box/Vec/array/tuple, polynomials, structs, enums, the library's own structs) and every value / sequence: decode(encode v) = v, every accepted sequence re-encodes to itself (encoding injective, one accepted encoding per value), static length, closed-form layout lemmas (reverse field order, items in order, dynamic components length-prefixed). Hand-written model tied by 46k (quick) / 510k (thorough) cases x 2 profiles over 267 Rust types incl. zero-width item types.",
  note="Codec model entirely hand-written (nothing translated). Rust types are a finite sample of the grammar; the theorem covers the grammar. Lists with >= 2^63 items and encodings >= 2^64 elements excluded by hypothesis."),
 "C13": dict(
  technique="Coq proof (totality, strictness and linear-cost theorems about the same codec model as C03) + differential correspondence on near-valid sequences with a counting allocator in the harness",
  text="18 theorems C13_* (props/C13.v): decode never panics or overflows on canonical sequences shorter than 2^32; anything that is not the encoding of a typed value is rejected (truncated, extended, limb >= 2^32, bool/option tag > 1, unknown discriminant, inconsistent prefixes, polynomial trailing zero); allocation cost linear in the sequence length. Tied by 45k (quick) / 411k (thorough) near-valid / truncated / extended / huge-count sequences x 2 profiles, peak heap bytes per decode compared with the model cost.",
  note="cost_linear carries the hypothesis 'no list whose item type has encoded width 0' ([n] is a valid 1-element encoding of an n-item Vec<PhantomData>): round trip and a linear bound cannot both hold there. The real allocator / Vec growth policy are outside the model (the comparison allows 512 bytes per model slot)."),
 "C04": dict(
  technique="Coq proof about a hand-written model of merkle_tree.rs over an abstract hash (accessor totality, verification theorems) + differential correspondence with the free hash in two build profiles",
  text="Theorems C04_* (props/C04.v) about the model of MerkleTree accessors, authentication structures, PartialMerkleTree and inclusion-proof verification over an abstract hash H with explicit usize wrap-around: accessors never panic and never present an inner node as a leaf for any index in usize (repaired code), plus the verification theorems listed in evidence. The model is tied to the code by exhaustive small-height and random proofs, malformed proofs and extreme indices (26k cases x 2 profiles).",
  note="Model hand-written; digests compared through the free term algebra (no Tip5 collision assumed: a collision could only cause a spurious mismatch). Trees of height > 16 are not built; the theorems cover them. See evidence for the list of theorems proved so far; statements not yet proved are visible as *_full definitions."),
 "C10": dict(
  technique="Coq proof about a hand-written model of tree construction (both loops, explicit cutoff parameter, fuel) and authentication structures + differential correspondence over every cutoff environment value and thread count",
  text="Theorems C10_* (props/C10.v): for every cutoff (including 0 after the repair) and every power-of-two leaf count the construction terminates and returns the specification tree (each inner node the hash of its children), independent of the cutoff; zero / non-power-of-two leaf counts are rejected. Tied to the code by one harness process per cutoff value {unset, abc, -1, 0, 1, 2, 3, 4, 8, 255, 256, 257, 2^20} x RAYON_NUM_THREADS {1,2,5,16} (58k cases), leaf counts to 2^12, exhaustive small index lists.",
  note="Schedule independence of rayon's indexed collect is assumed from purity of the closures and validated by the thread sweep (partial by nature). Digests compared through the free term algebra."),
 "C12": dict(
  technique="Coq proof about a hand-written model of MmrSuccessorProof (construction and verification) over an abstract hash + differential correspondence on all small (old, appended) pairs and inconsistent accumulators",
  text="Theorems C12_* (props/C12.v) about the model of new_from_batch_append / verify; totality on structurally inconsistent accumulators (repaired code rejects them). Tied to the code by all (old, appended) pairs with total <= 64, bit-pattern leaf counts, every single-digest alteration, and accumulators whose peak list length disagrees with the leaf count (10k cases x 2 profiles).",
  note="Model hand-written, index functions partly from the regenerated MmrIndexGen.v. See evidence for the list of theorems proved so far."),
 "C14": dict(
  technique="Coq proof (C03/C13 theorems specialised to derived struct / enum shapes through a shape-to-grammar lowering, plus layout theorems) + differential correspondence of the workspace macro against the Coq model and against the published macro, on 86 generated type definitions",
  text="38 theorems C14_* (props/C14.v) for every shape (unit / named / tuple structs, enums with unit and tuple variants, ignored named fields, generics as instantiation): round trip, uniqueness, static length, total and strict decoding, layout (discriminant first, reverse field order, dynamic fields length-prefixed, ignored named fields omitted and defaulted). Tied to the code by 86 definitions / 123 instances each derived twice (workspace macro and registry 0.7.1): model vs workspace, workspace vs registry bit for bit, 52k near-valid sequences x 2 profiles.",
  note="The proc-macro's token generation is not translated: the tie is the differential run over sampled shapes; compile-time rejections are out of scope; Default::default() is abstract in the theorems; recursive derived types are outside the (finite-tree) grammar. Known findings (printed as KNOWN-FINDING): ignore attribute on tuple-struct fields has no effect; recursive derived types make static_length diverge."),
 "C06": dict(
  technique="Coq proof (decimation-in-time induction over an abstract field with Leibniz equality, loop invariants for the bit-reversal swap loop and the three butterfly loops, verified modular exponentiation on the regenerated root table) + differential correspondence for both fields",
  text="26 theorems C06_* (props/C06.v), nothing partial: every one of the 34 regenerated table entries has multiplicative order exactly n; for every l <= 31 and every canonical vector of length 2^l the model of ntt is the DFT at the powers of the library's primitive root and intt is its exact inverse (equalities on Montgomery words), over the base field and - coordinate-wise, unconditionally - over the extension field; ntt_noswap = bitreverse_order o ntt, intt_noswap + unscale compose to the inverse; lengths 0/1 and documented panics (non powers of two, 2^32). The loop model is hand-written and tied to ntt.rs by 3129 (quick) cases x 2 profiles: unit vectors (a spanning set), boundary values, non-power-of-two lengths, every table entry; the oracle also checks the model against a naive zarith DFT.",
  note="ntt.rs is hand-modelled (loops); PRIMITIVE_ROOTS is regenerated from the source. Lengths >= 2^17 are executed only in the thorough tier (spot positions); the theorem covers them. Extra extraction directive: Z.pow -> zarith."),
 "C02": dict(
  technique="Coq proof about tables, the MDS straight-line program (as an SSA program) and lane recombination REGENERATED from tip5.rs / mds.rs on every run (generic SSA linearity lemma + vm_compute of the coefficient matrix; lia for the 64/128-bit lane arithmetic), refinement of the hand-written round / permutation model to the Tip5 specification on field values + differential correspondence on engineered states",
  text="20 theorems C02_* (props/C02.v), nothing partial: lookup table = formula, regenerated constants = specification literals, the regenerated 253-node generated_function computes exactly 16 x (circulant MDS product) on 32-bit limbs for ALL inputs, lane recombination congruent mod p and < 2^64 without overflow, round-constant margin so that every state after a round is canonical, S-box on Montgomery bytes, x^7; round / permutation / trace / hash_10 / hash_pair / Digest::hash refine the specification for every canonical 16-tuple. Tied by 2529 (quick) / 115k (thorough) states x 2 profiles engineered to hit 64-bit carries, lane sums in [p, 2^64), 0x00/0xff lookup bytes.",
  note="Derivation of the round constants / MDS column from BLAKE3 / SHA-256 is not re-proved: they are golden specification literals (the repo's own tests check the derivation). Loops over the 16 lanes, byte splitting and the sponge plumbing are hand-modelled. Extra extraction directive: Z.pow -> zarith."),
 "C15": dict(
  technique="Coq proof (padding shape/injectivity generic over the sponge; Tip5 absorb/squeeze/hash_varlen refinement; fuelled rejection-sampling specification) + differential correspondence with a recording sponge and directly set Tip5 states",
  text="13 theorems C15_* (props/C15.v), nothing partial: pad = input ++ [1] ++ fewest zeros to a multiple of the rate, injective; pad_and_absorb_all absorbs exactly that for any sponge; variable- and fixed-length initial states differ in the capacity; hash_varlen; sample_indices returns the low bits of successive squeezed elements skipping exactly p-1 and leaves the state after the fewest squeezes; sample_scalars groups in threes. Tied by 1076 (quick) / 13k (thorough) cases x 2 profiles with rejected elements placed at chosen positions.",
  note="Termination of rejection sampling for the concrete permutation is not provable: stated with fuel. sample_indices with a zero or non-power-of-two bound is out of scope (release and checked builds differ there by design of debug_assert)."),
 "C16": dict(
  technique="Coq proof (bit-trick lemmas by induction on the binary representation, loop termination within fuel 64, agreement with an explicit post-order forest of perfect trees) about index functions REGENERATED from shared_basic.rs / shared_advanced.rs + hand models of the looping ones + exhaustive small-scope and pattern correspondence in two profiles",
  text="28 theorems C16_* (props/C16.v), nothing partial: for all leaf counts / indices below 2^63 (u64 node indices where documented) every index function (children, siblings, leftmost ancestor, leaf<->node index, node count, local tree index and peak index, right-lineage lengths, node heights, parent, peaks, nodes added by an append, authentication path indices) neither overflows nor panics and equals the structural answer read off the explicitly constructed forest numbered in post-order. The nine straight-line functions are re-translated and re-proved on every run; the eight looping ones are hand models tied by exhaustive sweeps to 2^10 leaf counts plus bit patterns (33k cases x 2 profiles).",
  note="Node index 0 and leaf counts >= 2^63 are outside the documented domain (observed: garbage / non-termination in release, panic in checked) and are excluded by hypotheses. Extra extraction directive: Z.pow -> zarith."),
 "C18": dict(
  technique="Coq proof (psi tables regenerated and checked by vm_compute; linearity + 64 basis vectors + multiplicativity of evaluation at the roots of X^64+1; KEM decapsulation characterised as re-encryption with SHAKE256/SHA3 as section variables) + differential correspondence incl. 50/2000 full KEM runs with a Keccak inside the oracle",
  text="16 theorems C18_* (props/C18.v): ring multiplication = negacyclic convolution modulo X^64+1 for ALL pairs, coset NTT/INTT evaluate at / interpolate from the 64 roots and are mutually inverse, the three module multiplication strategies agree, ciphertext array round trip, embed/extract correct below the lane-noise threshold, decapsulation accepts exactly re-encryptions (a tampered ciphertext is rejected unless it is itself an honest encapsulation of the payload it decrypts to), unrelated keys. dec(enc) = key is proved under the lane-noise bound (PARTIAL by nature: the probability of the bound is a cryptographic estimate).",
  note="Modelled on field VALUES, relying on C01 for the base-field operations. SHAKE256 / SHA3-256 are oracles (section variables); the oracle's Keccak is tied to the sha3 crate by the xof and KEM cases. debug_assert shape checks of module products are not modelled."),
 "C05": dict(
  technique="Coq proof about a hand-written model of the MMR membership-proof routines over an abstract hash (verification exactness and totality for all u64 inputs, path theorems by induction over the forest; bounded-exhaustive vm_compute theorems for the update routines) + differential correspondence on operation histories with the free hash",
  text="Theorems C05_* (props/C05.v): verify = the specification (hashing the leaf up its path reproduces the covering peak) for ALL (index, leaf, peaks, count, path) incl. malformed claims, never panics; the path of a leaf verifies; append returns the path of the new leaf. The update routines (update_from_append, batch_update_from_append, update_from_leaf_mutation, the three batch mutation routines) are PARTIAL: proved by exhaustive computation for all MMRs up to 48 / 20 / 10 leafs (free hash), full statements visible as *_full definitions. Tied by 27k cases x 2 profiles: histories of up to 300 mixed operations with tracked proofs handed to the batch routines in random order, 26k malformed verify claims.",
  note="PARTIAL: the general (unbounded) theorems for the update routines are not proved; the bounded-exhaustive theorems are proofs only for the stated sizes. Index arithmetic relies on C16. Digests compared through the free term algebra."),
 "C07": dict(
  technique="Coq proof (coefficient-function polynomials over an abstract field with `ring`; degree bookkeeping for the NTT-based products under the C06 theorems; termination of the batch loops) about a hand-written raw-list model with regenerated dispatch thresholds + differential correspondence incl. 8 thread settings",
  text="22 theorems C07_* (props/C07.v): naive / fast / dispatching multiply (mixed fields), the Mul impls, slow_square / square / fast_square, pow / fast_pow, scalar_mul, scale, shift, batch_multiply and par_batch_multiply for every thread count >= 1 return the exact ring product (coefficient convolution), for zero and constant operands too; unconditional for BFieldElement (transform lengths <= 2^31), conditional on an extension-field instance for XFieldElement. Tied by 3841 cases x 2 profiles around every threshold + RAYON_NUM_THREADS / taskset in {1,2,5,16}.",
  note="XFieldElement / mixed-field NTT-based products are proved under Section hypotheses (field interface + NTT homomorphism for the extension field) that are not yet discharged. rayon order preservation assumed, validated by the thread sweep. Thresholds regenerated; algorithms hand-modelled."),
 "C09": dict(
  technique="Coq proof (division with remainder, uniqueness from degree arguments, Euclid with explicit fuel, power-series inversion, structured multiples, every reduction arm) against the stdlib polynomial specification + differential correspondence under the PRODUCTION constants",
  text="27 theorems C09_* (props/C09.v): divide returns the unique (q, r); every reduction strategy (long division, fast_reduce in its three stages, NTT-friendly and structured moduli) returns that remainder; xgcd is total, monic-or-zero, divides both, Bezout; formal_power_series_inverse_minimal for every precision; structured multiples are monic multiples of exactly the requested degree; clean_divide: long-division arm, fallback arm (divisor vanishing on the coset), root-0 handling, for every cutoff. PARTIAL: the zero-free NTT arm of clean_divide and the NTT-domain rounds of the Newton inversion (full statements visible). Tied by 1813 cases x 2 profiles with the production cutoff (512), degree pairs around (4d, d), divisors with roots on the evaluation coset.",
  note="NTT-based theorems carry the C06 hypotheses as Section hypotheses; the extension-field instance is not discharged. The harness is a normal dependency build (cfg(test) off)."),
 "C11": dict(
  technique="Coq proof (binary-counter / trailing-ones invariant for append, mutation by induction over the path, bag_peaks cases) about a hand-written accumulator model over an abstract hash + differential correspondence on histories",
  text="8 theorems C11_* (props/C11.v): after any interleaving of appends and single-leaf mutations with valid proofs the accumulator's (leaf count, peaks) equal those of the perfect trees built from scratch over the current leaf list; bag_peaks = the documented fold (0, 1, >= 2 peaks); repeated / out-of-range indices are rejected. PARTIAL: the batch-mutation step of the history theorem and verify_batch_update_iff are proved only by exhaustive computation for all MMRs up to 10 leafs x all ordered lists of 1..3 distinct mutations (full statements visible). Tied by 256 history cases (up to 300 operations each) x 2 profiles incl. negative verify_batch_update grids.",
  note="PARTIAL as stated. Digests through the free term algebra; Tip5::hash(&0u128) enters as the abstract constant hash0."),
 "C17": dict(
  technique="Coq proof (each operation's result depends only on the denoted polynomial: op (l ++ zeros) ~ op l, derived from the C07 equations on raw lists) + differential correspondence of every public function on p and on p with stored leading zeros, owned and borrowed",
  text="37 theorems C17_* (props/C17.v): equality iff same denotation, equal polynomials hash equally, accessors report a non-zero leading coefficient, encode uses the normalised coefficients, and one value-semantics theorem per operation and argument position of the basic API and the multiplication family (after the repair of slow_square / square / truncate / Hash). Tied by 17363 cases x 2 profiles; the C08/C09 API functions are covered by direct comparison op(p) vs op(p with k stored zeros), k in {1,2,17} (945 comparisons, all SAME).",
  note="Display and decode(encode p) are correspondence-only; C08/C09 functions are covered by the direct comparison only, not by theorems."),
 "C08": dict(
  technique="Coq proof (root bound and uniqueness of the interpolant; zerofier, Lagrange, divide-and-conquer and memoised interpolation, evaluation strategies, ZerofierTree, coset evaluate / interpolate, extrapolation variants) against the stdlib polynomial specification + differential correspondence incl. thread sweeps",
  text="35 theorems C08_* (props/C08.v): every zerofier strategy (smart / fast / parallel / tree, any thread count) is the product of (X - r_i); Lagrange interpolation returns THE interpolant (uniqueness from the root bound); coset evaluation and interpolation are mutually inverse and equal Horner evaluation on the coset - unconditional for BFieldElement; evaluation strategies return Horner evaluations in input order; divide-and-conquer / parallel / batched (memoised) interpolation and every coset-extrapolation variant equal interpolate-then-evaluate, under the C09 reduction statements as hypotheses. PARTIAL: modular coset interpolation proved up to 2^17 codewords (even/odd recursion above is open), barycentric evaluation open. Tied by 2632 cases x 2 profiles + RAYON_NUM_THREADS / taskset sweeps.",
  note="Theorems for the fast paths carry C06 / C07 / C09 statements as Section hypotheses (discharged for BFieldElement where stated); XFieldElement instances conditional. The division family is modelled a second time inside PolyInterp.v (pint_ names). Extra extraction directives: Word.wrap/wshr/wshl and rev -> zarith / List.rev."),
}

ORDER = ["C%02d" % i for i in range(1, 21)]
PENDING_REASON = ("check under construction in this session; the technique applies (see DESIGN.md section 6), "
                  "nothing is claimed until its check is registered")


def main():
    checks = []
    for pid in ORDER:
        if pid not in CHECKS:
            continue
        c = CHECKS[pid]
        checks.append({
            "property_id": pid,
            "quick_cmd": "./check %s --tier quick" % pid,
            "thorough_cmd": "./check %s --tier thorough" % pid,
            "evidence_file": "evidence/%s.json" % pid,
            "replay_cmd_template": "./check %s --replay {path}" % pid,
            "engine": "coq-model+oracle",
            "technique": c["technique"],
            "level_claimed": {"category": "proof", "text": c["text"], "design_ref": "DESIGN.md section 6 / " + pid},
            "level_note": COMMON_NOTE + c["note"],
        })
    m = {
        "version": 1,
        "setup_cmd": "tools/setup.sh",
        "hooks": {
            "guard": "twenty_first_verif",
            "enable": "RUSTFLAGS=\"--cfg twenty_first_verif\" is set by tools/runner.py for every harness build; no hook in /repo is needed (all observation points are public API)",
            "baseline_off_cmd": "cd /repo && (cargo nextest run --workspace --no-fail-fast --offline || cargo test --workspace --no-fail-fast --offline)",
            "source_commits": [],
            "add_only": True,
        },
        "engines": [{
            "name": "coq-model+oracle", "path": "tools/runner.py", "serves_properties": [c["property_id"] for c in checks],
            "kind_free_text": "Coq 8.16 theorems about a model that is regenerated (tools/rs2v.py) or hand-written from the source, tied to the compiled implementation on every run by a differential correspondence check against the model extracted to OCaml",
        }],
        "checks": checks,
        "not_applicable": [{"property_id": p, "reason": PENDING_REASON} for p in ORDER if p not in CHECKS],
        "notes": "Known findings and repairs: KNOWN_FINDINGS.txt. Seeded changes used to validate the checks: seeded/. See DESIGN.md.",
    }
    with open(os.path.join(ROOT, "MANIFEST.json"), "w") as f:
        json.dump(m, f, indent=1)
        f.write("\n")


if __name__ == "__main__":
    main()
