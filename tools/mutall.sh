#!/bin/bash
# mutall.sh [names...] : run every seeded change under seeded/ against the check of its property (scratch copies),
# print one line per change: CAUGHT (with or without a concrete input) / MISSED.
cd "$(dirname "$0")/.."
names="$@"; [ -z "$names" ] && names=$(ls seeded)
for n in $names; do
  id=$(python3 -c "import json;print(json.load(open('seeded/$n/meta.json'))['property'])")
  out=$(VERIF_NO_ESCALATE=1 tools/mutrun.sh seeded/$n/patch.diff $id 2>&1)
  if echo "$out" | grep -q "VIOLATION.*no-failing-input-found"; then echo "$n $id CAUGHT-no-input"
  elif echo "$out" | grep -q "VIOLATION"; then echo "$n $id CAUGHT"
  else echo "$n $id MISSED"; fi
done
