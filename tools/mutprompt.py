#!/usr/bin/env python3
"""Print the prompt for a seeding sub-agent: property text + its scratch worktree, nothing from /verif."""
import json, sys
pid, wt = sys.argv[1], sys.argv[2]
hint = sys.argv[3] if len(sys.argv) > 3 else ""
tpl = open(__import__('os').path.join(__import__('os').path.dirname(__import__('os').path.abspath(__file__)),'mutprompt_template.txt')).read()
for l in open('/verif/properties.jsonl'):
    p = json.loads(l)
    if p['id'] == pid:
        s = tpl.replace('{WTNAME}', wt.rstrip('/').split('/')[-1]).replace('{WT}', wt).replace('{ID}', pid).replace('{ID_LOWER}', pid.lower()).replace('{TITLE}', p['title'])
        s = s.replace('{STATEMENT}', p['statement']).replace('{QUANT}', p['quantifier']['text']).replace('{FILES}', ', '.join(p['anchors']['files']))
        if hint:
            s += "\nFocus for this particular change (to get variety across several adversaries): " + hint + "\n"
        print(s)
