#!/bin/bash
# mutrun.sh <patch.diff> <ID> [<ID> ...] : run checks against a scratch copy of /repo with a seeded change
# applied, using a scratch copy of /verif (so that other work against /repo is not disturbed).
# Everything lives under /tmp/mutrun.$$ and is removed afterwards. Prints each check's verdict lines.
set -u
PATCH=$(readlink -f "$1"); shift
W=/tmp/mutrun.$$
mkdir -p $W
git -C /repo worktree add -q $W/repo HEAD || exit 2
( cd $W/repo && git apply "$PATCH" ) || { echo "PATCH DOES NOT APPLY"; git -C /repo worktree remove --force $W/repo; rm -rf $W; exit 2; }
rsync -a --exclude harness/target --exclude .git --exclude 'evidence/replay' /verif/ $W/verif/
sed -i "s#/repo/#$W/repo/#g" $W/verif/harness/Cargo.toml
cp /repo/Cargo.lock $W/repo/Cargo.lock; rm -f $W/verif/harness/Cargo.lock; cp /repo/Cargo.lock $W/verif/harness/Cargo.lock
export VERIF_REPO=$W/repo
export CARGO_TARGET_DIR=$W/target
rc=0
for id in "$@"; do
  echo "=== $id against $(basename $PATCH)"
  ( cd $W/verif && timeout 3000 ./check $id --tier ${MUT_TIER:-quick} 2>&1 | grep -E "VIOLATION|KNOWN-FINDING|\[check\]|Traceback|Error" | head -8 )
  for f in $W/verif/evidence/replay/${id}_*.json; do [ -f "$f" ] && { echo "--- replay $(basename $f)"; head -c 1500 "$f"; echo; }; done
done
git -C /repo worktree remove --force $W/repo
rm -rf $W
