"""C01 - base and extension field arithmetic is exact and canonical."""
ID = "C01"
GEN_TAGS = ["BFieldGen", "XFieldGen"]
PROOF_TARGETS = ["proofs/BFieldProofs.vo", "proofs/BFieldLoops.vo", "proofs/XFieldProofs.vo", "proofs/XFieldIrred.vo", "proofs/BatchInvProofs.vo", "proofs/XFieldGenProofs.vo", "proofs/XFieldOk.vo",
                 "proofs/BFieldExtra.vo", "proofs/XFieldExtra.vo"]
PROPS_FILE = "props/C01.v"
EXTRA_PROPS_FILES = ["props/C01b.v"]
EXTRACT = "extract/ExtractC01.vo"
ORACLE = ("gen_c01", "c01.ml")
HARNESS = "c01"
PROFILES = ["release", "checked"]
P = 2**64 - 2**32 + 1
R = 2**64
RINV = pow(R, -1, P)

TRUSTED = [
    "Coq 8.16.1 kernel and its bytecode VM (vm_compute in Lucas.v and table checks); no native_compute",
    "tools/rs2v.py translator and coq/lib/Word.v semantics of Rust u64/u128/i64/i128 operators",
    "extraction: ExtrOcamlBasic + ExtrOcamlZBigInt (all of its Extract Inductive/Constant directives for positive, N, Z -> zarith), OCaml 4.13.1, zarith 1.12; cross-checked on every run against a pure ExtrOcamlBasic-only extraction of the same base-field model on a 3000-case sample (extra_checks)",
    "correspondence harness (harness/src/c01.rs), oracle driver (ocaml/c01.ml), case generator (tools/props/c01.py)",
    "modelled by hand, tied by correspondence only: mod_pow loop, inverse addition chain, batch_inversion, XFieldElement operations (inverse modelled by closed-form adjugate instead of polynomial xgcd), From/TryFrom glue",
    "verified through the translator (theorems re-checked on regenerated definitions): montyred, new, value, Add, Sub, Mul, Neg, mod_reduce (From<u128>), From<i64> match, bfe_to_i64, XFieldElement * XFieldElement",
    "derived PartialEq/Eq/Hash on BFieldElement(u64) are structural (Rust derive semantics)",
]
ASSUMPTIONS = [
    "from_raw_u64/from_raw_bytes/from_raw_u16s are outside the value-level API (they can build non-canonical words)",
    "Display, Arbitrary and rand sampling are outside the property",
]
RULE = ("boundary grid B64 (words around 0, 2^32, p, 2^63, 2^64 and their Montgomery pre-images) for unary ops, all pairs "
        "of a sub-grid for binary ops, montyred-branch-steering inputs, plus seeded random; non-trivial = every case "
        "(each exercises a distinct input tuple); distinct = distinct case text")


def grid64():
    g = set()
    for b in (0, 1, 2, 3, 7, 255, 256, 2**16 - 1, 2**16, 2**16 + 1, 2**31 - 1, 2**31, 2**31 + 1, 2**32 - 2, 2**32 - 1,
              2**32, 2**32 + 1, 2**33, 2**48, P - 2**32 - 1, P - 2**32, P - 2**32 + 1, (P - 1) // 2 - 1, (P - 1) // 2,
              (P - 1) // 2 + 1, P - 257, P - 256, P - 2, P - 1, P, P + 1, 2**63 - 1, 2**63, 2**63 + 1,
              2**64 - 2**32 - 1, 2**64 - 2**32, 2**64 - 2**32 + 1, 2**64 - 2, 2**64 - 1, 0xffff_fffe_0000_0001,
              0xffffffff00000000, 0x00000000ffffffff, 0xfffffffe00000002):
        if 0 <= b < 2**64:
            g.add(b)
    # values whose Montgomery word is on the grid: v = w * R^-1 mod p
    for w in list(g):
        if w < P:
            g.add(w * RINV % P)
    return sorted(g)


def cases(tier, rng):
    out = []
    G = grid64()
    big = tier == "thorough"
    nrand = 200000 if big else 6000
    sub = [x for x in G if x in (0, 1, 2, 2**32 - 1, 2**32, 2**32 + 1, P - 2**32, (P - 1) // 2, P - 2, P - 1, P, P + 1,
                                 2**63, 2**64 - 2**32, 2**64 - 1)] + [w * RINV % P for w in (1, 2**32 - 1, 2**32, P - 1, 2**63)]
    for a in G:
        for op in ("new", "neg", "inv", "invz", "square", "to_i64", "to_u64", "to_u128", "to_i128", "try_u8", "try_u16",
                   "try_u32", "try_usize", "try_i8", "try_i16", "try_i32", "try_isize", "from_u64", "from_usize",
                   "iszero", "incdec"):
            out.append(("grid-unary", "%s %d" % (op, a)))
    pairs = G if big else sub
    for a in pairs:
        for b in pairs:
            for op in ("add", "sub", "mul", "div", "eqhash", "eqhash_ops", "addassign"):
                out.append(("grid-binary", "%s %d %d" % (op, a, b)))
    # a and a+p are the same field element: equality and hashing must agree
    for a in (0, 1, 2**32 - 3, 2**32 - 2):
        out.append(("alias", "eqhash %d %d" % (a, a + P)))
        out.append(("alias", "eqhash %d %d" % (a + P, a)))
    # products steering montyred into its four (e, c) branches: x = a*b with chosen low/high halves
    for lo in (0, 1, 2**32 - 1, 2**32, 2**63, 2**64 - 2**32, 2**64 - 1):
        for hi in (0, 1, 2**32 - 1, P - 1, 2**63):
            # find a, b canonical with a*b close to hi*2^64 + lo : use b = 2^32+1 style factors
            x = hi * 2**64 + lo
            for b in (1, 3, 2**32 + 1, 2**32 - 1, P - 1):
                a = min(x // b, P - 1)
                out.append(("montyred-steer", "mul %d %d" % (a * RINV % P, b * RINV % P)))
    exps = [0, 1, 2, 3, 7, 64, 2**32 - 1, 2**32, 2**32 + 1, P - 2, P - 1, P, 2**63, 2**64 - 1] + [2**k for k in range(0, 64, 7)] + [2**k - 1 for k in range(1, 64, 9)]
    for a in sub:
        for e in exps:
            out.append(("pow", "pow %d %d" % (a, e)))
            if e < 2**32:
                out.append(("pow", "pow32 %d %d" % (a, e)))
    for v in (0, 1, 2**64 - 1, 2**64, 2**64 + 1, P, P - 1, 2**96 - 1, 2**96, 2**127, 2**128 - 1, 2**128 - 2**64,
              2**128 - 2**32, (2**64 - 1) * 2**64, P * P, P * P - 1, (2**32 - 1) * 2**64 + 2**64 - 1, 2**64 * (2**32) - 1):
        out.append(("u128", "from_u128 %d" % v))
    for a in G[::3]:
        for b in G[::5]:
            out.append(("u128", "from_u128 %d" % (a * 2**64 + b)))
    for v in (0, 1, -1, 2, -2, 2**63 - 1, -2**63, -2**63 + 1, 2**32, -2**32, -2**32 - 1, -2**32 + 1, 2**31, -2**31, -(2**62)):
        out.append(("signed", "from_i64 %d" % v))
        out.append(("signed", "from_isize %d" % v))
    for v in (0, 1, -1, 2**31 - 1, -2**31):
        out.append(("signed", "from_i32 %d" % v))
    for v in (0, 1, -1, 2**15 - 1, -2**15):
        out.append(("signed", "from_i16 %d" % v))
    for v in (0, 1, -1, 127, -128):
        out.append(("signed", "from_i8 %d" % v))
    for v in (0, 1, 255):
        out.append(("unsigned", "from_u8 %d" % v))
    for v in (0, 65535):
        out.append(("unsigned", "from_u16 %d" % v))
    for v in (0, 2**32 - 1):
        out.append(("unsigned", "from_u32 %d" % v))
    for n in [0, 1, 3, 5, 6, 2**33, 2**32 + 1, 2**63] + [2**k for k in range(0, 34)]:
        out.append(("roots", "root %d" % n))
    # batch inversion: lengths 0,1,2,3,17; one zero at each position
    out.append(("batch", "batchinv"))
    for L in (1, 2, 3, 17):
        vec = [rng.choice(G[1:]) % P or 1 for _ in range(L)]
        out.append(("batch", "batchinv " + " ".join(map(str, vec))))
        for zpos in range(L):
            v2 = list(vec)
            v2[zpos] = rng.choice([0, P])
            out.append(("batch-zero", "batchinv " + " ".join(map(str, v2))))
    # extension field
    xs = [0, 1, 2, P - 1, 2**32, P - 2**32, 2**63, 7]
    trip = [(a, b, c) for a in xs for b in xs[:5] for c in xs[:5]]
    if not big:
        trip = trip[::3]
    for t in trip:
        s = "%d %d %d" % t
        out.append(("xfe-unary", "xinv " + s))
        out.append(("xfe-unary", "xinvz " + s))
        out.append(("xfe-unary", "xneg " + s))
        out.append(("xfe-unary", "unlift " + s))
        u = rng.choice(trip)
        s2 = "%d %d %d" % u
        for op in ("xadd", "xsub", "xmul", "xdiv", "xeqhash"):
            out.append(("xfe-binary", "%s %s %s" % (op, s, s2)))
        k = rng.choice(G)
        for op in ("xmulb", "bmulx", "xaddb", "baddx", "xsubb", "bsubx"):
            out.append(("xfe-mixed", "%s %s %d" % (op, s, k)))
        out.append(("xfe-pow", "xpow %s %d" % (s, rng.choice(exps))))
    for e in exps:
        out.append(("xfe-pow", "xpow 3 5 7 %d" % e))
    out.append(("xfe-batch", "xbatchinv"))
    out.append(("xfe-batch", "xbatchinv 1 2 3 0 0 1 5 0 0"))
    out.append(("xfe-batch", "xbatchinv 1 2 3 0 0 0 5 0 0"))
    for a in G[::4]:
        out.append(("xfe-unary", "lift %d" % a))
    # further public API: montyred itself, raw views, power_accumulator, Sum, cyclic groups, XFE helpers
    for lo in (0, 1, 2**32 - 1, 2**32, 2**63, 2**64 - 2**32, 2**64 - 1):
        for hi in (0, 1, 2**32 - 1, P - 1, P, 2**63, 2**64 - 1):
            out.append(("montyred", "montyred %d" % (hi * 2**64 + lo)))
    for _ in range(400 if not big else 20000):
        out.append(("montyred", "montyred %d" % (rng.randrange(2**64) * 2**64 + rng.choice(G + [rng.randrange(2**64)]))))
    for a in G:
        out.append(("rawviews", "rawviews %d" % a))
    for m in (0, 1, 3, 32):
        for _ in range(8):
            out.append(("poweracc", "poweracc %d %d %d %d %d" % (m, rng.choice(G), rng.choice(G), rng.choice(G), rng.choice(G))))
    out.append(("sum", "sum"))
    for L in (1, 2, 3, 17):
        out.append(("sum", "sum " + " ".join(str(rng.choice(G)) for _ in range(L))))
    # sums whose Montgomery words pile up near multiples of 2^64 (a wide accumulation with a wrong carry
    # fix-up only fails from three summands on, when the low word of the raw sum is within hi*(2^32-1) of 2^64)
    rawx = [w * RINV % P for w in (P - 1, P - 2, P - 2**32, P - 2**32 + 1, 2**63, 2**63 + 1, (P - 1) // 2, 2**32 - 1, 2**32, 1, 3)]
    for a in rawx[:8]:
        for b in rawx[:8]:
            for c in rawx:
                out.append(("sum-raw-carry", "sum %d %d %d" % (a, b, c)))
    for _ in range(4000 if big else 600):
        L = rng.choice((3, 4, 5, 6, 7, 8, 16, 31, 64, 100))
        pool = rawx if rng.random() < 0.5 else rawx + G
        out.append(("sum-raw-carry", "sum " + " ".join(str(rng.choice(pool)) for _ in range(L))))
    for _ in range(2000 if big else 300):
        # engineered: raw words w1..wk with  sum = hi*2^64 + lo,  lo in [2^64 - hi*(2^32-1) - 2, 2^64 - 1]
        k = rng.choice((3, 4, 5, 9))
        ws = [rng.randrange(P - 2**33, P) if rng.random() < 0.7 else rng.randrange(P) for _ in range(k - 1)]
        hi = rng.randrange(1, k)
        lo = 2**64 - 1 - rng.randrange(0, hi * (2**32 - 1) + 3)
        last = hi * 2**64 + lo - sum(ws)
        if 0 <= last < P:
            out.append(("sum-raw-carry", "sum " + " ".join(str(w * RINV % P) for w in ws + [last])))
    for _ in range(300 if big else 60):
        L = 3 * rng.choice((3, 4, 5, 8))
        out.append(("xfe-api", "xsum " + " ".join(str(rng.choice(rawx)) for _ in range(L))))
    for g, mx in ((1, "-"), (P - 1, "-"), (1, 5), (0, 3), (7, 10), (2**32, "-"), (281474976710656, "-"), (18446744069397807105, "-"),
                  (7, 1), (7, 2), (P - 1, 1), (2, 200), (1753635133440165772, 1000)):
        out.append(("cyclic", "cyclic %d %s" % (g, mx)))
    out.append(("consts", "generator"))
    out.append(("consts", "consts"))
    out.append(("consts", "shah"))
    for _ in range(6):
        t = [rng.choice(xs) for _ in range(3 * rng.randrange(0, 5))]
        out.append(("xfe-api", "xsum " + " ".join(map(str, t))))
    for a in xs:
        out.append(("xfe-api", "xnewconst %d" % a))
    for L in (0, 1, 2, 3, 4):
        out.append(("xfe-api", "xtryslice " + " ".join(str(rng.choice(xs)) for _ in range(L))))
    for i in (0, 1, 2, 3, 2**32):
        out.append(("xfe-api", "xincr %d %d %d %d" % (P - 1, 0, P - 1, i)))
        out.append(("xfe-api", "xdecr %d %d %d %d" % (0, 1, 0, i)))
    for nn in (0, 1, 2, 3, 4, 2**31, 2**32, 2**33):
        out.append(("xfe-api", "xroot %d" % nn))
    for t in ((0, 1, 0, 6), (1, 0, 0, 4), (P - 1, 0, 0, 5), (0, 0, 0, 3), (2, 3, 5, 7)):
        out.append(("xfe-api", "xcyclic %d %d %d %d" % t))
    # random
    def r64():
        c = rng.random()
        if c < 0.2:
            return rng.choice(G)
        if c < 0.3:
            return rng.randrange(2**64 - 2**33, 2**64)
        if c < 0.4:
            return rng.randrange(0, 2**33)
        return rng.randrange(0, 2**64)
    for _ in range(nrand):
        op = rng.choice(("add", "sub", "mul", "mul", "div", "eqhash_ops"))
        out.append(("random", "%s %d %d" % (op, r64(), r64())))
    for _ in range(nrand // 6):
        out.append(("random", "from_u128 %d" % (r64() * 2**64 + r64())))
        out.append(("random", "inv %d" % r64()))
        out.append(("random", "pow %d %d" % (r64(), r64())))
        out.append(("random", "from_i64 %d" % (r64() - 2**63)))
        out.append(("random", "to_i64 %d" % r64()))
        t = "%d %d %d %d %d %d" % tuple(r64() for _ in range(6))
        out.append(("random-xfe", "%s %s" % (rng.choice(("xmul", "xadd", "xsub", "xdiv")), t)))
        out.append(("random-xfe", "xinv %d %d %d" % (r64(), r64(), r64())))
    return out


def extra_checks(ctx):
    """Cross-check of the trusted extraction: the same model extracted WITHOUT the zarith mapping (ExtrOcamlBasic only:
    Coq's binary integers in OCaml) must print the same results as the fast zarith-mapped oracle on a sample of cases."""
    import os
    import random
    import sys
    sys.path.insert(0, os.path.join(os.path.dirname(os.path.abspath(__file__)), ".."))
    import runner
    info = {"pure_extraction_sample": 0, "pure_extraction_mismatches": 0}
    viol = []
    if not ctx.get("oracle"):
        return {"violations": viol, "info": info}
    os.makedirs(os.path.join(runner.OCAML, "gen_c01pure"), exist_ok=True)
    with runner.Lock():
        rc, out, dt = runner.coq_make(["extract/ExtractC01Pure.vo"])
        if rc != 0:
            return {"violations": [{"kind": "pure-extraction-build-failed", "detail": out[-800:], "no_input": True}], "info": info}
        rc, out, exe, dt = runner.ocaml_build("gen_c01pure", "c01pure.ml")
        if rc != 0:
            return {"violations": [{"kind": "pure-oracle-build-failed", "detail": out[-800:], "no_input": True}], "info": info}
    rng = random.Random(ctx["seed"] + 17)
    ops = ("new", "add", "sub", "mul", "neg", "inv", "pow", "from_u128", "from_i64", "to_i64", "montyred", "xmul", "xinv")
    pool = [c for k, c in cases("quick", rng) if c.split(" ", 1)[0] in ops]
    rng.shuffle(pool)
    sample = pool[:3000 if ctx["tier"] == "quick" else 30000]
    lines = ["%d %s" % (i, c) for i, c in enumerate(sample)]
    a, _, _ = runner.run_lines(ctx["oracle"], [], lines, 900)
    b, _, _ = runner.run_lines(exe, [], lines, 900)
    if a is None or b is None:
        return {"violations": [{"kind": "pure-extraction-run-failed", "no_input": True}], "info": info}
    bad = 0
    for i, c in enumerate(sample):
        x, y = a.get(str(i)), b.get(str(i))
        if x is not None and x.startswith("SPECDIFF"):
            continue
        if x != y:
            bad += 1
            if len(viol) < 3:
                viol.append({"kind": "extraction-cross-check", "case": c, "impl": "zarith-mapped: %s" % x, "model": "pure: %s" % y,
                             "why": "the zarith-mapped extraction and the pure extraction of the same model disagree"})
    info["pure_extraction_sample"] = len(sample)
    info["pure_extraction_mismatches"] = bad
    return {"violations": viol, "info": info}
