"""C02 - the Tip5 permutation, its trace and the fixed-length hashes conform to the Tip5 specification."""
from props import tip5_py as T

ID = "C02"
GEN_TAGS = ["Tip5Gen", "gen_tip5"]
PROOF_TARGETS = ["proofs/Tip5Proofs.vo"]
PROPS_FILE = "props/C02.v"
EXTRACT = "extract/ExtractC02.vo"
ORACLE = ("gen_c02", "c02.ml")
HARNESS = "c02"
PROFILES = ["release", "checked"]
RUN_TIMEOUT = {"quick": 600, "thorough": 3000}
P = T.P

TRUSTED = [
    "Coq 8.16.1 kernel and its bytecode VM (vm_compute for the 256-entry table, the 80 round constants and the 16x16 coefficient matrix of the SSA program); no native_compute",
    "tools/rs2v.py + tools/gen/gen_tip5.py (tables; generated_function parsed into the SSA language of coq/model/Tip5Ssa.v; the two loop bodies of mds_generated as straight-line functions after a strict shape check of the whole function) and coq/lib/Word.v",
    "extraction: ExtrOcamlBasic + ExtrOcamlZBigInt (positive, N, Z -> zarith) + the directive of coq/extract/ExtractC02.v mapping Z.pow to zarith exponentiation (0 for negative exponents), FMapPositive as extracted, OCaml 4.13.1, zarith 1.12",
    "correspondence harness (harness/src/bin/c02.rs), oracle driver (ocaml/c02.ml), case generator (tools/props/c02.py, tools/props/tip5_py.py)",
    "modelled by hand, tied by the correspondence only: the loops of sbox_layer / mds_generated / round / permutation / trace over the 16 elements, the little-endian byte split of split_and_lookup, Tip5::new, hash_10, hash_pair, Digest::hash",
    "verified through the translator (re-proved on regenerated definitions): LOOKUP_TABLE, ROUND_CONSTANTS, MDS_MATRIX_FIRST_COLUMN, generated_function (as a linear map), the lane recombination, bfe_add / bfe_mul",
    "the specification's constants (first MDS column, 80 round constants) are golden literals of coq/spec/Tip5Spec.v; their derivation from SHA-256 / BLAKE3 is not re-proved (the repository's tests re-derive them)",
]
ASSUMPTIONS = [
    "states are built through the value-level API (canonical words); BFieldElement::from_raw_u64 with a word >= p is outside the property",
    "the mds_cyclomul / fast_cyclomul16 code path is dead code (#[allow(dead_code)]) and is not modelled",
]
RULE = ("states engineered at the S-box OUTPUT and pulled back through the S-box (all p-1; single large entries; raw words "
        "maximising the 32-bit limb accumulations; lane sums solved to land in [p, 2^64) and to overflow 64 bits; bytes "
        "0x00/0xff in the lookup lanes; entries 0/1/p-1), the suite's pinned hash_10 chain, seeded random; "
        "non-trivial = every case; distinct = distinct case text")

PINNED_FINAL = [10869784347448351760, 1853783032222938415, 6856460589287344822, 17178399545409290325, 7650660984651717733]
EXPECT = {}


def fmt(op, vals):
    return "%s %s" % (op, " ".join(str(v) for v in vals))


def rword(rng):
    """a canonical Montgomery word, boundary-weighted"""
    c = rng.random()
    if c < 0.25:
        return rng.choice((0, 1, P - 1, P - 2, 0xffffffff, 0x100000000, 0xfffffffeffffffff, 0xffffffff00000000,
                           0x00000000ffffffff, 0xffffffff, 0xfffffffe00000001, 0x8000000000000000, 0x7fffffffffffffff,
                           0x00ff00ff00ff00ff, 0xff00ff00ff00ff00 % P, 0xfffffffe00000000, 0xfffffffeffffff00))
    if c < 0.35:
        return (rng.randrange(2**32 - 16, 2**32) << 32 | rng.randrange(0, 2**32)) % P
    if c < 0.45:
        return rng.randrange(0, 2**32) << 32 | rng.randrange(2**32 - 16, 2**32)
    return rng.randrange(0, P)


def solve_noncanonical(rng, r, e):
    """MDS input words whose lane r sum is congruent to e (mod p): for 0 <= e < 2^32-1 the lane result is p + e"""
    k = rng.randrange(16)
    w = [rword(rng) for _ in range(16)]
    c = T.COL[(r - k) % 16]
    rest = sum(T.COL[(r - j) % 16] * w[j] for j in range(16) if j != k)
    w[k] = (e - rest) * pow(c, -1, P) % P
    return w


def solve_over(rng, r, delta):
    """MDS input words whose lane r has s_lo within ~2^21 of 2^64: the overflowing_add carries"""
    for _ in range(50):
        k = rng.randrange(16)
        w = [rword(rng) for _ in range(16)]
        c = T.COL[(r - k) % 16]
        rest = sum(T.COL[(r - j) % 16] * w[j] for j in range(16) if j != k)
        a0 = rng.randrange(0, P // 2)
        m = ((rest + c * a0) >> 64) + 1
        ak = (m * 2**64 - 1 - delta - rest) // c
        if 0 <= ak < P:
            w[k] = ak
            return w
    return None


def solve_slo_below_shi(rng, r):
    """MDS input words whose lane r has s_lo < s_hi (the low 64 bits of the exact lane sum are smaller than the carry
    word): a narrow window (< 2^-45 of all states) in which shift/subtract rewrites of `s_hi * 0xffffffff` go wrong"""
    for _ in range(200):
        k = rng.randrange(16)
        w = [rng.randrange(P // 2, P) for _ in range(16)]
        c = T.COL[(r - k) % 16]
        rest = sum(T.COL[(r - j) % 16] * w[j] for j in range(16) if j != k)
        a0 = rng.randrange(0, P)
        m = ((rest + c * a0) >> 64)
        ak = -((rest - m * 2**64) // c)          # smallest ak with rest + c*ak >= m*2^64
        if 0 <= ak < P:
            w[k] = ak
            S = rest + c * ak
            if (S & (2**64 - 1)) < (S >> 64):
                return w
    return None


def cases(tier, rng):
    out = []
    big = tier == "thorough"
    if T.TABLE is None:
        # tables of the source could not be read by the generator: only table-free classes
        for _ in range(500):
            out.append(("random", fmt("perm", [rng.randrange(P) for _ in range(16)])))
        return out
    # ---- the suite's pinned vector: the chained hash_10 of hash10_test_vectors
    pre = [0] * 10
    for i in range(6):
        d = T.hash10(pre)
        out.append(("pinned", fmt("hash10", pre)))
        pre[i:i + 5] = d
    c = fmt("hash10", pre)
    out.append(("pinned", c))
    EXPECT[c] = " ".join(str(T.mont(v)) for v in PINNED_FINAL)
    # ---- 0 / 1 / p-1 entries
    for v in (0, 1, P - 1, 2, P - 2):
        out.append(("const-state", fmt("perm", [v] * 16)))
        out.append(("const-state", fmt("trace", [v] * 16)))
        out.append(("const-state", fmt("hash10", [v] * 10)))
        out.append(("const-state", fmt("hashpair", [v] * 10)))
        out.append(("const-state", fmt("digest_hash", [v] * 5)))
    for pos in range(16):
        for v in (1, P - 1):
            st = [0] * 16
            st[pos] = v
            out.append(("unit-state", fmt("perm", st)))
            st = [P - 1] * 16
            st[pos] = 0 if v == 1 else 1
            out.append(("unit-state", fmt("trace", st)))
    for _ in range(2000 if big else 60):
        out.append(("zero-one-pm1", fmt(rng.choice(("perm", "trace")), [rng.choice((0, 1, P - 1)) for _ in range(16)])))
    # ---- engineered at the S-box output (= MDS input), pulled back through the S-box
    W1 = 0xffffffff00000000      # p - 1 : high limb maximal
    W2 = 0xfffffffeffffffff      # largest canonical word with maximal low limb
    W3 = 0xfffffffe00000000
    eng = [[W1] * 16, [W2] * 16, [W3] * 16, [0xffffffff] * 16, [W1, W2] * 8, [W2, W1] * 8,
           [W1] * 8 + [W2] * 8, [W2] * 8 + [W1] * 8, [P - 2] * 16, [1] * 16, [0] * 16]
    for w in eng:
        out.append(("sbox-out-extreme", fmt("perm", T.pullback_words(w))))
        out.append(("sbox-out-extreme", fmt("trace", T.pullback_words(w))))
    for pos in range(16):
        for big_w in (W1, W2, P - 2, 0xffffffff, 0x100000000):
            w = [0] * 16
            w[pos] = big_w
            out.append(("sbox-out-single-large", fmt("perm", T.pullback_words(w))))
            w = [W2] * 16
            w[pos] = big_w
            out.append(("sbox-out-single-large", fmt("perm", T.pullback_words(w))))
    # raw words on the input side (value = word * R^-1): extreme words entering the S-box / lookup
    for w in eng:
        out.append(("raw-in-extreme", fmt("perm", [T.val(x) for x in w])))
    # ---- bytes 0x00 / 0xff in the lookup lanes
    pats = [0x0000000000000000, 0x00000000000000ff, 0xff00000000000000 % P, 0x00ff00ff00ff00ff, 0xff00ff00ff00ff00 % P,
            0xffffffff00000000, 0x00000000ffffffff, 0xfffffffeffffffff, 0xfffffffe000000ff, 0x00ffffffffffffff,
            0xffffff00ffffffff % P, 0xffffffff00000000 - 0xff, 0x0100000000000000, 0xfeffffffffffffff, 0x00000000ff0000ff,
            0xfffffffe00000000, 0xffffffff00000000 - 1]
    for i, a in enumerate(pats):
        for lane in range(4):
            st = [rng.randrange(P) for _ in range(16)]
            st[lane] = T.val(a % P)
            out.append(("lookup-bytes-00-ff", fmt("perm", st)))
        st = [T.val(pats[(i + j) % len(pats)] % P) for j in range(4)] + [rng.randrange(P) for _ in range(12)]
        out.append(("lookup-bytes-00-ff", fmt("trace", st)))
    for _ in range(3000 if big else 100):
        st = [rng.randrange(P) for _ in range(16)]
        for lane in range(4):
            w = 0
            for b in range(8):
                w |= rng.choice((0, 0xff, 0xff, 0, rng.randrange(256))) << (8 * b)
            st[lane] = T.val(w % P)
        out.append(("lookup-bytes-00-ff", fmt("perm", st)))
    # ---- lane sums landing in [p, 2^64) (non-canonical MDS output) and at the edges of that window
    reps = 40 if big else 2
    for r in range(16):
        for e in [0, 1, 2, 2**31, 2**32 - 3, 2**32 - 2, 2**32 - 1, P - 1, P - 2] * reps:
            if e >= 2**32 - 1 or reps == 1 or rng.random() < 0.5:
                ee = e
            else:
                ee = rng.randrange(0, 2**32 - 1)
            w = solve_noncanonical(rng, r, ee)
            lbl = "lane-noncanonical" if "noncanonical" in T.lane_class(w) else "lane-window-edge"
            out.append((lbl, fmt(rng.choice(("perm", "trace")), T.pullback_words(w))))
        for delta in [0, 1, 2**20, 2**40] * reps:
            w = solve_over(rng, r, delta if reps == 1 else rng.randrange(0, 2**21))
            if w is not None:
                lbl = "lane-overflow-64" if "over" in T.lane_class(w) else "lane-near-overflow"
                out.append((lbl, fmt(rng.choice(("perm", "trace")), T.pullback_words(w))))
        for _ in range(6 * reps):
            w = solve_slo_below_shi(rng, r)
            if w is not None:
                out.append(("lane-slo-below-shi", fmt(rng.choice(("perm", "trace")), T.pullback_words(w))))
    # several lanes non-canonical at once: solve a linear system would be needed; use the circulant structure:
    # MDS input = M^-1 (targets) gives all 16 lane sums congruent to chosen small values
    for _ in range(2000 if big else 40):
        targets = [rng.choice((0, 1, 2**32 - 2, rng.randrange(2**32 - 1), rng.randrange(P))) for _ in range(16)]
        w = T.mds_inv(targets)
        out.append(("all-lanes-noncanonical" if "noncanonical" in T.lane_class(w) else "lanes-solved",
                    fmt(rng.choice(("perm", "trace")), T.pullback_words(w))))
    # ---- inverse images: states whose permutation is a chosen state (0 / 1 / p-1 / extreme words on the OUTPUT side)
    for tgt in ([0] * 16, [1] * 16, [P - 1] * 16, [T.val(W1)] * 16, [T.val(W2)] * 16):
        out.append(("preimage", fmt("perm", T.perm_inv(tgt))))
        out.append(("preimage", fmt("trace", T.perm_inv(tgt))))
    # ---- boundary-weighted words and random values
    n = 60000 if big else 900
    for i in range(n):
        st = [T.val(rword(rng)) for _ in range(16)] if i % 2 else [rng.randrange(P) for _ in range(16)]
        op = rng.choice(("perm", "perm", "trace"))
        out.append(("random", fmt(op, st)))
    for i in range(n // 3):
        st = [T.val(rword(rng)) if rng.random() < 0.3 else rng.randrange(P) for _ in range(10)]
        out.append(("random-hash", fmt(rng.choice(("hash10", "hashpair")), st)))
        out.append(("random-hash", fmt("digest_hash", st[:5])))
    # values >= p given to BFieldElement::new are reduced: the same state
    for _ in range(20):
        st = [rng.randrange(P, 2**64) for _ in range(16)]
        out.append(("values-above-p", fmt("perm", st)))
    return out


def compare(case, impl, model):
    if impl != model:
        return "implementation and model/spec differ"
    exp = EXPECT.get(case)
    if exp is not None and impl != exp:
        return "pinned vector of the suite (hash10_test_vectors) not reproduced"
    return None
