"""C04 - Merkle inclusion-proof verification is sound, exact and total.

Case lines (shared with C10; harness/src/bin/c04.rs and ocaml/c04.ml):
  build <cutoff> <n> <ls>                       tree construction (cutoff is used by the model only)
  node|leaf <n> <ls> <i>                        accessors on the tree over (n, ls)
  ileafs|auth|proof|honest <n> <ls> <i>*        indexed_leafs / authentication_structure /
                                                inclusion_proof_for_leaf_indices / proof+verify+paths
  verify <h> <root> <k> (<i> <term>){k} <auth term>*
  paths  <h> <k> (<i> <term>){k} <auth term>*
Terms: a<k> | D | N(t,t) | t(n,ls,x) (node x of the tree over the leaf spec).  Leaf specs: s<b> c<k> m<k>.
The harness prints `<profile> <result>`; the oracle prints `<model rel> ## <model chk> ## <spec or ->`.
"""
import itertools

ID = "C04"
GEN_TAGS = ["MerkleGen"]
PROOF_TARGETS = ["proofs/MerkleProofs.vo"]
PROPS_FILE = "props/C04.v"
EXTRACT = "extract/ExtractC04.vo"
ORACLE = ("gen_c04", "c04.ml")
HARNESS = "c04"
PROFILES = ["release", "checked"]
RUN_TIMEOUT = {"quick": 900, "thorough": 3000}
U = 2 ** 64

TRUSTED = [
    "Coq 8.16.1 kernel and its bytecode VM (vm_compute only in the two refutation witnesses and the Examples); no native_compute",
    "hand-written model coq/model/Merkle.v of merkle_tree.rs (every loop, HashSet/HashMap as lists, usize arithmetic through uadd/umul with release wrap / checked panic), tied to the code only by the correspondence run",
    "extraction: ExtrOcamlBasic + ExtrOcamlZBigInt (Z/positive/N -> zarith), OCaml 4.13.1, zarith 1.12; nat stays unary",
    "correspondence harness harness/src/bin/c04.rs (term <-> digest table: a term is printed for a digest only if it evaluates to it under the real Tip5), oracle driver ocaml/c04.ml, generator tools/props/c04.py",
    "free-hash correspondence: structural equality of terms agrees with digest equality unless Tip5 collides on the evaluated terms (a collision can only cause a spurious mismatch)",
    "results longer than 2000 characters are compared through a 64-bit FNV-1a fingerprint of the identical text",
    "derived PartialEq/Eq/Hash on Digest are structural; HashMap/HashSet behave as finite maps/sets",
]
ASSUMPTIONS = [
    "usize is 64 bit; a slice of digests has fewer than 2^58 elements (40-byte items), so from_digests' own index arithmetic cannot overflow",
    "theorems about honest trees are stated for heights <= 31 (MAX_TREE_HEIGHT); from_digests itself does not reject larger inputs",
    "sound: the tree height stated in the proof equals the height of the honest tree",
]
RULE = ("exhaustive small heights over index multisets with honest, truncated and extended authentication structures; "
        "seeded random heights up to 12 (14 thorough) with systematic mutations (height, indices, digests, order, root); accessor "
        "indices over usize extremes; both build profiles; every case is non-trivial; distinct = distinct case text")


# ------------------------------------------------------------------ generator helpers (not trusted: a wrong helper
# only lowers coverage; the expected result always comes from the Coq model and specification)
def auth_nodes(n, idxs):
    needed, comp = set(), set()
    for i in idxs:
        x = n + i
        while x > 1:
            comp.add(x)
            needed.add(x ^ 1)
            x //= 2
    return sorted(needed - comp, reverse=True)


def T(n, ls, x):
    return "t(%d,%s,%d)" % (n, ls, x)


def vline(op, h, root, il, auth):
    parts = [op, str(h)]
    if op == "verify":
        parts.append(root)
    parts.append(str(len(il)))
    for i, d in il:
        parts += [str(i), d]
    parts += auth
    return " ".join(parts)


def honest(n, ls, idxs):
    h = n.bit_length() - 1
    il = [(i, T(n, ls, n + i)) for i in idxs]
    auth = [T(n, ls, x) for x in auth_nodes(n, idxs)]
    return h, T(n, ls, 1), il, auth


EXTREMES = [0, 1, 2, 3, 2 ** 31 - 1, 2 ** 31, 2 ** 32 - 1, 2 ** 32, 2 ** 32 + 1, 2 ** 63 - 1, 2 ** 63, 2 ** 63 + 1, U - 1, U - 2, U - 3,
            U - 4, U - 5, U - 6, U - 7, U - 8, U - 9, U - 15, U - 16, U - 17, U - 2 ** 32]


def accessor_indices(n):
    s = set(EXTREMES)
    for b in (n, 2 * n, U - n, U - 2 * n, 2 ** 63 - n, 2 ** 63 + n):
        for d in (-2, -1, 0, 1, 2):
            if 0 <= b + d < U:
                s.add(b + d)
    for j in range(0, 2 * n, max(1, n // 4)):
        s.add(U - n + j if U - n + j < U else 0)
    return sorted(s)


def mutations(rng, n, ls, idxs, tag):
    """systematically malformed variants of the honest proof for (n, ls, idxs)"""
    out = []
    h, root, il, auth = honest(n, ls, idxs)

    def add(kind, h_, root_, il_, auth_, paths=True):
        out.append((tag + kind, vline("verify", h_, root_, il_, auth_)))
        if paths:
            out.append((tag + kind + "-paths", vline("paths", h_, root_, il_, auth_)))

    add("honest", h, root, il, auth)
    # wrong heights
    for h2 in sorted({0, max(0, h - 1), h + 1, 31, 32, 33, 63, 64, 2 ** 63, U - 1} - {h}):
        add("height", h2, root, il, auth, paths=(h2 in (0, h - 1, h + 1, 32, U - 1)))
    # authentication structure: missing / surplus / permuted / replaced
    if auth:
        k = rng.randrange(len(auth))
        add("auth-missing", h, root, il, auth[:k] + auth[k + 1:])
        add("auth-missing-last", h, root, il, auth[:-1], paths=False)
        add("auth-replaced", h, root, il, auth[:k] + ["a%d" % rng.randrange(10 ** 6, 2 * 10 ** 6)] + auth[k + 1:])
        if len(auth) > 1:
            j = rng.randrange(len(auth) - 1)
            a2 = list(auth)
            a2[j], a2[j + 1] = a2[j + 1], a2[j]
            add("auth-swapped", h, root, il, a2)
            add("auth-reversed", h, root, il, auth[::-1], paths=False)
    surplus = rng.choice(["a999", "D", root, auth[0] if auth else "a5"])
    add("auth-surplus", h, root, il, auth + [surplus])
    add("auth-surplus-front", h, root, il, [surplus] + auth, paths=False)
    # leafs: repeated (equal / conflicting), wrong digest, index extremes, order
    if il:
        k = rng.randrange(len(il))
        i, d = il[k]
        pos = rng.randrange(len(il) + 1)
        add("leaf-repeated-equal", h, root, il[:pos] + [(i, d)] + il[pos:], auth)
        add("leaf-repeated-conflict", h, root, il[:pos] + [(i, "a%d" % (10 ** 6 + i))] + il[pos:], auth)
        add("leaf-repeated-conflict-first", h, root, [(i, "a%d" % (10 ** 6 + i))] + il, auth, paths=False)
        # the all-zero digest (Digest::default(), term D) as a claimed leaf: must not be confused with "slot not set"
        add("leaf-repeated-default-first", h, root, [(i, "D")] + il, auth)
        add("leaf-repeated-default-before", h, root, il[:k] + [(i, "D")] + il[k:], auth)
        add("leaf-repeated-default-after", h, root, il[:k + 1] + [(i, "D")] + il[k + 1:], auth)
        add("leaf-default-digest", h, root, il[:k] + [(i, "D")] + il[k + 1:], auth)
        add("leaf-wrong-digest", h, root, il[:k] + [(i, "a%d" % (10 ** 6 + i))] + il[k + 1:], auth)
        add("leaf-inner-node-as-leaf", h, root, il[:k] + [(i, root)] + il[k + 1:], auth, paths=False)
        for i2 in (n - 1, n, n + i, 2 ** 63, 2 ** 63 + i, U - 1, U - n + i, U - n - 1, (U - n) // 2 + i):
            if i2 != i and 0 <= i2 < U:
                add("leaf-index", h, root, il[:k] + [(i2, d)] + il[k + 1:], auth, paths=(i2 in (n, U - 1, U - n + i)))
        add("leaf-dropped", h, root, il[:k] + il[k + 1:], auth)
        il2 = list(il)
        rng.shuffle(il2)
        add("leaf-shuffled", h, root, il2, auth)
    j = rng.randrange(n)
    add("leaf-added", h, root, il + [(j, T(n, ls, n + j))], auth)
    # root
    add("root-wrong", h, "a31337", il, auth, paths=False)
    add("root-default", h, "D", il, auth, paths=False)
    if n > 1:
        add("root-child", h, T(n, ls, 2), il, auth, paths=False)
    return out


def small_exhaustive(rng, hmax, size3_sample):
    """heights 0..hmax: every index multiset of size <= 3 (one random order each), honest proof through the
    implementation's own prover, and |A|-1, |A|, |A|+1 variants through verify."""
    out = []
    for h in range(0, hmax + 1):
        n = 1 << h
        ls = rng.choice(["s0", "s0", "s100", "m2", "m3", "c7"]) if h > 0 else "s0"
        for size in range(0, 4):
            ms = list(itertools.combinations_with_replacement(range(n), size))
            if size == 3 and size3_sample is not None and len(ms) > size3_sample:
                ms = rng.sample(ms, size3_sample)
            for m in ms:
                idxs = list(m)
                rng.shuffle(idxs)
                tag = "h%d-k%d-" % (h, size)
                out.append((tag + "honest", "honest %d %s %s" % (n, ls, " ".join(map(str, idxs)))))
                hh, root, il, auth = honest(n, ls, idxs)
                out.append((tag + "A", vline("verify", hh, root, il, auth)))
                if auth:
                    k = rng.randrange(len(auth))
                    out.append((tag + "A-1", vline("verify", hh, root, il, auth[:k] + auth[k + 1:])))
                out.append((tag + "A+1", vline("verify", hh, root, il, auth + [rng.choice(auth) if auth else "a1"])))
    return out


def cases(tier, rng):
    big = tier == "thorough"
    out = []
    # --- accessors over usize extremes
    for n in (1, 2, 4, 8, 64, 1024):
        ls = "s0"
        for i in accessor_indices(n):
            out.append(("accessor-leaf", "leaf %d %s %d" % (n, ls, i)))
            out.append(("accessor-node", "node %d %s %d" % (n, ls, i)))
        ext = accessor_indices(n)
        for i in ext[::3]:
            out.append(("accessor-ileafs", "ileafs %d %s %d" % (n, ls, i)))
            out.append(("accessor-ileafs", "ileafs %d %s 0 %d" % (n, ls, i)))
            out.append(("accessor-ileafs", "ileafs %d %s %d 0 %d" % (n, ls, i, n - 1)))
            out.append(("accessor-proof", "proof %d %s %d" % (n, ls, i)))
            out.append(("accessor-proof", "proof %d %s %d %d" % (n, ls, n - 1, i)))
            out.append(("accessor-auth", "auth %d %s %d" % (n, ls, i)))
            out.append(("accessor-auth", "auth %d %s 0 %d" % (n, ls, i)))
    # --- trivial proofs
    for h in (0, 1, 5, 31, 32, 2 ** 63, U - 1):
        out.append(("trivial", vline("verify", h, "a1", [], [])))
        out.append(("trivial", vline("paths", h, "a1", [], [])))
        out.append(("trivial-nonempty-auth", vline("verify", h, "a1", [], ["a1"])))
        out.append(("trivial-nonempty-auth", vline("paths", h, "a1", [], ["a1"])))
    # --- heights 0..6 exhaustive over multisets of size <= 3
    out += small_exhaustive(rng, 6, None if big else 600)
    # --- systematic mutations: small heights densely, random heights up to 12 / 16
    for h in range(0, 7):
        n = 1 << h
        for rep in range(6 if not big else 30):
            k = rng.choice([1, 1, 2, 2, 3, 4, 5])
            idxs = [rng.randrange(n) for _ in range(k)]
            ls = rng.choice(["s0", "s7", "m2", "m3", "c1"])
            out += mutations(rng, n, ls, idxs, "mut-small-")
    hmax = 14 if big else 12
    for rep in range(400 if big else 60):
        h = rng.randrange(7, hmax + 1)
        n = 1 << h
        k = rng.choice([1, 2, 3, 4, 8, 16])
        idxs = [rng.randrange(n) for _ in range(k)]
        if rng.random() < 0.3:
            idxs.append(rng.choice(idxs))
        if rng.random() < 0.3:
            idxs.append(idxs[0] ^ 1)
        ls = rng.choice(["s0", "m2", "m5", "c1"])
        out.append(("random-honest", "honest %d %s %s" % (n, ls, " ".join(map(str, idxs)))))
        out += mutations(rng, n, ls, idxs, "mut-random-")
    # --- heights 30..32 with indices near the top (no honest tree is built; structure only)
    for h in (30, 31):
        n = 1 << h
        for idxs in ([0], [n - 1], [0, n - 1], [n // 2, n // 2 - 1], [5, 5], [n], [U - 1]):
            il = [(i, "a%d" % (i % 1000)) for i in idxs]
            k = len(auth_nodes(n, [i for i in idxs if i < n])) if all(i < n for i in idxs) else 3
            for dk in (-1, 0, 1):
                auth = ["a%d" % j for j in range(max(0, k + dk))]
                out.append(("tall", vline("verify", h, "a1", il, auth)))
                if dk == 0:
                    out.append(("tall", vline("paths", h, "a1", il, auth)))
    return out


def split(impl, model):
    parts = model.split(" ## ")
    prof, _, res = impl.partition(" ")
    if len(parts) != 3 or prof not in ("rel", "chk"):
        return None
    return prof, res, (parts[0] if prof == "rel" else parts[1]), parts[2]


def compare(case, impl, model):
    s = split(impl, model)
    if s is None:
        return "malformed output"
    prof, res, mod, spec = s
    if mod != "-" and res != mod:
        return "implementation (%s) differs from the model" % prof
    if spec != "-" and res != spec:
        return "implementation (%s) agrees with the model but violates the specification" % prof
    return None
