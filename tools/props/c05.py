"""C05 - MMR membership proofs stay exact through every history; verification exact."""
from props import mmr_common as mc

ID = "C05"
GEN_TAGS = ["MmrIndexGen"]
PROOF_TARGETS = ["proofs/MmrProofs.vo", "proofs/MmrSmall.vo", "proofs/MmrUpdates.vo", "proofs/MmrBatch.vo", "proofs/MmrHistory.vo",
                 "proofs/MmrAppend.vo", "proofs/MmrIdxTie.vo", "proofs/MmrMutate.vo", "proofs/MmrBatchGen.vo", "proofs/MmrAllSizes.vo"]
PROPS_FILE = "props/C05.v"
EXTRA_PROPS_FILES = ["props/C05b.v", "props/C05c.v"]
EXTRACT = "extract/ExtractMmr.vo"
ORACLE = ("gen_mmr", "mmr.ml")
HARNESS = "mmr"
PROFILES = ["release", "checked"]
RUN_TIMEOUT = {"quick": 900, "thorough": 3400}

TRUSTED = [
    "Coq 8.16.1 kernel and its bytecode VM; no native_compute",
    "coq/lib/Word.v (count_ones, leading_zeros) as the meaning of the Rust bit intrinsics",
    "hand-written model coq/model/Mmr.v of mmr_membership_proof.rs, mmr_accumulator.rs, shared_basic.rs (calculate_new_peaks_*), mmr_trait.rs, tied to the code only by the correspondence check; its index functions (coq/model/MmrIdxLocal.v) are PROVED equal, on all u64 arguments including the panic outcome, to the functions of gen/MmrIndexGen.v (regenerated from shared_basic.rs / shared_advanced.rs on every run, with their generated side conditions) and the loops of model/MmrIndex.v around them (C05_index_functions_regenerated, proofs/MmrIdxTie.v); the loops of MmrIndex.v themselves (rll_height_loop, rll_node_rec, added_loop, auth_path_loop, peaks_loop) are hand-written and tied to the code by the C16 correspondence",
    "extraction: ExtrOcamlBasic + ExtrOcamlZBigInt, Z.pow mapped to zarith's power function, OCaml 4.13.1, zarith 1.12",
    "correspondence harness harness/src/bin/mmr.rs (shadow forest naming digests by terms; it also supplies the valid proofs of mutated leafs), oracle driver ocaml/mmr.ml, case generators tools/props/c05.py + mmr_common.py",
    "free hash: distinct terms are assumed to have distinct Tip5 evaluations and distinct 61-bit fingerprints",
    "HashMap/HashSet modelled as association lists / lists; the only iteration (`intersection.next()` twice) is order independent: 0 elements -> false, 1 -> it, >= 2 -> assert panic",
    "the statement of the property as transcribed in coq/spec/MmrSpec.v and coq/props/C05.v",
]
ASSUMPTIONS = [
    "leaf counts < 2^63 for the update routines; verification is modelled for all u64 (index, count) pairs",
    "arithmetic overflow is modelled as a panic (checked build); a release build would wrap (only for counts >= 2^63)",
    "a peak list of 2^32 or more digests makes `len().try_into::<u32>().unwrap()` panic: `verify never panics` carries length < 2^32",
    "proved in general (all leaf counts < 2^63): verify_iff / never panics, append returns the path, update_from_append, batch_update_from_append (props/C05b.v), update_from_leaf_mutation, batch_update_from_leaf_mutation, batch_update_from_batch_leaf_mutation, batch_mutate_leaf_and_update_mps (exact paths and exact flag / `modified`), and the history invariant C05_history_inv for every valid history of appends, mutations and batch mutations (props/C05b.v; C05_history_inv_modulo_append_partial and the *_small_partial theorems of props/C05.v are superseded but kept)",
    "`valid proof` means: the authentication path of the specification (path ls i); C05_path_verifies shows it verifies; uniqueness of verifying paths would need collision resistance of H and is not claimed",
    "props/C05c.v (general, all leaf counts < 2^63): the exact flag of update_from_leaf_mutation (uflm_flag: the mutated leaf is another leaf of the same tree; exact w.r.t. `path changed` only for a really new leaf value), a repeated leaf index in a batch is a panic of both batch routines, and the VALIDITY FORM of the mutation / batch-mutation theorems: for every proof that verifies (not only path ls i) under the explicit hypothesis that H is collision-free (forall a b c e, H a b = H c e -> a = c /\\ b = e; the free term algebra is an instance) - C05_verify_sound shows that what verifies is the leaf and its specification path",
]
RULE = ("SYNTHETIC accumulators MmrAccumulator::init(peaks, count) with hand-built valid proofs for bit-pattern counts up to 2^63-1 (2^k, 2^k-1, >= 33 trailing ones, count XOR index just below a power of two) through verify / append-update / mutate / batch-mutate / verify_batch_update; operation histories of 1..300 (quick) / ..3000 (thorough) ops mixing append/mutate/batch-mutate through every update "
        "routine, tracked subsets in random hand-over order, counts steered through 2^k-1 -> 2^k, mutated leafs that are "
        "siblings / share ancestors / keep the old value; exhaustive small scope (counts <= 16, mutation subsets <= 3, tracked "
        "subsets <= 2); malformed verification claims around every structural bound; distinct = distinct case text")


def vfy_cases(rng, big):
    out = []
    counts = set()
    for k in range(0, 64):
        for d in (-1, 0, 1):
            v = 2 ** k + d
            if 0 <= v < 2 ** 64:
                counts.add(v)
    counts |= {2 ** 64 - 1, 2 ** 64 - 2, 2 ** 63 + 2 ** 62, 0xAAAAAAAAAAAAAAAA, 0x5555555555555555, 2 ** 63 - 1, 2 ** 63 + 1}
    for n in range(0, 40):
        counts.add(n)
    for _ in range(300 if big else 60):
        counts.add(rng.randrange(0, 2 ** 64))
        counts.add(rng.randrange(0, 2 ** rng.randrange(1, 64)))
    for n in sorted(counts):
        idxs = {0, 1, n - 1, n, n + 1, n // 2, n ^ 1, 2 ** 63, 2 ** 64 - 1, n & (n - 1) if n else 0}
        if n:
            idxs |= {n - (n & -n), n - (n & -n) - 1}         # first leaf of the last tree, last leaf of the one before
            idxs |= {rng.randrange(0, n) for _ in range(3)}
        for i in sorted(x for x in idxs if 0 <= x < 2 ** 64):
            klass = "verify-index>=count" if i >= n else "verify-in-range"
            out.append((klass, "vfy %d %d 0 0 1" % (n, i)))
            if i < n or n < 50:
                out.append(("verify-wrong-peak", "vfy %d %d 0 0 0" % (n, i)))
                for dp in (-1, 1):
                    out.append(("verify-peak-count", "vfy %d %d %d 0 1" % (n, i, dp)))
                    out.append(("verify-path-length", "vfy %d %d 0 %d 1" % (n, i, dp)))
                out.append(("verify-path-length", "vfy %d %d 0 -99 1" % (n, i)))
                out.append(("verify-path-length", "vfy %d %d 0 3 0" % (n, i)))
                out.append(("verify-peak-count", "vfy %d %d -99 0 1" % (n, i)))
    # every (count, index) for small counts
    for n in range(0, 34 if not big else 130):
        for i in range(0, n + 2):
            out.append(("verify-small-exhaustive", "vfy %d %d 0 0 1" % (n, i)))
    return out


def cases(tier, rng):
    big = tier == "thorough"
    out = vfy_cases(rng, big)
    out += mc.syn_cases(rng, big, ("v", "a", "m", "b", "w", "wx"))
    nh = 500 if big else 140
    for k in range(nh):
        nops = rng.choice((1, 2, 3, 5, 8, 13, 24, 25, 40, 80, 150, 300))
        out.append(("history-random", mc.random_history(rng, nops, steer=False)))
        out.append(("history-carry-steered", mc.random_history(rng, nops, steer=True)))
    if big:
        for k in range(8):
            out.append(("history-long", mc.random_history(rng, 3000, steer=(k % 2 == 0), track_bias=0.03)))
        ss = mc.small_scope(rng, range(1, 17), 3, 2, kinds="bB")
    else:
        ss = mc.small_scope(rng, range(1, 17), 3, 2, trk_sample=5, mut_sample=60, kinds="bB")
    for line in ss:
        out.append(("small-scope-exhaustive", line))
    return out


def compare(case, impl, model):
    if "SPECDIFF" in model or model.startswith("ORACLE-ERROR"):
        return "model disagrees with the specification: " + model[model.find("SPECDIFF"):][:120]
    return None if impl == model else "implementation and model differ"
