"""C06 - NTT is the discrete Fourier transform over the field; INTT is its inverse."""
ID = "C06"
GEN_TAGS = ["BFieldGen"]
PROOF_TARGETS = ["proofs/NttNoswap.vo", "proofs/XFieldNtt.vo"]
PROPS_FILE = "props/C06.v"
EXTRACT = "extract/ExtractC06.vo"
ORACLE = ("gen_c06", "c06.ml")
HARNESS = "c06"
PROFILES = ["release", "checked"]
RUN_TIMEOUT = {"quick": 600, "thorough": 3000}
P = 2**64 - 2**32 + 1

TRUSTED = [
    "Coq 8.16.1 kernel and its bytecode VM (vm_compute for the 34-entry root table and Lucas.v); no native_compute",
    "tools/rs2v.py translator (PRIMITIVE_ROOTS table, BFieldElement straight-line operators) and coq/lib/Word.v",
    "extraction: ExtrOcamlBasic + ExtrOcamlZBigInt plus one directive of coq/extract/ExtractC06.v (Z.pow -> zarith power), "
    "OCaml 4.13.1, zarith 1.12",
    "correspondence harness (harness/src/bin/c06.rs), oracle driver (ocaml/c06.ml), case generator (tools/props/c06.py)",
    "modelled by hand, tied by correspondence only: all of ntt.rs (coq/model/Ntt.v: swap loop run literally on a functional "
    "array, butterfly stages as block-wise list traversals with the running twiddle threaded as in the code, noswap "
    "variants with the bit-reversed twiddle table built by the array loop, length checks / unwraps as None), and the "
    "mod_pow / inverse loops of C01 that the twiddles go through",
    "verified through the translator: PRIMITIVE_ROOTS (C06_roots_table / C06_roots_table_keys are re-proved on the "
    "regenerated table on every run), BFieldElement new/add/sub/mul/neg (C01 lemmas, re-proved on regenerated code)",
    "XFieldElement enters ntt.rs only through +, - and *= BFieldElement; the model's xadd/xsub/xscale are component-wise "
    "base-field operations (coq/model/XField.v, tied by C01's correspondence), so the extension-field theorems are "
    "unconditional and coordinate-wise (dft3 over Fp^3 with Fp twiddles); no field structure of the extension is used",
    "statement vocabulary: spec/Dft.v (dft, idft, dft3, bitrev_list), lib/FieldTheory.v (fieldK, Fp, fp_field)",
]
ASSUMPTIONS = [
    "theorem hypotheses: vector entries are canonical Montgomery words (Forall canon / okX) - what every value built "
    "through BFieldElement::new / the arithmetic operators is (C01 closure theorems)",
    "slice lengths above 2^20 are not executed on either side (covered by the theorems, which hold for all k <= 31); "
    "n = 2^32 cannot be allocated (C06_ntt_panics_too_long is model-level only)",
    "the private ntt_unchecked is reachable only through ntt/intt (consistent log2); its index panics are modelled "
    "(None) but unreachable",
    "ntt_noswap/intt_noswap on the empty slice differ between release (identity) and checked (debug_assert panic) "
    "builds: both outcomes are modelled (dbg flag) and compared per profile",
]
RULE = ("per size 2^k: unit vectors (all positions for n <= 32, sampled beyond; for the extension field in each of the three "
        "coefficients), all-ones, boundary-valued (grid) and LCG-random vectors through ntt, intt, ntt_noswap, intt_noswap, "
        "bitreverse_order, unscale for both fields; non-power-of-two lengths and length 0; every table entry through root; "
        "non-trivial = every case with n >= 2 or a documented panic; distinct = distinct case text")


def nontrivial(case):
    return True


def compare(case, impl, model):
    """ntt_noswap / intt_noswap: the harness reports `D<dbg> result`, the oracle `D0 r0 | D1 r1`."""
    op = case.split()[0]
    if op in ("ntt_noswap", "intt_noswap"):
        if " | " not in model or not model.startswith("D0 "):
            return "oracle output malformed: " + model[:80]
        r0, r1 = model.split(" | ", 1)
        want = {"D0": r0[3:], "D1": r1[3:]}
        tag, _, res = impl.partition(" ")
        if tag not in want:
            return "harness output malformed: " + impl[:80]
        return None if res == want[tag] else "implementation and model/spec differ (debug assertions %s)" % tag[1]
    return None if impl == model else "implementation and model/spec differ"


GRID = [0, 1, 2, P - 1, P - 2, 2**32 - 1, 2**32, 2**32 + 1, P - 2**32, (P - 1) // 2, 2**63, 2**64 - 1, P, P + 1]


def cases(tier, rng):
    out = []
    big = tier == "thorough"
    kmax = 16 if big else 12
    tops = ("ntt", "intt", "ntt_noswap", "intt_noswap")
    # every table entry (and neighbours, non-entries) through root, both fields
    for n in [0, 1, 3, 5, 6, 7, 12, 2**31 + 1, 2**32 - 1, 2**32 + 1, 2**33, 2**63, 2**64 - 1] + [2**k for k in range(0, 34)]:
        for f in "bx":
            out.append(("root", "root %s %d" % (f, n)))
    # length 0 and non-powers of two: identity / documented panics
    for f in "bx":
        w = 1 if f == "b" else 3
        for op in tops + ("bitreverse_order",) + (("unscale",) if f == "b" else ()):
            out.append(("len0", "%s %s v" % (op, f)))
            for n in (3, 5, 6, 7, 9, 12, 15, 17, 24, 100, 1000, 4097):
                if n <= 17:
                    vals = " ".join(str(rng.choice(GRID + [rng.randrange(2**64)])) for _ in range(n * w))
                    out.append(("non-pow2", "%s %s v %s" % (op, f, vals)))
                else:
                    out.append(("non-pow2", "%s %s lcg %d %d" % (op, f, n, rng.randrange(2**64))))
    for k in range(0, kmax + 1):
        n = 2**k
        for f in "bx":
            w = 1 if f == "b" else 3
            # unit vectors: a spanning set (all of it for n <= 32, for the extension field in each coefficient)
            if n <= 32:
                pos = list(range(n))
            elif k <= 8:
                pos = sorted({0, 1, 2, n // 2 - 1, n // 2, n // 2 + 1, n - 2, n - 1, rng.randrange(n), rng.randrange(n)})
            else:
                pos = sorted({1, n // 2 + 1, n - 1, rng.randrange(n)})
            for pi, i in enumerate(pos):
                if f == "b":
                    coeffs = ["1"] + (["%d" % rng.choice(GRID[2:])] if n <= 64 else [])
                else:
                    coeffs = ["1 0 0", "0 1 0", "0 0 1"]
                    if k > 8:
                        coeffs = [coeffs[(pi + k) % 3]]
                    if n <= 64:
                        coeffs.append("%d %d %d" % (rng.choice(GRID), rng.choice(GRID), rng.choice(GRID)))
                for c in coeffs:
                    for op in tops:
                        if k > 8 and op in ("ntt_noswap", "intt_noswap") and i not in (1, n - 1):
                            continue
                        out.append(("unit", "%s %s unit %d %d %s" % (op, f, n, i, c)))
            # all-ones and other constants
            consts = ["1", "%d" % (P - 1)] if f == "b" else ["1 1 1", "%d 0 1" % (P - 1)]
            if k > 8:
                consts = consts[:1]
            for c in consts:
                for op in tops:
                    out.append(("const", "%s %s const %d %s" % (op, f, n, c)))
            # boundary-valued and random vectors
            reps = 3 if k <= 8 else 1
            for rep in range(reps):
                for ki, kind in enumerate(("grid", "lcg")):
                    seed = rng.randrange(2**64)
                    for oi, op in enumerate(tops):
                        if k > 8 and (oi + ki + k) % 2 == 1:
                            continue
                        if k <= 6:
                            # explicit values for small sizes (exercises the `v` syntax, values >= p included)
                            if kind == "grid":
                                vals = [rng.choice(GRID) for _ in range(n * w)]
                            else:
                                vals = [rng.randrange(2**64) for _ in range(n * w)]
                            out.append((kind, "%s %s v %s" % (op, f, " ".join(map(str, vals)))))
                        else:
                            out.append((kind, "%s %s %s %d %d" % (op, f, kind, n, seed)))
            out.append(("bitreverse_order", "bitreverse_order %s lcg %d %d" % (f, n, rng.randrange(2**64))))
            if f == "b":
                out.append(("unscale", "unscale b lcg %d %d" % (n, rng.randrange(2**64))))
                out.append(("unscale", "unscale b grid %d %d" % (n, rng.randrange(2**64))))
    # large sizes: the implementation against the O(n) definition at 32 sampled positions
    spot = range(13, 15) if not big else range(17, 21)
    for k in spot:
        n = 2**k
        for f in "bx":
            for op in ("ntt_spot", "intt_spot"):
                out.append(("spot", "%s %s unit %d %d 1" % (op, f, n, 1)))
                out.append(("spot", "%s %s unit %d %d 1" % (op, f, n, rng.randrange(n))))
                out.append(("spot", "%s %s lcg %d %d" % (op, f, n, rng.randrange(2**64))))
                if f == "b" or k < 19:
                    out.append(("spot", "%s %s grid %d %d" % (op, f, n, rng.randrange(2**64))))
    # sequences of transforms in one thread (the functions are pure: a sequence must equal the composition of the model's
    # functions; a cache or any other state carried from one call to the next shows up here, and only here)
    seqs = ["ntt,intt", "intt,ntt", "ntt_noswap,intt_noswap,unscale", "intt_noswap,intt", "intt_noswap,ntt,intt",
            "ntt_noswap,intt_noswap,unscale,ntt,intt", "intt,intt_noswap,intt", "ntt,ntt_noswap,intt_noswap,intt",
            "unscale,intt", "intt_noswap,unscale,intt,ntt", "bitreverse_order,intt_noswap,intt", "ntt,ntt,intt,intt"]
    for k in range(1, 9 if not big else 12):
        n = 2**k
        for f in "bx":
            for sq in seqs:
                if f == "x" and "unscale" in sq:
                    continue
                out.append(("sequence", "seq %s %s lcg %d %d" % (f, sq, n, rng.randrange(2**64))))
    # the same length after another length (state keyed on the length)
    for f in "bx":
        out.append(("sequence", "seq %s intt_noswap,intt lcg 8 %d" % (f, rng.randrange(2**64))))
        out.append(("sequence", "seq %s intt lcg 16 %d" % (f, rng.randrange(2**64))))
        out.append(("sequence", "seq %s intt lcg 8 %d" % (f, rng.randrange(2**64))))
    # very large sizes with unit vectors (closed-form spec in the oracle): the proof covers every l <= 31, this keeps the
    # TIE to the code alive beyond the sizes the full model can be run at (index arithmetic that only breaks above 2^18)
    for k in (range(16, 23) if not big else range(16, 25)):
        n = 2**k
        for f in ("b", "x") if k <= 20 else ("b",):
            js = {1, n - 1, n // 2, n // 2 + 1, n // 4 + 3, rng.randrange(n), rng.randrange(n) | (n // 2), rng.randrange(n) | (n // 4)}
            for j in sorted(js):
                cs = "5" if f == "b" else "5 0 7"
                out.append(("spot-unit-large", "ntt_spot %s unit %d %d %s" % (f, n, j, cs)))
                out.append(("spot-unit-large", "intt_spot %s unit %d %d %s" % (f, n, j, cs)))
    return out
