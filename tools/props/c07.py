"""C07 - every polynomial multiplication strategy returns the exact ring product."""
import os
import subprocess

from props.polycases import P, W, coef, poly, grp, sc, zeros

ID = "C07"
GEN_TAGS = ["PolyGen"]
PROOF_TARGETS = ["proofs/PolyCoreProofs.vo", "proofs/PolyC07Wrap.vo", "proofs/PolyValueSem.vo", "proofs/XFieldPoly.vo"]
PROPS_FILE = "props/C07.v"
EXTRACT = "extract/ExtractC07.vo"
ORACLE = ("gen_c07", "c07.ml")
HARNESS = "c07"
PROFILES = ["release", "checked"]
RUN_TIMEOUT = {"quick": 600, "thorough": 3000}

TRUSTED = [
    "Coq 8.16.1 kernel and its bytecode VM; no native_compute",
    "tools/rs2v.py + tools/gen/gen_poly.py: the dispatch thresholds of polynomial.rs / zerofier_tree.rs are re-read from the "
    "source on every run (coq/gen/PolyGen.v); the model's dispatch and the theorems use the regenerated constants",
    "extraction: ExtrOcamlBasic + ExtrOcamlZBigInt (positive, N, Z -> zarith), OCaml 4.13.1, zarith 1.12",
    "correspondence harness (harness/src/bin/c07.rs), oracle driver with the zarith convolution spec (ocaml/c07.ml), case "
    "generator (tools/props/c07.py, polycases.py)",
    "modelled by hand, tied by correspondence only (coq/model/PolyCore.v): every function of the multiplication family and the "
    "basic Polynomial API (raw coefficient lists as stored)",
    "ntt/intt are parameters of the model; the theorems about fast_multiply / fast_square / square / fast_pow / multiply / "
    "batch_multiply / par_batch_multiply take the C06 statements as hypotheses (ntt_ok / intt_ok / roots_ok in "
    "proofs/PolyC07Wrap.v: ntt is the DFT at a primitive 2^l-th root for l <= lmax, intt its inverse). For "
    "Polynomial<BFieldElement> the hypotheses are DISCHARGED from the C06 theorems (C07_bfe_*: ntt_b_is_dft, intt_b_is_idft, "
    "roots_exact_order, lmax = 31); for XFieldElement and the mixed products they remain hypotheses until the extension-field "
    "instance of field_ok and of the NTT homomorphism is provided. The oracle runs model/Ntt.v (the C06 mirror of ntt.rs)",
    "field operations: the theorems are stated over an abstract field K with `field_ok o fk ok den` (lib/FieldTheory.v) relating "
    "the model's operations record to K; instance for BFieldElement: proofs/BFieldOk.v (C01); XFieldElement: lead's instance",
    "extraction directives in coq/extract/ExtractC07.v: Z.pow / Z.log2 / Z.testbit mapped to zarith (11x faster field "
    "operations in the oracle)",
    "rayon: par_chunks(..).map(f).collect() is modelled as map f over the chunks (order preserved, closures pure); the thread "
    "count read from available_parallelism() is an explicit parameter, theorems hold for every count >= 1; validated by "
    "running the harness under RAYON_NUM_THREADS and taskset settings",
    "UPDATE (extension-field instance): for Polynomial<XFieldElement> and the mixed BFieldElement x XFieldElement products the "
    "hypotheses are now DISCHARGED as well (C07_xfe_*, C07_bx_*, C07_xb_*): field_ok by proofs/XFieldOk.v (xfe_field_ok over "
    "k3_field = Fp[X]/(X^3 - X + 1); bfe_field_ok3 for a base-field operand read through the embedding), ntt_ok / intt_ok / "
    "roots_ok by proofs/XFieldNtt.v (ntt_x_field_dft, intt_x_field_idft, lmax = 31), mul12_ok by xscale = product with the lift",
]
ASSUMPTIONS = [
    "vector lengths stay below 2^32 (ntt panics above; not executable) and usize arithmetic on lengths does not overflow",
    "schedule-independence of par_batch_multiply: partial - assumed from purity, validated by runs (DESIGN 1.5)",
]
RULE = ("degree pairs on both sides of every dispatch threshold (degree sums 254..258 for multiply, squared lengths 61..67 for "
        "square), zero / constant / stored-leading-zero operands in either position, batch sizes 0,1,2,3,7,8,9,64 with mixed "
        "degrees, exponents 0,1,2,3,7,8,31, operand sizes putting every next_power_of_two / resize / truncate argument at "
        "2^k-1, 2^k, 2^k+1 (k up to 12 quick, 14 thorough), scalars 0/1/p-1/random, BFE x BFE, XFE x XFE, BFE x XFE, XFE x BFE, "
        "seeded random; thread counts through extra runs. Non-trivial = every case (distinct operands); distinct = distinct text")

MULOPS = ("mul", "naive", "fast", "multiply")
FIELDS2 = ("bb", "xx", "bx", "xb")


def f12(ff):
    return ("b" if ff[0] == "b" else "x"), ("b" if ff[1] == "b" else "x")


def cases(tier, rng):
    out = []
    big = tier == "thorough"

    def add(k, c):
        out.append((k, c))

    def binop(k, op, ff, a, b, ka=0, kb=0):
        add(k, "%s %s %s | %s" % (op, ff, grp(a, ka), grp(b, kb)))

    # 0. sparse operands of LARGE degree (closed-form specification in the oracle, model not run): domain-size bookkeeping
    # (next_power_of_two / resize) at sizes the model cannot be executed at: 2^k-1, 2^k, 2^k+1 up to 2^20
    for k in ((12, 15, 17, 19, 20) if not big else (12, 14, 15, 16, 17, 18, 19, 20, 21)):
        n = 2**k
        for (a, b) in ((n, n), (n - 1, n), (n - 1, 1), (n // 2, n // 2), (n // 2 - 1, n // 2 + 1), (n, 0), (n + 1, n - 2), (3 * n // 4, n // 4)):
            for f in ("b", "x") if k <= 19 else ("b",):
                c1, d1, c2, d2 = (rng.choice((1, P - 1, 2, rng.randrange(1, P))) for _ in range(4))
                for which in ("multiply", "fast"):
                    add("sparse-large", "sparse %s %s | %d %d %d | %d %d %d" % (f, which, a, c1, d1, b, c2, d2))
        for a in (n // 2, n // 2 - 1, n // 4, n // 4 + 1):
            for f in ("b", "x") if k <= 19 else ("b",):
                c1, d1 = rng.choice((1, P - 1, 3)), rng.choice((1, 2, rng.randrange(1, P)))
                add("sparse-large", "sparse %s square | %d %d %d | 0 0 0" % (f, a, c1, d1))
                add("sparse-large", "sparse %s fastsq | %d %d %d | 0 0 0" % (f, a, c1, d1))
        for e in (2, 3, 4, 7, 8):
            a = n // e
            add("sparse-large", "sparse b fastpow | %d %d %d | %d 0 0" % (a, rng.choice((1, 2, P - 1)), rng.choice((1, 3)), e))
            add("sparse-large", "sparse b fastpow | %d %d %d | %d 0 0" % (a - 1, 1, 1, e))
    # 1. multiply threshold: degree sums 254..258, several splits, all four field pairs
    for total in (254, 255, 256, 257, 258):
        splits = [(total // 2, total - total // 2), (0, total), (total, 0), (1, total - 1), (200, total - 200), (total - 3, 3)]
        for (da, db) in splits:
            for ff in FIELDS2:
                if ff != "bb" and (da, db) not in ((total // 2, total - total // 2), (0, total), (total - 3, 3)):
                    continue
                f1, f2 = f12(ff)
                a, b = poly(rng, f1, da), poly(rng, f2, db)
                for op in (("multiply", "mul", "fast") if ff == "bb" else ("multiply",)):
                    binop("threshold-multiply", op, ff, a, b)
        # a zero operand against a large one passes the `degree < 0` test of fast_multiply only when the sum is >= 0
        for ff in ("bb", "xx"):
            f1, f2 = f12(ff)
            binop("threshold-multiply-zero", "multiply", ff, [], poly(rng, f2, total + 1))
            binop("threshold-multiply-zero", "fast", ff, poly(rng, f1, total + 1), [])
    # 2. square threshold: squared_coefficient_len = 2*deg+1 around 64, and coefficient counts 63..66
    for deg in (29, 30, 31, 32, 33, 34, 62, 63, 64, 65):
        for f in ("b", "x"):
            a = poly(rng, f, deg)
            for op in ("square", "slowsq", "fastsq"):
                add("threshold-square", "%s %s %s" % (op, f, grp(a)))
    # 3. degenerate operands: zero (stored as [], [0], [0,0]), constants, stored leading zeros, both positions
    for ff in FIELDS2:
        f1, f2 = f12(ff)
        degen1 = [([], 0), ([], 1), ([], 2), (poly(rng, f1, 0), 0), (poly(rng, f1, 0), 1), ([[1] + [0] * (W[f1] - 1)], 0),
                  (poly(rng, f1, 1), 2), (poly(rng, f1, 5), 0), (poly(rng, f1, 5), 17)]
        degen2 = [([], 0), ([], 1), (poly(rng, f2, 0), 0), (poly(rng, f2, 0), 2), ([[1] + [0] * (W[f2] - 1)], 0),
                  (poly(rng, f2, 1), 1), (poly(rng, f2, 4), 0), (poly(rng, f2, 4), 17)]
        for (a, ka) in degen1:
            for (b, kb) in degen2:
                for op in MULOPS:
                    binop("degenerate", op, ff, a, b, ka, kb)
    for f in ("b", "x"):
        for a in ([], poly(rng, f, 0), [[1] + [0] * (W[f] - 1)], poly(rng, f, 1)):
            for op in ("square", "slowsq", "fastsq"):
                add("degenerate-square", "%s %s %s" % (op, f, grp(a)))
        # stored leading zeros (index panics of slow_square / square before the repair commit 0fd3b2b)
        for k in (1, 2, 17, 70):
            for op in ("square", "slowsq", "fastsq"):
                add("degenerate-square", "%s %s %s" % (op, f, grp(poly(rng, f, 3), k)))
                add("degenerate-square", "%s %s %s" % (op, f, grp(poly(rng, f, 40), k)))
                add("degenerate-square", "%s %s %s" % (op, f, grp([], k)))
                add("degenerate-square", "%s %s %s" % (op, f, grp(poly(rng, f, 0), k)))
    # 4. batch products: sizes 0,1,2,3,7,8,9,64, mixed degrees, zero / one / stored-zero factors
    for f in ("b", "x"):
        for n in (0, 1, 2, 3, 7, 8, 9, 64):
            for variant in range(3 if (f == "b" or big) else 2):
                degs = [rng.choice((0, 1, 1, 2, 3, 5, 8)) for _ in range(n)]
                if variant == 1 and n:
                    degs[rng.randrange(n)] = 40                 # one big factor: unbalanced tree
                if variant == 2 and n >= 7:
                    degs = [rng.choice((30, 35, 40)) for _ in range(n)] if n <= 9 else [7] * n   # crosses 256
                fs = [grp(poly(rng, f, d), rng.choice((0, 0, 0, 1, 2))) for d in degs]
                body = " | ".join(fs)
                add("batch", ("batch %s %s" % (f, body)).rstrip())
                add("batch", ("parbatch %s %s" % (f, body)).rstrip())
        # long batches of small factors: lengths around and beyond any plausible internal cutoff (100, 128, 256, 1000) and
        # NOT multiples of a chunk size derived from the CPU count (seeded change C07_h: `par_chunks_exact` drops the tail of
        # a batch of 129 factors on 16 CPUs; nothing shorter than 128 reaches the parallel path there)
        for n in ((100, 127, 128, 129, 130, 200, 255, 257, 1000) if f == "b" else (127, 129, 257)):
            degs = [rng.choice((0, 1, 1, 1, 2)) for _ in range(n)]
            body = " | ".join(grp(poly(rng, f, d), rng.choice((0, 0, 0, 1))) for d in degs)
            add("batch-long", "batch %s %s" % (f, body))
            add("batch-long", "parbatch %s %s" % (f, body))
        for n in (1, 2, 3, 9):
            fs = [grp(poly(rng, f, 2)) for _ in range(n)]
            fs[rng.randrange(n)] = grp([], rng.choice((0, 1)))   # a zero factor
            add("batch-zero", "batch %s %s" % (f, " | ".join(fs)))
            add("batch-zero", "parbatch %s %s" % (f, " | ".join(fs)))
        one = [[1] + [0] * (W[f] - 1)]
        add("batch-zero", "batch %s %s" % (f, " | ".join([grp(one, 2)] * 3)))
        add("batch-zero", "parbatch %s %s" % (f, " | ".join([grp(one, 1)] * 8 + [grp(poly(rng, f, 3))])))
    # 5. powers
    for f in ("b", "x"):
        for e in (0, 1, 2, 3, 7, 8, 31):
            for (d, k) in ((-1, 0), (-1, 2), (0, 0), (0, 1), (1, 0), (1, 17), (2, 0), (5, 0), (9, 0), (9, 2)):
                if f == "x" and d >= 5 and e == 31 and not big:
                    continue
                a = grp(poly(rng, f, d), k)
                add("pow", "pow %s %d | %s" % (f, e, a))
                add("pow", "fastpow %s %d | %s" % (f, e, a))
        for e in (4, 5, 6, 15, 16, 17, 32, 33):
            add("pow", "pow %s %d | %s" % (f, e, grp(poly(rng, f, 2))))
            add("pow", "fastpow %s %d | %s" % (f, e, grp(poly(rng, f, 2))))
        add("pow", "fastpow %s 3 | %s" % (f, grp(poly(rng, f, 100))))      # squares and products above both thresholds
        add("pow", "pow %s 2 | %s" % (f, grp(poly(rng, f, 70))))
    # 6. power-of-two boundaries of the NTT domain: degree sum + 1 in {2^k - 1, 2^k, 2^k + 1}
    kmax = 14 if big else 12
    for k in range(1, kmax + 1):
        for dsum in (2**k - 2, 2**k - 1, 2**k):
            if dsum < 0:
                continue
            splits = {(dsum // 2, dsum - dsum // 2), (0, dsum), (dsum - 1, 1) if dsum >= 1 else (0, dsum)}
            for (da, db) in sorted(splits):
                if da < 0 or db < 0:
                    continue
                for ff in FIELDS2:
                    balanced = (da, db) == (dsum // 2, dsum - dsum // 2)
                    if k > 8 and not big:
                        # quick tier: the extension field costs ~10x; keep every size for bb, thin out the rest
                        if ff == "bb" and (da, db) == (dsum - 1, 1):
                            continue
                        if ff == "xx" and not (balanced and (k <= 10 or dsum == 2**k - 1)):
                            continue
                        if ff in ("bx", "xb") and not (balanced and k <= 10 and dsum != 2**k - 2):
                            continue
                    if k > 9 and ff != "bb" and not balanced:
                        continue
                    if k > 12 and ff in ("bx", "xb"):
                        continue
                    f1, f2 = f12(ff)
                    sparse = k > 8
                    a, b = poly(rng, f1, da, sparse), poly(rng, f2, db, sparse)
                    binop("pow2-boundary", "fast", ff, a, b)
                    if k <= 8:
                        binop("pow2-boundary", "multiply", ff, a, b)
                        # raw length beyond the NTT order: resize must only cut stored zeros
                        binop("pow2-boundary", "fast", ff, a, b, 2**k + 3, 1)
        # squares: 2*deg + 1 = 2^k - 1 or 2^k + 1
        if k >= 2 and k <= kmax - 1:
            for deg in (2**(k - 1) - 1, 2**(k - 1)):
                for f in ("b", "x"):
                    if f == "x" and k > (10 if big else 9):
                        continue
                    a = poly(rng, f, deg, k > 8)
                    add("pow2-boundary", "fastsq %s %s" % (f, grp(a)))
                    add("pow2-boundary", "square %s %s" % (f, grp(a)))
    # larger naive products (the O(n^2) arm far above its threshold, reachable through `*` and naive_multiply)
    for (ff, da, db) in (("bb", 600, 500), ("bb", 1023, 1), ("xx", 150, 130), ("bx", 200, 100), ("xb", 100, 200)):
        f1, f2 = f12(ff)
        binop("large-naive", "mul", ff, poly(rng, f1, da), poly(rng, f2, db))
    # 7. scalar multiplication, scaling, shifting
    for ff in FIELDS2:
        f1, f2 = f12(ff)
        scalars = [[0] * W[f2], [1] + [0] * (W[f2] - 1), [P - 1] + [0] * (W[f2] - 1), coef(rng, f2, True), coef(rng, f2, True)]
        for (d, k) in ((-1, 0), (-1, 1), (0, 0), (1, 2), (6, 0), (6, 17), (40, 0)):
            a = grp(poly(rng, f1, d), k)
            for s in scalars:
                ops = ["smul", "rmul", "scale"]
                if ff != "bx":
                    ops.append("smulmut")
                if ff in ("bx", "xb"):
                    ops.append("lmul")
                for op in ops:
                    add("scalar", "%s %s %s | %s" % (op, ff, a, sc(s)))
    for f in ("b", "x"):
        for sh in (0, 1, 2, 3, 255, 256, 257):
            for (d, k) in ((-1, 0), (-1, 2), (0, 0), (3, 0), (3, 1)):
                add("shift", "shift %s %d | %s" % (f, sh, grp(poly(rng, f, d), k)))
        for n in (0, 1, 2, 255, 256):
            add("shift", "xtothe %s %d" % (f, n))
    # 8. random
    nrand = 3000 if big else 300
    for _ in range(nrand):
        ff = rng.choice(FIELDS2)
        f1, f2 = f12(ff)
        op = rng.choice(MULOPS)
        da, db = rng.choice((-1, 0, 1, 2, 5, 17, 40, 90, 130)), rng.choice((-1, 0, 1, 3, 8, 33, 64, 128))
        binop("random", op, ff, poly(rng, f1, da), poly(rng, f2, db), rng.choice((0, 0, 0, 1, 3)), rng.choice((0, 0, 0, 2)))
    for _ in range(nrand // 5):
        f = rng.choice(("b", "x"))
        add("random", "%s %s %s" % (rng.choice(("square", "slowsq", "fastsq")), f, grp(poly(rng, f, rng.randrange(0, 80)))))
    # operands that share memory: two borrowed polynomials over prefixes of ONE buffer (same start address, different
    # lengths), and the very same object on both sides of a by-reference product
    for f in ("b", "x"):
        for deg in (0, 2, 5, 9):
            a = poly(rng, f, deg)
            n = deg + 1
            for (i, j) in sorted({(0, n), (n, 0), (1, n), (n, 1), (deg, n), (n, deg), (n, n), (1, 1), (n // 2, n), (n, n // 2)}):
                for sub in ("mul", "multiply", "naive", "fast"):
                    add("alias", "alias %s %s %d %d | %s" % (f, sub, i, j, grp(a, 0, True)))
        for deg in (-1, 0, 1, 3, 40, 130, 260):
            if deg > 100 and f == "x" and not big:
                continue
            a = poly(rng, f, deg)
            for sub in ("multiply", "naive", "fast", "batch"):
                add("same-object", "same %s %s | %s" % (f, sub, grp(a)))
    return out


def finding_key(case, impl, model):
    return None


def extra_checks(ctx):
    """par_batch_multiply / batch_multiply under different thread settings: RAYON_NUM_THREADS (rayon's pool) and CPU
    affinity through taskset (what available_parallelism() observes).  The oracle already checks that the model's result is
    the same for thread counts 1,2,3,5,16,64."""
    import random
    import runner
    rng = random.Random(ctx["seed"] + 7)
    lines = []
    for f in ("b", "x"):
        for n in (1, 2, 3, 5, 8, 9, 16, 17, 33, 64):
            degs = [rng.choice((0, 1, 2, 3, 9)) for _ in range(n)]
            body = " | ".join(grp(poly(rng, f, d), rng.choice((0, 0, 1))) for d in degs)
            lines.append("parbatch %s %s" % (f, body))
        body = " | ".join(grp(poly(rng, f, 33)) for _ in range(12))      # products cross the NTT threshold
        lines.append("parbatch %s %s" % (f, body))
        for n in ((127, 128, 129, 131, 255, 257, 1000) if f == "b" else (129, 257)):   # long batches, odd lengths
            body = " | ".join(grp(poly(rng, f, rng.choice((0, 1, 1, 2)))) for _ in range(n))
            lines.append("parbatch %s %s" % (f, body))
    lines = ["%d %s" % (i, c) for i, c in enumerate(lines)]
    viol = []
    info = {"thread_settings": []}
    exe = ctx["exes"].get("release")
    if not exe or not ctx["oracle"]:
        return {"violations": [], "info": info}
    want, err, _ = runner.run_lines(ctx["oracle"], [], lines, 300)
    if want is None:
        return {"violations": [{"kind": "oracle-timeout-thread-check", "no_input": True, "detail": err}], "info": info}
    have_taskset = subprocess.call(["sh", "-c", "command -v taskset >/dev/null 2>&1"]) == 0
    ncpu = os.cpu_count() or 1
    settings = [("RAYON_NUM_THREADS=%d" % t, {"RAYON_NUM_THREADS": str(t)}, None) for t in (1, 2, 5, 16)]
    if have_taskset:
        for t in (1, 2, 5, 16):
            if t <= ncpu:
                settings.append(("taskset %d cpus" % t, {}, "0-%d" % (t - 1)))
    for name, env, cpus in settings:
        if cpus is None:
            got, err, _ = runner.run_lines(exe, [], lines, 300, env)
        else:
            got, err, _ = runner.run_lines("taskset", ["-c", cpus, exe], lines, 300, env)
        if got is None:
            viol.append({"kind": "harness-timeout", "no_input": True, "detail": name + ": " + str(err)})
            continue
        bad = [(ln, got.get(ln.split(" ", 1)[0]), want.get(ln.split(" ", 1)[0])) for ln in lines
               if got.get(ln.split(" ", 1)[0]) != want.get(ln.split(" ", 1)[0])]
        info["thread_settings"].append({"setting": name, "cases": len(lines), "mismatches": len(bad)})
        for ln, g, w in bad[:3]:
            viol.append({"kind": "impl-vs-model", "case": ln.split(" ", 1)[1], "class": "threads:" + name, "profile": "release",
                         "impl": g, "model": w, "why": "par_batch_multiply differs from the model under " + name})
    return {"violations": viol, "info": info}
