"""C08 - interpolation, bulk evaluation, zerofiers and coset extrapolation are exact."""
import os
import subprocess

from props.polycases import P, W, coef, poly
from props.polycases import grp as _grp

_GRP_COUNT = [0]


def grp(cs, k=0, borrowed=None):
    """polynomial group; unless stated, every third polynomial BORROWS its coefficients (Polynomial::new_borrowed)"""
    if borrowed is None:
        _GRP_COUNT[0] += 1
        borrowed = _GRP_COUNT[0] % 3 == 0
    return _grp(cs, k, borrowed)

ID = "C08"
GEN_TAGS = ["PolyGen"]
PROOF_TARGETS = ["proofs/PolyInterpAlg.vo", "proofs/PolyInterpBase.vo", "proofs/PolyInterpProofs.vo",
                 "proofs/PolyDeepenDiv.vo", "proofs/PolyDeepenInterp.vo", "proofs/PolyDeepenNewton.vo",
                 "proofs/PolyDeepenFmci.vo", "proofs/PolyDeepenBary.vo", "proofs/PolyDeepenColinear.vo", "proofs/PolyDeepenCodec.vo", "proofs/PolyDeepenXfe.vo",
                 "proofs/PolyFmciGen.vo", "proofs/PolyGenExamples.vo"]
PROPS_FILE = "props/C08.v"
EXTRA_PROPS_FILES = ["props/C08b.v", "props/C08c.v"]
EXTRACT = "extract/ExtractC08.vo"
ORACLE = ("gen_c08", "c08.ml")
HARNESS = "c08"
PROFILES = ["release", "checked"]
RUN_TIMEOUT = {"quick": 900, "thorough": 3600}

TRUSTED = [
    "Coq 8.16.1 kernel and its bytecode VM; no native_compute",
    "tools/rs2v.py + tools/gen/gen_poly.py: every dispatch threshold of polynomial.rs / zerofier_tree.rs is re-read from the "
    "source on every run (coq/gen/PolyGen.v); the model's dispatch and the theorems use the regenerated constants",
    "extraction: ExtrOcamlBasic + ExtrOcamlZBigInt (positive, N, Z -> zarith; Z.pow, Z.log2, Z.testbit mapped to zarith as in "
    "ExtractC07.v; additionally lib/Word.v wrap / wshr / wshl mapped to zarith Z.extract / shift_right / shift_left and Coq's "
    "quadratic List.rev mapped to OCaml's List.rev, coq/extract/ExtractC08.v - field operations 2.5x faster, poly_degree "
    "linear), OCaml 4.13.1, zarith 1.12; the oracle driver splits the case file over worker processes (copies of itself)",
    "correspondence harness (harness/src/bin/c08.rs), oracle driver with the zarith specs (ocaml/c08.ml: product of linear "
    "factors, Horner evaluation, interpolation = degree bound + passes through the points + Lagrange formula for small n, "
    "naive inverse DFT + long division + Horner for the coset routines), case generator (tools/props/c08.py)",
    "modelled by hand, tied by correspondence only (coq/model/PolyInterp.v): every function of the property, the ZerofierTree, "
    "and - until model/PolyDiv.v (C09) is available - the division family they call (naive_divide, reduce, fast_reduce, "
    "shift_factor_ntt_with_tail_length, reduce_by_ntt_friendly_modulus, structured_multiple(_of_degree), "
    "reduce_by_structured_modulus, formal_power_series_inverse_minimal) under pint_ names",
    "Section hypotheses of the theorems (proofs/PolyInterpProofs.v): the operations record refines an abstract field "
    "(field_ok; discharged for BFieldElement by proofs/BFieldOk.v: bfe_field_ok); `multiply` returns the ring product (C07); "
    "`reduce` / `fast_reduce` return a polynomial congruent to the argument modulo the modulus, of smaller degree (C09); "
    "for the NTT-based coset routines: ntt is the DFT at the tabulated root and intt its inverse (C06)",
    "rayon: par_chunks(..).map(f).collect() / flat_map / rayon::join are modelled as the sequential map (order preserved, "
    "closures pure); the thread count read from available_parallelism() is an explicit parameter, theorems hold for every "
    "count >= 1; validated by running the harness under RAYON_NUM_THREADS and taskset settings",
    "HashMap<(FF, FF), _> of batch_fast_interpolate is modelled as an association list with the derived PartialEq on the key",
]
ASSUMPTIONS = [
    "vector lengths stay below 2^32 (ntt panics above; not executable) and usize arithmetic on lengths does not overflow",
    "schedule-independence of the par_* functions: partial - assumed from purity, validated by runs (DESIGN 1.5)",
    "direct calls of the doc(hidden) helper reduce_by_ntt_friendly_modulus with tail_length > shift_ntt.len() (usize "
    "underflow, profile dependent) are outside the modelled domain; no public caller produces such arguments",
    "partial (full statements are Definitions in coq/props/C08.v, the functions are tied by the correspondence check and its "
    "zarith specs): the even/odd recursion of fast_modular_coset_interpolate for codewords longer than 2^17 (C08_fmci_full; the "
    "regimes up to 2^17 are C08_fmci_small_partial; 2^18 is run by the thorough tier), barycentric_evaluate "
    "(C08_barycentric_full), the BFieldElement-offset instantiations of fast_coset_evaluate / fast_coset_interpolate over "
    "XFieldElement, are_colinear / get_colinear_y",
    "theorems that go through reduce / fast_reduce / reduce_by_ntt_friendly_modulus carry the C09 statements as hypotheses "
    "(red_exact, fred_exact, rbnf_exact): C09_fast_reduce_full is not proved yet; the division family is modelled a second "
    "time in coq/model/PolyInterp.v (pint_ names) because coq/model/PolyDiv.v appeared late - unifying the two is future work",
    "UPDATE (deepening, props/C08b.v, proofs/PolyDeepen*.v): the two models of the division family are tied by theorem "
    "(C08_division_family_agrees: whenever the C09 model returns Some r the pint_ copy returns the same), so the C09 theorems "
    "apply to the copy the C08 routines call; red_exact / fred_exact / rbnf_exact are THEOREMS for BFieldElement in their "
    "bounded form (modulus degree <= 2^29: C08_bfe_c09_hypotheses; the unbounded forms cannot hold for a concrete ntt). Every "
    "C08 strategy for Polynomial<BFieldElement> is now unconditional for point lists of at most 2^29 points: C08_bfe_* for "
    "dac / batch / par_batch evaluation, interpolate / fast_interpolate / par_* / batch_fast_interpolate(_with_memoization), "
    "naive / fast / dispatching / batch coset extrapolation. fast_modular_coset_interpolate is proved for EVERY codeword "
    "length including the even/odd recursion above 2^17 and the totality and correctness of its preprocessing "
    "(C08_fmci_spec generic, C08_bfe_fast_modular_coset_interpolate, C08_bfe_fmci_preprocess_total); barycentric_evaluate "
    "(C08_barycentric_spec, C08_bfe_barycentric_evaluate, the formula itself C08_barycentric_formula); are_colinear_3 / "
    "are_colinear / get_colinear_y (C08_are_colinear*, C08_get_colinear_y); polynomial codec round trip and Display degree "
    "logic (C08_poly_decode_encode, C08_display_*). The placeholders C08_fmci_full / C08_barycentric_full of props/C08.v stay "
    "Definitions: as stated they lack hypotheses the proofs need (reduce must return THE remainder, not only a congruent "
    "polynomial, so that products stay in the range of multiply; compatibility wr(l+1)^2 = wr(l) of the roots; base-field "
    "arithmetic on offsets and `slift` denote field arithmetic) - the proved theorems state them explicitly and discharge "
    "them for BFieldElement and XFieldElement. The XFieldElement instances of every strategy are C08_xfe_* (proofs/PolyDeepenXfe.v)",
    "UPDATE (general theorem, props/C08c.v, proofs/PolyFmciGen.v): fast_modular_coset_interpolate, its preprocessing and "
    "fast_modular_coset_interpolate_with_zerofiers_and_ntt_friendly_multiple for EVERY codeword length the code accepts - the "
    "recursion transforms at most 2^17 elements at a time, so the length is limited by the root table (2^32), not by the transforms "
    "(2^31): C08_fmci_general (generic, two maxima lmaxI / lmaxR), C08_bfe_fmci_general / C08_xfe_fmci_general (l <= 32, nothing "
    "assumed): the preprocessing returns, both entry points return the same r, THE interpolant exists and r is THE remainder of it "
    "modulo the modulus (is_rem, stronger than the congruence of C08_fmci_small_partial / C08_fmci_spec); "
    "C08_*_fmci_accepted_lengths: the accepted codeword lengths are exactly 2^0 .. 2^32; C08_fmci_rejects_no_root. Size hypothesis "
    "left: modulus degree <= 2^29 (sufficient for the transforms inside reduce / shift_factor_ntt_with_tail_length / multiply to stay "
    "<= 2^31 elements; not necessary: by inspection of the model, for sparse moduli such as X^(2^29+1) + 1 the products formed "
    "stay shorter and the preprocessing still succeeds - acceptance is not a threshold in the degree - so for larger moduli nothing is claimed). Length 2^32 cannot be executed here (32 GiB per vector); C08_ex_fmci_length_2_32 instantiates the "
    "theorem there without executing. Executed instances (VM) live in proofs/PolyGenExamples.v, a proof target that the props files do "
    "not import (coqchk has no VM); the same inputs on the real code print the same coefficients",
]
RULE = ("n in {0,1,2,15,16,17,99,100,101,255,256,257} (thorough: 4095,4096,4097,8192) for every zerofier and interpolation "
        "strategy over arithmetic-progression, geometric-progression and random duplicate-free domains, duplicate abscissae, "
        "empty and length-mismatched inputs; evaluation with degree/|domain| ratios 3,4,5 and degrees 4m-1,4m,4m+1; coset "
        "routines for lengths 2^0..2^9 (thorough: 2^17, 2^18) with offsets 1, 7, p-1, 0; extrapolation with 99,100,101 points; "
        "batched interpolation around 16; both fields; thread settings through extra runs. Non-trivial = every case except "
        "UNKNOWN-OP; distinct = distinct case text")

GEN = 7


def compare(case, impl, model):
    """the harness reports `D<dbg> result`; the oracle `result` or `D0 r0 | D1 r1` where debug assertions matter"""
    tag, _, res = impl.partition(" ")
    if tag not in ("D0", "D1"):
        return "harness output malformed: " + impl[:80]
    want = model
    if model.startswith("D0 ") and " | D1 " in model:
        r0, r1 = model.split(" | D1 ", 1)
        want = r0[3:] if tag == "D0" else r1
    if want.startswith("SPECDIFF") or want.startswith("ORACLE-EXCEPTION") or want.startswith("UNKNOWN-OP"):
        return "model and spec differ: " + want[:200]
    return None if res == want else "implementation and model/spec differ (debug assertions %s)" % tag[1]


def nontrivial(case):
    return True


def finding_key(case, impl, model):
    return None


# ------------------------------------------------------------------ domains
def el(f, v):
    return [v % P] + [0] * (W[f] - 1)


def dom_arith(rng, f, n):
    a, d = rng.randrange(P), rng.choice((1, 2, 7, rng.randrange(1, P)))
    return [el(f, a + i * d) for i in range(n)]


def dom_geom(rng, f, n):
    a, r = rng.choice((1, 3, rng.randrange(1, P))), GEN
    out, x = [], a
    for _ in range(n):
        out.append(el(f, x))
        x = x * r % P
    return out


def dom_random(rng, f, n):
    seen, out = set(), []
    while len(out) < n:
        c = tuple(coef(rng, f))
        if c not in seen:
            seen.add(c)
            out.append(list(c))
    return out


DOMS = (("arith", dom_arith), ("geom", dom_geom), ("random", dom_random))


def vals(rng, f, n):
    return [coef(rng, f) for _ in range(n)]


def flat(es):
    return " ".join(str(v) for e in es for v in e)


def root_of(n):
    """a primitive n-th root of unity, n a power of two (not necessarily the tabulated one)"""
    return pow(GEN, (P - 1) // n, P)


def cases(tier, rng):
    out = []
    big = tier == "thorough"

    def add(k, c):
        out.append((k, c.rstrip()))

    sizes_b = [0, 1, 2, 15, 16, 17, 99, 100, 101, 255, 256, 257]
    sizes_x = [0, 1, 2, 16, 17, 100, 101]
    # ---------------------------------------------------------------- 1. zerofiers
    zops = ("zerofier", "par_zerofier", "smart_zerofier", "fast_zerofier", "naive_zerofier", "tree_zerofier")
    for f, sizes in (("b", sizes_b), ("x", sizes_x)):
        for n in sizes:
            for dk, dg in DOMS:
                if f == "x" and dk == "arith" and n > 17:
                    continue
                d = flat(dg(rng, f, n))
                for op in zops:
                    if n >= 99 and dk != "random" and op not in ("zerofier", "par_zerofier"):
                        continue
                    add("zerofier-%s" % dk, "%s %s %s" % (op, f, d))
        # repeated roots, roots 0 / 1 / p-1
        for n in ((2, 17, 100, 130) if f == "b" else (2, 17)):
            base = dom_random(rng, f, max(1, n // 3))
            d = flat([base[i % len(base)] for i in range(n)])
            for op in zops:
                add("zerofier-duplicates", "%s %s %s" % (op, f, d))
        add("zerofier-special", "zerofier %s %s" % (f, flat([el(f, 0), el(f, 1), el(f, P - 1), el(f, 0)])))
    if big:
        # the model repeats all the work of the code at ~1 us per field operation: sizes are chosen so that the whole
        # thorough tier stays below ~30 CPU minutes (spread over the oracle's worker processes)
        for n in (1023, 1024, 1025, 4095, 4096, 4097, 8192):
            for dk, dg in DOMS:
                if dk != "random" and n not in (1024, 4097):
                    continue
                d = flat(dg(rng, "b", n))
                for op in ("zerofier", "fast_zerofier", "tree_zerofier"):
                    add("zerofier-large", "%s b %s" % (op, d))
                if n in (1025, 4097):
                    add("zerofier-large", "par_zerofier b %s" % d)
        d = flat(dom_random(rng, "x", 513))
        for op in ("zerofier", "par_zerofier", "tree_zerofier"):
            add("zerofier-large", "%s x %s" % (op, d))
    # ---------------------------------------------------------------- 2. interpolation
    iops = ("interpolate", "par_interpolate", "lagrange", "lagrange_zipped", "fast_interpolate", "par_fast_interpolate")
    for f, sizes in (("b", sizes_b), ("x", [1, 2, 16, 17, 33, 100])):
        for n in sizes:
            for dk, dg in DOMS:
                if f == "x" and (dk == "arith" or (dk == "geom" and n > 17)):
                    continue
                d = dg(rng, f, n)
                v = vals(rng, f, n)
                for op in iops:
                    if n >= 99 and op not in ("interpolate", "par_interpolate", "fast_interpolate") and (dk != "random" or f == "x"):
                        continue
                    add("interpolate-%s" % dk, "%s %s %s | %s" % (op, f, flat(d), flat(v)))
            # low-degree data (interpolant of degree far below n), constant and zero values
            if n >= 2:
                d = dom_random(rng, f, n)
                for v in ([el(f, 5)] * n, [el(f, 0)] * n):
                    for op in ("interpolate", "par_interpolate", "fast_interpolate"):
                        add("interpolate-degenerate", "%s %s %s | %s" % (op, f, flat(d), flat(v)))
        # length mismatches and empty inputs (debug assertions decide some of these)
        for n in (1, 2, 17):
            d = dom_random(rng, f, n)
            for dv in (-1, 1):
                v = vals(rng, f, n + dv)
                for op in iops:
                    add("interpolate-mismatch", "%s %s %s | %s" % (op, f, flat(d), flat(v)))
        for op in iops:
            add("interpolate-empty", "%s %s |" % (op, f))
            add("interpolate-empty", "%s %s | %s" % (op, f, flat(vals(rng, f, 1))))
            add("interpolate-empty", "%s %s %s |" % (op, f, flat(dom_random(rng, f, 2))))
        # duplicate abscissae: adjacent, across the two halves, first = last
        for n in ((2, 3, 17, 40) if f == "b" else (3, 17)):
            d = dom_random(rng, f, n)
            for (i, j) in ((0, n - 1), (n // 2 - 1, n // 2)):
                if i == j or i < 0:
                    continue
                dd = list(d)
                dd[j] = dd[i]
                v = vals(rng, f, n)
                for op in iops:
                    add("interpolate-duplicates", "%s %s %s | %s" % (op, f, flat(dd), flat(v)))
    for n in (257, 300):
        d = dom_random(rng, "b", n)
        d[n - 1] = d[3]
        for op in ("par_interpolate", "par_fast_interpolate", "fast_interpolate"):
            add("interpolate-duplicates", "%s b %s | %s" % (op, flat(d), flat(vals(rng, "b", n))))
    if big:
        for n in (1024, 1025):
            for dk, dg in DOMS:
                d, v = dg(rng, "b", n), vals(rng, "b", n)
                for op in (("interpolate", "par_interpolate", "fast_interpolate", "par_fast_interpolate") if dk == "random"
                           else ("interpolate", "fast_interpolate")):
                    add("interpolate-large", "%s b %s | %s" % (op, flat(d), flat(v)))
        # both sides of FAST_INTERPOLATE_CUTOFF_THRESHOLD_SEQUENTIAL: 4096 is one Lagrange pass (~10^8 field operations in the
        # model), 4097 the recursive fast path
        for n in (4096, 4097):
            d, v = dom_random(rng, "b", n), vals(rng, "b", n)
            add("interpolate-large", "interpolate b %s | %s" % (flat(d), flat(v)))
        d, v = dom_geom(rng, "b", 4097), vals(rng, "b", 4097)
        add("interpolate-large", "par_interpolate b %s | %s" % (flat(d), flat(v)))
        d, v = dom_random(rng, "x", 300), vals(rng, "x", 300)
        for op in ("interpolate", "par_interpolate"):
            add("interpolate-large", "%s x %s | %s" % (op, flat(d), flat(v)))
    # ---------------------------------------------------------------- 3. batched interpolation (memoised)
    for f in ("b", "x"):
        for n in ((1, 2, 15, 16, 17, 31, 32, 33, 64, 100) + ((255, 256, 257) if f == "b" else ())):
            for rows in ((0, 1, 3) if n in (1, 16, 33) else (2,)):
                d = dom_random(rng, f, n) if n != 64 else dom_geom(rng, f, n)
                m = " | ".join(flat(vals(rng, f, n)) for _ in range(rows))
                add("batch-interpolate", "batch_fast_interpolate %s %d 8 | %s%s" % (f, root_of(8), flat(d), (" | " + m) if rows else ""))
        # rows that vanish on one half of a recursion node (left half zero, right half zero, indicator rows, zero row):
        # the half-interpolant is then the zero polynomial and products / sums of unequal stored length are combined
        for n in (16, 17, 32, 33, 64, 100):
            d = dom_random(rng, f, n)
            h = n // 2
            nz = lambda k: vals(rng, f, k)
            zr = lambda k: [el(f, 0)] * k
            rowsets = [
                [zr(h) + nz(n - h), nz(h) + zr(n - h)],
                [zr(n), zr(n - 1) + [el(f, 1)], [el(f, 1)] + zr(n - 1)],
                [zr(h // 2) + nz(n - h // 2), zr(h) + [el(f, 5)] + zr(n - h - 1), zr(n - h // 2) + nz(h // 2)],
            ]
            for rs in rowsets:
                add("batch-interpolate-zero-halves", "batch_fast_interpolate %s %d 8 | %s | %s" % (f, root_of(8), flat(d), " | ".join(flat(r) for r in rs)))
            for r in rowsets[0] + rowsets[1]:
                add("interpolate-zero-halves", "fast_interpolate %s %s | %s" % (f, flat(d), flat(r)))
                add("interpolate-zero-halves", "par_fast_interpolate %s %s | %s" % (f, flat(d), flat(r)))
        d = dom_random(rng, f, 40)
        # the root / order arguments are only looked at by a debug assertion
        add("batch-interpolate-args", "batch_fast_interpolate %s 2 5 | %s | %s" % (f, flat(d), flat(vals(rng, f, 40))))
        add("batch-interpolate-args", "batch_fast_interpolate %s 1 0 | %s | %s" % (f, flat(d), flat(vals(rng, f, 40))))
        add("batch-interpolate-args", "batch_fast_interpolate %s %d %d | %s | %s" % (f, root_of(4), 2**32 + 4, flat(d), flat(vals(rng, f, 40))))
        add("batch-interpolate-args", "batch_fast_interpolate %s 1 1 |" % f)
        # rows of the wrong length, duplicate abscissae
        add("batch-interpolate-mismatch", "batch_fast_interpolate %s 1 1 | %s | %s" % (f, flat(d), flat(vals(rng, f, 39))))
        add("batch-interpolate-mismatch", "batch_fast_interpolate %s 1 1 | %s | %s" % (f, flat(d), flat(vals(rng, f, 19))))
        add("batch-interpolate-mismatch", "batch_fast_interpolate %s 1 1 | %s | %s" % (f, flat(d), flat(vals(rng, f, 41))))
        add("batch-interpolate-mismatch", "batch_fast_interpolate %s 1 1 | %s | %s" % (f, flat(d[:10]), flat(vals(rng, f, 9))))
        dd = list(d)
        dd[39] = dd[0]
        add("batch-interpolate-duplicates", "batch_fast_interpolate %s 1 1 | %s | %s" % (f, flat(dd), flat(vals(rng, f, 40))))
        dd = list(d)
        dd[25] = dd[5]
        add("batch-interpolate-duplicates", "batch_fast_interpolate %s 1 1 | %s | %s" % (f, flat(dd), flat(vals(rng, f, 40))))
    # ---------------------------------------------------------------- 4. bulk evaluation
    eops = ("batch_evaluate", "par_batch_evaluate", "iterative_batch_evaluate", "dac_batch_evaluate")
    for f in ("b", "x"):
        for m in ((1, 2, 15, 16, 17, 33, 100) if f == "b" else (1, 2, 16, 17)):
            degs = sorted({-1, 0, 1, m - 1, m, 3 * m, 4 * m - 1, 4 * m, 4 * m + 1, 5 * m, 17 * m + 3})
            for deg in degs:
                if (f == "x" and deg > 100) or (m == 100 and deg > 5 * m):
                    continue
                d = dom_random(rng, f, m)
                a = grp(poly(rng, f, deg), rng.choice((0, 0, 2)))
                for op in eops:
                    add("evaluate-ratio", "%s %s %s | %s" % (op, f, a, flat(d)))
        # polynomials with vanishing LOW-order coefficients (x^t * q), owned and borrowed, across the reduce / no-reduce arms
        for m in (2, 20, 100):
            d = dom_random(rng, f, m)
            for (t, dq) in ((1, 0), (1, 5), (3, 2), (2, 14), (1, 99), (5, 60)):
                if f == "x" and dq > 60:
                    continue
                cs = [[0] * W[f] for _ in range(t)] + poly(rng, f, dq)
                for bo in (False, True):
                    for op in eops:
                        add("evaluate-low-zeros", "%s %s %s | %s" % (op, f, grp(cs, 0, bo), flat(d)))
        # empty domain, repeated points, zero polynomial with stored zeros
        for deg in (-1, 0, 3, 70):
            for op in eops:
                add("evaluate-empty-domain", "%s %s %s |" % (op, f, grp(poly(rng, f, deg))))
        d = dom_random(rng, f, 6)
        d = d + d[:3] + d
        for op in eops:
            add("evaluate-repeated-points", "%s %s %s | %s" % (op, f, grp(poly(rng, f, 9)), flat(d)))
            add("evaluate-repeated-points", "%s %s %s | %s" % (op, f, grp(poly(rng, f, 90)), flat(d)))
            add("evaluate-zero", "%s %s %s | %s" % (op, f, grp([], 3), flat(d)))
    for (m, deg) in ((257, 1027), (257, 1028), (257, 1029), (256, 300), (300, 2000), (16, 300), (16, 1500), (130, 700)):
        d = dom_random(rng, "b", m) if m != 256 else dom_geom(rng, "b", m)
        a = grp(poly(rng, "b", deg))
        for op in ("batch_evaluate", "par_batch_evaluate", "dac_batch_evaluate"):
            add("evaluate-large", "%s b %s | %s" % (op, a, flat(d)))
    if big:
        # divide_and_conquer_batch_evaluate reduces the WHOLE polynomial at every leaf (|domain|/16 reductions)
        for (m, deg) in ((1024, 4095), (1024, 4096), (1025, 20000), (2048, 2047), (5000, 100)):
            d = dom_random(rng, "b", m)
            a = grp(poly(rng, "b", deg))
            add("evaluate-large", "batch_evaluate b %s | %s" % (a, flat(d)))
            if m in (1024, 5000) and deg != 4095:
                add("evaluate-large", "par_batch_evaluate b %s | %s" % (a, flat(d)))
        d = dom_random(rng, "x", 200)
        a = grp(poly(rng, "x", 900))
        for op in ("batch_evaluate", "par_batch_evaluate"):
            add("evaluate-large", "%s x %s | %s" % (op, a, flat(d)))
    # ---------------------------------------------------------------- 5. coset evaluate / interpolate
    offsets = [1, GEN, P - 1]
    for f in ("b", "x"):
        for k in range(0, 10 if f == "b" else 8):
            n = 2**k
            for off in offsets + [rng.randrange(2, P)]:
                for deg in sorted({n - 1, n - 2, 0, -1}):
                    if deg < -1:
                        continue
                    a = grp(poly(rng, f, deg), rng.choice((0, 0, 1)))
                    add("coset-evaluate", "fast_coset_evaluate_b %s %d | %d | %s" % (f, n, off, a))
                    if off != P - 1 or k < 4:
                        add("coset-evaluate", "fast_coset_evaluate %s %d | %s | %s" % (f, n, flat([el(f, off)]), a))
                v = vals(rng, f, n)
                add("coset-interpolate", "fast_coset_interpolate_b %s %d | %s" % (f, off, flat(v)))
                add("coset-interpolate", "fast_coset_interpolate %s %s | %s" % (f, flat([el(f, off)]), flat(v)))
            if f == "x":
                xo = coef(rng, "x", True)
                add("coset-evaluate", "fast_coset_evaluate x %d | %s | %s" % (n, flat([xo]), grp(poly(rng, f, n - 1))))
                add("coset-interpolate", "fast_coset_interpolate x %s | %s" % (flat([xo]), flat(vals(rng, f, n))))
        # panics: degree >= order, order not a power of two, order 0, offset 0, length not a power of two
        for (n, deg) in ((8, 8), (8, 9), (1, 1), (6, 3), (0, -1), (0, 0), (12, 3), (16, 3)):
            add("coset-panics", "fast_coset_evaluate_b %s %d | 7 | %s" % (f, n, grp(poly(rng, f, deg))))
        add("coset-panics", "fast_coset_evaluate_b %s 8 | 0 | %s" % (f, grp(poly(rng, f, 5))))
        for n in (0, 3, 6, 12):
            add("coset-panics", "fast_coset_interpolate_b %s 7 | %s" % (f, flat(vals(rng, f, n))))
        add("coset-panics", "fast_coset_interpolate_b %s 0 | %s" % (f, flat(vals(rng, f, 8))))
        add("coset-panics", "fast_coset_interpolate %s %s | %s" % (f, flat([el(f, 0)]), flat(vals(rng, f, 4))))
    # ---------------------------------------------------------------- 6. modular coset interpolation
    for f in ("b", "x"):
        for k in (list(range(0, 10)) if f == "b" else [0, 1, 3, 5]):
            n = 2**k
            mdegs = sorted({0, 1, 5, 99, 100, n - 1, n, n + 5} if f == "b" else {0, 1, 7, n})
            for md in mdegs:
                if md < 0:
                    continue
                off = rng.choice(offsets + [rng.randrange(2, P)])
                add("modular-interpolate", "modular_interpolate %s %d | %s | %s" % (f, off, flat(vals(rng, f, n)), grp(poly(rng, f, md))))
        add("modular-panics", "modular_interpolate %s 7 | %s | o0" % (f, flat(vals(rng, f, 8))))
        add("modular-panics", "modular_interpolate %s 7 | %s | o2" % (f, flat(vals(rng, f, 8))))
        add("modular-panics", "modular_interpolate %s 0 | %s | %s" % (f, flat(vals(rng, f, 8)), grp(poly(rng, f, 3))))
        add("modular-panics", "modular_interpolate %s 0 | %s | %s" % (f, flat(vals(rng, f, 256)), grp(poly(rng, f, 3))))
        add("modular-panics", "modular_interpolate %s 7 | %s | %s" % (f, flat(vals(rng, f, 6)), grp(poly(rng, f, 3))))
        add("modular-panics", "modular_interpolate %s 7 | | %s" % (f, grp(poly(rng, f, 3))))
        for (n, md) in (((1, 1), (2, 3), (8, 2), (256, 17), (16, 0), (8, 300)) if f == "b" else ((1, 1), (2, 3), (8, 2), (16, 0))):
            add("modular-preprocess", "modular_preprocess %s %d %d | %s" % (f, n, rng.choice(offsets), grp(poly(rng, f, md))))
        add("modular-preprocess", "modular_preprocess %s 8 0 | %s" % (f, grp(poly(rng, f, 2))))
        add("modular-preprocess", "modular_preprocess %s 6 7 | %s" % (f, grp(poly(rng, f, 2))))
        add("modular-preprocess", "modular_preprocess %s 0 7 | %s" % (f, grp(poly(rng, f, 2))))
        add("modular-preprocess", "modular_preprocess %s 8 7 | o0" % f)
    if big:
        for (k, mds) in ((10, (1, 99, 100)), (12, (1, 100)), (17, (1, 100)), (18, (99,))):
            n = 2**k
            for md in mds:
                add("modular-interpolate-large", "modular_interpolate b %d | %s | %s" % (rng.choice(offsets), flat(vals(rng, "b", n)), grp(poly(rng, "b", md))))
    # ---------------------------------------------------------------- 7a. large codewords of low-degree polynomials
    # (specification-only in the oracle: Horner values of the polynomial), lengths 2^10 .. 2^20: keeps the tie alive above
    # the sizes the model can execute - the even/odd recursion of modular coset interpolation starts above 2^17
    for logn in ((10, 13, 16, 17, 18, 19, 20) if not big else (10, 13, 16, 17, 18, 19, 20, 21, 22)):
        for off in (7, 1, P - 1, rng.randrange(2, P)):
            for deg in (0, 1, 2, 3, 7):
                cs = [rng.randrange(P) for _ in range(deg + 1)]
                for npts in ((1, 5, 99) if logn >= 17 else (5,)):
                    pts = [0, 1, P - 1, off] + [rng.randrange(P) for _ in range(npts)]
                    add("extrapolate-lowdeg-large", "extrap_lowdeg b %d %d | %s | %s" % (off, logn, " ".join(map(str, cs)), " ".join(map(str, pts[:npts + 1]))))
    # ---------------------------------------------------------------- 7. coset extrapolation
    for f in ("b", "x"):
        for k in (range(3, 10) if f == "b" else (3, 5)):
            n = 2**k
            for npts in ((0, 1, 2, 17, 99, 100, 101) if f == "b" else (1, 99, 100)):
                off = rng.choice(offsets + [rng.randrange(2, P)])
                pts = dom_random(rng, f, npts)
                cw = vals(rng, f, n)
                add("extrapolate", "coset_extrapolate %s %d | %s | %s" % (f, off, flat(cw), flat(pts)))
                if k in (3, 8, 9) or npts in (99, 100):
                    for nc in ((0, 1, 3) if (k == 3 or (k == 8 and npts in (99, 100))) else (2,)):
                        cws = flat(vals(rng, f, n * nc))
                        add("extrapolate-batch", "batch_coset_extrapolate %s %d %d | %s | %s" % (f, off, n, cws, flat(pts)))
                        add("extrapolate-batch", "par_batch_coset_extrapolate %s %d %d | %s | %s" % (f, off, n, cws, flat(pts)))
        # low-degree codeword (a polynomial of degree 2 evaluated on the coset is what STARK verifiers extrapolate)
        n, off = 32, GEN
        w = root_of(n)
        # the tabulated root may differ from 7^((p-1)/n); a constant codeword is independent of that choice
        add("extrapolate", "coset_extrapolate %s %d | %s | %s" % (f, off, flat([el(f, 3)] * n), flat([el(f, 0), el(f, 1)])))
        # extra / missing codeword entries in the batch, repeated points, points on the coset itself
        pts = dom_random(rng, f, 5)
        add("extrapolate-batch", "batch_coset_extrapolate %s 7 8 | %s | %s" % (f, flat(vals(rng, f, 20)), flat(pts)))
        add("extrapolate-batch", "batch_coset_extrapolate %s 7 8 | %s | %s" % (f, flat(vals(rng, f, 7)), flat(pts)))
        add("extrapolate", "coset_extrapolate %s 7 | %s | %s" % (f, flat(vals(rng, f, 8)), flat(pts + pts[:2])))
        add("extrapolate", "coset_extrapolate %s 1 | %s | %s" % (f, flat(vals(rng, f, 4)), flat([el(f, 1), el(f, P - 1), el(f, 2)])))
        # panics: offset 0, codeword length 0 / not a power of two
        for npts in (3, 100):
            pts = dom_random(rng, f, npts)
            add("extrapolate-panics", "coset_extrapolate %s 0 | %s | %s" % (f, flat(vals(rng, f, 8)), flat(pts)))
            add("extrapolate-panics", "coset_extrapolate %s 7 | %s | %s" % (f, flat(vals(rng, f, 6)), flat(pts)))
            add("extrapolate-panics", "coset_extrapolate %s 7 | | %s" % (f, flat(pts)))
            add("extrapolate-panics", "batch_coset_extrapolate %s 7 0 | %s | %s" % (f, flat(vals(rng, f, 8)), flat(pts)))
            add("extrapolate-panics", "batch_coset_extrapolate %s 7 6 | %s | %s" % (f, flat(vals(rng, f, 12)), flat(pts)))
            add("extrapolate-panics", "batch_coset_extrapolate %s 7 6 | | %s" % (f, flat(pts)))
            add("extrapolate-panics", "par_batch_coset_extrapolate %s 0 8 | %s | %s" % (f, flat(vals(rng, f, 16)), flat(pts)))
    if big:
        for k in (10, 12, 17, 18):
            n = 2**k
            for npts in (99, 100, 101):
                if k >= 17 and npts == 101:
                    continue
                off = rng.choice(offsets)
                add("extrapolate-large", "coset_extrapolate b %d | %s | %s" % (off, flat(vals(rng, "b", n)), flat(dom_random(rng, "b", npts))))
        for npts in (99, 100):
            add("extrapolate-large", "batch_coset_extrapolate b 7 4096 | %s | %s" % (flat(vals(rng, "b", 4096 * 3)), flat(dom_random(rng, "b", npts))))
            add("extrapolate-large", "par_batch_coset_extrapolate b 7 4096 | %s | %s" % (flat(vals(rng, "b", 4096 * 3)), flat(dom_random(rng, "b", npts))))
    # ---------------------------------------------------------------- 8. barycentric evaluation
    for f in ("b", "x"):
        for k in range(0, 9 if f == "b" else 6):
            n = 2**k
            add("barycentric", "barycentric %s %s | %s" % (f, flat(vals(rng, f, n)), flat([coef(rng, f, True)])))
            add("barycentric", "barycentric %s %s | %s" % (f, flat([el(f, 9)] * n), flat([coef(rng, f, True)])))
        add("barycentric-panics", "barycentric %s %s | %s" % (f, flat(vals(rng, f, 8)), flat([el(f, 1)])))
        add("barycentric-panics", "barycentric %s %s | %s" % (f, flat(vals(rng, f, 8)), flat([el(f, P - 1)])))
        add("barycentric-panics", "barycentric %s %s | %s" % (f, flat(vals(rng, f, 6)), flat([el(f, 5)])))
        add("barycentric-panics", "barycentric %s | %s" % (f, flat([el(f, 5)])))
    # ---------------------------------------------------------------- 9. colinearity helpers
    for f in ("b", "x"):
        for _ in range(12):
            a, b = coef(rng, f), coef(rng, f)
            xs = dom_random(rng, f, 4)

            def line(x, a=a, b=b, f=f):
                if f == "b":
                    return [(a[0] * x[0] + b[0]) % P]
                return None
            if f == "b":
                pts = [(x, line(x)) for x in xs]
                on = flat([c for pt in pts for c in pt])
                add("colinear", "colinear b %s" % on)
                add("colinear", "colinear3 b %s" % flat([c for pt in pts[:3] for c in pt]))
                add("colinear", "colinear_y b %s | %s" % (flat([c for pt in pts[:2] for c in pt]), flat([xs[3]])))
            ys = vals(rng, f, 4)
            add("colinear", "colinear %s %s" % (f, flat([c for pt in zip(xs, ys) for c in pt])))
            add("colinear", "colinear3 %s %s" % (f, flat([c for pt in list(zip(xs, ys))[:3] for c in pt])))
            add("colinear", "colinear_y %s %s | %s" % (f, flat([c for pt in list(zip(xs, ys))[:2] for c in pt]), flat([xs[2]])))
        xs = dom_random(rng, f, 3)
        ys = vals(rng, f, 3)
        add("colinear", "colinear %s %s" % (f, flat([xs[0], ys[0], xs[1], ys[1]])))
        add("colinear", "colinear %s %s" % (f, flat([xs[0], ys[0], xs[1], ys[1], xs[0], ys[0]])))
        add("colinear", "colinear3 %s %s" % (f, flat([xs[0], ys[0], xs[0], ys[1], xs[2], ys[2]])))
        add("colinear", "colinear_y %s %s | %s" % (f, flat([xs[0], ys[0], xs[0], ys[1]]), flat([xs[2]])))
        add("colinear", "colinear %s %s" % (f, flat([xs[0], ys[0], xs[1], ys[0], xs[2], ys[0]])))
    # ---------------------------------------------------------------- 10. random mix
    nrand = 300 if big else 60
    for _ in range(nrand):
        f = rng.choice(("b", "b", "x"))
        n = rng.choice((1, 2, 3, 5, 8, 20, 40, 70)) if f == "x" else rng.choice((1, 2, 3, 5, 8, 20, 40, 70, 130, 200, 300))
        kind = rng.randrange(4)
        if kind == 0:
            add("random", "%s %s %s" % (rng.choice(zops), f, flat(dom_random(rng, f, n))))
        elif kind == 1:
            add("random", "%s %s %s | %s" % (rng.choice(iops), f, flat(dom_random(rng, f, n)), flat(vals(rng, f, n))))
        elif kind == 2:
            deg = rng.choice((-1, 0, 1, n - 1, n, 2 * n, 4 * n, 6 * n))
            add("random", "%s %s %s | %s" % (rng.choice(eops), f, grp(poly(rng, f, min(deg, 400))), flat(dom_random(rng, f, n))))
        else:
            k = rng.randrange(1, 7)
            add("random", "coset_extrapolate %s %d | %s | %s" % (f, rng.randrange(1, P), flat(vals(rng, f, 2**k)),
                                                                 flat(dom_random(rng, f, rng.choice((1, 3, 20))))))
    return out


def extra_checks(ctx):
    """par_zerofier / par_interpolate / par_fast_interpolate / par_batch_evaluate / par_batch_coset_extrapolate under different
    thread settings: RAYON_NUM_THREADS (rayon's pool) and CPU affinity through taskset (what available_parallelism()
    observes; it decides the chunk sizes).  The oracle already checks that the model's result is the same for the thread
    counts 1,2,5,16; here the implementation must reproduce it under every setting."""
    import random
    import runner
    rng = random.Random(ctx["seed"] + 8)
    lines = []
    for f in ("b", "x"):
        for n in ((1, 2, 99, 100, 101, 257, 600) if f == "b" else (1, 17, 101, 150)):
            d = dom_random(rng, f, n)
            lines.append("par_zerofier %s %s" % (f, flat(d)))
            lines.append("par_interpolate %s %s | %s" % (f, flat(d), flat(vals(rng, f, n))))
            lines.append("par_fast_interpolate %s %s | %s" % (f, flat(d), flat(vals(rng, f, n))))
            for deg in (n - 1, 4 * n, 5 * n + 1):
                lines.append("par_batch_evaluate %s %s | %s" % (f, grp(poly(rng, f, min(deg, 700))), flat(d)))
        for npts in (99, 100):
            lines.append("par_batch_coset_extrapolate %s 7 16 | %s | %s" % (f, flat(vals(rng, f, 16 * 5)), flat(dom_random(rng, f, npts))))
    lines = ["%d %s" % (i, c) for i, c in enumerate(lines)]
    viol = []
    info = {"thread_settings": []}
    exe = ctx["exes"].get("release")
    if not exe or not ctx["oracle"]:
        return {"violations": [], "info": info}
    want, err, _ = runner.run_lines(ctx["oracle"], [], lines, 600)
    if want is None:
        return {"violations": [{"kind": "oracle-timeout-thread-check", "no_input": True, "detail": err}], "info": info}
    have_taskset = subprocess.call(["sh", "-c", "command -v taskset >/dev/null 2>&1"]) == 0
    ncpu = os.cpu_count() or 1
    settings = [("RAYON_NUM_THREADS=%d" % t, {"RAYON_NUM_THREADS": str(t)}, None) for t in (1, 2, 5, 16)]
    if have_taskset:
        for t in (1, 2, 5, 16):
            if t <= ncpu:
                settings.append(("taskset %d cpus" % t, {}, "0-%d" % (t - 1)))
    for name, env, cpus in settings:
        if cpus is None:
            got, err, _ = runner.run_lines(exe, [], lines, 600, env)
        else:
            got, err, _ = runner.run_lines("taskset", ["-c", cpus, exe], lines, 600, env)
        if got is None:
            viol.append({"kind": "harness-timeout", "no_input": True, "detail": name + ": " + str(err)})
            continue
        bad = []
        for ln in lines:
            i, c = ln.split(" ", 1)
            why = compare(c, got.get(i, ""), want.get(i, "ORACLE-EXCEPTION no output"))
            if why:
                bad.append((c, got.get(i), want.get(i), why))
        info["thread_settings"].append({"setting": name, "cases": len(lines), "mismatches": len(bad)})
        for c, g, w, why in bad[:3]:
            viol.append({"kind": "impl-vs-model", "case": c, "class": "threads:" + name, "profile": "release",
                         "impl": g, "model": w, "why": why + " under " + name})
    return {"violations": viol, "info": info}
