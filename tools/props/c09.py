"""C09 - polynomial division, reduction, gcd and power-series inversion are exact."""
from props.polycases import P, W, GRID, coef, poly, grp

ID = "C09"
GEN_TAGS = ["PolyGen"]
PROOF_TARGETS = ["proofs/PolyDivProofs.vo", "proofs/XFieldPoly.vo", "proofs/XFieldCleanDivide.vo",
                 "proofs/PolyDeepenDiv.vo", "proofs/PolyDeepenNewton.vo", "proofs/PolyDeepenXfe.vo",
                 "proofs/PolyNewtonGen.vo", "proofs/PolyGenExamples.vo"]
PROPS_FILE = "props/C09.v"
EXTRA_PROPS_FILES = ["props/C09b.v", "props/C09c.v"]
EXTRACT = "extract/ExtractC09.vo"
ORACLE = ("gen_c09", "c09.ml")
HARNESS = "c09"
PROFILES = ["release", "checked"]
RUN_TIMEOUT = {"quick": 900, "thorough": 3000}

TRUSTED = [
    "Coq 8.16.1 kernel and its bytecode VM; no native_compute",
    "tools/rs2v.py + tools/gen/gen_poly.py: the dispatch thresholds of polynomial.rs (FAST_REDUCE_CUTOFF_THRESHOLD, "
    "FAST_REDUCE_MAKES_SENSE_MULTIPLE, FORMAL_POWER_SERIES_INVERSE_CUTOFF, FAST_MULTIPLY_CUTOFF_THRESHOLD and BOTH arms of "
    "CLEAN_DIVIDE_CUTOFF_THRESHOLD's cfg!(test)) are re-read from the source on every run (coq/gen/PolyGen.v); the model's "
    "dispatch and the theorems use the regenerated constants",
    "extraction: ExtrOcamlBasic + ExtrOcamlZBigInt (positive, N, Z -> zarith) plus Z.pow / Z.log2 / Z.testbit mapped to zarith "
    "(extract/ExtractC09.v), OCaml 4.13.1, zarith 1.12",
    "correspondence harness (harness/src/bin/c09.rs), oracle driver with the zarith schoolbook long division / Euclid / "
    "truncated-convolution spec (ocaml/c09.ml), case generator (tools/props/c09.py, polycases.py)",
    "modelled by hand, tied by correspondence only (coq/model/PolyDiv.v on top of PolyCore.v and Ntt.v): naive_divide, divide, "
    "Div, Rem, xgcd, formal_power_series_inverse_minimal/_newton, reduce, fast_reduce, shift_factor_ntt_with_tail_length, "
    "reduce_by_ntt_friendly_modulus, structured_multiple(_of_degree), reduce_by_structured_modulus, reduce_long_division, "
    "clean_divide (cutoff as a parameter), XFieldElement::inverse; private functions (formal_power_series_inverse_minimal, "
    "structured_multiple, reduce_by_structured_modulus, reduce_long_division) are exercised through their public callers only",
    "ntt/intt are parameters of the model; theorems about NTT-based arms carry, as Section hypotheses matching the C06 "
    "theorems, that ntt is the DFT at a primitive root of the power-of-two length and intt its inverse",
    "field operations: the theorems are stated over an abstract field K with the `field_ok` hypotheses relating the model's "
    "operations record to K (discharged for BFieldElement by C01: proofs/BFieldOk.v)",
    "the harness is a normal dependency build: cfg(test) is off, CLEAN_DIVIDE_CUTOFF_THRESHOLD = 1 << 9 (the production "
    "configuration); the cfg(test) value 0 is run in the model only (the oracle checks it against the spec on every "
    "clean_divide case)",
]
ASSUMPTIONS = [
    "vector lengths stay below 2^32 (ntt panics above; not executable) and usize arithmetic on lengths/precisions does not "
    "overflow (precision + 1, 1 << (num_rounds + 1), 3 * n + 1)",
    "clean_divide is specified for clean divisions only (the documented precondition); for an unclean division the result "
    "is profile dependent (debug_assert) and outside the property",
    "PROVED IN FULL (props/C09.v): divide/Div/Rem/reduce_long_division = THE quotient and remainder for every non-zero divisor, "
    "uniqueness, panic iff zero divisor; reduce and fast_reduce = THE remainder through every arm and all three stages "
    "(reduce_by_ntt_friendly_modulus, reduce_by_structured_modulus, long division; under the C06 hypotheses on ntt/intt and the "
    "size bounds that the transforms fit below 2^lmax), zero modulus panics; xgcd (total, Bezout, greatest common divisor, monic "
    "or zero); formal_power_series_inverse_minimal for every precision; structured_multiple_of_degree (multiple, monic, degree "
    "exactly n, lower part of degree < deg f, n + 1 stored coefficients; under the C06 hypotheses through C07's multiply) with "
    "its panics and the constant case; clean_divide: long-division arm for every cutoff, the fallback of the NTT arm, totality of "
    "the root-0 workaround, zero divisor",
    "PARTIAL (full statements kept as Definitions C09_clean_divide_full, C09_fpsi_newton_full): clean_divide - not proved: the "
    "zero-free NTT arm (pointwise codeword division on the coset, inverse transform, unscaling, unlift). "
    "formal_power_series_inverse_newton - proved: constant case and every precision whose rounds all run before the switch to "
    "the NTT domain; not proved: the NTT-domain rounds (they additionally need wr(l+1)^2 = wr(l) for the step_by subsampling of "
    "the transform). Both partial parts are covered by the correspondence run against the zarith spec (SPECDIFF) on the grid",
    "two clean_divide defects found by this check were repaired in /repo (87d4e9b, 8b5e451); the historical refutations are the "
    "labelled lemmas C09_clean_divide_v0_refuted / C09_clean_divide_v1_empty_dividend_refuted about the `_v0` / `_v1` models; the "
    "replay inputs are regression cases in corpus/C09/findings.txt",
    "UPDATE (extension-field instance): clean_divide is now PROVED IN FULL for the current code - C09_clean_divide "
    "(proofs/XFieldCleanDivide.v): every clean division with deg(dividend) < 2^31 returns the exact quotient, every cutoff, "
    "every arm including the zero-free NTT arm (C09_clean_divide_ntt_arm); the placeholder C09_clean_divide_full asks for "
    "zlen < 2^32, one bit more than `ntt` accepts (transform length 2^32 is rejected by u32::try_from), its statement with "
    "the bound 2^31 is C09_clean_divide_full_2p31. The XFieldElement instances of divide / xgcd / fpsi_minimal / "
    "structured_multiple / reduce / fast_reduce are unconditional (C09_xfe_*: proofs/XFieldOk.v, XFieldNtt.v, XFieldPoly.v). "
    "Still partial: formal_power_series_inverse_newton (C09_fpsi_newton_full)",
    "UPDATE (deepening, props/C09b.v, proofs/PolyDeepenNewton.v, PolyDeepenDiv.v): formal_power_series_inverse_newton is now "
    "PROVED for every precision and every arm including the rounds in the NTT domain - C09_fpsi_newton_spec (generic, under the "
    "C06 hypotheses plus the compatibility wr(l+1)^2 = wr(l) of the roots) and C09_bfe_fpsi_newton (BFieldElement, nothing "
    "assumed; the compatibility of the regenerated table is C09_bfe_root_table_squares, by vm_compute over the 33 entries). The "
    "placeholder C09_fpsi_newton_full asks for precision * degree < 2^30; that admits inputs whose full evaluation domain has "
    "2^32 elements, which ntt rejects: C09_fpsi_newton_panics_at_full_domain_2_32 exhibits one (1 + X^1023 at precision "
    "2^20 + 1, proved without executing it); the proved statement has the bound precision * max(1, degree) <= 2^29. "
    "BFieldElement instances of reduce / fast_reduce / structured_multiple_of_degree / reduce_by_ntt_friendly_modulus: C09_bfe_*; Newton over XFieldElement: C09_xfe_fpsi_newton",
    "UPDATE (general theorem, props/C09c.v, proofs/PolyNewtonGen.v): formal_power_series_inverse_newton is correct on EVERY input it "
    "accepts, and the accepted inputs are characterised exactly - C09_fpsi_newton_general (whenever the model returns g, for any "
    "well-formed f and any precision >= 0, f * g = 1 mod X^precision; no size hypothesis), C09_fpsi_newton_domain (it returns iff the "
    "constant coefficient is invertible and degree = 0 or num_rounds <= switch_point or full_domain_length <= 2^lmax), "
    "C09_fpsi_newton_panics_iff; instances C09_bfe_* / C09_xfe_* with lmax = 31 and nothing assumed (ntt rejects >= 2^32 elements: "
    "ntt_b_rejects). C09_fpsi_newton_partial of props/C09.v is thereby superseded; the only assumption left is the one stated "
    "above: usize arithmetic on precisions does not overflow (the model computes 1 << (num_rounds + 1) over Z; on every accepted input "
    "2^(num_rounds+1) * degree <= 2^31 or the expression is not evaluated, so nothing can overflow there). An executed NTT-arm instance "
    "(VM) lives in proofs/PolyGenExamples.v, a proof target that the props files do not import (coqchk has no VM)",
]
RULE = ("(dividend degree, divisor degree) around (4d, d) for d in {1,2,127,128,129,255,256,257,511,512,513} (+1023..1025 "
        "thorough) for divide / reduce / fast_reduce / rem / div, both fields; divisors with root 0 and double root 0; divisors "
        "vanishing on clean_divide's evaluation coset (multiples of X^3 - w^(2i) X + w^(3i), the minimal polynomial of x*w^i, "
        "i in {0,1,order/2,order-1}) below and above the production cutoff 512; monic and non-monic; zero dividend, constant "
        "divisor, zero divisor (panic expected); stored leading zeros and borrowed storage; precisions 0,1,2,3,255,256,257,"
        "1000 for power-series inversion with input degrees on both sides of FORMAL_POWER_SERIES_INVERSE_CUTOFF, non-invertible "
        "inputs (panic expected); gcd inputs with common factors, equal inputs, zero operands, coprime inputs; "
        "structured_multiple_of_degree for n around deg and 2*deg and below deg (panic expected); reduce with modulus degrees "
        "around FAST_REDUCE_CUTOFF_THRESHOLD/2 and with numerators making all three stages of fast_reduce run; "
        "XFieldElement::inverse on boundary triples; seeded random. Non-trivial = every case; distinct = distinct text")

R32 = 1753635133440165772          # BFieldElement::primitive_root_of_unity(2^32)


def root(n):
    """a primitive n-th root of unity (n a power of two <= 2^32); the coset x*<w> does not depend on which one"""
    return pow(R32, (1 << 32) // n, P)


def npo2(n):
    return 1 if n <= 1 else 1 << (n - 1).bit_length()


# ------------------------------------------------------------------ base-field polynomial arithmetic (lists of ints)
def pmul(a, b):
    """product through Kronecker substitution (python big-int multiplication)"""
    if not a or not b:
        return []
    slot = 2 * 64 + max(len(a), len(b)).bit_length() + 1
    x = sum(c << (slot * i) for i, c in enumerate(a))
    y = sum(c << (slot * i) for i, c in enumerate(b))
    z = x * y
    mask = (1 << slot) - 1
    out = [((z >> (slot * i)) & mask) % P for i in range(len(a) + len(b) - 1)]
    while out and out[-1] == 0:
        out.pop()
    return out


def rpoly(rng, deg, monic=False, sparse=False):
    """random base-field polynomial of exactly this degree as a list of ints (boundary-heavy coefficients)"""
    cs = [c[0] for c in poly(rng, "b", deg, sparse)]
    if monic and cs:
        cs[-1] = 1
    return cs


def bl(cs):
    """list of ints -> list of one-value coefficients (polycases format)"""
    return [[c] for c in cs]


def coset_factor(order, i):
    """X^3 - w^(2i) X + w^(3i): the minimal polynomial over the base field of x * w^i (x^3 - x + 1 = 0)"""
    w = pow(root(order), i, P)
    return [pow(w, 3, P), (-pow(w, 2, P)) % P, 0, 1]


# ------------------------------------------------------------------ extension-field helpers (triples)
def xmul(a, b):
    r = [0] * 5
    for i in range(3):
        for j in range(3):
            r[i + j] += a[i] * b[j]
    return [(r[0] - r[3]) % P, (r[1] + r[3] - r[4]) % P, (r[2] + r[4]) % P]


def xpmul(a, b):
    """schoolbook product of two extension-field polynomials (lists of triples); small degrees only"""
    if not a or not b:
        return []
    out = [[0, 0, 0] for _ in range(len(a) + len(b) - 1)]
    for i, x in enumerate(a):
        for j, y in enumerate(b):
            m = xmul(x, y)
            out[i + j] = [(out[i + j][k] + m[k]) % P for k in range(3)]
    while out and not any(out[-1]):
        out.pop()
    return out


def cases(tier, rng):
    out = []
    big = tier == "thorough"

    def add(k, c):
        out.append((k, c))

    def binop(k, op, f, a, b, ka=0, kb=0, ba=False, bb=False):
        add(k, "%s %s %s | %s" % (op, f, grp(a, ka, ba), grp(b, kb, bb)))

    def nop(k, op, f, n, a, ka=0):
        add(k, "%s %s %d | %s" % (op, f, n, grp(a, ka)))

    # 1. (dividend degree, divisor degree) around (4d, d): the x4 rule of `reduce`, the domain-length thresholds of fast_reduce
    D = [1, 2, 127, 128, 129, 255, 256, 257, 511, 512, 513] + ([1023, 1024, 1025] if big else [])
    for d in D:
        heavy = d >= 255 and not big          # the extracted model costs ~3 us per coefficient step: thin out the quick tier
        # quick tier, heavy degrees: (d, dividend degree) -> operation
        HEAVY = {(255, 4 * 255 + 1): "reduce", (256, 4 * 256): "reduce", (256, 4 * 256 - 1): "divide",
                 (257, 4 * 257 + 1): "fast_reduce", (257, 4 * 257): "reduce", (511, 4 * 511 + 1): "reduce", (512, 4 * 512): "reduce",
                 (513, 4 * 513 - 1): "divide"}
        for da in (4 * d - 1, 4 * d, 4 * d + 1):
            a, m = poly(rng, "b", da), poly(rng, "b", d)
            if heavy:
                if (d, da) in HEAVY:
                    binop("grid-4d", HEAVY[(d, da)], "b", a, m)
                continue
            binop("grid-4d", "reduce", "b", a, m)
            binop("grid-4d", "divide", "b", a, m)
            binop("grid-4d", "fast_reduce", "b", a, m)
        # monic divisor, near-equal degrees
        mm = bl(rpoly(rng, d, monic=True))
        for da in (d - 1, d, d + 1, 2 * d):
            binop("grid-near", "divide", "b", poly(rng, "b", da), mm)
        if d < 511 or big:
            binop("grid-near", "rem", "b", poly(rng, "b", 2 * d + 1), mm)
            binop("grid-near", "div", "b", poly(rng, "b", 2 * d + 1), poly(rng, "b", d))
        if d <= 2 or d == 128 or (big and d <= 257):
            a, m = poly(rng, "x", 4 * d + 1, d > 2), poly(rng, "x", d)
            binop("grid-4d-x", "reduce", "x", a, m)
            if d <= 2 or big:
                binop("grid-4d-x", "divide", "x", a, m)
                binop("grid-4d-x", "reduce", "x", poly(rng, "x", 4 * d, d > 2), m)
    # 2. all three stages of fast_reduce: small moduli (structured stage runs when 4*deg < remaining degree), long numerators
    for d in (1, 2, 3, 10, 63, 64, 65):
        for da in (4 * d + 1, 256, 300, 1000) + ((255, 257, 5000) if big else ()):
            if da <= 4 * d:
                continue
            a, m = poly(rng, "b", da), poly(rng, "b", d)
            binop("three-stages", "reduce", "b", a, m)
            binop("three-stages", "fast_reduce", "b", a, m)
            if d in (1, 3, 64):
                binop("three-stages", "reduce_ntt", "b", a, m)
        if d in (1, 3, 64) or big:
            binop("three-stages", "reduce", "x", poly(rng, "x", 300), poly(rng, "x", d))
    for d in (1, 2, 127, 128, 129, 200):
        add("shift-factor", "shift_factor b %s" % grp(poly(rng, "b", d)))
        binop("shift-factor", "reduce_ntt", "b", poly(rng, "b", 3 * npo2(max(256, 2 * d)) + 5), poly(rng, "b", d))
    add("shift-factor", "shift_factor x %s" % grp(poly(rng, "x", 3)))
    add("shift-factor", "shift_factor b %s" % grp(bl([0, 0, 5, 1])))
    add("shift-factor", "shift_factor b %s" % grp([]))
    add("shift-factor", "shift_factor b %s" % grp(bl([7])))
    # fast_reduce called directly below the x4 rule and with degenerate operands
    for (da, d) in ((10, 3), (3, 10), (256, 128), (255, 255), (600, 300)):
        binop("fast-reduce-direct", "fast_reduce", "b", poly(rng, "b", da), poly(rng, "b", d))
    # 3. degenerate operands: zero dividend, constant divisor, zero divisor (panic), stored zeros, borrowed storage
    ops2 = ("divide", "naive_divide", "div", "rem", "reduce", "fast_reduce", "xgcd")
    for f in ("b", "x"):
        one = [[1] + [0] * (W[f] - 1)]
        operands = [([], 0), ([], 2), (poly(rng, f, 0), 0), (one, 1), (poly(rng, f, 1), 0), (poly(rng, f, 3), 3), (poly(rng, f, 9), 0)]
        for (a, ka) in operands:
            for (b, kb) in operands:
                for op in ops2:
                    binop("degenerate", op, f, a, b, ka, kb)
        for op in ops2:
            binop("degenerate-borrowed", op, f, poly(rng, f, 12), poly(rng, f, 4), 2, 1, True, True)
            binop("degenerate-storage", op, f, poly(rng, f, 40), poly(rng, f, 7), 300, 0)
            binop("degenerate-storage", op, f, poly(rng, f, 40), poly(rng, f, 7), 0, 300)
        binop("degenerate-storage", "reduce", f, poly(rng, f, 1100 if f == "b" else 300), poly(rng, f, 5), 7, 3)
    # 4. divisors with root 0 (and double root 0), monic / non-monic
    for d in (1, 2, 5, 128, 257):
        for z in (1, 2):
            if z > d:
                continue
            m = bl([0] * z + rpoly(rng, d - z))
            for op in ("divide", "reduce", "fast_reduce") if (d < 257 or big) else ("reduce",):
                binop("divisor-root0", op, "b", poly(rng, "b", 4 * d + 1), m)
            binop("divisor-root0", "divide", "b", bl([0] * z + rpoly(rng, 3 * d)), m)
    binop("divisor-root0", "divide", "x", poly(rng, "x", 9), [[0, 0, 0]] + poly(rng, "x", 2))
    # 5. clean division: production cutoff 512 (the harness is a normal build), dividend = divisor * quotient
    def clean(k, dv, q, ka=0, kb=0):
        binop(k, "clean_divide", "b", bl(pmul(dv, q)), bl(dv), ka, kb)

    DQ = {511: (0, 88, 513), 512: (0, 1, 511, 512), 513: (0, 510), 600: (1, 424)}
    for d in (1, 2, 100, 511, 512, 513, 600):
        dqs = (0, 1, 5, d) if d < 511 else DQ[d] + ((88, 1024, 3 * d) if big else ((3 * d,) if d == 512 else ()))
        for dq in dqs:
            clean("clean-divide", rpoly(rng, d), rpoly(rng, dq, sparse=dq > 100))
        clean("clean-divide", rpoly(rng, d, monic=True), rpoly(rng, 3), 2, 1)
        # root 0 in the divisor (removed by hand in the NTT arm), also a double root
        clean("clean-divide-root0", [0] + rpoly(rng, d - 1), rpoly(rng, 7))
        if d >= 2:
            clean("clean-divide-root0", [0, 0] + rpoly(rng, d - 2), [0] + rpoly(rng, 6))
    # zero dividend / zero divisor / constant divisor
    binop("clean-divide-degenerate", "clean_divide", "b", [], bl([7] + rpoly(rng, 2)))
    binop("clean-divide-degenerate", "clean_divide", "b", [], bl([7] + rpoly(rng, 599)))
    binop("clean-divide-degenerate", "clean_divide", "b", [], bl([7] + rpoly(rng, 599)), 3, 0)
    binop("clean-divide-degenerate", "clean_divide", "b", bl(rpoly(rng, 5)), [])
    binop("clean-divide-degenerate", "clean_divide", "b", bl(rpoly(rng, 5)), [], 0, 2)
    binop("clean-divide-degenerate", "clean_divide", "b", [], [])
    binop("clean-divide-degenerate", "clean_divide", "b", bl(rpoly(rng, 5)), bl([7]))
    # zero dividend against a divisor with root 0: Polynomial::zero() stores no coefficient (index panic before 8b5e451)
    for d in (3, 511, 512, 600):
        dv = bl([0] + rpoly(rng, d - 1))
        for ka in (0, 1, 3):
            binop("clean-divide-zero-dividend-root0", "clean_divide", "b", [], dv, ka, 0)
        binop("clean-divide-zero-dividend-root0", "clean_divide", "b", [], bl([0, 0] + rpoly(rng, d - 2)))
    # 6. divisors vanishing on the evaluation coset offset * <w_order>, offset = the extension element x (batch-inversion
    #    panic before 87d4e9b; now the NTT arm falls back to long division):
    #    multiples of X^3 - w^(2i) X + w^(3i); order = next_power_of_two(deg dividend + 1) (after removal of a root 0)
    for (d, dq) in ((3, 1), (5, 10), (100, 27), (511, 90), (512, 90), (602, 200), (513, 1023 - 513)) + (((600, 1100),) if big else ()):
        order = npo2(d + dq + 1)
        for i in sorted({0, 1, order // 2, order - 1}):
            if d >= 511 and i not in (0, 1) and not big and d != 602:
                continue
            dv = pmul(coset_factor(order, i), rpoly(rng, d - 3))
            clean("clean-divide-coset-root", dv, rpoly(rng, dq, sparse=dq > 100))
        # control: the same shape without the factor
        clean("clean-divide-coset-control", pmul([1, 5, 0, 1], rpoly(rng, d - 3)), rpoly(rng, dq, sparse=dq > 100))
    # root 0 and a coset root together (order computed after the removal of the root 0)
    for d in (20, 600):
        dq = 50
        dv = [0] + pmul(coset_factor(npo2(d + dq), 1), rpoly(rng, d - 4))
        clean("clean-divide-coset-root", dv, [0] + rpoly(rng, dq - 1))
    # 7. power-series inversion: precisions 0,1,2,3,255,256,257,1000; degrees on both sides of the cutoff 256
    precs = (0, 1, 2, 3, 255, 256, 257, 1000)
    for f in ("b", "x"):
        for n in precs:
            for sd in (0, 1, 2, 3):
                if f == "b" and not big and n == 1000 and sd == 3:
                    continue
                if f == "x" and not big and ((n == 1000 and sd >= 1) or (n >= 255 and sd >= 2)):
                    continue
                nop("fpsi", "fpsi_newton", f, n, poly(rng, f, sd))
            if n <= 257 and f == "b":
                nop("fpsi", "fpsi_newton", f, n, poly(rng, f, (17 if big else 5) if n > 3 else 40))
            if n <= 3:
                for sd in (127, 128, 129, 255, 256, 257):
                    if f == "x" and sd > 129 and not big:
                        continue
                    nop("fpsi-cutoff", "fpsi_newton", f, n, poly(rng, f, sd, True))
        for n in (4, 5, 7, 8, 9, 16, 17, 31, 32, 33, 64):
            nop("fpsi", "fpsi_newton", f, n, poly(rng, f, rng.choice((1, 2, 5, 9))))
            nop("fpsi", "fpsi_newton", f, n, poly(rng, f, 6), 3)
        # non-invertible: zero constant term, zero polynomial; precision 0 included
        for n in (0, 1, 5, 300):
            nop("fpsi-noninvertible", "fpsi_newton", f, n, [[0] * W[f]] + poly(rng, f, 4))
            nop("fpsi-noninvertible", "fpsi_newton", f, n, [])
            nop("fpsi-noninvertible", "fpsi_newton", f, n, [], 2)
            nop("fpsi-noninvertible", "fpsi_newton", f, n, [[0] * W[f]] + poly(rng, f, 300, True))
    if big:
        nop("fpsi", "fpsi_newton", "b", 1000, poly(rng, "b", 17))
        nop("fpsi", "fpsi_newton", "b", 4096, poly(rng, "b", 3))
    # 8. gcd: common factors, equal inputs, zero operands, coprime, constants
    for f in ("b", "x"):
        mulf = (lambda a, b: bl(pmul([c[0] for c in a], [c[0] for c in b]))) if f == "b" else xpmul
        sizes = ((1, 1, 1), (2, 3, 1), (3, 5, 4), (5, 2, 7), (8, 8, 8)) + (((20, 30, 25), (60, 1, 40)) if f == "b" else ())
        for (dg, da, db) in sizes:
            g_, a_, b_ = poly(rng, f, dg), poly(rng, f, da), poly(rng, f, db)
            binop("xgcd-common-factor", "xgcd", f, mulf(g_, a_), mulf(g_, b_))
            binop("xgcd-common-factor", "xgcd", f, mulf(g_, a_), g_)
            binop("xgcd-common-factor", "xgcd", f, g_, mulf(g_, b_), 1, 2)
            binop("xgcd-equal", "xgcd", f, g_, g_)
            binop("xgcd-zero", "xgcd", f, g_, [])
            binop("xgcd-zero", "xgcd", f, [], g_, 2, 0)
            binop("xgcd-coprime", "xgcd", f, a_, b_)
        binop("xgcd-zero", "xgcd", f, [], [])
        binop("xgcd-zero", "xgcd", f, [], [], 1, 3)
    binop("xgcd-large", "xgcd", "b", poly(rng, "b", 300), poly(rng, "b", 200))
    binop("xgcd-large", "xgcd", "b", bl(pmul(rpoly(rng, 100), rpoly(rng, 150))), bl(pmul(rpoly(rng, 100), rpoly(rng, 120))))
    # 9. structured multiples: n around deg and 2*deg, below deg (panic), zero polynomial (panic), root 0
    for f in ("b", "x"):
        for d in (0, 1, 2, 5, 64, 128, 129) if f == "b" else (0, 1, 2, 5, 33):
            a = poly(rng, f, d)
            for n in sorted({d - 1, d, d + 1, 2 * d - 1, 2 * d, 2 * d + 1, 3 * d + 1, 4 * d + 3}):
                if n < 0:
                    continue
                nop("structured-multiple", "smod", f, n, a)
            nop("structured-multiple", "smod", f, 2 * d + 1, a, 3)
        nop("structured-multiple", "smod", f, 4, [])
        nop("structured-multiple", "smod", f, 0, [])
        nop("structured-multiple", "smod", f, 9, [[0] * W[f]] * 2 + poly(rng, f, 3))
        nop("structured-multiple", "smod", f, 5, [[0] * W[f]] * 2 + poly(rng, f, 3))
    nop("structured-multiple", "smod", "b", 512, poly(rng, "b", 200))
    nop("structured-multiple", "smod", "b", 256, poly(rng, "b", 128))
    # 10. XFieldElement::inverse (xgcd against x^3 - x + 1) on boundary triples
    tri = [(0, 0, 0), (1, 0, 0), (0, 1, 0), (0, 0, 1), (P - 1, 0, 0), (0, P - 1, 0), (0, 0, P - 1), (P - 1, P - 1, P - 1),
           (1, 1, 0), (1, P - 1, 0), (1, P - 1, 1), (1, 0, 1), (0, 1, 1), (2, 0, 0), (1, 1, 1), (P - 1, 1, 0), (0, P - 1, 1)]
    for t in tri:
        add("xinv-boundary", "xinv x %d %d %d" % t)
    for _ in range(60 if not big else 600):
        t = tuple(rng.choice(GRID) if rng.random() < 0.6 else rng.randrange(P) for _ in range(3))
        add("xinv-grid", "xinv x %d %d %d" % t)
    # 11. seeded random
    nrand = 1500 if big else 250
    for _ in range(nrand):
        f = "b" if rng.random() < 0.7 else "x"
        op = rng.choice(("divide", "naive_divide", "div", "rem", "reduce", "fast_reduce", "xgcd"))
        da = rng.choice((-1, 0, 1, 2, 5, 17, 40, 90, 130, 300))
        db = rng.choice((0, 1, 2, 3, 8, 33, 64))
        if f == "x":
            da, db = min(da, 90), min(db, 33)
        binop("random", op, f, poly(rng, f, da), poly(rng, f, db), rng.choice((0, 0, 0, 1, 3)), rng.choice((0, 0, 0, 2)))
    for _ in range(nrand // 5):
        d, dq = rng.choice((1, 2, 7, 30, 90)), rng.choice((0, 1, 4, 50))
        clean("random", rpoly(rng, d), rpoly(rng, dq))
    # operands that share memory: dividend and divisor are two borrowed polynomials over prefixes of ONE buffer (same start
    # address, different lengths), or the very same object
    for f in ("b", "x"):
        for deg in (1, 3, 8, 40):
            a = poly(rng, f, deg)
            n = deg + 1
            for (i, j) in sorted({(n, 1), (n, 2), (n, n // 2), (n, deg), (deg, n), (1, n), (0, n), (n, n), (2, 2), (n // 2, n)}):
                if i > n or j > n or j == 0:
                    continue
                if not any(a[j - 1]):
                    continue
                for sub in ("divide", "naive_divide", "div", "rem", "reduce", "fast_reduce", "xgcd"):
                    add("alias", "alias %s %s %d %d | %s" % (f, sub, i, j, grp(a, 0, True)))
        for deg in (0, 1, 5, 40):
            a = poly(rng, f, deg)
            for sub in ("divide", "naive_divide", "reduce", "fast_reduce"):
                add("same-object", "same %s %s | %s" % (f, sub, grp(a, rng.choice((0, 2)))))
    # a CLEAN division on aliased prefixes: dividend = d * (1 + x^j r) starts with the j coefficients of d
    for (dj, dr) in ((1, 0), (2, 3), (5, 5), (8, 1), (30, 40), (600, 20)):
        if dj > 100 and not big:
            continue
        d = rpoly(rng, dj - 1)
        if not d or d[0] == 0:
            d = [1] + d[1:] if d else [1]
        q = [1] + [0] * (dj - 1) + rpoly(rng, dr)
        a = pmul(d, q)
        if a[:dj] == d:
            add("alias", "alias_clean_divide b %d %d | %s" % (len(a), dj, grp(bl(a), 0, True)))
    return out
