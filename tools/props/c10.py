"""C10 - Merkle trees build correctly under any schedule; honest proofs complete and minimal.

Shares model, oracle driver and harness binary with C04 (see tools/props/c04.py for the case-line grammar).
The parallelisation cutoff is read from the environment once per process, so the cutoff / thread-count
matrix is run by `extra_checks`: one harness process per (env value, RAYON_NUM_THREADS); the model gets the
effective cutoff as the first argument of `build`.
"""
import json
import os
import subprocess
import sys
import time

from props import c04 as base

ID = "C10"
GEN_TAGS = ["MerkleGen"]
PROOF_TARGETS = ["proofs/MerkleProofs.vo"]
PROPS_FILE = "props/C10.v"
EXTRACT = "extract/ExtractC04.vo"
ORACLE = ("gen_c04", "c04.ml")
HARNESS = "c04"
PROFILES = ["release", "checked"]
RUN_TIMEOUT = {"quick": 900, "thorough": 3000}
ENV_NAME = "TWENTY_FIRST_MERKLE_TREE_PARALLELIZATION_CUTOFF"
DEFAULT_CUTOFF = 256
# both are pinned to the current source through coq/gen/MerkleGen.v (theorem C10_model_matches_source pins the
# default; the generated file carries the variable name read by the translator)
try:
    _gen = open(os.path.join(os.path.dirname(os.path.abspath(__file__)), "..", "..", "coq", "gen", "MerkleGen.v")).read()
    import re as _re
    _m = _re.search(r"\(\* ENV (\w+) \*\)", _gen)
    if _m:
        ENV_NAME = _m.group(1)
    _m = _re.search(r"GEN_DEFAULT_PARALLELIZATION_CUTOFF : Z := (\d+)", _gen)
    if _m:
        DEFAULT_CUTOFF = int(_m.group(1))
except OSError:
    pass
HANG_TIMEOUT = 20

TRUSTED = base.TRUSTED + [
    "rayon: par_iter().map(f).collect_into_vec() is modelled as map f (closures pure, indexed collect keeps order); "
    "validated, not proved, by running every cutoff value under RAYON_NUM_THREADS in {1,2,5,16}",
    "the mapping from the environment value to the effective cutoff (unset / unparsable as usize -> 256) is in this module",
]
ASSUMPTIONS = base.ASSUMPTIONS + [
    "schedule independence: assumed from purity of the closures (DESIGN 1.5), validated by runs",
]
RULE = ("every leaf count 0..2^12 (2^16 thorough) under every listed cutoff value x thread count; index lists exhaustive for "
        "h <= 4 (ordered, length <= 3, with repetition, including out-of-range indices), random above; every case is "
        "non-trivial; distinct = distinct case text")

# CPU affinity (taskset -c 0 / 0-2 with RAYON_NUM_THREADS unset) is varied for cutoffs 0, 1, 256, unset
ENV_VALUES = [None, "abc", "-1", "0", "1", "2", "3", "4", "8", "255", "256", "257", str(2 ** 20)]
THREADS = ["1", "2", "5", "16"]


def effective_cutoff(v):
    if v is None:
        return DEFAULT_CUTOFF
    try:
        if v.startswith("+"):
            v = v[1:]
        if not v.isdigit():
            return DEFAULT_CUTOFF
        x = int(v)
        return x if x < 2 ** 64 else DEFAULT_CUTOFF
    except ValueError:
        return DEFAULT_CUTOFF


def build_lines(cutoff, nmax, dense):
    out = []
    sizes = set()
    if dense:
        sizes |= set(range(0, min(nmax, 4096) + 1))
    sizes |= set(range(0, 70))
    k = 1
    while k <= nmax:
        sizes |= {k - 1, k, k + 1}
        k *= 2
    for n in sorted(s for s in sizes if 0 <= s <= nmax + 1):
        out.append(("build", "build %d %d s0" % (cutoff, n)))
    for n in (1, 2, 4, 16, 64, 256, 512, 1024):
        if n <= nmax:
            out.append(("build-equal-leafs", "build %d %d c1" % (cutoff, n)))
            out.append(("build-periodic-leafs", "build %d %d m2" % (cutoff, n)))
            out.append(("build-periodic-leafs", "build %d %d m3" % (cutoff, n)))
    return out


def cases(tier, rng):
    big = tier == "thorough"
    out = []
    out += build_lines(DEFAULT_CUTOFF, 2 ** 16 if big else 2 ** 12, dense=False)
    # index lists: exhaustive for h <= 4 (ordered, with repetition, length <= 3), including out-of-range
    for h in range(0, 5):
        n = 1 << h
        ls = "s0"
        lists = [[]]
        dom = list(range(n))
        lists += [[a] for a in dom]
        lists += [[a, b] for a in dom for b in dom]
        lists += [[a, b, c] for a in dom for b in dom for c in dom]
        for l in lists:
            out.append(("lists-h%d-k%d" % (h, len(l)), "honest %d %s %s" % (n, ls, " ".join(map(str, l)))))
        for bad in (n, n + 1, 2 * n, 2 ** 32, 2 ** 63, base.U - 1, base.U - n):
            for l in ([bad], [0, bad], [bad, 0], [n - 1, bad, 0]):
                s = " ".join(map(str, l))
                out.append(("lists-out-of-range", "auth %d %s %s" % (n, ls, s)))
                out.append(("lists-out-of-range", "proof %d %s %s" % (n, ls, s)))
    # random above
    hmax = 14 if big else 12
    for rep in range(1500 if big else 300):
        h = rng.randrange(5, hmax + 1)
        n = 1 << h
        k = rng.choice([1, 2, 3, 5, 8, 13, 21, 40])
        idxs = [rng.randrange(n) for _ in range(k)]
        for _ in range(rng.randrange(0, 3)):
            idxs.insert(rng.randrange(len(idxs) + 1), rng.choice(idxs))
        if rng.random() < 0.3:
            idxs.append(idxs[0] ^ 1)
        if rng.random() < 0.2:
            base_i = rng.randrange(n - 8)
            idxs += list(range(base_i, base_i + 8))
        ls = rng.choice(["s0", "s0", "m2", "m5", "c1"])
        s = " ".join(map(str, idxs))
        out.append(("lists-random", "honest %d %s %s" % (n, ls, s)))
        if rep % 4 == 0:
            out.append(("lists-random", "auth %d %s %s" % (n, ls, s)))
    # lists of length exactly num_leafs (and +-1) WITH repetitions: same length / sum / xor / multiset statistics as the
    # list of all leafs without being a permutation ("all leafs are opened" shortcuts must not fire); exhaustive for n = 4
    import itertools
    for l in itertools.product(range(4), repeat=4):
        out.append(("lists-full-length-n4", "honest 4 s0 %s" % " ".join(map(str, l))))
    for n in (2, 8, 16, 32):
        tgt = n * (n - 1) // 2
        seen = set()
        for _ in range(400):
            l = [rng.randrange(n) for _ in range(n)]
            kind = rng.randrange(4)
            if kind == 0:       # steer the sum to n(n-1)/2
                for _ in range(4 * n):
                    d = tgt - sum(l)
                    if d == 0:
                        break
                    j = rng.randrange(n)
                    l[j] = min(n - 1, max(0, l[j] + (1 if d > 0 else -1) * rng.randrange(1, abs(d) + 1)))
            elif kind == 1:     # a permutation with one element duplicated over another
                l = list(range(n))
                rng.shuffle(l)
                l[rng.randrange(n)] = l[rng.randrange(n)]
            elif kind == 2:     # pairs (i, i, j, j, ...) and mirrored pairs (i, n-1-i)
                half = [rng.randrange(n) for _ in range(n // 2)]
                l = [x for i in half for x in ((i, i) if rng.random() < 0.5 else (i, n - 1 - i))]
            if tuple(l) in seen or len(l) != n:
                continue
            seen.add(tuple(l))
            if len(seen) > (60 if big else 20):
                break
            out.append(("lists-full-length", "honest %d s0 %s" % (n, " ".join(map(str, l)))))
            if rng.random() < 0.3:
                out.append(("lists-full-length", "honest %d m3 %s" % (n, " ".join(map(str, l + [l[0]])))))
                out.append(("lists-full-length", "honest %d s0 %s" % (n, " ".join(map(str, l[:-1])))))
    # all leafs / all but one, contiguous ranges
    for h in range(0, 8):
        n = 1 << h
        out.append(("lists-all", "honest %d s0 %s" % (n, " ".join(map(str, range(n))))))
        out.append(("lists-all", "honest %d s0 %s" % (n, " ".join(map(str, reversed(range(n)))))))
        if n > 1:
            out.append(("lists-all-but-one", "honest %d s0 %s" % (n, " ".join(map(str, range(1, n))))))
    return out


def compare(case, impl, model):
    f = case.split()
    if f[0] == "build" and int(f[1]) != DEFAULT_CUTOFF and "C10_ENV_RUN" not in os.environ:
        return None       # meaningful only in the per-environment runs of extra_checks
    return base.compare(case, impl, model)


# ------------------------------------------------------------------ the cutoff x threads matrix
def _run(exe, lines, env, timeout):
    data = ("\n".join(lines) + "\n").encode()
    e = dict(os.environ)
    e.pop(ENV_NAME, None)
    e.pop("RAYON_NUM_THREADS", None)
    e.update(env)
    t0 = time.time()
    try:
        p = subprocess.run(exe if isinstance(exe, list) else [exe], input=data, stdout=subprocess.PIPE, stderr=subprocess.PIPE, timeout=timeout, env=e)
    except subprocess.TimeoutExpired:
        return None, time.time() - t0
    res = {}
    for ln in p.stdout.decode("utf-8", "replace").splitlines():
        i = ln.find(" ")
        if i > 0:
            res[ln[:i]] = ln[i + 1:]
    return res, time.time() - t0


def _replay_request():
    if "--replay" in sys.argv:
        try:
            rp = json.load(open(sys.argv[sys.argv.index("--replay") + 1]))
            if "env" in rp and "case" in rp:
                return rp
        except Exception:
            return None
    return None


def extra_checks(ctx):
    tier = ctx["tier"]
    exes = ctx["exes"]
    oracle = ctx["oracle"]
    violations = []
    info = {"env_matrix": {"env_values": ["<unset>" if v is None else v for v in ENV_VALUES], "threads": THREADS,
                           "runs": 0, "cases": 0, "mismatches": 0, "hang_probe": None}}
    if not exes or not oracle:
        return {"violations": violations, "info": info}
    rp = _replay_request()
    corpus_builds = []
    cdir = os.path.join(ctx["root"], "corpus", ID)
    if os.path.isdir(cdir):
        for f in sorted(os.listdir(cdir)):
            for ln in open(os.path.join(cdir, f)):
                ln = ln.strip()
                if ln.startswith("build "):
                    corpus_builds.append(ln)
    nmax = 2 ** 16 if tier == "thorough" else 2 ** 12
    model_cache = {}      # case text -> model output (the model does not depend on the thread count)

    def model_fill(case_texts):
        todo = [c for c in dict.fromkeys(case_texts) if c not in model_cache]
        if not todo:
            return True
        res, _ = _run(oracle, ["%d %s" % (i, c) for i, c in enumerate(todo)], {}, 1500)
        if res is None:
            return False
        for i, c in enumerate(todo):
            if str(i) in res:
                model_cache[c] = res[str(i)]
        return True

    def model_for(cutoff, lines_):
        texts = [ln.split(" ", 1)[1] for ln in lines_]
        if not model_fill(texts):
            return None
        return {ln.split(" ", 1)[0]: model_cache[t] for ln, t in zip(lines_, texts) if t in model_cache}

    HONEST = [("honest", "honest 1024 s0 0 1 77 1023 512"), ("honest", "honest 512 m3 5 5 400"),
              ("honest", "honest 8 s0 0 2")]
    if not rp:
        # all model results up front, one oracle process per distinct cutoff, in parallel
        import concurrent.futures
        cutoffs = sorted({effective_cutoff(v) for v in ENV_VALUES})
        with concurrent.futures.ThreadPoolExecutor(max_workers=8) as ex:
            list(ex.map(lambda cu: model_fill([c for _, c in build_lines(cu, nmax, True) + HONEST]), cutoffs))

    def check_env(prof, v, threads, lines_only=None, affinity=None):
        # threads = None: RAYON_NUM_THREADS unset, rayon sizes its pool from available_parallelism(), which is
        # what the CPU affinity mask (taskset) changes
        cutoff = effective_cutoff(v)
        env = {}
        if threads is not None:
            env["RAYON_NUM_THREADS"] = threads
        if v is not None:
            env[ENV_NAME] = v
        envdesc = {ENV_NAME: "<unset>" if v is None else v, "RAYON_NUM_THREADS": threads or "<unset>"}
        exe = exes[prof]
        if affinity:
            envdesc["taskset"] = affinity
            exe = ["taskset", "-c", affinity, exe]
        if cutoff == 0 and lines_only is None:
            # `while count >= 0` must not spin: probe with the smallest tree first; a timeout is the failure
            probe = ["0 build 0 1 s0"]
            res, dt = _run(exe, probe, env, HANG_TIMEOUT)
            info["env_matrix"]["hang_probe"] = "timeout after %ds" % HANG_TIMEOUT if res is None else "returned in %.2fs" % dt
            if res is None:
                m = model_for(0, probe)
                violations.append({"kind": "nontermination", "case": "build 0 1 s0", "profile": prof, "env": envdesc,
                                   "impl": "no result within %d s" % HANG_TIMEOUT, "model": (m or {}).get("0", ""),
                                   "why": "CpuParallel::from_digests does not return when the cutoff is 0"})
                return "hung"
        cl = lines_only if lines_only is not None else build_lines(cutoff, nmax, dense=(prof == "release" and threads == "2"))
        if lines_only is None:
            cl = [("corpus", c) for c in corpus_builds if int(c.split()[1]) == cutoff] + cl
            # a few proofs as well, so that the whole pipeline runs under this configuration
            cl = cl + HONEST
        lines = ["%d %s" % (i, c) for i, (_, c) in enumerate(cl)]
        m = model_for(cutoff, lines)
        res, dt = _run(exe, lines, env, 600)
        info["env_matrix"]["runs"] += 1
        if res is None or m is None:
            violations.append({"kind": "harness-or-oracle-timeout", "profile": prof, "env": envdesc, "no_input": True,
                               "detail": "no result within the time limit (%s)" % ("harness" if res is None else "oracle")})
            return
        os.environ["C10_ENV_RUN"] = "1"
        try:
            for i, (_, c) in enumerate(cl):
                info["env_matrix"]["cases"] += 1
                a, b = res.get(str(i)), m.get(str(i))
                why = "no output" if a is None or b is None else compare(c, a, b)
                if why:
                    info["env_matrix"]["mismatches"] += 1
                    if len(violations) < 20:
                        violations.append({"kind": "impl-vs-model", "case": c, "profile": prof, "env": envdesc,
                                           "impl": a, "model": b, "why": why})
        finally:
            os.environ.pop("C10_ENV_RUN", None)

    if rp:
        v = rp["env"].get(ENV_NAME)
        th = rp["env"].get("RAYON_NUM_THREADS", "2")
        check_env(rp.get("profile", "release") if rp.get("profile") in exes else "release",
                  None if v == "<unset>" else v, None if th == "<unset>" else th,
                  lines_only=[("replay", rp["case"])], affinity=rp["env"].get("taskset"))
        return {"violations": violations, "info": info}
    for v in ENV_VALUES:
        hung = False
        for th in THREADS:
            if hung:
                continue      # one 20 s probe is enough while the loop does not terminate
            if check_env("release", v, th) == "hung":
                hung = True
    if "checked" in exes:
        for v in ("1", "256", "3", "0"):
            check_env("checked", v, "2")
    import shutil
    if shutil.which("taskset"):
        info["env_matrix"]["affinity"] = ["0", "0-2"]
        for cpus in ("0", "0-2"):
            for v in ("0", "1", "256", None):
                check_env("release", v, None, affinity=cpus)
    return {"violations": violations, "info": info}
