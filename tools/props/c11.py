"""C11 - the MMR accumulator always commits to the current leaf list."""
from props import mmr_common as mc

ID = "C11"
GEN_TAGS = ["MmrIndexGen"]
PROOF_TARGETS = ["proofs/MmrProofs.vo", "proofs/MmrSmall.vo", "proofs/MmrUpdates.vo", "proofs/MmrBatch.vo", "proofs/MmrHistory.vo",
                 "proofs/MmrIdxTie.vo", "proofs/MmrMutate.vo", "proofs/MmrBatchGen.vo", "proofs/MmrAllSizes.vo"]
PROPS_FILE = "props/C11.v"
EXTRA_PROPS_FILES = ["props/C11b.v", "props/C11c.v"]
EXTRACT = "extract/ExtractMmr.vo"
ORACLE = ("gen_mmr", "mmr.ml")
HARNESS = "mmr"
PROFILES = ["release", "checked"]
RUN_TIMEOUT = {"quick": 600, "thorough": 3000}

TRUSTED = [
    "Coq 8.16.1 kernel and its bytecode VM; no native_compute",
    "coq/lib/Word.v (count_ones, leading_zeros, wnot) as the meaning of the Rust bit intrinsics",
    "hand-written model coq/model/Mmr.v of mmr_accumulator.rs, shared_basic.rs (calculate_new_peaks_*), util_types/shared.rs, tied to the code only by the correspondence check; its index functions (coq/model/MmrIdxLocal.v) are PROVED equal, on all u64 arguments including the panic outcome, to the functions of gen/MmrIndexGen.v (regenerated from shared_basic.rs / shared_advanced.rs on every run) and the loops of model/MmrIndex.v around them (C11_index_functions_regenerated in props/C11b.v, proofs/MmrIdxTie.v)",
    "extraction: ExtrOcamlBasic + ExtrOcamlZBigInt, Z.pow mapped to zarith's power function, OCaml 4.13.1, zarith 1.12",
    "correspondence harness harness/src/bin/mmr.rs (shadow forest naming digests by terms), oracle driver ocaml/mmr.ml, case generators tools/props/c11.py + mmr_common.py",
    "free hash: distinct terms are assumed to have distinct Tip5 evaluations and distinct 61-bit fingerprints",
    "Tip5::hash(&0u128) is compared with Tip5::hash_varlen(&[0,0,0,0]) by the harness (the encoding of u128 is C03's subject)",
    "HashMap<u64, Digest> modelled as an association list (lookup = latest insert); no result depends on iteration order",
    "the statement of the property as transcribed in coq/spec/MmrSpec.v and coq/props/C11.v",
]
ASSUMPTIONS = [
    "leaf counts < 2^63; arithmetic overflow is modelled as a panic (checked build), a release build would wrap (only for counts >= 2^63)",
    "mutations are carried out with valid membership proofs (as the property says) = the authentication path of the specification; with invalid proofs only model = implementation is checked",
    "history_commits, verify_batch_update_iff, rejects_dup_oob and bag_peaks_spec are proved in general (props/C11.v); the digest equality test deq is assumed to decide equality (derived PartialEq on Digest)",
    "props/C11c.v (general, all leaf counts < 2^63): the validity form of mutate_leaf / batch_mutate_leaf_and_update_mps / verify_batch_update (every mutation proof that VERIFIES, not only the specification path; verify_batch_update's verdict on every such mutation list, repeated indices included), the panic on a repeated leaf index, and the binding of the peaks to the leaf list - all under the explicit hypothesis that H is collision-free (forall a b c e, H a b = H c e -> a = c /\\ b = e; the free term algebra is an instance)",
]
RULE = ("SYNTHETIC accumulators MmrAccumulator::init(peaks, count) with hand-built valid proofs for bit-pattern counts up to 2^63-1 (2^k, 2^k-1, >= 33 trailing ones, count XOR index just below a power of two) through verify / append-update / mutate / batch-mutate / verify_batch_update; operation histories (append / mutate / batch-mutate / verify_batch_update with negative tweaks) of 1..300 (quick) or "
        "..3000 (thorough) operations with leaf counts steered through 2^k-1 -> 2^k; new_from_leafs for every count; "
        "small-scope exhaustive batch mutations; distinct = distinct case text")

TWEAKS = ("ok", "order", "peak0", "peak1", "peak5", "swapv", "dup", "oob", "appp", "appm", "bp")


def vbu_grid(rng, counts):
    out = []
    for n in counts:
        h = mc.Hist(rng)
        for _ in range(n):
            h.append(kind="a", track=False)
        for tw in TWEAKS:
            for size in (0, 1, 2, 3):
                if size > n:
                    continue
                for napp in (0, 1, 2):
                    h.vbu(tweak=tw, idxs=(h.related(size) if size else []), napp=napp)
        out.append(h.line())
    return out


def cases(tier, rng):
    big = tier == "thorough"
    out = mc.syn_cases(rng, big, ("a", "m", "b", "w", "wx"))
    for n in range(0, 301 if big else 70):
        out.append(("new_from_leafs", "nfl %d" % n))
    for n in (511, 512, 513, 1023, 1024, 1025) + ((4095, 4096, 10000) if big else ()):
        out.append(("new_from_leafs", "nfl %d" % n))
    for line in vbu_grid(rng, list(range(0, 18)) + [31, 32, 33, 63, 64, 65] + ([127, 128, 255, 256, 257] if big else [])):
        out.append(("verify_batch_update-grid", line))
    nh = 400 if big else 130
    for k in range(nh):
        nops = rng.choice((1, 2, 3, 5, 8, 13, 24, 25, 40, 80, 150, 300))
        out.append(("history-random", mc.random_history(rng, nops, steer=False, track_bias=0.04)))
        out.append(("history-carry-steered", mc.random_history(rng, nops, steer=True, track_bias=0.04)))
    if big:
        for k in range(6):
            out.append(("history-long", mc.random_history(rng, 3000, steer=(k % 2 == 0), track_bias=0.02)))
    ss = mc.small_scope(rng, range(1, 17), 3, 0, kinds="bB") if big else \
        mc.small_scope(rng, range(1, 17), 3, 0, mut_sample=120, kinds="bB")
    for line in ss:
        out.append(("small-scope-batch", line))
    return out


def compare(case, impl, model):
    if "SPECDIFF" in model or model.startswith("ORACLE-ERROR"):
        return "model disagrees with the specification: " + model[model.find("SPECDIFF"):][:120]
    return None if impl == model else "implementation and model differ"
