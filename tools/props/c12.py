"""C12 - MMR successor proofs are complete, sound and total."""
from props import mmr_common as mc

ID = "C12"
GEN_TAGS = ["MmrIndexGen"]
PROOF_TARGETS = ["proofs/MmrProofs.vo", "proofs/MmrSmall.vo", "proofs/MmrUpdates.vo", "proofs/MmrBatch.vo", "proofs/MmrHistory.vo", "proofs/MmrSuccRej.vo",
                 "proofs/MmrAppend.vo", "proofs/MmrSuccComplete.vo", "proofs/MmrIdxTie.vo"]
PROPS_FILE = "props/C12.v"
EXTRA_PROPS_FILES = ["props/C12b.v"]
EXTRACT = "extract/ExtractMmr.vo"
ORACLE = ("gen_mmr", "mmr.ml")
HARNESS = "mmr"
PROFILES = ["release", "checked"]
RUN_TIMEOUT = {"quick": 600, "thorough": 3000}


TRUSTED = [
    "Coq 8.16.1 kernel and its bytecode VM (vm_compute for the concrete refutation witnesses and small-scope checks); no native_compute",
    "coq/lib/Word.v (count_ones, leading_zeros) as the meaning of the Rust bit-counting intrinsics",
    "hand-written model coq/model/Mmr.v of mmr_successor_proof.rs / shared_basic.rs (calculate_new_peaks_from_append), tied to the code only by the correspondence check; its index functions (coq/model/MmrIdxLocal.v) are PROVED equal, on all u64 arguments including the panic outcome, to the functions of gen/MmrIndexGen.v (regenerated from shared_basic.rs / shared_advanced.rs on every run) and the loops of model/MmrIndex.v around them (C12_index_functions_regenerated in props/C12b.v, proofs/MmrIdxTie.v)",
    "extraction: ExtrOcamlBasic + ExtrOcamlZBigInt, Z.pow mapped to zarith's power function, OCaml 4.13.1, zarith 1.12",
    "correspondence harness harness/src/bin/mmr.rs (its shadow forest names every digest by the term it is the Tip5 evaluation of), oracle driver ocaml/mmr.ml, case generator tools/props/c12.py",
    "free hash: distinct terms are assumed to have distinct Tip5 evaluations (a collision could only cause a spurious mismatch) and distinct 61-bit fingerprints",
    "the statement of the property as transcribed in coq/spec/MmrSpec.v (succ_verify_spec) and coq/props/C12.v",
]
ASSUMPTIONS = [
    "leaf counts < 2^63 for proof generation (the documented domain of new_from_batch_append); verification is modelled for all u64 counts",
    "`complete` is proved in general (props/C12b.v: C12_complete for every leaf list and every list of appended leafs with fewer than 2^63 leafs in total, generation never panics, rejection corollaries around the honest proof); C12_complete_small_partial of props/C12.v is superseded but kept",
    "arithmetic overflow is modelled as a panic (checked build); a release build would wrap - only reachable for counts >= 2^63",
    "a peak list of 2^32 or more digests makes `len().try_into::<u32>().unwrap()` panic: the totality theorem carries length < 2^32",
    "the model of verify is sp_verify_v1 (with the rejection of an old accumulator whose peak count differs from count_ones, /repo dfe5f25); sp_verify_v0 (without it) is kept only for the historical refutation lemmas; a return of the v0 behaviour (panic / acceptance) is a VIOLATION",
]
RULE = ("all (old, appended) pairs with total <= 64 exhaustively; every single-digest alteration, rotation, removal and "
        "addition; every old/new peak alteration; old/new peak lists longer/shorter than popcount, leaf count 0 with peaks, "
        "changed counts, swapped accumulators; synthetic accumulators with bit-pattern counts up to 2^62; distinct = distinct case text")


def locate(n, i):
    pk = 0
    for k in range(63, -1, -1):
        p = 1 << k
        if p <= n:
            if i < p:
                return pk, k, i
            pk, n, i = pk + 1, n - p, i - p
    return 0, 0, 0


def proof_len(old, new):
    total, offset = 0, 0
    for k in range(63, -1, -1):
        if old >> k & 1:
            _, hh, _ = locate(new, offset)
            total += hh - k
            offset += 1 << k
    return total


def popcount(x):
    return bin(x).count("1")


def tweaks_for(op, o, a, rng, full):
    """all structural tweaks of one (old, appended) pair"""
    out = []
    L = proof_len(o, o + a)
    js = range(L) if full else sorted(set([0, L - 1, L // 2] + [rng.randrange(L) for _ in range(2)])) if L else []
    for j in js:
        out.append(("alter-digest", "%s %d %d alt %d" % (op, o, a, j)))
    for r in (range(1, L) if full else ([1, L - 1] if L > 1 else [])):
        out.append(("rotate", "%s %d %d rot %d" % (op, o, a, r)))
    for t in ("drop", "dropf", "add", "addd"):
        out.append(("missing-surplus", "%s %d %d %s" % (op, o, a, t)))
    for j in range(popcount(o)):
        out.append(("alter-old-peak", "%s %d %d oldpk %d" % (op, o, a, j)))
    for j in range(popcount(o + a)):
        out.append(("alter-new-peak", "%s %d %d newpk %d" % (op, o, a, j)))
    for t in ("oldlong", "oldshort", "oldshortf", "oldcut", "zero"):
        out.append(("inconsistent-old", "%s %d %d %s" % (op, o, a, t)))
    for t in ("newlong", "newshort"):
        out.append(("inconsistent-new", "%s %d %d %s" % (op, o, a, t)))
    out.append(("old-gt-new", "%s %d %d swap" % (op, o, a)))
    for c in sorted(set([0, 1, o - 1, o + 1, o + a, o + a + 1, o ^ 1, o ^ 2, 2 ** 63, 2 ** 64 - 1])):
        if 0 <= c < 2 ** 64 and c != o:
            out.append(("changed-old-count", "%s %d %d oldcnt %d" % (op, o, a, c)))
    for c in sorted(set([0, o, o + a - 1, o + a + 1, (o + a) ^ 1, (o + a) ^ 2, 2 * (o + a), 2 ** 63, 2 ** 64 - 1])):
        if 0 <= c < 2 ** 64 and c != o + a:
            out.append(("changed-new-count", "%s %d %d newcnt %d" % (op, o, a, c)))
    return out


def cases(tier, rng):
    big = tier == "thorough"
    out = []
    # 1. completeness, exhaustively
    for o in range(0, 65):
        for a in range(0, 65 - o):
            out.append(("exhaustive-total<=64", "succ %d %d ok" % (o, a)))
    # 2. every tweak
    lim = 64 if big else 20
    for o in range(0, lim + 1):
        for a in range(0, lim + 1 - o):
            full = big or (o + a <= 12)
            if not big and o + a > 12 and rng.random() < 0.6:
                continue
            out += tweaks_for("succ", o, a, rng, full)
    # 3. synthetic accumulators: bit patterns up to 2^62
    pats = set()
    for k in range(0, 63):
        for d in (-1, 0, 1):
            v = 2 ** k + d
            if 0 <= v <= 2 ** 62:
                pats.add(v)
    pats |= {0x2AAAAAAAAAAAAAAA, 0x1555555555555555, 2 ** 62 - 1, 2 ** 62 - 2 ** 31, 2 ** 61 + 2 ** 60, 3 * 2 ** 60 - 1}
    for _ in range(200 if big else 40):
        pats.add(rng.randrange(0, 2 ** 62))
        pats.add(rng.randrange(0, 2 ** rng.randrange(1, 63)))
    pats = sorted(pats)
    apps = (0, 1, 2, 3, 5, 8, 17, 64) if big else (0, 1, 2, 5, 17)
    for o in pats:
        for a in apps:
            if o + a >= 2 ** 63:
                continue
            out.append(("synthetic-bit-patterns", "succs %d %d ok" % (o, a)))
    sub = pats if big else rng.sample(pats, 30)
    for o in sub:
        a = rng.choice(apps)
        if popcount(o) > 40 and not big:
            continue
        out += [(k + "-synthetic", c) for k, c in tweaks_for("succs", o, a, rng, False)]
    # 3b. peak lists far longer than any accumulator has (surplus digests): verify must reject, never panic; the counts
    # sit on both sides of the u8 / u16 boundaries of a length conversion
    for (o, a) in ((1, 1), (5, 3), (0, 1), (2 ** 20 - 1, 2)):
        for k in (1, 2, 63, 64, 200, 254, 255, 256, 257, 300, 65535, 65536, 65537):
            op = "succ" if o < 64 else "succs"
            out.append(("surplus-peaks", "%s %d %d oldpad %d" % (op, o, a, k)))
            out.append(("surplus-peaks", "%s %d %d newpad %d" % (op, o, a, k)))
    # 4. synthetic accumulators with REPEATED digests (equal peaks / equal appended leafs, index mod 1, 2, 3)
    for o in list(range(0, 40)) + [0b1011, 0b1_0110_1011, 2 ** 20 - 1, 2 ** 33 + 2 ** 7 - 1, 2 ** 40 + 2 ** 35 - 1]:
        for a in (1, 2, 3, 8, 13):
            for q in (1, 2, 3):
                out.append(("synthetic-equal-digests", "succq%d %d %d ok" % (q, o, a)))
            if o in (3, 11, 363, 2 ** 20 - 1) and a in (1, 8):
                out += [(k + "-equal-digests", c) for k, c in tweaks_for("succq2", o, a, rng, False)
                        if k in ("missing-surplus", "inconsistent-old", "old-gt-new")]
    return out


def parse(s):
    d = {}
    for tok in s.split():
        if "=" in tok:
            k, v = tok.split("=", 1)
            d[k] = v
    return d


def compare(case, impl, model):
    """The model is the repaired verify (sp_verify_v1 = the code after /repo dfe5f25).  V0 (the verdict of the
    historical, unrepaired code) is printed by the oracle for diagnosis only."""
    if model.startswith("ORACLE-ERROR") or "SPECDIFF" in model:
        return "oracle: " + model[:200]
    if impl == "PANIC" or model == "PANIC":
        return None if impl == model else "proof generation: implementation %s, model %s" % (impl[:40], model[:40])
    i, m = parse(impl), parse(model)
    if i.get("S") != m.get("S"):
        return "generated proof differs from the model's"
    if m.get("V1") != m.get("SP"):
        return "model (%s) disagrees with the specification (%s)" % (m.get("V1"), m.get("SP"))
    if i.get("V") == m.get("V1"):
        return None
    if i.get("V") == m.get("V0"):
        return ("verify on an inconsistent old accumulator: implementation %s (the behaviour of the unrepaired code: "
                "panic / acceptance), model and specification %s" % (i.get("V"), m.get("SP")))
    return "verdict %s differs from the model's %s" % (i.get("V"), m.get("V1"))


def nontrivial(case):
    return True
