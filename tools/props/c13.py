"""C13 - decoding is total, strict and resource-bounded on arbitrary sequences.
Shares the codec model, oracle and harness binary of C03 (ops decm / decx measure allocation)."""
import os
import re
import sys

sys.path.insert(0, os.path.normpath(os.path.join(os.path.dirname(os.path.abspath(__file__)), "..")))
import gen_types as G  # noqa: E402

ID = "C13"
GEN_TAGS = []
PROOF_TARGETS = ["proofs/CodecProofs.vo"]
PROPS_FILE = "props/C13.v"
EXTRACT = "extract/ExtractC03.vo"
ORACLE = ("gen_c03", "c03.ml")
HARNESS = "c03"
PROFILES = ["release", "checked"]
P = G.P

# allocation comparison (deliberately generous so that it never false-alarms):
#   peak heap bytes of one decode call  <=  BYTES_PER_SLOT * (model slot count + 1) + SLACK
# the model slot count is itself proved <= cost_coeff(t) * (len + 1)  (C13_cost_linear), re-checked per case below.
BYTES_PER_SLOT = 512
SLACK = 2048

TRUSTED = [
    "Coq 8.16.1 kernel",
    "extraction: ExtrOcamlBasic + ExtrOcamlZBigInt (positive, N, Z -> zarith), OCaml 4.13.1, zarith 1.12",
    "modelled by hand, tied by correspondence only: twenty-first/src/math/bfield_codec.rs decode paths, U32s<N>::decode, "
    "derive-generated decode (coq/model/Codec.v); `cost` counts boxed results and pushed items along the same slicing",
    "correspondence harness (harness/src/bin/c03.rs: catch_unwind + counting global allocator), oracle driver (ocaml/c03.ml), "
    "case generator (tools/props/c13.py, tools/gen_types.py)",
    "the real allocator, Vec growth policy and error-value allocations are outside the model: the comparison allows "
    "%d bytes per model slot plus %d bytes" % (BYTES_PER_SLOT, SLACK),
]
ASSUMPTIONS = [
    "sequences hold canonical field elements and fewer than 2^32 of them (theorem hypothesis): beyond that "
    "`sequence_index + item_length` in the dynamic list decoder can exceed usize (modelled as Panic in the checked profile, "
    "Err-or-Panic in release); such sequences (>= 32 GiB) are not executable here",
    "residue of the width-0 repair: for a list whose item type has encoded width 0 the item count is not bounded by the "
    "sequence length ([n] is a valid 1-element encoding of an n-item Vec<PhantomData<_>>), so C13_cost_linear carries the "
    "hypothesis no_width0_list; ZST items need no memory but the loop takes n steps, and a non-ZST width-0 item such as "
    "Box<PhantomData<_>> takes 8 bytes per item. The generators keep such counts <= 64",
    "usize is 64 bits; static_length of inhabited types is below 2^63",
]
RULE = ("near-valid sequences: a valid encoding (independent Python layout) with one position replaced by 0, 1, 2, x-1, x+1, "
        "2^32-1, 2^32, 2^63, p-1; every proper prefix class and extensions (must be rejected); width-0 item types; seeded random "
        "garbage; per case verdict (never PANIC), allocation bound and the instance of cost_linear; non-trivial = every case")

MUT_BIG = (0, 1, 2, 2**32 - 1, 2**32, 2**63, P - 1)
MUT_SMALL = (0, 1, 2, 3)


def line(op, tid, seq):
    return "%s %d %s%s" % (op, tid, G.term(G.TYPES[tid]), "".join(" %d" % x for x in seq))


def pair_mutants(enc, rng, w0, npairs):
    """two-position replacements: the same / different out-of-range high word on two elements, +1/-1 transfers,
    swaps - near-valid sequences that per-element checks combined by xor/sum/any-of-first would let through"""
    out = []
    L = len(enc)
    if L < 2 or w0:
        return out
    pairs = set()
    for i in range(min(L - 1, 3)):
        pairs.add((i, i + 1))
    pairs.add((L - 2, L - 1))
    for _ in range(npairs):
        i, j = sorted(rng.sample(range(L), 2))
        pairs.add((i, j))
    for (i, j) in sorted(pairs):
        a, b = enc[i], enc[j]
        for (da, db) in ((2**32, 2**32), (3 * 2**32, 3 * 2**32), (2**32, 2**33), (2**63, 2**63), (1, -1), (-1, 1)):
            x, y = a + da, b + db
            if 0 <= x < P and 0 <= y < P:
                m = list(enc)
                m[i], m[j] = x, y
                out.append(m)
        if a != b:
            m = list(enc)
            m[i], m[j] = b, a
            out.append(m)
    return out


def cases(tier, rng):
    out = []
    big = tier == "thorough"
    nvalid = 30 if big else 4
    max_pos = 30 if big else 10
    for tid, t in enumerate(G.TYPES):
        w0 = G.has_width0_list(t)
        seen = set()
        for _ in range(nvalid):
            enc = G.encode(t, G.gen_value(t, rng))
            if tuple(enc) in seen:
                continue
            seen.add(tuple(enc))
            L = len(enc)
            out.append(("valid", line("decm", tid, enc)))
            pos = list(range(L))
            if L > max_pos:
                pos = sorted(set([0, 1, L - 1] + rng.sample(range(L), max_pos - 3)))
            for i in pos:
                x = enc[i]
                cands = set(MUT_SMALL if w0 else MUT_BIG) | {x - 1, x + 1}
                if w0:
                    cands = {c for c in cands if c <= 64}
                for c in sorted(cands):
                    if 0 <= c < P and c != x:
                        out.append(("near-valid-replace", line("decm", tid, enc[:i] + [c] + enc[i + 1:])))
            for m in pair_mutants(enc, rng, w0, 6 if big else 2):
                out.append(("near-valid-pair", line("decm", tid, m)))
            for k in sorted(set([0, 1, L // 2, L - 2, L - 1])):
                if 0 <= k < L:
                    out.append(("truncated", line("decx", tid, enc[:k])))
            out.append(("extended", line("decx", tid, enc + [0])))
            out.append(("extended", line("decx", tid, enc + [1 if w0 else rng.choice((1, 2**32, P - 1))])))
            out.append(("extended", line("decx", tid, enc + enc[-2:] + [0])))
        # garbage: short random sequences of boundary values
        for _ in range(20 if big else 3):
            n = rng.choice((0, 1, 2, 3, 5, 9))
            pool = (0, 1, 2, 3) if w0 else (0, 1, 2, 3, 5, 2**32 - 1, 2**32, 2**63, P - 1)
            out.append(("garbage", line("decm", tid, [rng.choice(pool) for _ in range(n)])))
    # huge counts / lengths on otherwise tiny sequences, types without width-0 lists: no pre-allocation from counts
    for tid, t in enumerate(G.TYPES):
        if G.has_width0_list(t) or G.static_len(t) is not None:
            continue
        for c in (2**32 - 1, 2**32, 2**40, 2**61, 2**63, P - 1):
            out.append(("huge-count", line("decm", tid, [c])))
            out.append(("huge-count", line("decm", tid, [c, c])))
            out.append(("huge-count", line("decm", tid, [1, c, 1, c])))
            out.append(("huge-count", line("decm", tid, [2, c, 1] + [7] * 5)))
    # state between calls: a LARGE valid list of dynamically sized items is decoded first (warm-up), then a tiny sequence
    # with an oversized count: nothing the library remembers from the first call may license an allocation for the second
    NW = 3000 if not big else 20000
    for tid, t in enumerate(G.TYPES):
        if t[0] != "vec" or G.static_len(t[1]) is not None or G.has_width0_list(t):
            continue
        items = []
        while len(items) < NW:
            items.append(G.gen_value(t[1], rng))
        warm = G.encode(t, items[:NW])
        if len(warm) > 60000:
            items = items[:NW // 4]
            warm = G.encode(t, items)
        for c in (2**16, 2**32, 2**63, P - 1):
            for tail in ([c], [c, 1, 0], [c] + [1] * 7):
                out.append(("warm-then-huge-count", "decw %d %s %d %s" % (tid, G.term(t), len(warm), " ".join(map(str, warm + tail)))))
    return out


R_M = re.compile(r"^(OK|ERR|PANIC) C=(\d+) K=(\d+) W=([01])$")
R_I = re.compile(r"^(OK|ERR|PANIC) A=(\d+)$")


def compare(case, impl, model):
    f = case.split()
    op = f[0]
    if op not in ("decm", "decx", "decw"):
        return None if impl == model else "implementation and model differ"
    mi, mm = R_I.match(impl), R_M.match(model)
    if not mi or not mm:
        return "unparsable output"
    n = len(f) - 3 if op != "decw" else len(f) - 4 - int(f[3])
    if mi.group(1) != mm.group(1):
        return "verdict differs: implementation %s, model %s" % (mi.group(1), mm.group(1))
    if mi.group(1) == "PANIC":
        return "decode panicked"
    if op == "decx" and mi.group(1) != "ERR":
        return "a truncated / extended valid encoding was accepted"
    cost, coeff, w0 = int(mm.group(2)), int(mm.group(3)), mm.group(4) == "1"
    if not w0 and cost > coeff * (n + 1):
        return "model cost exceeds the proved linear bound (instance of C13_cost_linear fails)"
    if int(mi.group(2)) > BYTES_PER_SLOT * (cost + 1) + SLACK:
        return "peak allocation %s bytes exceeds %d * (slots %d + 1) + %d" % (mi.group(2), BYTES_PER_SLOT, cost, SLACK)
    return None


def nontrivial(case):
    return True
