"""C14 - the repository's derive macro generates a correct, layout-compatible codec.

Builds on the codec model of C03/C13 (coq/model/Codec.v: TStruct / TEnum clauses) through coq/model/DeriveModel.v.
Every definition of the shape sample (tools/gen_derive_types.py) exists twice in the harness: derived with the workspace
macro and with the published macro the library links; per case the harness runs both."""
import hashlib
import os
import re
import sys

sys.path.insert(0, os.path.normpath(os.path.join(os.path.dirname(os.path.abspath(__file__)), "..")))
import gen_types as G  # noqa: E402
import gen_derive_types as D  # noqa: E402

ID = "C14"
GEN_TAGS = []
PROOF_TARGETS = ["proofs/DeriveProofs.vo"]
PROPS_FILE = "props/C14.v"
EXTRACT = "extract/ExtractC14.vo"
ORACLE = ("gen_c14", "c14.ml")
HARNESS = "c14"
PROFILES = ["release", "checked"]
P = G.P
FINDING_TUPLE_IGNORE = "tuple-field-ignore-attr-no-effect"
FINDING_RECURSIVE = "recursive-type-static-length-diverges"
RECUR_EXPECTED = "OK 1 2 0 3"          # Recur::Node(Box::new(Recur::Leaf(3))): discriminant 1, prefix 2, [0, 3]
RUN_TIMEOUT = {"quick": 300, "thorough": 1500}

TRUSTED = [
    "Coq 8.16.1 kernel",
    "extraction: ExtrOcamlBasic + ExtrOcamlZBigInt (positive, N, Z -> zarith), OCaml 4.13.1, zarith 1.12",
    "the proc-macro's token generation (bfieldcodec_derive/src/lib.rs, quote!/syn) is NOT translated: the generated code is "
    "modelled by hand as the TStruct / TEnum clauses of coq/model/Codec.v plus the shape translation of "
    "coq/model/DeriveModel.v (`lower`); the tie is the differential run over the sampled definitions "
    "(tools/gen_derive_types.py -> harness/src/bin/c14_types.rs), never a proof about the macro",
    "compile-time behaviour of the macro is out of scope: definitions it rejects (named-field / empty-tuple enum variants, "
    "empty enums, unions, the attribute on an enum-variant field, fields named `sequence` / `elements`, duplicated or unknown "
    "attribute arguments, missing bounds) produce compile errors, not code",
    "workspace-vs-published comparison: `reg` types derive twenty_first::bfieldcodec_derive::BFieldCodec, i.e. exactly the "
    "registry crate /repo/Cargo.lock pins for twenty-first (0.7.1); `ws` types derive the path crate /repo/bfieldcodec_derive; "
    "values are compared through their Debug rendering and their encodings element by element",
    "correspondence harness (harness/src/bin/c14.rs: catch_unwind per macro, Probe impls generated per instance), oracle "
    "driver (ocaml/c14.ml: term parser, shapes lowered with the extracted `lower`), case generator and the independent "
    "Python rendering of the documented layout (tools/gen_types.py, tools/gen_derive_types.py, tools/props/c14.py)",
    "Default::default() of an ignored field is abstract in the theorems (`dflt`); the harness checks the decoded ignored "
    "fields against the real Default::default() and that overwriting them never changes the encoding",
]
ASSUMPTIONS = [
    "values are universal-type trees; a value of a named-field struct lists ALL fields, ignored ones included "
    "(shape_has_type puts no constraint on them)",
    "encodings hold fewer than 2^64 elements (round trip) / sequences fewer than 2^32 canonical elements (totality, "
    "strictness), as in C03 / C13; usize is 64 bits (there `x as usize` and `usize::try_from(x)` agree: "
    "C14_usize_conversions_agree)",
    "generic definitions are covered as their instances (a definition is a function from type arguments to shapes); "
    "bounds and where-clauses only decide whether an instance compiles",
    "recursive derived types are outside the Coq grammar (finite trees): `ty` is an inductive tree and static_length a "
    "structural Fixpoint, so no theorem speaks about them.  KNOWN FINDING %s: for enum Recur { Leaf(u32), Node(Box<Recur>) } "
    "the generated static_length() calls itself without a base case; a probe (harness op `recur`, own process, 10 s, both "
    "profiles) observes the divergence on every run" % FINDING_RECURSIVE,
    "the Rust side covers a finite sample of definitions and instances; the theorems cover every shape",
    "KNOWN FINDING %s: #[bfield_codec(ignore)] on a tuple-struct field is accepted and not honoured; the model is faithful "
    "to that (STuple ignores the flag, theorem C14_tuple_ignore_refuted)" % FINDING_TUPLE_IGNORE,
]
RULE = ("per instance: static_length; valid encodings built by the independent Python layout from boundary-biased values; "
        "every single-position replacement by 0,1,2,2^32-1,2^32,2^63,p-1,x+-1, two-position replacements (equal / different high words, +-1 transfers, swaps), truncations and extensions (must be rejected), "
        "prepends, garbage, unknown discriminants, huge length prefixes; each case runs the workspace-derived and the "
        "registry-derived type (verdict, re-encoding, Debug value, ignored fields, discriminant method) against the model; "
        "non-trivial = every case; distinct = distinct case text")

MUT_BIG = (0, 1, 2, 2**32 - 1, 2**32, 2**63, P - 1)
MUT_SMALL = (0, 1, 2, 3)
FLAGS = {
    "REGDIFF-VERDICT": "workspace macro and published macro disagree on accept / reject / panic",
    "REGDIFF-ENC": "workspace-derived and registry-derived values encode differently (not bit for bit)",
    "REGDIFF-VAL": "workspace-derived and registry-derived decode give different values",
    "REGDIFF": "static_length differs between the workspace macro and the published macro",
    "RTFAIL": "decode(encode(v)) != v for an accepted value",
    "IGNFAIL": "an ignored field of a decoded value is not Default::default()",
    "IGNENC": "the value of an ignored field changes the encoding (ignored field not omitted)",
    "IGNDEC": "decoding does not reset the ignored fields to Default::default()",
    "DISCFAIL": "bfield_codec_discriminant() is not the first element of the encoding",
    "POISON-NOOP": "harness problem: overwriting the ignored fields did not change the value",
}
INST = [(t, D.lower_g(t), D.term(t)) for t in D.INSTANCES]
BY_TERM = {}
for _i, (_t, _g, _term) in enumerate(INST):
    BY_TERM.setdefault(_term, _i)


def line(op, iid, seq):
    return "%s %d %s%s" % (op, iid, INST[iid][2], "".join(" %d" % x for x in seq))


def mutants(gt, enc, rng, max_pos):
    w0 = G.has_width0_list(gt)
    out = []
    L = len(enc)
    pos = list(range(L))
    if L > max_pos:
        pos = sorted(set([0, 1, L - 1] + rng.sample(range(L), max_pos - 3)))
    for i in pos:
        x = enc[i]
        cands = set(MUT_SMALL if w0 else MUT_BIG) | {x + 1, x - 1}
        if w0:
            cands = {c for c in cands if c <= 64}
        for c in sorted(cands):
            if 0 <= c < P and c != x:
                out.append(("mutant-replace", "dec", enc[:i] + [c] + enc[i + 1:]))
    for k in sorted(set([L - 1, L - 2, L // 2, 1, 0])):
        if 0 <= k < L:
            out.append(("truncated", "decx", enc[:k]))
    out.append(("extended", "decx", enc + [0]))
    out.append(("extended", "decx", enc + [1 if w0 else rng.choice((1, 2, 2**32, P - 1))]))
    out.append(("extended", "decx", enc + enc[-2:] + [0]))
    if L:
        out.append(("mutant-prepend", "dec", [enc[0]] + enc))
    return out


def pair_mutants(enc, rng, w0, npairs):
    """two-position replacements (as in C03): the same / different out-of-range high word on two elements, +1/-1
    transfers between two positions (e.g. two length prefixes, or a prefix and the discriminant), swaps"""
    out = []
    L = len(enc)
    if L < 2 or w0:
        return out
    pairs = set()
    for i in range(min(L - 1, 3)):
        pairs.add((i, i + 1))
    pairs.add((L - 2, L - 1))
    for _ in range(npairs):
        i, j = sorted(rng.sample(range(L), 2))
        pairs.add((i, j))
    for (i, j) in sorted(pairs):
        a, b = enc[i], enc[j]
        for (da, db) in ((2**32, 2**32), (3 * 2**32, 3 * 2**32), (2**32, 2**33), (2**63, 2**63), (1, -1), (-1, 1)):
            x, y = a + da, b + db
            if 0 <= x < P and 0 <= y < P:
                m = list(enc)
                m[i], m[j] = x, y
                out.append(m)
        if a != b:
            m = list(enc)
            m[i], m[j] = b, a
            out.append(m)
    return out


def cases(tier, rng):
    out = []
    big = tier == "thorough"
    nvalid = 40 if big else 6
    max_pos = 24 if big else 10
    for iid, (t, gt, term) in enumerate(INST):
        w0 = G.has_width0_list(gt)
        out.append(("static-len", "slen %d %s" % (iid, term)))
        seen = set()
        for _ in range(nvalid):
            enc = G.encode(gt, G.gen_value(gt, rng))
            if tuple(enc) in seen:
                continue
            seen.add(tuple(enc))
            out.append(("valid", line("decv", iid, enc)))
            if D.has_unhonoured_ignore(t):
                out.append(("tuple-ignore-attr", line("tign", iid, enc)))
            for k, op, m in mutants(gt, enc, rng, max_pos):
                out.append((k, line(op, iid, m)))
            for m in pair_mutants(enc, rng, w0, 8 if big else 3):
                out.append(("mutant-pair", line("dec", iid, m)))
        for _ in range(20 if big else 4):
            n = rng.choice((0, 1, 2, 3, 5, 9))
            pool = (0, 1, 2, 3) if w0 else (0, 1, 2, 3, 5, 2**32 - 1, 2**32, 2**63, P - 1)
            out.append(("garbage", line("dec", iid, [rng.choice(pool) for _ in range(n)])))
        if gt[0] == "enum":
            nv = len(gt) - 2
            out.append(("enum-empty", line("dec", iid, [])))
            for dsc in (nv, nv + 1, 255, 2**32, 2**63, P - 1):
                out.append(("enum-unknown-discriminant", line("dec", iid, [dsc])))
                out.append(("enum-unknown-discriminant", line("dec", iid, [dsc, 0])))
                out.append(("enum-unknown-discriminant", line("dec", iid, [dsc, 1, 7])))
        if not w0 and G.static_len(gt) is None:
            for c in (2**32 - 1, 2**32, 2**40, 2**63, P - 1):
                out.append(("huge-length", line("dec", iid, [c])))
                out.append(("huge-length", line("dec", iid, [c, c])))
                out.append(("huge-length", line("dec", iid, [1, c, 1, c])))
                out.append(("huge-length", line("dec", iid, [0, c, 1] + [7] * 5)))
    return out


# ------------------------------------------------------------------ a decoder for VALID encodings (Python layout),
# used to recover the value behind a `tign` case so that the layout of the property text can be rendered for it
def py_fields(ts, seq):
    vals = []
    for ft in reversed(ts):
        sl = G.static_len(ft)
        if sl is None:
            sl, seq = seq[0], seq[1:]
        vals.append(py_decode(ft, seq[:sl]))
        seq = seq[sl:]
    if seq:
        raise ValueError("too long")
    return list(reversed(vals))


def py_items(it, n, seq):
    sl = G.static_len(it)
    vals = []
    for _ in range(n):
        if sl is None:
            ln, seq = seq[0], seq[1:]
        else:
            ln = sl
        vals.append(py_decode(it, seq[:ln]))
        seq = seq[ln:]
    if seq:
        raise ValueError("too long")
    return vals


def py_decode(t, seq):
    k = t[0]
    if k in ("bfe", "u8", "u16", "u32"):
        (x,) = seq
        return x
    if k in ("u64", "u128"):
        return sum(x << (32 * i) for i, x in enumerate(seq))
    if k == "bool":
        return seq[0] == 1
    if k == "ph":
        return ()
    if k == "box":
        return py_decode(t[1], seq)
    if k == "opt":
        return None if seq[0] == 0 else ("some", py_decode(t[1], seq[1:]))
    if k == "vec":
        return py_items(t[1], seq[0], seq[1:])
    if k == "arr":
        return py_items(t[2], t[1], seq)
    if k == "u32s":
        return list(seq)
    if k == "tup":
        return py_fields(t[1:], seq)
    if k == "struct":
        return py_fields(t[2:], seq)
    if k == "enum":
        return ("variant", seq[0], py_fields(t[2 + seq[0]], seq[1:]))
    if k == "poly":
        return py_decode(("vec", t[1]), seq[1:])
    raise ValueError(t)


def spec_value(t, v):
    """v: value of lower_g(t)  ->  the value of lower_spec(t): fields carrying the attribute dropped everywhere"""
    k = t[0]
    if k == "d":
        df, ms = D.members(t)
        if df.kind == "enum":
            return ("variant", v[1], [spec_value(ft, x) for ft, x in zip(ms[v[1]][1], v[2])])
        if df.kind == "named":
            kept = [ft for _, ft, ign in ms if not ign]
            return [spec_value(ft, x) for ft, x in zip(kept, v)]
        return [spec_value(ft, x) for (_, ft, ign), x in zip(ms, v) if not ign]
    if k == "box":
        return spec_value(t[1], v)
    if k == "opt":
        return None if v is None else ("some", spec_value(t[1], v[1]))
    if k in ("vec", "poly"):
        return [spec_value(t[1], x) for x in v]
    if k == "arr":
        return [spec_value(t[2], x) for x in v]
    if k == "tup":
        return [spec_value(ft, x) for ft, x in zip(t[1:], v)]
    return v


def parse_case(case):
    f = case.split()
    op = f[0]
    iid = BY_TERM.get(f[2]) if f[1] == "-" else int(f[1])
    return op, iid, [int(x) for x in f[3:]]


def tign_spec(iid, seq):
    """the encoding the property's layout gives to the value behind the (faithfully) valid encoding seq"""
    t, gt, _ = INST[iid]
    v = py_decode(gt, seq)
    return G.encode(D.lower_spec(t), spec_value(t, v))


def compare(case, impl, model):
    """None if fine; the implementation must agree with the model AND satisfy the property on this case."""
    op, iid, seq = parse_case(case)
    flags = [w for w in impl.split() if w in FLAGS]
    if flags:
        return "; ".join(FLAGS[w] for w in flags) + " [" + impl[:200] + "]"
    if impl != model:
        return "implementation and model differ"
    if impl == "PANIC":
        return "decode panicked"
    if iid is None or iid >= len(INST):
        return "unknown instance"
    if op in ("dec", "decv", "decx", "tign"):
        expected = "OK" + "".join(" %d" % x for x in seq)
        if impl.startswith("OK"):
            if op == "decx":
                return "a truncated / extended valid encoding was accepted"
            if impl != expected:
                return "an accepted sequence does not re-encode to itself (second encoding of a value)"
        elif op in ("decv", "tign"):
            return "a valid encoding (documented layout) is not accepted: " + impl
        if op == "tign":
            spec = tign_spec(iid, seq)
            if spec != seq:
                return ("a tuple-struct field carrying #[bfield_codec(ignore)] is encoded: got %s, the property's layout "
                        "(ignored fields omitted) is %s" % (seq, spec))
    if op == "slen":
        sl = G.static_len(INST[iid][1])
        if impl != ("NONE" if sl is None else str(sl)):
            return "static_length differs from the documented layout"
    return None


def finding_key(case, impl, model):
    """exactly the class: implementation == faithful model, every check passes, and the only deviation is that a
    tuple-struct field carrying the attribute is part of the encoding"""
    try:
        op, iid, seq = parse_case(case)
        if op != "tign" or impl != model or iid is None:
            return None
        if impl != "OK" + "".join(" %d" % x for x in seq):
            return None
        if not D.has_unhonoured_ignore(INST[iid][0]):
            return None
        return FINDING_TUPLE_IGNORE if tign_spec(iid, seq) != seq else None
    except Exception:
        return None


def nontrivial(case):
    return True


def sha(path):
    try:
        return hashlib.sha256(open(path, "rb").read()).hexdigest()[:16]
    except OSError:
        return None


def probe_recursive(ctx):
    """Run `recur` (encode a value of a recursive derived enum) in a process of its own, 10 s, every profile.
    Divergence (no result in time / abort) is the class of the known finding; a wrong result is a plain violation."""
    import resource
    import subprocess

    def limits():
        soft, hard = resource.getrlimit(resource.RLIMIT_STACK)
        want = 8 << 20
        resource.setrlimit(resource.RLIMIT_STACK, (want if hard == resource.RLIM_INFINITY else min(want, hard), hard))
        resource.setrlimit(resource.RLIMIT_AS, (4 << 30, 4 << 30))

    out, info = [], {}
    diverged = []
    for prof, exe in sorted(ctx["exes"].items()):
        try:
            pr = subprocess.run([exe], input=b"0 recur\n", stdout=subprocess.PIPE, stderr=subprocess.PIPE, timeout=10,
                                preexec_fn=limits)
            res = pr.stdout.decode("utf-8", "replace").strip()
            err = [ln for ln in pr.stderr.decode("utf-8", "replace").splitlines() if ln.strip()]
            if pr.returncode == 0 and res == "0 " + RECUR_EXPECTED:
                info[prof] = "terminates with the expected encoding"
            elif pr.returncode == 0 and res:
                info[prof] = "terminates: " + res
                out.append({"kind": "recursive-type-wrong-encoding", "case": "recur-probe", "profile": prof, "impl": res,
                            "model": "0 " + RECUR_EXPECTED, "why": "encoding of a recursive derived type differs from the layout"})
            else:
                info[prof] = "aborted, exit status %d: %s" % (pr.returncode, err[-1][:120] if err else "")
                diverged.append((prof, info[prof]))
        except subprocess.TimeoutExpired:
            info[prof] = "no result within 10 s (endless loop)"
            diverged.append((prof, info[prof]))
    if diverged:
        hit = [f for f in ctx["kf"] if f[1] == FINDING_RECURSIVE]
        if hit:
            ctx["kf_hit"][FINDING_RECURSIVE] = [hit[0][2], len(diverged), "recur  (%s)" % "; ".join("%s: %s" % d for d in diverged)]
        else:
            out.append({"kind": "recursive-type-static-length-diverges", "case": "recur-probe", "profile": diverged[0][0],
                        "impl": "; ".join("%s: %s" % d for d in diverged), "model": RECUR_EXPECTED,
                        "why": "encode() of a value of a recursive derived type does not return: the generated "
                               "static_length() calls itself without a base case (replay: echo '0 recur' | <harness c14>)"})
    return out, info


def extra_checks(ctx):
    """the committed generated Rust file must be the one the generator writes; record which macro sources were compared;
    probe the recursive derived type"""
    path = os.path.join(ctx["root"], "harness", "src", "bin", "c14_types.rs")
    before = open(path).read() if os.path.exists(path) else None
    D.write_rust()
    after = open(path).read()
    v = []
    if before != after:
        v.append({"kind": "generated-file-stale", "detail": "harness/src/bin/c14_types.rs was regenerated; run again",
                  "no_input": True})
    repo = os.environ.get("VERIF_REPO", "/repo")
    info = dict(D.stats())
    lock = open(os.path.join(repo, "Cargo.lock")).read()
    vers = re.findall(r'name = "bfieldcodec_derive"\nversion = "([^"]+)"(\nsource = "([^"]+)")?', lock)
    info["bfieldcodec_derive_versions_in_lock"] = [{"version": a, "source": c or "workspace path"} for a, _, c in vers]
    info["workspace_macro_sha256"] = sha(os.path.join(repo, "bfieldcodec_derive", "src", "lib.rs"))
    reg = None
    base = os.path.expanduser("~/.cargo/registry/src")
    if os.path.isdir(base):
        for dd in sorted(os.listdir(base)):
            for a, _, c in vers:
                cand = os.path.join(base, dd, "bfieldcodec_derive-" + a, "src", "lib.rs")
                if c and os.path.exists(cand):
                    reg = cand
    info["registry_macro_source"] = reg
    info["registry_macro_sha256"] = sha(reg) if reg else None
    if len([1 for a, _, c in vers if c]) != 1:
        v.append({"kind": "lockfile", "detail": "expected exactly one registry version of bfieldcodec_derive in Cargo.lock, found %r" % (vers,),
                  "no_input": True})
    pv, pinfo = probe_recursive(ctx)
    v.extend(pv)
    info["recursive_type_probe"] = pinfo
    return {"violations": v, "info": info}
