"""C15 - sponge discipline: injective padding, domain separation, exact sampling."""
import subprocess
from props import tip5_py as T

ID = "C15"
GEN_TAGS = ["Tip5Gen", "gen_tip5"]
PROOF_TARGETS = ["proofs/SpongeProofs.vo"]
PROPS_FILE = "props/C15.v"
EXTRACT = "extract/ExtractC15.vo"
ORACLE = ("gen_c15", "c15.ml")
HARNESS = "c15"
PROFILES = ["release", "checked"]
RUN_TIMEOUT = {"quick": 600, "thorough": 3000}
P = T.P

TRUSTED = [
    "Coq 8.16.1 kernel and its bytecode VM; no native_compute",
    "tools/rs2v.py + tools/gen/gen_tip5.py (constants RATE, Digest::LEN, sponge::RATE, EXTENSION_DEGREE; the Tip5 tables) and coq/lib/Word.v",
    "extraction: ExtrOcamlBasic + ExtrOcamlZBigInt + the Z.pow directive of coq/extract/ExtractC15.v, OCaml 4.13.1, zarith 1.12",
    "correspondence harness (harness/src/bin/c15.rs, including its recording sponge), oracle driver (ocaml/c15.ml), case generator (tools/props/c15.py, tools/props/tip5_py.py)",
    "modelled by hand, tied by the correspondence only: Sponge::pad_and_absorb_all (iterator chain/take/chunks), Tip5::init/absorb/squeeze/hash_varlen/hash, sample_indices (while loop with a vector used as a stack), sample_scalars (flat_map/chunks/take)",
    "BFieldCodec::encode of BFieldElement and of Digest is the plain element list (Tip5::hash on those two types is compared with hash_varlen of that list)",
]
ASSUMPTIONS = [
    "sample_indices is called with a power-of-two bound (debug_assert! in checked builds; a bound of 0 divides by zero); termination of the rejection loop is stated with fuel",
    "num_elements * EXTENSION_DEGREE does not overflow usize in sample_scalars",
    "states are built through the value-level API (canonical words)",
]
RULE = ("hash_varlen / pad_and_absorb_all (recording sponge and Tip5) for lengths 0,1,9,10,11,19,20,21,100,... with contents "
        "ending in zeros and ones; absorb/squeeze/sample interleavings on sponges whose state is set so that squeezed "
        "elements equal to p-1 occur at chosen positions (first, last, ten in a row, also in the second squeeze via the "
        "inverse permutation); bounds 2^0..2^31, counts 0,1,9,10,11,33; scalar counts 0,1,3,4,10; "
        "non-trivial = every case; distinct = distinct case text")

LENGTHS = [0, 1, 9, 10, 11, 19, 20, 21, 100]
PINNED_SUM = [7610004073009036015, 5725198067541094245, 4721320565792709122, 1732504843634706218, 259800783350288362]


def contents(rng, n):
    """a few contents of length n, including tails of zeros / ones that imitate the padding"""
    out = [[0] * n, [1] * n, [P - 1] * n, [rng.randrange(P) for _ in range(n)]]
    if n >= 1:
        x = [rng.randrange(2, P) for _ in range(n)]
        for tail in ([0], [1], [1, 0], [0, 1], [1, 0, 0], [0, 0, 0], [1, 1], [1] + [0] * 8, [1] + [0] * 9, [1] + [0] * 10):
            if len(tail) <= n:
                out.append(x[:n - len(tail)] + tail)
    return out


def sponge_case(state, ops):
    toks = [str(v) for v in state]
    for o in ops:
        toks += [str(t) for t in o]
    return "sponge " + " ".join(toks)


def rand_state(rng):
    return [rng.randrange(P) for _ in range(16)]


def cases(tier, rng):
    out = []
    big = tier == "thorough"
    out.append(("domains", "init"))
    lengths = LENGTHS + ([29, 30, 31, 39, 40, 41, 99, 101, 200] if big else [30])
    for n in lengths:
        cs = contents(rng, n)
        if n >= 100 and not big:
            cs = cs[:3] + cs[-2:]
        for c in cs:
            s = " ".join(map(str, c))
            out.append(("varlen-len-%d" % n if n in LENGTHS else "varlen-len-other", ("varlen " + s).strip()))
            out.append(("padabs-recorder", ("padabs " + s).strip()))
            out.append(("padabs-tip5", ("padabs_tip5 " + s).strip()))
    # long inputs: beyond any plausible internal cutoff (a block-wise or buffered fast path that only starts at a few hundred
    # or a thousand elements), at and around multiples of the rate
    for n in (255, 256, 257, 1000, 1023, 1024, 1030, 4099):
        for c in ([rng.randrange(P) for _ in range(n)], [P - 1] * (n - 1) + [1]):
            s = " ".join(map(str, c))
            out.append(("varlen-long", "varlen " + s))
            out.append(("varlen-long", "padabs_tip5 " + s))
    # padding injectivity families: x, x++[0], x++[1], x++[1,0], ... must all be absorbed differently
    for n in (0, 1, 8, 9, 10, 18, 19):
        x = [rng.randrange(2, P) for _ in range(n)]
        for tail in ([], [0], [1], [1, 0], [1, 0, 0], [0, 0], [1] + [0] * (9 - n % 10), [1] + [0] * (10 - n % 10)):
            out.append(("padding-injectivity", ("padabs " + " ".join(map(str, x + tail))).strip()))
            out.append(("padding-injectivity", ("varlen " + " ".join(map(str, x + tail))).strip()))
    # the suite's pinned vector family (preimages 0..i)
    for i in range(20):
        out.append(("pinned", ("varlen " + " ".join(str(j) for j in range(i))).strip()))
    out.append(("hash-wrapper", "hash_bfe 0"))
    out.append(("hash-wrapper", "hash_bfe %d" % (P - 1)))
    out.append(("hash-wrapper", "hash_bfe %d" % rng.randrange(P)))
    out.append(("hash-wrapper", "hash_digest 0 0 0 0 0"))
    out.append(("hash-wrapper", "hash_digest " + " ".join(str(rng.randrange(P)) for _ in range(5))))
    if T.TABLE is None:
        return out
    M = P - 1
    bounds = [2**k for k in range(32)]
    counts = [0, 1, 9, 10, 11, 33]
    # ---- rejected elements (p-1) at chosen positions of the FIRST squeezed block
    pats = {"first": [0], "last": [9], "first-and-last": [0, 9], "ten-in-a-row": list(range(10)), "nine": list(range(9)),
            "alternating": [0, 2, 4, 6, 8], "middle": [4, 5]}
    for name, pos in pats.items():
        for n in counts:
            for ub in (rng.sample(bounds, 6 if big else 2) + [2**31, 1]):
                st = rand_state(rng)
                for q in pos:
                    st[q] = M
                out.append(("reject-" + name, sponge_case(st, [("I", ub, n)])))
        st = rand_state(rng)
        for q in pos:
            st[q] = M
        out.append(("reject-" + name, sponge_case(st, [("S",), ("I", 2**16, 10), ("S",)])))
        out.append(("reject-" + name, sponge_case(st, [("X", 4), ("I", 2**20, 11)])))
    # ---- rejected elements in the SECOND squeezed block: start from the inverse permutation of a chosen state
    for name, pos in pats.items():
        for n in (1, 9, 10, 11, 33):
            tgt = rand_state(rng)
            for q in pos:
                tgt[q] = M
            st = T.perm_inv(tgt)
            out.append(("reject-2nd-" + name, sponge_case(st, [("I", rng.choice(bounds), 10 + n)])))
            out.append(("reject-2nd-" + name, sponge_case(st, [("S",), ("I", rng.choice(bounds), n)])))
    # elements p-2 and p (=0) are accepted; only p-1 is skipped
    for v in (P - 2, 0, 1, 2**32 - 1, 2**32, 2**63):
        st = rand_state(rng)
        st[3] = v
        out.append(("near-reject", sponge_case(st, [("I", 2**31, 10)])))
    # ---- all bounds x all counts
    for ub in bounds:
        for n in (counts if big else [rng.choice(counts), 10]):
            out.append(("bounds-counts", sponge_case(rand_state(rng), [("I", ub, n)])))
    for n in counts:
        out.append(("bounds-counts", sponge_case(rand_state(rng), [("I", 2**31, n), ("I", 1, n)])))
    # ---- large counts (a chunked or buffered sampling path that only starts at a few hundred elements)
    for n in (100, 255, 256, 257, 1000):
        out.append(("large-counts", sponge_case(rand_state(rng), [("I", 2**20, n), ("S",)])))
        out.append(("large-counts", sponge_case(rand_state(rng), [("X", n), ("S",)])))
    # ---- scalars
    for n in (0, 1, 3, 4, 10, 2, 6, 7, 33):
        out.append(("scalars", sponge_case(rand_state(rng), [("X", n)])))
        st = rand_state(rng)
        st[0] = M
        st[9] = M
        out.append(("scalars", sponge_case(st, [("X", n), ("S",)])))
    # ---- interleavings
    def rand_op():
        c = rng.random()
        if c < 0.2:
            v = [rng.choice((0, 1, M, rng.randrange(P))) for _ in range(10)]
            return ("A",) + tuple(v)
        if c < 0.4:
            return ("S",)
        if c < 0.65:
            return ("I", rng.choice(bounds), rng.choice(counts + [2, 3, 20]))
        if c < 0.85:
            return ("X", rng.choice((0, 1, 3, 4, 10, 2, 5)))
        k = rng.choice((0, 1, 9, 10, 11, 19, 20, 21))
        return ("P", k) + tuple(rng.choice((0, 1, rng.randrange(P))) for _ in range(k))
    for _ in range(6000 if big else 250):
        st = rand_state(rng)
        if rng.random() < 0.5:
            for q in rng.sample(range(10), rng.randrange(1, 5)):
                st[q] = M
        if rng.random() < 0.2:
            tgt = rand_state(rng)
            for q in rng.sample(range(10), rng.randrange(1, 10)):
                tgt[q] = M
            st = T.perm_inv(tgt)
        out.append(("interleaving", sponge_case(st, [rand_op() for _ in range(rng.randrange(1, 7))])))
    # sponges starting from the two initial states
    out.append(("from-init", sponge_case([0] * 16, [("S",), ("S",)])))
    out.append(("from-init", sponge_case([0] * 10 + [1] * 6, [("S",), ("S",)])))
    out.append(("from-init", sponge_case([0] * 16, [("I", 2**10, 33), ("X", 10)])))
    if big:
        for _ in range(3000):
            n = rng.choice(LENGTHS[:-1] + [rng.randrange(0, 60)])
            c = [rng.choice((0, 1, rng.randrange(P))) for _ in range(n)]
            out.append(("varlen-random", ("varlen " + " ".join(map(str, c))).strip()))
            out.append(("padabs-random", ("padabs " + " ".join(map(str, c))).strip()))
    return out


def expected_padabs(case):
    """independent statement of the padding rule: input, a single one, fewest zeros to a multiple of ten"""
    vals = [int(x) % P for x in case.split()[1:]]
    padded = vals + [1]
    while len(padded) % 10:
        padded.append(0)
    return "%d %s" % (len(padded) // 10, " ".join(str(T.mont(v)) for v in padded))


def compare(case, impl, model):
    if impl != model:
        return "implementation and model/spec differ"
    if case.startswith("padabs ") or case == "padabs":
        if impl != expected_padabs(case):
            return "recorded absorbs are not input ++ [1] ++ fewest zeros (independent statement of the padding rule)"
    if case == "init":
        a, b = impl.split(" | ")
        if a == b or a.split() != ["0"] * 16 or b.split()[10:] != [str(T.mont(1))] * 6 or b.split()[:10] != ["0"] * 10:
            return "initial states of the two domains"
    return None


def extra_checks(ctx):
    """the suite's pinned hash_varlen vector (sum of the digests of (0..i), i < 20), and padding injectivity observed on
    the recording sponge: pairwise distinct inputs are absorbed as pairwise distinct sequences"""
    viol = []
    info = {}
    exe = ctx["exes"].get("release") or next(iter(ctx["exes"].values()), None)
    if exe is None:
        return {"violations": viol, "info": info}
    lines = ["%d varlen %s" % (i, " ".join(str(j) for j in range(i))) for i in range(20)]
    rng = ctx["rng"]
    fam = set()
    for n in (0, 1, 5, 9, 10, 11):
        for _ in range(30):
            fam.add(tuple(rng.choice((0, 1)) for _ in range(n)))
    fam = sorted(fam)
    lines += ["%d padabs %s" % (100 + i, " ".join(map(str, f))) for i, f in enumerate(fam)]
    p = subprocess.run([exe], input=("\n".join(lines) + "\n").encode(), stdout=subprocess.PIPE, timeout=120)
    res = dict(ln.split(" ", 1) for ln in p.stdout.decode().splitlines() if " " in ln)
    try:
        tot = [0] * 5
        for i in range(20):
            d = [T.val(int(x)) for x in res[str(i)].split()]
            tot = [(a + b) % P for a, b in zip(tot, d)]
        info["pinned_hash_varlen_sum_ok"] = tot == PINNED_SUM
        if tot != PINNED_SUM:
            viol.append({"kind": "pinned-vector", "case": "varlen 0..i, i<20 (hash_varlen_test_vectors)", "impl": str(tot),
                         "model": str(PINNED_SUM), "why": "sum of digests differs from the suite's pinned value"})
        seen = {}
        for i, f in enumerate(fam):
            r = res[str(100 + i)]
            if r in seen:
                viol.append({"kind": "padding-collision", "case": "padabs %s" % " ".join(map(str, f)), "impl": r,
                             "model": "distinct from padabs %s" % " ".join(map(str, seen[r])),
                             "why": "two different inputs are absorbed identically"})
            seen[r] = f
        info["padding_injectivity_family"] = len(fam)
    except (KeyError, ValueError) as ex:
        viol.append({"kind": "extra-check-error", "detail": repr(ex), "no_input": True})
    return {"violations": viol, "info": info}
