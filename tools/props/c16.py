import re
"""C16 - MMR index arithmetic matches the explicit forest of perfect trees."""
ID = "C16"
GEN_TAGS = ["MmrIndexGen"]
PROOF_TARGETS = ["proofs/MmrIndexBits.vo", "proofs/MmrIndexProofs.vo", "proofs/MmrIndexLoops.vo", "proofs/MmrIndexMain.vo", "proofs/MmrIndexGrow.vo"]
PROPS_FILE = "props/C16.v"
EXTRACT = "extract/ExtractC16.vo"
ORACLE = ("gen_c16", "c16.ml")
HARNESS = "c16"
PROFILES = ["release", "checked"]
RUN_TIMEOUT = {"quick": 600, "thorough": 3000}

TRUSTED = [
    "Coq 8.16.1 kernel and its bytecode VM (vm_compute in Examples only); no native_compute",
    "tools/rs2v.py translator (+ the two local typing extensions in tools/gen/gen_mmrindex.py: tuple-type hints, return-type "
    "driven typing of `let x = <untyped literals>`) and coq/lib/Word.v semantics of Rust u64/u32/u128 operators, shifts, "
    "count_ones, leading_zeros, ilog2, pow",
    "extraction: ExtrOcamlBasic + ExtrOcamlZBigInt (positive, N, Z -> zarith) + one extra directive in coq/extract/ExtractC16.v "
    "(Z.pow -> Big_int_Z.power_big_int_positive_big_int, 0 for a negative exponent), OCaml 4.13.1, zarith 1.12; cross-checked on every run: a sample of single-call cases (25 per op quick, 120 thorough, all 15 ops) is evaluated by vm_compute INSIDE Coq (tools/vmcross.py: no extraction, no OCaml, no driver) and must print what the extracted oracle prints",
    "correspondence harness (harness/src/bin/c16.rs), oracle driver (ocaml/c16.ml), case generator (tools/props/c16.py)",
    "verified through the translator (theorems re-checked on regenerated definitions): left_child, right_child, "
    "leaf_index_to_mt_index_and_peak_index, right_lineage_length_from_leaf_index, leftmost_ancestor, leaf_index_to_node_index, "
    "left_sibling, right_sibling, num_leafs_to_num_nodes",
    "modelled by hand (coq/model/MmrIndex.v: loops with fuel 65/66, panics and fuel exhaustion = None), tied to the code by the "
    "correspondence only; the theorems are about these models: right_lineage_length_and_own_height, "
    "right_lineage_length_from_node_index, parent, node_indices_added_by_append, get_authentication_path_node_indices, "
    "get_peak_heights, get_peak_heights_and_peak_node_indices, node_index_to_leaf_index",
    "the specification coq/spec/Forest.v (forest of perfect trees in post-order, by structural recursion) as the meaning of "
    "'explicit forest'; cross-checked at run time against a materialised forest and a forest grown leaf by leaf (op selfcheck)",
]
ASSUMPTIONS = [
    "node index 0 is not a node: leftmost_ancestor(0), right_lineage_length_and_own_height(0), right_lineage_length_from_node_index(0) "
    "panic in a checked build and return garbage in a release build; outside the property's domain, not exercised",
    "leaf indices / leaf counts >= 2^63 are outside the documented domain of leaf_index_to_node_index, num_leafs_to_num_nodes, "
    "right_lineage_length_from_leaf_index (checked build panics, release build wraps): exercised only by the x_ ops, where both "
    "behaviours are predicted by the model",
    "get_authentication_path_node_indices is specified for 1 <= start, target <= node_count = node count of a leaf count < 2^63",
    "parent(2^64-1) overflows (that node is the root of the height-63 tree, which no MMR below 2^63 leafs contains as a non-peak)",
]
RULE = ("exhaustive sweeps over every leaf count <= 2^10 (quick) / <= 2^12 and every 8th count up to 2^13 (thorough) with all leaf and "
        "node indices, all (start,target) "
        "pairs for small counts, boundary patterns 2^k, 2^k+-1, all-ones, alternating, random 63/64-bit for every function, "
        "out-of-contract leaf_index >= leaf_count; non-trivial = every case; distinct = distinct case text")

M64 = 2**64 - 1


def pc(n):
    return bin(n).count("1")


def ncount(n):
    return 2 * n - pc(n)


def l2n(i):
    return 2 * i - pc(i) + 1


def peaks(n):
    """[(height, node offset, first leaf)] of the forest of n leafs, highest first."""
    out, o, l = [], 0, 0
    for h in range(63, -1, -1):
        if n >> h & 1:
            out.append((h, o, l))
            o += 2**(h + 1) - 1
            l += 2**h
    return out


def locate(x):
    """(height, is_right, parent, ancestors bottom-up incl. x) of node x in the single perfect tree of height 63."""
    h, o = 63, 0
    path = []
    isr = False
    while True:
        root = o + 2**(h + 1) - 1
        path.append(root)
        if x == root:
            break
        lroot = o + 2**h - 1
        if x <= lroot:
            isr = False
        else:
            o = lroot
            isr = True
        h -= 1
    return h, isr, path[::-1]


def patterns63():
    s = set()
    for k in range(0, 64):
        for d in (-2, -1, 0, 1, 2):
            v = 2**k + d
            if 0 <= v < 2**63:
                s.add(v)
    for k in range(1, 64):
        s.add(2**k - 1)
        s.add(2**63 - 2**k)          # ones on top
        s.add((2**63 - 1) ^ (2**k))   # all ones with one hole
    s.add(0x5555555555555555)
    s.add(0x2AAAAAAAAAAAAAAA)
    s.add(0x3333333333333333)
    s.add(0x0F0F0F0F0F0F0F0F)
    s.add(2**63 - 1)
    return sorted(v for v in s if 0 <= v < 2**63)


def cases(tier, rng):
    out = []
    big = tier == "thorough"
    # quick: every count <= 2^10.  thorough: every count <= 2^12, then every 8th count and the last 8 up to 2^13
    # (every count <= 2^13 was run once during development: 21 min, no mismatch; the oracle costs ~7 us per index)
    NMAX = 2**12 if big else 2**10
    # ---- consistency of the specification itself (descent vs materialised vs grown forest)
    for n in range(0, 257 if big else 65):
        out.append(("selfcheck", "selfcheck %d" % n))
    # ---- exhaustive sweeps
    for n in range(1, NMAX + 1):
        out.append(("sweep-leafs", "leafsweep %d" % n))
        out.append(("sweep-nodes", "nodesweep %d %d" % (n, ncount(n))))
    if big:
        for n in sorted(set(range(2**12 + 8, 2**13 + 1, 8)) | set(range(2**13 - 8, 2**13 + 1))):
            out.append(("sweep-leafs", "leafsweep %d" % n))
            out.append(("sweep-nodes", "nodesweep %d %d" % (n, ncount(n))))
    for n in range(0, 41 if big else 25):
        out.append(("sweep-auth", "authsweep %d %d" % (n, ncount(n))))
    # ---- every function on every index for tiny leaf counts, one call per line (localises a mismatch)
    for n in range(0, 18):
        out.append(("tiny", "nln %d" % n))
        out.append(("tiny", "pheights %d" % n))
        out.append(("tiny", "peaks %d" % n))
        out.append(("tiny", "added %d" % n))
        for i in range(0, n):
            out.append(("tiny", "mtpk %d %d" % (i, n)))
        for i in (n, n + 1, 2 * n + 1):
            out.append(("out-of-contract", "mtpk %d %d" % (i, n)))
    for i in range(0, 40):
        out.append(("tiny", "l2n %d" % i))
        out.append(("tiny", "rllleaf %d" % i))
    for x in range(1, 80):
        for op in ("rllh", "rlln", "parent", "n2l", "lmost"):
            out.append(("tiny", "%s %d" % (op, x)))
        h, isr, path = locate(x)
        out.append(("tiny", ("lsib %d %d" if isr else "rsib %d %d") % (x, h)))
        if h > 0:
            out.append(("tiny", "lchild %d %d" % (x, h)))
            out.append(("tiny", "rchild %d" % x))
    # ---- boundary patterns
    P = patterns63()
    R = [rng.randrange(0, 2**63) for _ in range(2000 if big else 300)]
    for n in P + R:
        out.append(("pattern-count", "nln %d" % n))
        out.append(("pattern-count", "pheights %d" % n))
        out.append(("pattern-count", "peaks %d" % n))
        out.append(("pattern-count", "added %d" % n))
        out.append(("pattern-leaf", "l2n %d" % n))
        out.append(("pattern-leaf", "rllleaf %d" % n))
    wide = [2**63, 2**63 + 1, 2**64 - 1, 2**64 - 2, 0xAAAAAAAAAAAAAAAA, 0xFFFFFFFF00000000] + \
           [rng.randrange(2**63, 2**64) for _ in range(50)]
    for n in wide:
        out.append(("pattern-count", "pheights %d" % n))      # no documented bound: every u64
        out.append(("beyond-63-bits", "x_l2n %d" % n))
        out.append(("beyond-63-bits", "x_nln %d" % n))
    for n in (2**64 - 1, 2**64 - 2, 2**63, 2**63 - 1):
        out.append(("beyond-63-bits", "x_rllleaf %d" % n))
    # (leaf index, leaf count) pairs
    pairs = set()
    for n in P[::3] + R[:100]:
        if n == 0:
            continue
        for i in (0, 1, n - 1, n // 2, n // 2 + 1, n ^ (1 << (n.bit_length() - 1)), rng.randrange(0, n), rng.randrange(0, n)):
            if 0 <= i < n:
                pairs.add((i, n))
        # the last leaf of every tree of the forest and the first of the next
        for (h, o, l) in peaks(n):
            pairs.add((l, n))
            pairs.add((l + 2**h - 1, n))
    for (i, n) in sorted(pairs):
        out.append(("pattern-leaf-count", "mtpk %d %d" % (i, n)))
    for n in P[::7] + R[:30]:
        for i in (n, n + 1, 2**63 - 1, 2**64 - 1):
            if i >= n:
                out.append(("out-of-contract", "mtpk %d %d" % (i, n)))
    for n in wide[:12]:
        for i in (0, n - 1, 2**63 - 1, n // 3):
            out.append(("mtpk-wide", "mtpk %d %d" % (i, n)))
    # node indices: patterns over the whole u64 range for the three `*_does_not_crash` functions
    X = set()
    for k in range(0, 65):
        for d in (-3, -2, -1, 0, 1, 2):
            v = 2**k + d
            if 1 <= v <= M64:
                X.add(v)
    for n in P[::2] + R[:100]:
        if n >= 1:
            X.add(ncount(n))
            X.add(min(M64, ncount(n) + 1))
            X.add(l2n(n - 1))
    X |= {0x5555555555555555, 0xAAAAAAAAAAAAAAAA, M64, M64 - 1, M64 - 63, M64 - 64, M64 - 65}
    X |= {rng.randrange(1, 2**64) for _ in range(3000 if big else 400)}
    for x in sorted(X):
        for op in ("rllh", "rlln", "lmost"):
            out.append(("node-u64", "%s %d" % (op, x)))
        out.append(("node-u64", "n2l %d" % x))
        if x != M64:
            out.append(("node-u64", "parent %d" % x))
        h, isr, path = locate(x)
        if x != M64:
            out.append(("node-u64", ("lsib %d %d" if isr else "rsib %d %d") % (x, h)))
        if h > 0:
            out.append(("node-u64", "lchild %d %d" % (x, h)))
            out.append(("node-u64", "rchild %d" % x))
    # authentication paths in large forests
    for n in P[::5] + R[:60]:
        if n == 0:
            continue
        nc = ncount(n)
        pk = peaks(n)
        for _ in range(3):
            (h, o, l) = rng.choice(pk)
            root = o + 2**(h + 1) - 1
            i = l + rng.randrange(0, 2**h)
            st = l2n(i)
            _, _, path = locate(st)
            anc = [p for p in path if p <= root]
            out.append(("auth-large", "auth %d %d %d %d" % (st, root, nc, n)))
            out.append(("auth-large", "auth %d %d %d %d" % (st, rng.choice(anc), nc, n)))
            other = rng.choice(pk)
            out.append(("auth-large", "auth %d %d %d %d" % (st, other[1] + 2**(other[0] + 1) - 1, nc, n)))
            out.append(("auth-large", "auth %d %d %d %d" % (rng.choice(anc), root, nc, n)))
            out.append(("auth-large", "auth %d %d %d %d" % (st, rng.randrange(1, nc + 1), nc, n)))
    return out


def compare(case, impl, model):
    if case.startswith("x_"):
        if model.startswith("both:"):
            return None if impl.split(":", 1)[-1] == model[5:] else "implementation and model differ"
        return None if impl in model.split() else "implementation differs from the model's prediction for its build profile"
    return None if impl == model else "implementation and model/spec differ"


# ------------------------------------------------------------------ extraction cross-check (Coq's VM against the oracle)
VM_OPS = {  # harness / oracle op -> (Gallina function, arity, rendering)
    "lchild": ("mm_left_child", 2, "opt"), "rchild": ("mm_right_child", 1, "opt"),
    "lsib": ("mm_left_sibling", 2, "opt"), "rsib": ("mm_right_sibling", 2, "opt"),
    "lmost": ("mm_leftmost_ancestor", 1, "opt"), "l2n": ("mm_leaf_index_to_node_index", 1, "opt"),
    "rllleaf": ("mm_right_lineage_length_from_leaf_index", 1, "opt"),
    "mtpk": ("mm_leaf_index_to_mt_index_and_peak_index", 2, "opt"), "nln": ("mm_num_leafs_to_num_nodes", 1, "opt"),
    "rllh": ("mm_right_lineage_length_and_own_height", 1, "opt"),
    "rlln": ("mm_right_lineage_length_from_node_index", 1, "opt"), "parent": ("mm_parent", 1, "opt"),
    "n2l": ("mm_node_index_to_leaf_index", 1, "optopt"), "added": ("mm_node_indices_added_by_append", 1, "opt"),
    "pheights": ("mm_get_peak_heights", 1, "opt"),
}


def extra_checks(ctx):
    """A sample of single-call cases evaluated by `vm_compute` inside Coq (no extraction, no OCaml) must print what the
    extracted, zarith-mapped oracle prints."""
    import os
    import random
    import sys
    sys.path.insert(0, os.path.join(os.path.dirname(os.path.abspath(__file__)), ".."))
    import runner
    import vmcross
    info = {"vm_cross_check_sample": 0, "vm_cross_check_mismatches": 0}
    if not ctx.get("oracle"):
        return {"violations": [], "info": info}
    rng = random.Random(ctx["seed"] + 23)
    pool = []
    for k, c in cases("quick", rng):
        w = c.split()
        if w and w[0] in VM_OPS and len(w) - 1 == VM_OPS[w[0]][1] and all(re.fullmatch(r"\d+", a) for a in w[1:]):
            pool.append(c)
    pool = sorted(set(pool))
    rng.shuffle(pool)
    per_op = {}
    sample = []
    for c in pool:                       # at most 25 (quick) / 120 (thorough) per op, so that every op is represented
        o = c.split()[0]
        if per_op.get(o, 0) < (25 if ctx["tier"] == "quick" else 120):
            per_op[o] = per_op.get(o, 0) + 1
            sample.append(c)
    items = []
    for i, c in enumerate(sample):
        w = c.split()
        fn, ar, fmt = VM_OPS[w[0]]
        items.append((str(i), "%s %s" % (fn, " ".join(w[1:])), fmt))
    got, err = vmcross.run(runner.COQ, "From TF Require Import Word MmrIndexGen MmrIndex.", items)
    if got is None:
        return {"violations": [{"kind": "vm-cross-check-failed", "detail": err, "no_input": True}], "info": info}
    want, err, _ = runner.run_lines(ctx["oracle"], [], ["%d %s" % (i, c) for i, c in enumerate(sample)], 600)
    if want is None:
        return {"violations": [{"kind": "vm-cross-check-oracle-failed", "detail": err, "no_input": True}], "info": info}
    viol, bad = [], 0
    for i, c in enumerate(sample):
        x, y = want.get(str(i)), got.get(str(i))
        if x is not None and x.startswith("SPECDIFF"):
            continue
        if (x or "").strip() != (y or "").strip():
            bad += 1
            if len(viol) < 3:
                viol.append({"kind": "extraction-cross-check", "case": c, "impl": "extracted oracle: %s" % x,
                             "model": "Coq vm_compute: %s" % y, "no_input": True,
                             "why": "the extracted (zarith-mapped) model and the same Gallina term evaluated inside Coq disagree"})
    info["vm_cross_check_sample"] = len(sample)
    info["vm_cross_check_ops"] = per_op
    info["vm_cross_check_mismatches"] = bad
    return {"violations": viol, "info": info}
