"""C17 - polynomials have value semantics: stored leading zeros never change results."""
import re

from props.polycases import P, W, coef, poly, grp, sc

ID = "C17"
GEN_TAGS = ["PolyGen"]
PROOF_TARGETS = ["proofs/PolyCoreProofs.vo", "proofs/PolyC07Wrap.vo", "proofs/PolyValueSem.vo"]
PROPS_FILE = "props/C17.v"
EXTRACT = "extract/ExtractC07.vo"
ORACLE = ("gen_c07", "c07.ml")
HARNESS = "c07"
PROFILES = ["release", "checked"]
RUN_TIMEOUT = {"quick": 600, "thorough": 3000}

TRUSTED = [
    "Coq 8.16.1 kernel and its bytecode VM (vm_compute on the closed witnesses of the *_refuted theorems); no native_compute",
    "tools/rs2v.py + tools/gen/gen_poly.py (dispatch thresholds re-read from the source on every run)",
    "extraction: ExtrOcamlBasic + ExtrOcamlZBigInt, plus Extract Constant for Z.pow / Z.log2 / Z.testbit to zarith "
    "(coq/extract/ExtractC07.v), OCaml 4.13.1, zarith 1.12",
    "correspondence harness (harness/src/bin/c07.rs: builds every polynomial with Polynomial::new or new_borrowed and k appended "
    "zero coefficients), oracle driver (ocaml/c07.ml: the model runs on the raw list WITH the appended zeros, the spec on the "
    "plain values), case generator (tools/props/c17.py)",
    "modelled by hand, tied by correspondence only: coq/model/PolyCore.v (raw coefficient lists as stored; Hash = the list fed "
    "to the hasher; Display = list of printed terms; encode/decode)",
    "std: the slice Hash impl feeds the length and every element to the hasher, DefaultHasher is deterministic within a "
    "process; Cow::Borrowed and Cow::Owned are indistinguishable to every method (modelled by the same list)",
    "functions whose models belong to C08/C09 (division, reduction, gcd, power-series inverse, evaluation, coset interpolation) "
    "are covered here only by the direct implementation-vs-implementation comparison `cmp` (f(p) against f(p with stored "
    "zeros)); their repr-independence theorems are corollaries of the C08/C09 equations",
]
ASSUMPTIONS = [
    "truncate(k) with k = usize::MAX (k + 1 overflows: panic in a checked build, empty result in release) is outside the cases",
    "private helpers are reached through their public callers only",
]
RULE = ("every public operation of Polynomial taking a polynomial, every argument position, with k in {1,2,17} stored zero "
        "coefficients and k = 0, owned and borrowed storage, on the operands zero (stored as [], [0]), constants, 1, X, dense "
        "and sparse polynomials on both sides of the square / multiply thresholds; results as normalised value lists, ==, "
        "DefaultHasher equality, encode; plus the state left by the library's own operations (in-place += cancelling leading "
        "terms, scalar_mul_mut(0), shifting zero, products with zero, ...) observed by every operation (`then`, `cmp then`); "
        "non-trivial = a case with k > 0, borrowed storage or a produced state; distinct = distinct case text")

KS = (1, 2, 17)
UNARY = ("degree", "coeffs", "intocoeffs", "intoowned", "lc", "isx", "iszero", "isone", "display", "deriv", "neg", "encode",
         "codec", "slowsq", "square", "fastsq")
BINARY = ("mul", "naive", "fast", "multiply", "add", "sub", "addassign", "eq", "hash")


def storages(big=False):
    st = [(0, False), (0, True)]
    for k in KS:
        st += [(k, False), (k, True)]
    if big:
        st += [(64, False), (300, True)]
    return st


def pmul(a, b):
    """product of two BFE value lists mod P (generator side, for clean_divide operands)"""
    if not a or not b:
        return []
    r = [0] * (len(a) + len(b) - 1)
    for i, x in enumerate(a):
        if x:
            for j, y in enumerate(b):
                r[i + j] = (r[i + j] + x * y) % P
    return r


def cases(tier, rng):
    out = []
    big = tier == "thorough"
    ST = storages(big)

    def add(k, c):
        out.append((k, c))

    for f in ("b", "x"):
        one = [[1] + [0] * (W[f] - 1)]
        zero_c = [[0] * W[f]]
        xpoly = zero_c + one
        bases = [[], poly(rng, f, 0), one, xpoly, poly(rng, f, 1), poly(rng, f, 2), poly(rng, f, 5), poly(rng, f, 9, True),
                 zero_c + zero_c + poly(rng, f, 3), poly(rng, f, 31), poly(rng, f, 32), poly(rng, f, 40)]
        if big:
            bases += [poly(rng, f, 130), poly(rng, f, 257)]
        # ---- unary operations
        for a in bases:
            for (k, bo) in ST:
                ga = grp(a, k, bo)
                for op in UNARY:
                    add("unary", "%s %s %s" % (op, f, ga))
                x = coef(rng, f)
                for op in ("eval", "evalgen"):
                    add("unary-param", "%s %s %s | %s" % (op, f, ga, sc(x)))
                s = coef(rng, f, True)
                for op in ("smul", "smulmut", "rmul", "scale"):
                    add("unary-param", "%s %s %s | %s" % (op, f, ga, sc(s)))
                for n in (0, 1, 3):
                    add("unary-param", "shift %s %d | %s" % (f, n, ga))
                for n in sorted({0, 1, 2, max(0, len(a) - 1), len(a), len(a) + 1, len(a) + k, len(a) + k + 1}):
                    add("unary-param", "truncate %s %d | %s" % (f, n, ga))
                    add("unary-param", "modx %s %d | %s" % (f, n, ga))
                if len(a) <= 10:
                    for e in (0, 1, 2, 3, 7):
                        add("unary-param", "pow %s %d | %s" % (f, e, ga))
                        add("unary-param", "fastpow %s %d | %s" % (f, e, ga))
        # ---- binary operations, both positions
        small = [[], poly(rng, f, 0), one, poly(rng, f, 3), poly(rng, f, 6, True)]
        for a in small:
            for b in small:
                for (k, bo) in ST:
                    for op in BINARY:
                        if op == "hash":
                            continue
                        add("binary", "%s %s %s | %s" % (op, f, grp(a, k, bo), grp(b)))
                        add("binary", "%s %s %s | %s" % (op, f, grp(a), grp(b, k, bo)))
                    k2 = rng.choice(KS)
                    add("binary", "multiply %s %s | %s" % (f, grp(a, k, bo), grp(b, k2, not bo)))
        # equal polynomials with different storage: ==, hash, encode
        for a in bases:
            for (k, bo) in ST:
                add("eq-hash", "hash %s %s | %s" % (f, grp(a), grp(a, k, bo)))
                add("eq-hash", "hash %s %s | %s" % (f, grp(a, k, bo), grp(a)))
                add("eq-hash", "eq %s %s | %s" % (f, grp(a, k, bo), grp(a, rng.choice(KS), not bo)))
        # almost equal polynomials
        for a in bases[1:8]:
            b = [list(c) for c in a]
            b[rng.randrange(len(b))][0] ^= 1
            for k in (0,) + KS:
                add("eq-hash", "eq %s %s | %s" % (f, grp(a, k), grp(b)))
                add("eq-hash", "hash %s %s | %s" % (f, grp(a, k), grp(b, 1)))
        # threshold crossing products with stored zeros (resize-before-NTT sites)
        for (da, db) in ((128, 127), (128, 128), (200, 57), (255, 0), (256, 0)):
            a, b = poly(rng, f, da), poly(rng, f, db)
            for (k, bo) in ((1, False), (17, True), (300, False)):
                add("binary-large", "multiply %s %s | %s" % (f, grp(a, k, bo), grp(b)))
                add("binary-large", "multiply %s %s | %s" % (f, grp(a), grp(b, k, bo)))
                add("binary-large", "fast %s %s | %s" % (f, grp(a, k, bo), grp(b, 2)))
        # batch products with stored zeros in the factors
        for n in (1, 2, 3, 8):
            for k in KS:
                fs = [grp(poly(rng, f, rng.choice((0, 1, 2, 4))), rng.choice((0, k)), rng.random() < 0.5) for _ in range(n)]
                fs[0] = grp(poly(rng, f, 2), k)
                add("batch", "batch %s %s" % (f, " | ".join(fs)))
                add("batch", "parbatch %s %s" % (f, " | ".join(fs)))
        # decode: encodings with trailing zero coefficients must be rejected, canonical ones accepted
        w = W[f]
        for cs in ([], [[5] + [0] * (w - 1)], [[1] * w, [2] * w]):
            flat = [v for c in cs for v in c]
            add("decode", "decode %s %s" % (f, " ".join(map(str, [1 + len(flat), len(cs)] + flat))))
            flat0 = flat + [0] * w
            add("decode", "decode %s %s" % (f, " ".join(map(str, [1 + len(flat0), len(cs) + 1] + flat0))))
            add("decode", "decode %s %s" % (f, " ".join(map(str, [len(flat), len(cs)] + flat))))
        # ---- functions of C08/C09 through the direct comparison
        for (k, bo) in ST:
            if k == 0 and not bo:
                continue

            def g(cs):
                return grp(cs, k, bo)
            dvd, dvs = poly(rng, f, 7), poly(rng, f, 3)
            for sub in ("divide", "naive_divide", "div", "rem", "xgcd", "reduce", "multiply"):
                add("cmp", "cmp %s %s %s | %s" % (sub, f, g(dvd), grp(dvs)))
                add("cmp", "cmp %s %s %s | %s" % (sub, f, grp(dvd), g(dvs)))
                add("cmp", "cmp %s %s %s | %s" % (sub, f, g(dvs), g(dvd)))          # dividend of lower degree
                add("cmp", "cmp %s %s %s | %s" % (sub, f, g([]), g(dvs)))           # zero dividend
            long_, mod3 = poly(rng, f, 40), poly(rng, f, 3)
            for sub in ("reduce", "fast_reduce"):
                add("cmp", "cmp %s %s %s | %s" % (sub, f, g(long_), grp(mod3)))
                add("cmp", "cmp %s %s %s | %s" % (sub, f, grp(long_), g(mod3)))
            add("cmp", "cmp shift_factor %s %s" % (f, g(mod3)))
            add("cmp", "cmp is_zero_one_x %s %s" % (f, g(mod3)))
            add("cmp", "cmp is_zero_one_x %s %s" % (f, g(xpoly)))
            add("cmp", "cmp is_zero_one_x %s %s" % (f, g(one)))
            add("cmp", "cmp is_zero_one_x %s %s" % (f, g([])))
            vlong = poly(rng, f, 600 if f == "b" else 300)
            add("cmp", "cmp reduce_ntt_friendly %s %s | %s" % (f, g(vlong), grp(mod3)))
            add("cmp", "cmp reduce_ntt_friendly_mod %s %s | %s" % (f, grp(vlong), g(mod3)))
            add("cmp", "cmp fast_reduce %s %s | %s" % (f, g(vlong), g(mod3)))
            for n in (3, 4, 10):
                add("cmp", "cmp structured_multiple %s %d | %s" % (f, n, g(mod3)))
            inv = poly(rng, f, 3)
            inv[0] = coef(rng, f, True)
            for prec in (1, 2, 8, 9):
                add("cmp", "cmp fpsi_newton %s %d | %s" % (f, prec, g(inv)))
            add("cmp", "cmp fpsi_newton %s 4 | %s" % (f, g(poly(rng, f, 0))))
            off = coef(rng, f, True)
            add("cmp", "cmp fast_coset_evaluate %s 16 | o0 %s | %s" % (f, sc(off), g(poly(rng, f, 5))))
            add("cmp", "cmp fast_coset_evaluate %s 8 | o0 %s | %s" % (f, sc(off), g(poly(rng, f, 7))))
            dom = " ".join(sc(coef(rng, f)) for _ in range(5))
            for sub in ("batch_evaluate", "par_batch_evaluate", "iterative_batch_evaluate", "dac_batch_evaluate"):
                add("cmp", "cmp %s %s %s | %s" % (sub, f, g(poly(rng, f, 3)), dom))
                add("cmp", "cmp %s %s %s | %s" % (sub, f, g(poly(rng, f, 40)), dom))
                add("cmp", "cmp %s %s %s | %s" % (sub, f, g([]), dom))
            add("cmp", "cmp evaluate %s %s | %s" % (f, g(poly(rng, f, 6)), sc(coef(rng, f))))
            add("cmp", "cmp modular_preprocess %s 8 7 | %s" % (f, g(mod3)))
            vals = " ".join(sc(coef(rng, f)) for _ in range(8))
            add("cmp", "cmp modular_interpolate %s 7 | %s | %s" % (f, vals, g(mod3)))
            if big or (k == 2 and not bo):
                vals = " ".join(sc(coef(rng, f)) for _ in range(256))
                add("cmp", "cmp modular_interpolate %s 7 | %s | %s" % (f, vals, g(poly(rng, f, 5))))
    # ---- the STATE an operation of the library leaves behind (in-place cancellation, multiplication by zero, shifting
    # zero, ...), observed by every other operation: `then` (model + specification) and `cmp then` (against a fresh copy).
    # Independent of how Polynomial::new / new_borrowed store their argument.
    for f in ("b", "x"):
        w = W[f]
        zc = [0] * w

        def negc(c):
            return [(P - v) % P for v in c]

        def producers():
            """(producer name, [groups]) whose results have cancelled / zeroed leading coefficients"""
            out_ = []
            for deg in (0, 1, 2, 5, 9):
                a = poly(rng, f, deg)
                for j in sorted({1, 2, deg, deg + 1}):          # cancel the top j coefficients
                    if j < 1 or j > deg + 1:
                        continue
                    q = [coef(rng, f) for _ in range(deg + 1 - j)] + [negc(c) for c in a[deg + 1 - j:]]
                    if j <= deg and not any(q[deg - j]) and not any(a[deg - j]):
                        q[deg - j] = [1] + [0] * (w - 1)
                    k1, k2 = rng.choice((0, 0, 1, 2)), rng.choice((0, 0, 1, 17))
                    out_.append(("aa", [grp(a, k1, rng.random() < 0.3), grp(q, k2, rng.random() < 0.3)]))
                    out_.append(("aa", [grp(q[:max(0, deg - j)], 0), grp(a)]))      # rhs longer than lhs
                    out_.append(("add", [grp(a, k1), grp(q, k2)]))
                    out_.append(("sub", [grp(a, k1), grp([negc(c) for c in q], k2)]))
                out_.append(("smm", [grp(a, rng.choice((0, 1))), sc(zc)]))
                out_.append(("smul", [grp(a), sc(zc)]))
                out_.append(("scale", [grp(a), sc(zc)]))
                out_.append(("mul", [grp(a), grp([], rng.choice((0, 1, 2)))]))
                out_.append(("multiply", [grp([], 1), grp(a, 1)]))
                out_.append(("neg", [grp(a, rng.choice(KS))]))
                out_.append(("new", [grp(a, rng.choice(KS), rng.random() < 0.5)]))
                out_.append(("deriv", [grp(a[:1] + [zc] * deg, 0)]))
                if deg >= 2:
                    m = [list(c) for c in a]
                    m[1] = list(zc)
                    m[deg - 1] = list(zc)
                    out_.append(("modx", [str(deg), grp(m)]))
                    out_.append(("modx", [str(2), grp(m)]))
                    out_.append(("truncate", [str(deg - 1), grp(m)]))
                    out_.append(("truncate", [str(0), grp(a, 2)]))
            for k in (0, 1, 4):
                for zg in (grp([]), grp([], 1), grp([], 3, True)):
                    out_.append(("shift", [str(k), zg]))
            out_.append(("shift", ["3", grp(poly(rng, f, 2), 2)]))
            return out_

        prods = producers()
        if not big:
            prods = [pr for i, pr in enumerate(prods) if pr[0] in ("aa", "smm", "shift") or i % 2 == 0]
        for (pn, pg) in prods:
            head = "%s %d" % (pn, len(pg))
            pgs = " | ".join(pg)
            for obs in ("lc", "degree", "iszero", "isone", "isx", "coeffs", "intocoeffs", "intoowned", "display", "deriv",
                        "neg", "encode", "codec", "slowsq", "square"):
                add("state-then", "then %s %s %s | %s | @" % (f, head, obs, pgs))
            other = poly(rng, f, rng.choice((0, 1, 3)))
            for obs in ("eq", "hash", "mul", "add", "sub", "addassign", "multiply"):
                add("state-then", "then %s %s %s | %s | @ | %s" % (f, head, obs, pgs, grp(other)))
                add("state-then", "then %s %s %s | %s | %s | @" % (f, head, obs, pgs, grp(other, rng.choice((0, 1)))))
            add("state-then", "then %s %s hash | %s | @ | @" % (f, head, pgs))
            add("state-then", "then %s %s eq | %s | @ | %s" % (f, head, pgs, grp([])))
            add("state-then", "then %s %s hash | %s | %s | @" % (f, head, pgs, grp([], 1)))
            add("state-then", "then %s %s eval | %s | @ | %s" % (f, head, pgs, sc(coef(rng, f))))
            add("state-then", "then %s %s smulmut | %s | @ | %s" % (f, head, pgs, sc(coef(rng, f))))
            add("state-then", "then %s %s scale | %s | @ | %s" % (f, head, pgs, sc(coef(rng, f, True))))
            for n in (0, 1, 3):
                add("state-then", "then %s %s shift | %s | %d | @" % (f, head, pgs, n))
                add("state-then", "then %s %s truncate | %s | %d | @" % (f, head, pgs, n))
                add("state-then", "then %s %s modx | %s | %d | @" % (f, head, pgs, n))
            add("state-then", "then %s %s pow | %s | 2 | @" % (f, head, pgs))
            dvd, dvs = poly(rng, f, 6), poly(rng, f, 2)
            for sub in ("divide", "naive_divide", "div", "rem", "xgcd", "reduce", "multiply"):
                add("state-cmp", "cmp then %s %s %s | %s | %s | @" % (f, sub, head, pgs, grp(dvd)))    # as divisor
                add("state-cmp", "cmp then %s %s %s | %s | @ | %s" % (f, sub, head, pgs, grp(dvs)))    # as dividend
            add("state-cmp", "cmp then %s is_zero_one_x %s | %s | @" % (f, head, pgs))
            add("state-cmp", "cmp then %s shift_factor %s | %s | @" % (f, head, pgs))
            add("state-cmp", "cmp then %s evaluate %s | %s | @ | %s" % (f, head, pgs, sc(coef(rng, f))))
            dom = " ".join(sc(coef(rng, f)) for _ in range(4))
            for sub in ("batch_evaluate", "iterative_batch_evaluate", "dac_batch_evaluate"):
                add("state-cmp", "cmp then %s %s %s | %s | @ | %s" % (f, sub, head, pgs, dom))
            add("state-cmp", "cmp then %s structured_multiple %s | %s | 6 | @" % (f, head, pgs))
            add("state-cmp", "cmp then %s fpsi_newton %s | %s | 4 | @" % (f, head, pgs))
    # ---- the same object on both sides of a by-reference operation
    for f in ("b", "x"):
        for deg in (-1, 0, 1, 3, 40, 130, 260):
            if deg > 100 and f == "x" and not big:
                continue
            a = poly(rng, f, deg)
            for (k, bo) in ((0, False), (2, False), (1, True)):
                for sub in ("multiply", "naive", "fast", "eq", "hash", "batch"):
                    add("same-object", "same %s %s | %s" % (f, sub, grp(a, k, bo)))
    # ---- aliasing: two borrowed polynomials over prefixes of ONE buffer (same address, different lengths)
    for f in ("b", "x"):
        for deg in (0, 2, 5):
            a = poly(rng, f, deg)
            for k in (0, 2):
                n = deg + 1 + k
                pairs = sorted({(0, n), (n, 0), (0, 1), (1, n), (n, 1), (deg + 1, n), (n, deg + 1), (deg, deg + 1), (deg + 1, deg),
                                (n, n), (0, 0), (1, 1)})
                for (i, j) in pairs:
                    if i > n or j > n:
                        continue
                    for sub in ("eq", "hash", "add", "sub", "mul", "addassign", "multiply"):
                        add("alias", "alias %s %s %d %d | %s" % (f, sub, i, j, grp(a, k, True)))
    # clean_divide (base field only): long-division arm and, with a divisor of degree >= 512, the NTT arm
    for (k, bo) in ST:
        if k == 0 and not bo:
            continue
        for (dq, dd) in ((4, 3), (20, 512)):
            if dd >= 512 and not (big or k in (1, 17)):
                continue
            q = [c[0] for c in poly(rng, "b", dq)]
            d = [c[0] for c in poly(rng, "b", dd)]
            if d[0] == 0:
                d[0] = 1
            a = pmul(q, d)
            A, D = [[v] for v in a], [[v] for v in d]
            add("cmp-clean-divide", "cmp clean_divide b %s | %s" % (grp(A, k, bo), grp(D)))
            add("cmp-clean-divide", "cmp clean_divide b %s | %s" % (grp(A), grp(D, k, bo)))
            add("cmp-clean-divide", "cmp clean_divide b %s | %s" % (grp(A, k, bo), grp(D, k, not bo)))
    # mixed fields
    for ff in ("bx", "xb"):
        f1, f2 = ("b", "x") if ff == "bx" else ("x", "b")
        for (k, bo) in ST:
            a, b = poly(rng, f1, 4), poly(rng, f2, 3)
            for op in ("mul", "naive", "fast", "multiply"):
                add("mixed", "%s %s %s | %s" % (op, ff, grp(a, k, bo), grp(b)))
                add("mixed", "%s %s %s | %s" % (op, ff, grp(a), grp(b, k, bo)))
            s = coef(rng, f2, True)
            for op in ("smul", "rmul", "lmul", "scale", "evalgen"):
                add("mixed", "%s %s %s | %s" % (op, ff, grp(a, k, bo), sc(s)))
    return out


def nontrivial(case):
    return case.startswith(("then ", "cmp then ", "alias ", "same ")) or re.search(r"\b(o[1-9]\d*|b\d+)\b", case) is not None


def finding_key(case, impl, model):
    """No known finding is left for C17: the four defects found on the originally pinned tree (slow_square / square index
    panic, truncate and Hash on the raw slice, all with stored leading zeros) were repaired in /repo by commit 0fd3b2b;
    their minimised inputs stay in corpus/C17/findings.txt as regression cases and any recurrence is a VIOLATION."""
    return None
