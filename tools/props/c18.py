"""C18 - lattice ring product is negacyclic convolution; KEM correct, rejects tampering."""
ID = "C18"
GEN_TAGS = ["LatticeGen"]
PROOF_TARGETS = ["proofs/LatticeProofs.vo"]
PROPS_FILE = "props/C18.v"
EXTRACT = "extract/ExtractC18.vo"
ORACLE = ("gen_c18", "c18.ml")
HARNESS = "c18"
PROFILES = ["release", "checked"]
RUN_TIMEOUT = {"quick": 900, "thorough": 3400}
P = 2**64 - 2**32 + 1

TRUSTED = [
    "Coq 8.16.1 kernel and its bytecode VM (vm_compute for the psi-table checks, the 64 basis vectors of the coset NTT, intt(ntt(e_i)) = e_i, the 64x64 unit-vector pairs of the index formula, the 256 byte values of the bit recomposition, the toy KEM example); no native_compute",
    "lattice.rs calls the base-field operations (+, -, *, BFieldElement::new, value) verified under C01; the model works on field VALUES: (a + b) mod p, (a - b) mod p, (a * b) mod p with p = BFieldGen.P regenerated from b_field_element.rs. Derived PartialEq on BFieldElement words coincides with equality of values because representations are canonical (C01_repr_unique)",
    "tools/gen/gen_lattice.py: both psi tables (source constructor BFieldElement::new, i.e. values, not raw Montgomery words; a from_raw_u64 table would be converted with the C01 `val`), N_INV, N, LOGN and the numeric constants of sampling, embedding, extraction and the KEM call sites are regenerated from lattice.rs on every run; psi_tables_ok and the basis-vector computations are re-proved against them",
    "modelled by hand (coq/model/Lattice.v), tied by the 2-profile correspondence run only: loop structure of coset_ntt_noswap_64 / coset_intt_noswap_64 (as generators of the butterfly schedule), ring and module operations, the three module multiplication strategies, sampling, embed/extract, kem::{keygen, enc, dec}, Ciphertext <-> [BFieldElement; 320]",
    "SHAKE256 and SHA3-256 (`sha3` crate) are parameters (Section variables) of the Coq model: every KEM theorem holds for arbitrary functions in their place. The oracle instantiates them with a Keccak implementation inside ocaml/c18.ml, tied to the sha3 crate by the `xof` case class and by every KEM case",
    "rayon's indexed collect in ModuleElement Add/Sub preserves order (modelled as map2); harness reads private fields through the crate's serde impls with bincode",
    "extraction: ExtrOcamlBasic + ExtrOcamlZBigInt, OCaml 4.13.1, zarith 1.12; correspondence harness (harness/src/bin/c18.rs), oracle driver (ocaml/c18.ml), case generator (tools/props/c18.py)",
]
ASSUMPTIONS = [
    "dec(enc(..)) = Some key is proved CONDITIONAL: C18_dec_enc_noise_partial assumes that every 16-bit lane of every coefficient of the noise term b.c - d.a (sums of negacyclic products of the short secret vectors) is at most 2^14 - 3 in absolute value, C18_dec_enc_partial assumes the weaker decoding condition directly; that the bound holds except with negligible probability over the seeds is a cryptographic estimate outside this technique (the unconditional statement is kept as Definition C18_dec_enc_full; every generated KEM run is checked to round-trip)",
    "'a modified ciphertext / an unrelated key is rejected' is proved in the precise form C18_dec_accepts_only_reencryptions: acceptance implies the ciphertext IS the deterministic re-encryption of the payload it decodes to; that no such ciphertext other than the honest one can be found is a cryptographic assumption",
    "the debug_assert_eq! shape checks of the module multiplications are not modelled; all call sites and all harness instantiations use consistent shapes",
    "two specifications of the ring product are proved equal on all ring elements (LatticeSpec.negacyclic: schoolbook product in Z[X] folded modulo X^64+1; negacyclic_coeff: the index formula c_k = sum_{i+j=k} a_i b_j - sum_{i+j=k+64} a_i b_j mod p); the oracle additionally compares every ring product with a native zarith implementation of the index formula (SPECDIFF)",
    "inputs of other lengths than the array types allow ([BFieldElement; 64], [u8; 32], [BFieldElement; 320]) are not representable and not modelled",
]
RULE = ("spanning set (all 64x64 unit-vector pairs) and boundary-grid coefficient vectors for ring products, every module shape "
        "used by the KEM plus four others under all three strategies, sampling lengths around the panic boundaries, embed/extract "
        "with lane noise around the decoding threshold, structured and random 32-byte seeds for KEM runs with single- and "
        "multi-coefficient ciphertext modifications; non-trivial = every case; distinct = distinct case text")

GRID = [0, 1, 2, 3, 2**14, 2**15, 2**16 - 1, 2**16, 2**31, 2**32 - 1, 2**32, 2**32 + 1, 2**48, 2**63, (P - 1) // 2,
        (P + 1) // 2, P - 2**32, P - 2**16, P - 2, P - 1, P, P + 1, 2**64 - 2**32, 2**64 - 1]
CANON = [g for g in GRID if g < P]


def hx(bs):
    return bytes(bs).hex() if len(bs) else "-"


def vec(xs):
    return " ".join(str(x) for x in xs)


def rvec(rng, n=64, kind=None):
    k = kind or rng.choice(("full", "full", "full", "grid", "sparse", "small", "short"))
    if k == "full":
        return [rng.randrange(0, 2**64) for _ in range(n)]
    if k == "grid":
        return [rng.choice(GRID) for _ in range(n)]
    if k == "sparse":
        v = [0] * n
        for _ in range(rng.randrange(1, 5)):
            v[rng.randrange(n)] = rng.choice(GRID + [rng.randrange(P)])
        return v
    if k == "small":
        return [rng.randrange(0, 17) for _ in range(n)]
    # "short": lane-wise small signed values, as produced by sample_short
    out = []
    for _ in range(n):
        x = sum((bin(rng.randrange(256)).count("1") - bin(rng.randrange(256)).count("1")) << (16 * j) for j in range(4))
        out.append(x % P)
    return out


def structured_vectors():
    vs = []
    for g in GRID:
        vs.append([g] * 64)
    vs.append([P - 1 if i % 2 else 1 for i in range(64)])
    vs.append([0] * 63 + [P - 1])
    vs.append([P - 1] + [0] * 63)
    vs.append([i for i in range(64)])
    vs.append([(P - 1 - i) for i in range(64)])
    vs.append([2**32 - 1] * 32 + [2**32 + 1] * 32)
    vs.append([GRID[i % len(GRID)] for i in range(64)])
    return vs


def seeds_structured():
    s = [bytes(32), bytes([255] * 32), bytes([0] * 31 + [1]), bytes([1] + [0] * 31), bytes(range(32)),
         bytes([0x55] * 32), bytes([0xaa] * 32), bytes([0x80] * 32), bytes([0x0f] * 32), bytes([0xf0] * 32)]
    return s


def lane_noise(ds):
    return sum(d << (16 * j) for j, d in enumerate(ds)) % P


def cases(tier, rng):
    out = []
    big = tier == "thorough"
    SV = structured_vectors()
    # ---------------------------------------------------------------- ring: spanning set
    for i in range(64):
        for j in range(64):
            out.append(("ring-unit-x-unit", "mulu %d %d 1 1" % (i, j)))
    for _ in range(2000 if big else 150):
        out.append(("ring-unit-x-unit-grid", "mulu %d %d %d %d" % (rng.randrange(64), rng.randrange(64),
                                                                   rng.choice(GRID), rng.choice(GRID))))
    for (i, j) in ((0, 0), (0, 63), (63, 0), (63, 63), (1, 63), (32, 32), (31, 33)):
        for ca in CANON[:6] + CANON[-4:]:
            out.append(("ring-unit-x-unit-grid", "mulu %d %d %d %d" % (i, j, ca, P - 1)))
    # ---------------------------------------------------------------- ring: boundary grid
    for a in SV:
        for op in ("ntt", "intt", "nttintt", "nttspec", "iszero"):
            out.append(("ring-grid-unary", "%s %s" % (op, vec(a))))
    pairs = [(a, b) for a in SV for b in SV]
    if not big:
        pairs = [pairs[k] for k in range(0, len(pairs), 7)]
    for a, b in pairs:
        out.append(("ring-grid-mul", "mul %s %s" % (vec(a), vec(b))))
    for a, b in pairs[::5]:
        for op in ("add", "sub", "had"):
            out.append(("ring-grid-binary", "%s %s %s" % (op, vec(a), vec(b))))
    # ---------------------------------------------------------------- ring: random
    for _ in range(20000 if big else 1000):
        out.append(("ring-random-mul", "mul %s %s" % (vec(rvec(rng)), vec(rvec(rng)))))
    for _ in range(4000 if big else 200):
        op = rng.choice(("ntt", "intt", "nttintt", "nttspec"))
        out.append(("ring-random-transform", "%s %s" % (op, vec(rvec(rng)))))
        op = rng.choice(("add", "sub", "had"))
        out.append(("ring-random-binary", "%s %s %s" % (op, vec(rvec(rng)), vec(rvec(rng)))))
    # ---------------------------------------------------------------- modules
    # shapes: id -> (LHS_N, RHS_N); 0..2 are the shapes used by the KEM
    SH = {0: (16, 4), 1: (4, 16), 2: (4, 4), 3: (4, 4), 4: (1, 1), 5: (2, 3), 6: (6, 2)}
    for sid, (ln, rn) in SH.items():
        reps = (40 if big else 4) if sid < 3 else (15 if big else 2)
        for r in range(reps):
            kind = None if r else "grid"
            l = [x for _ in range(ln) for x in rvec(rng, 64, kind)]
            rr = [x for _ in range(rn) for x in rvec(rng, 64, kind)]
            out.append(("module-three-strategies", "mm3 %d %s %s" % (sid, vec(l), vec(rr))))
        l = [x for _ in range(ln) for x in rvec(rng)]
        rr = [x for _ in range(rn) for x in rvec(rng)]
        for op in ("mmul", "mhad", "mfast"):
            out.append(("module-single-strategy", "%s %d %s %s" % (op, sid, vec(l), vec(rr))))
        # unit ring elements in every slot: spanning set at the module level for small shapes
        if sid in (2, 3, 4, 5):
            for li in range(ln):
                for ri in range(rn):
                    l = [0] * (64 * ln)
                    rr = [0] * (64 * rn)
                    l[64 * li + rng.randrange(64)] = 1
                    rr[64 * ri + rng.randrange(64)] = rng.choice((1, P - 1))
                    out.append(("module-unit-slots", "mm3 %d %s %s" % (sid, vec(l), vec(rr))))
    for n in (1, 4, 16):
        for _ in range(6 if big else 2):
            m = [x for _ in range(n) for x in rvec(rng)]
            m2 = [x for _ in range(n) for x in rvec(rng)]
            out.append(("module-transform", "mntt " + vec(m)))
            out.append(("module-transform", "mintt " + vec(m)))
            out.append(("module-addsub", "madd %s %s" % (vec(m), vec(m2))))
            out.append(("module-addsub", "msub %s %s" % (vec(m), vec(m2))))
    # ---------------------------------------------------------------- sampling
    for bs in ([0] * 8, [255] * 8, [255, 0, 0, 0, 0, 0, 0, 0], [0, 0, 0, 0, 255, 0, 0, 0], [0, 0, 0, 255, 0, 0, 0, 255],
               [1, 2, 4, 8, 16, 32, 64, 128], [255, 255, 255, 255, 0, 0, 0, 0], [0, 0, 0, 0, 255, 255, 255, 255],
               [0x0f, 0xf0, 0x55, 0xaa, 0x33, 0xcc, 0x7f, 0xfe]):
        out.append(("sample-short-element", "short8 " + hx(bs)))
    for _ in range(3000 if big else 300):
        out.append(("sample-short-element", "short8 " + hx([rng.randrange(256) for _ in range(8)])))
    for L in (0, 1, 7, 8, 9, 504, 511, 512, 513, 519, 520, 1024):
        out.append(("sample-short-ring-length", "rshort " + hx([rng.randrange(256) for _ in range(L)])))
    for L in (0, 1, 9, 567, 575, 576, 577, 585, 1152):
        out.append(("sample-uniform-ring-length", "runiform " + hx([rng.randrange(256) for _ in range(L)])))
    out.append(("sample-uniform-ring", "runiform " + hx([255] * 576)))
    out.append(("sample-uniform-ring", "runiform " + hx([0] * 576)))
    # nine-byte groups whose value is near a multiple of p
    near = []
    for k in (0, 1, 2, 255, 256):
        for d in (-1, 0, 1):
            v = k * P + d
            if 0 <= v < 2**72:
                near += list(v.to_bytes(9, "big"))
    near = (near * 64)[:576]
    out.append(("sample-uniform-ring", "runiform " + hx(near)))
    for _ in range(300 if big else 20):
        out.append(("sample-short-ring", "rshort " + hx([rng.randrange(256) for _ in range(512)])))
        out.append(("sample-uniform-ring", "runiform " + hx([rng.randrange(256) for _ in range(576)])))
    for n, Ls in ((1, (511, 512, 513)), (2, (1023, 1024, 1100)), (4, (0, 2047, 2048, 2049, 4096))):
        for L in Ls:
            out.append(("sample-short-module", "mshort %d %s" % (n, hx([rng.randrange(256) for _ in range(L)]))))
    for n, Ls in ((1, (575, 576, 600)), (4, (2303, 2304)), (16, (9215, 9216, 9300))):
        for L in Ls:
            out.append(("sample-uniform-module", "muniform %d %s" % (n, hx([rng.randrange(256) for _ in range(L)]))))
    # ---------------------------------------------------------------- embed / extract
    msgs = seeds_structured() + [bytes(rng.randrange(256) for _ in range(32)) for _ in range(200 if big else 12)]
    for m in msgs:
        out.append(("embed", "embed " + hx(m)))
        out.append(("embed-extract-zero-noise", "embx %s %s" % (hx(m), vec([0] * 64))))
    T = 2**14
    for m in msgs[:10] if big else (msgs[0], msgs[1], msgs[4], msgs[10]):
        for d in (T - 3, T - 2, T - 1, T, T + 1, -(T - 3), -(T - 2), -(T - 1), -T, -(T + 1), 2**15 - 1, 2**15, -(2**15)):
            for lane in range(4):
                ds = [0, 0, 0, 0]
                ds[lane] = d
                out.append(("embed-extract-threshold-one-lane", "embx %s %s" % (hx(m), vec([lane_noise(ds)] * 64))))
            out.append(("embed-extract-threshold-all-lanes", "embx %s %s" % (hx(m), vec([lane_noise([d] * 4)] * 64))))
            out.append(("embed-extract-threshold-all-lanes", "embx %s %s" % (hx(m), vec([lane_noise([d, -d, d, -d])] * 64))))
    for _ in range(1500 if big else 100):
        m = bytes(rng.randrange(256) for _ in range(32))
        bound = rng.choice((T - 3, T - 3, T, T + 64, 2**15))
        e = [lane_noise([rng.randrange(-bound, bound + 1) for _ in range(4)]) for _ in range(64)]
        out.append(("embed-extract-random-noise<=%d" % bound, "embx %s %s" % (hx(m), vec(e))))
    lanes = (0, 1, T - 1, T, T + 1, 2**15, 3 * T - 1, 3 * T, 3 * T + 1, 2**16 - 1)
    for _ in range(600 if big else 60):
        v = [sum(rng.choice(lanes) << (16 * j) for j in range(4)) for _ in range(64)]
        out.append(("extract-grid-lanes", "extract " + vec(v)))
        out.append(("extract-random", "extract " + vec(rvec(rng, 64, "full"))))
    # ---------------------------------------------------------------- SHAKE256 / SHA3-256 (ties the oracle's Keccak to the sha3 crate)
    for L in (0, 1, 32, 33, 135, 136, 137, 271, 272, 273, 500):
        data = [rng.randrange(256) for _ in range(L)]
        for n in (32, 136, 137, 4096, 9216):
            out.append(("xof", "shake %d %s" % (n, hx(data))))
        out.append(("xof", "sha3 " + hx(data)))
    # ---------------------------------------------------------------- KEM
    runs = 2000 if big else 50
    struct = seeds_structured()
    deltas = [1, P - 1, 2**14, 2**15, 2, 2**16, 2**32, 2**63, (P - 1) // 2, P - 2**14]
    for r in range(runs):
        kgs = struct[r % len(struct)] if r < 2 * len(struct) and r % 2 == 0 else bytes(rng.randrange(256) for _ in range(32))
        ens = struct[(r // 2) % len(struct)] if r < 2 * len(struct) and r % 4 < 2 else bytes(rng.randrange(256) for _ in range(32))
        k, e = hx(kgs), hx(ens)
        if r < (200 if big else 10):
            out.append(("kem-keygen", "keygen " + k))
            out.append(("kem-enc", "enc %s %s" % (k, e)))
        out.append(("kem-roundtrip", "kem %s %s" % (k, e)))
        # single-coefficient modifications: the first four deltas at sampled positions in bg and bga_m
        nsingle = 3 if big else 4
        for t in range(nsingle):
            pos = rng.choice((rng.randrange(256), 256 + rng.randrange(64), rng.choice((0, 63, 64, 255, 256, 319))))
            d = deltas[(r + t) % 4] if t < 2 else rng.choice(deltas)
            out.append(("kem-tamper-single", "tamper %s %s 1 %d %d" % (k, e, pos, d)))
        # message-component tampering that keeps the decoded payload: bga_m += coset_ntt(e) for a SHORT polynomial e
        # (a decapsulation that compares only the bg component would accept these)
        for t in range(2 if not big else 1):
            kind = (r + t) % 4
            if kind == 0:
                ev = [1] + [0] * 63
            elif kind == 1:
                ev = [rng.randrange(0, 5) for _ in range(64)]
            elif kind == 2:
                ev = [0] * 64
                ev[rng.randrange(64)] = rng.choice((1, P - 1, 3))
            else:
                ev = [rng.choice((0, 0, 1, P - 1, 2, P - 2)) for _ in range(64)]
            if any(ev):
                out.append(("kem-tamper-short-ntt", "tamperntt %s %s %s" % (k, e, " ".join(map(str, ev)))))
        cnt = rng.randrange(2, 6)
        mods = " ".join("%d %d" % (rng.randrange(320), rng.choice(deltas + [rng.randrange(1, P)])) for _ in range(cnt))
        out.append(("kem-tamper-multi", "tamper %s %s %d %s" % (k, e, cnt, mods)))
        if r % 2 == 0:
            k2 = hx(bytes(rng.randrange(256) for _ in range(32)))
            out.append(("kem-unrelated-key", "decother %s %s %s" % (k, k2, e)))
        if r % 10 == 0:
            out.append(("kem-unmodified-via-array", "tamper %s %s 0" % (k, e)))
            out.append(("kem-raw-ciphertext", "decraw %s %s" % (k, vec(rvec(rng, 320, rng.choice(("full", "grid", "small")))))))
            ga = rvec(rng, 256, rng.choice(("full", "grid")))
            out.append(("kem-enc-arbitrary-pk", "encpk %s %s %s" % (hx(bytes(rng.randrange(256) for _ in range(32))), vec(ga), e)))
            out.append(("ciphertext-array-roundtrip", "ctrt " + vec(rvec(rng, 320, rng.choice(("full", "grid"))))))
            out.append(("ciphertext-serde", "ctser %s %s" % (k, e)))
    # every position of one honest ciphertext, delta +1 and -1 (thorough: also 2^14, 2^15)
    k, e = hx(bytes(range(32))), hx(bytes(range(32, 64)))
    for pos in range(320):
        for d in ((1, P - 1, 2**14, 2**15) if big else ((1,) if pos % 4 else (1, P - 1))):
            if big or pos % 8 in (0, 3) or pos >= 312:
                out.append(("kem-tamper-every-position", "tamper %s %s 1 %d %d" % (k, e, pos, d)))
    return out


def compare(case, impl, model):
    if impl != model:
        return "implementation and model differ"
    op = case.split(" ", 1)[0]
    # observables the property fixes beyond model = implementation
    if op == "kem" and not impl.startswith("OK "):
        return "honest ciphertext not decapsulated to the encapsulated key"
    if op == "tamperntt" and impl not in ("NONE", "PANIC"):
        return "ciphertext with a modified message component accepted"
    if op == "tamper":
        untouched = case.split()[3] == "0"
        if untouched and impl in ("NONE", "PANIC"):
            return "unmodified ciphertext rejected after the array round trip"
        if not untouched and impl != "NONE":
            # all generated deltas are non-zero modulo p, but two modifications of one position may cancel
            toks = case.split()[4:]
            net = {}
            for i in range(0, len(toks), 2):
                net[toks[i]] = (net.get(toks[i], 0) + int(toks[i + 1])) % P
            if any(v for v in net.values()):
                return "modified ciphertext accepted"
    if op == "decother" and impl != "NONE":
        a = case.split()
        if a[1] != a[2]:
            return "ciphertext accepted under an unrelated key"
    if "<>" in impl:
        return "module multiplication strategies disagree"
    return None


def nontrivial(case):
    return True
