"""C19 - fixed-width U32s<N> integers compute exactly or panic, never wrap."""
import itertools

ID = "C19"
GEN_TAGS = ["U32sGen"]
PROOF_TARGETS = ["proofs/U32sProofs.vo", "proofs/U32sTryFromNow.vo"]
PROPS_FILE = "props/C19.v"
EXTRACT = "extract/ExtractC19.vo"
ORACLE = ("gen_c19", "c19.ml")
HARNESS = "c19"
PROFILES = ["release", "checked"]
RUN_TIMEOUT = {"quick": 300, "thorough": 1800}

P = 2**64 - 2**32 + 1
M32 = 2**32 - 1
L4 = [0, 1, 2**31, M32]
BOUND3 = (2**64 - 1) * (2**32 - 1)      # the bound the pinned tree uses for U32s<3>::try_from(u128)
NMAX = 5

TRUSTED = [
    "Coq 8.16.1 kernel and its bytecode VM (vm_compute only on closed witness terms); no native_compute",
    "tools/rs2v.py expression translator + tools/gen/gen_u32s.py (shape check of the two try_from bodies, arms `err` -> true, "
    "`Ok(U32s::from(BigUint::from(value)))` -> false) and coq/lib/Word.v semantics of Rust u32/u64/u128 operators",
    "extraction: ExtrOcamlBasic + ExtrOcamlZBigInt (positive, N, Z -> zarith) plus one extra directive in extract/ExtractC19.v "
    "(Z.pow -> zarith power, 0 for a negative exponent), OCaml 4.13.1, zarith 1.12; cross-checked on every run: a sample of add / sub / mul / div / rem / mul_two cases (50 per op quick, 300 thorough) is evaluated by vm_compute INSIDE Coq (tools/vmcross.py) and must print what the extracted oracle prints",
    "correspondence harness (harness/src/bin/c19.rs), oracle driver (ocaml/c19.ml), case generator (tools/props/c19.py)",
    "modelled by hand, tied by correspondence only (coq/model/U32s.v): every loop of u32s.rs - add, sub, mul, rem_div, mul_two, "
    "div_two, set_bit/get_bit, Ord, Zero/One, Sum, From<u32>, From<BigUint>, Into<BigUint>, Into<[BFieldElement;N]>, BFieldCodec, "
    "u32::decode",
    "verified through the translator (theorems re-checked on regenerated definitions): the width guards of TryFrom<u64> and "
    "TryFrom<u128> (tryfrom_u64_rejects, tryfrom_u128_rejects); BFieldElement::new / value (gen/BFieldGen.v, lemma value_new of C01)",
    "num_bigint::BigUint arithmetic modelled as non-negative Z (<<, +=, %, /=, try_into::<u32>)",
    "derived PartialEq on [u32; N] is element-wise equality; Iterator::cmp is lexicographic comparison",
]
ASSUMPTIONS = [
    "N < 2^58 so that `32 * N`, `N * 32` and the index sums `i + j + k` do not overflow usize (an array of 2^58 u32 cannot exist)",
    "From<BigUint> for U32s<N> keeps the low 32 N bits of a too-large argument (the conversion is infallible in the code); the "
    "property only speaks about primitive-integer conversions and round trips, so this truncation is modelled, checked "
    "against the implementation, and not flagged",
    "Display, Distribution<U32s<N>> (random sampling), serde and GetSize are outside the property (Display is compared with the "
    "decimal value anyway)",
]
RULE = ("limbs from {0, 1, 2^31, 2^32-1}: all operand pairs for N <= 3 and every binary operator; carry/borrow chains through "
        "runs of 2^32-1 for N <= 5; sums/differences/products placed exactly on 2^(32N)-1, 2^(32N), 0, -1; division by zero and "
        "divisor > dividend; u64/u128 inputs at 2^(32k)-1, 2^(32k), 2^(32k)+1 for every k and N = 0..5; codec sequences of "
        "wrong length / elements >= 2^32; seeded random with special limbs over-represented. Every case is non-trivial "
        "(distinct input tuple); distinct = distinct case text")


def limbs_of(v, n):
    return [(v >> (32 * i)) & M32 for i in range(n)]


def L(xs):
    return " ".join(str(x) for x in xs)


def case2(op, n, a, b):
    return "%s %d %s" % (op, n, L(list(a) + list(b))) if n else "%s 0" % op


def case1(op, n, a):
    return ("%s %d %s" % (op, n, L(a))) if n else "%s 0" % op


BINOPS = ("add", "sub", "mul", "div", "rem", "remdiv", "cmp")
UNOPS = ("mul_two", "div_two", "is_zero", "is_one", "set_one", "to_big", "display", "to_bfes", "encode",
         "rt_big", "rt_codec", "rt_bfes")


def mul_ripples(a, b, n):
    """simulate the schoolbook loop of `impl Mul for U32s<N>` on limb lists and report how far the carry of the low-half and
    of the high-half addition ripples (number of iterations of the two `while add_carry` loops); None if it overflows"""
    res = [0] * n
    deep_lo = deep_hi = 0
    for i in range(n):
        for j in range(n):
            hl = a[i] * b[j]
            hi, lo = hl >> 32, hl & M32
            if not (i + j < n or hl == 0):
                return None
            if hl == 0:
                continue
            t = res[i + j] + lo
            res[i + j] = t & M32
            c, k = t >> 32, 1
            while c:
                if i + j + k >= n:
                    return None
                t = res[i + j + k] + 1
                res[i + j + k] = t & M32
                c = t >> 32
                k += 1
            deep_lo = max(deep_lo, k - 1)
            if hi == 0:
                continue
            if i + j + 1 >= n:
                return None
            t = res[i + j + 1] + hi
            res[i + j + 1] = t & M32
            c, k = t >> 32, 2
            while c:
                if i + j + k >= n:
                    return None
                t = res[i + j + k] + 1
                res[i + j + k] = t & M32
                c = t >> 32
                k += 1
            deep_hi = max(deep_hi, k - 2)
    return deep_lo, deep_hi


def deep_ripple_pairs(rng, n, want, tries):
    """search (structured random limbs) for operand pairs whose product makes a carry ripple through >= 2 limbs in the
    low-half or in the high-half carry loop: the accumulator limb must be exactly 2^32-1 at that moment (2^-32 for random
    operands), so this class is constructed, not sampled"""
    found = []
    pool = (0, 1, 2, 3, M32, M32 - 1, M32 - 2, 2**31, 2**31 - 1, 2**31 + 1, 2**16, 2**16 - 1, 2**16 + 1, 0x55555555, 0xAAAAAAAA)
    for _ in range(tries):
        la = rng.randrange(1, n)
        lb = rng.randrange(1, n + 1 - la) if n + 1 - la > 1 else 1
        a = [rng.choice(pool) if rng.random() < 0.85 else rng.randrange(2**32) for _ in range(la)] + [0] * (n - la)
        b = [rng.choice(pool) if rng.random() < 0.85 else rng.randrange(2**32) for _ in range(lb)] + [0] * (n - lb)
        r = mul_ripples(a, b, n)
        if r is not None and (r[0] >= 2 or r[1] >= 2):
            found.append((a, b, r))
            if len(found) >= want:
                break
    return found


def construct_hi_ripple(rng, n, L, tries=400):
    """operands for which the HIGH-half addition of a later row overflows exactly when accumulator limb L is 2^32-1:
    row 0 is steered to leave limb L at 2^32-1 (B = T // a0 with T = (2^32-1) * 2^(32 L) + random low part), row 1 then
    adds a1 * b0 whose high half carries out of limb L-1; kept only if the simulation confirms a ripple of >= 2 limbs"""
    out = []
    for _ in range(tries):
        a0 = rng.randrange(2**31, 2**32) | 1
        T = (M32 << (32 * L)) + rng.randrange(2 ** (32 * L))
        B = T // a0
        a1 = rng.choice((a0 - 1, a0 // 2, rng.randrange(1, a0), M32 // 3))
        a = [a0, a1] + [0] * (n - 2)
        b = limbs_of(B, n)
        if len(b) != n:
            continue
        r = mul_ripples(a, b, n)
        if r is not None and r[1] >= 2:
            out.append((a, b))
            if len(out) >= 12:
                break
    return out


def cases(tier, rng):
    out = []
    big = tier == "thorough"

    def add(k, c):
        out.append((k, c))

    def binv(k, n, va, vb, ops=BINOPS):
        """binary ops on the values va, vb (must fit)"""
        top = 2 ** (32 * n)
        if not (0 <= va < top and 0 <= vb < top):
            return
        for op in ops:
            add(k, case2(op, n, limbs_of(va, n), limbs_of(vb, n)))

    # -- the very same object on both sides of rem_div / the comparisons (zero included: division by zero must panic)
    for n in (1, 2, 3, 4):
        top = 2 ** (32 * n)
        for v in sorted({0, 1, 2, M32, M32 + 1, top - 1, top // 2, rng.randrange(top), rng.randrange(top)}):
            if 0 <= v < top:
                add("same-object", "remdiv_same %d %s" % (n, " ".join(map(str, limbs_of(v, n)))))
                add("same-object", "cmp_same %d %s" % (n, " ".join(map(str, limbs_of(v, n)))))
    # -- width 0: every operation
    for op in BINOPS + UNOPS + ("zero", "one", "static_length", "decode"):
        add("width0", "%s 0" % op)
    add("width0", "sum 0 0")
    add("width0", "sum 0 3")
    for v in (1, 7, P - 1):
        add("width0", "decode 0 %d" % v)

    # -- 1. exhaustive over the four critical limb values
    nex = 4 if big else 3
    for n in range(1, nex + 1):
        ops = BINOPS if n <= 3 else ("add", "sub", "mul", "remdiv", "cmp")
        for a in itertools.product(L4, repeat=n):
            for b in itertools.product(L4, repeat=n):
                for op in ops:
                    add("grid-binary", case2(op, n, a, b))
    for n in range(1, NMAX + 1):
        for a in itertools.product(L4, repeat=n):
            for op in UNOPS:
                add("grid-unary", case1(op, n, a))
    for n in range(0, NMAX + 1):
        add("consts", "zero %d" % n)
        add("consts", "one %d" % n)
        add("consts", "static_length %d" % n)

    # -- 2. carry / borrow chains through runs of 2^32-1
    for n in range(1, NMAX + 1):
        top = 2 ** (32 * n)
        for start in range(n):
            for ln in range(1, n - start + 1):
                run = sum(M32 << (32 * i) for i in range(start, start + ln))
                for extra_hi in (0, 1, 2**31, M32):
                    a = run + (extra_hi << (32 * (start + ln)) if start + ln < n else 0)
                    for inc in (1, 2, 2**31, M32):
                        binv("carry-chain", n, a, inc << (32 * start), ("add", "sub", "cmp"))
                        binv("carry-chain", n, inc << (32 * start), a, ("add", "sub"))
                    # borrow chain: 2^(32(start+ln)) - something small at position start
                    if start + ln < n:
                        hi = 1 << (32 * (start + ln))
                        for dec in (1, 2**31, M32):
                            binv("borrow-chain", n, hi, dec << (32 * start), ("sub", "cmp", "remdiv"))
                            binv("borrow-chain", n, hi + (M32 << (32 * (n - 1))) % top, dec << (32 * start), ("sub", "cmp"))
                    # multiplication rippling into the run
                    for m in (2, 3, 2**31, M32, 2**32, 2**32 + 1):
                        binv("mul-chain", n, a, m, ("mul",))
                        binv("mul-chain", n, m, a, ("mul",))
                    for op in ("mul_two", "div_two"):
                        add("carry-chain", case1(op, n, limbs_of(a, n)))
                        add("carry-chain", case1(op, n, limbs_of(a >> 1, n)))

    # -- 2b. multiplications whose carries ripple through two or more limbs (constructed by simulating the loop)
    for n in range(3, NMAX + 1):
        for (a, b, r) in deep_ripple_pairs(rng, n, 120 if big else 40, 200000):
            add("mul-deep-ripple", case2("mul", n, a, b))
    for n in range(4, NMAX + 1):
        for lidx in range(2, n):
            for (a, b) in construct_hi_ripple(rng, n, lidx):
                add("mul-deep-ripple-hi", case2("mul", n, a, b))
                add("mul-deep-ripple-hi", case2("mul", n, b, a))
    # -- 3. exact overflow boundaries
    for n in range(1, NMAX + 1):
        top = 2 ** (32 * n)
        seeds = [0, 1, 2, M32, 2**32, 2**31, top // 2 - 1, top // 2, top // 2 + 1, top - 2, top - 1, top // 3,
                 int("55" * (4 * n), 16), int("ff00" * (2 * n), 16)]
        seeds += [rng.randrange(top) for _ in range(6)]
        seeds = sorted({x for x in seeds if 0 <= x < top})
        for a in seeds:
            for tgt in (top - 1, top, top + 1):               # a + b = 2^(32N)-1 | 2^(32N) | +1
                binv("add-boundary", n, a, tgt - a, ("add",))
            for d in (0, 1, -1):                               # a - b = 0 | -1 | 1
                binv("sub-boundary", n, a, a + d, ("sub", "cmp"))
                binv("sub-boundary", n, a + d, a, ("sub", "cmp"))
            if a > 0:
                b = (top - 1) // a                             # largest b with a*b <= 2^(32N)-1
                for bb in (b - 1, b, b + 1):
                    binv("mul-boundary", n, a, bb, ("mul",))
                    binv("mul-boundary", n, bb, a, ("mul",))
            add("mul_two-boundary", case1("mul_two", n, limbs_of(a, n)))
        for i in range(0, n + 1):
            for j in range(0, n + 1):
                for da in (-1, 0, 1):
                    for db in (-1, 0, 1):
                        binv("mul-boundary", n, (1 << (32 * i)) + da, (1 << (32 * j)) + db, ("mul",))
        h = 1 << (16 * n)
        for (a, b) in ((h, h), (h - 1, h + 1), (h, h - 1), (h + 1, h + 1), (h - 1, h - 1), (top - 1, 1), (top - 1, 2),
                       (top // 2, 2), (top // 2 - 1, 2), (top // 2, 1), (1 << (32 * n - 1), 2), ((1 << (32 * n - 1)) - 1, 2),
                       (M32, (top - 1) // M32), (M32, (top - 1) // M32 + 1)):
            binv("mul-boundary", n, a, b, ("mul",))
            binv("mul-boundary", n, b, a, ("mul",))
        for v in (top // 2 - 1, top // 2, top // 2 + 1, top - 1, 0, 1):
            add("mul_two-boundary", case1("mul_two", n, limbs_of(v, n)))
            add("div_two-boundary", case1("div_two", n, limbs_of(v, n)))

    # -- 4. division
    for n in range(1, NMAX + 1):
        top = 2 ** (32 * n)
        dvd = sorted({0, 1, 2, M32, top - 1, top - 2, top // 2, top // 2 - 1, top // 2 + 1, 2**32 % top, (2**32 + 1) % top,
                      rng.randrange(top), rng.randrange(top), int("a5" * (4 * n), 16)})
        dvs = sorted({0, 1, 2, 3, M32, 2**31, top - 1, top - 2, top // 2, top // 2 + 1, top // 2 - 1, 2**32 % top,
                      (2**32 - 1) * 2**(32 * (n - 1)), rng.randrange(top), rng.randrange(1, 2**32)})
        for a in dvd:
            for d in dvs:
                binv("division", n, a, d, ("div", "rem", "remdiv"))
            binv("division", n, a, a, ("remdiv",))
            binv("division", n, a, a + 1, ("remdiv",))
            if a > 0:
                binv("division", n, a, a - 1, ("remdiv",))
        # divisor with the top bit set and a remainder that is as large as possible before doubling
        for d in (top - 1, top // 2 + 1, top - M32):
            for q in (1, 2, 3):
                binv("division-large-remainder", n, min(top - 1, q * d + d - 1), d, ("remdiv",))
                binv("division-large-remainder", n, d - 1, d, ("remdiv",))

    # -- 5. conversions from primitive integers
    vs64, vs128 = set(), set()
    for k in range(0, 5):
        for d in (-1, 0, 1):
            v = 2 ** (32 * k) + d
            if 0 <= v < 2**64:
                vs64.add(v)
            if 0 <= v < 2**128:
                vs128.add(v)
    vs64 |= {0, 1, 2**31, 2**63, 2**64 - 1, 2**64 - 2, 2**33, 12345678901234567}
    vs128 |= vs64 | {2**128 - 1, 2**128 - 2, 2**127, BOUND3 - 1, BOUND3, BOUND3 + 1, BOUND3 + 2**32, 2**96 - 2**32,
                      2**96 - 2, (2**64 - 1) * 2**32, 2**95, 2**80 + 12345}
    for n in range(0, NMAX + 1):
        for v in sorted(vs64):
            add("try_from-u64", "try_u64 %d %d" % (n, v))
        for v in sorted(vs128):
            add("try_from-u128", "try_u128 %d %d" % (n, v))
        for v in (0, 1, 2, 2**31, M32):
            add("from_u32", "from_u32 %d %d" % (n, v))
        for _ in range(60 if big else 12):
            k = rng.randrange(0, 129)
            add("try_from-random", "try_u128 %d %d" % (n, rng.getrandbits(k) if k else 0))
            k = rng.randrange(0, 65)
            add("try_from-random", "try_u64 %d %d" % (n, rng.getrandbits(k) if k else 0))

    # -- 6. big integers
    for n in range(0, NMAX + 1):
        top = 2 ** (32 * n)
        for v in sorted({0, 1, M32, 2**32, top - 1, top, top + 1, 2 * top - 1, top * top + 5, top // 2, (top << 32) + 7,
                         rng.getrandbits(32 * n + 40), rng.getrandbits(32 * n) if n else 0}):
            add("from_big", "from_big %d %d" % (n, v))

    # -- 7. codec
    for n in range(0, NMAX + 1):
        goodvals = [0, 1, M32, 2**31, 77]
        for ln in range(0, n + 3):
            seq = [goodvals[(i * 3 + ln) % len(goodvals)] for i in range(ln)]
            add("decode-length", "decode %d %s" % (n, L(seq)))
        for pos in range(n):
            for bad in (2**32, 2**32 + 1, P - 1, 2**63, P - 2**32):
                seq = [goodvals[i % len(goodvals)] for i in range(n)]
                seq[pos] = bad
                add("decode-out-of-range", "decode %d %s" % (n, L(seq)))
        for _ in range(40 if big else 8):
            seq = [rng.choice(L4 + [rng.getrandbits(32), rng.getrandbits(32), 2**32, rng.randrange(P)]) for _ in range(n)]
            add("decode-random", "decode %d %s" % (n, L(seq)))

    # -- 8. Sum
    for n in range(0, NMAX + 1):
        top = 2 ** (32 * n)
        add("sum", "sum %d 0" % n)
        if n == 0:
            continue
        for parts in ([top - 1], [top - 2, 1], [top - 2, 1, 1], [top // 2, top // 2 - 1, 1], [top // 2, top // 2],
                      [M32, 1, M32, 1], [top - 1, 0, 0], [0, 0, top - 1, 1], [1] * 7):
            add("sum", "sum %d %d %s" % (n, len(parts), L(sum((limbs_of(v, n) for v in parts), []))))

    # -- 9. random, special limbs over-represented
    def rl():
        c = rng.random()
        if c < 0.45:
            return rng.choice(L4)
        if c < 0.55:
            return rng.choice((2, 2**31 - 1, 2**31 + 1, M32 - 1, 2**16, 2**16 - 1))
        return rng.getrandbits(32)

    def rlimbs(n):
        c = rng.random()
        v = [rl() for _ in range(n)]
        if c < 0.35:                       # clear some high limbs (divisor much smaller than dividend etc.)
            z = rng.randrange(0, n + 1)
            for i in range(n - z, n):
                v[i] = 0
        return v

    nrand = 120000 if big else 9000
    for _ in range(nrand):
        n = rng.choice((1, 2, 2, 3, 3, 4, 5))
        op = rng.choice(BINOPS + ("mul", "remdiv", "add", "sub"))
        add("random-binary", case2(op, n, rlimbs(n), rlimbs(n)))
    for _ in range(nrand // 6):
        n = rng.choice((1, 2, 3, 4, 5))
        add("random-unary", case1(rng.choice(UNOPS), n, rlimbs(n)))
        k = rng.randrange(0, 5)
        add("random-sum", "sum %d %d %s" % (n, k, L(sum((rlimbs(n) for _ in range(k)), []))))
    return out


def finding_key(case, impl, model):
    """Genuine, confirmed defects of the implementation (impl agrees with the faithful model, both disagree with the spec)."""
    t = case.split()
    op, n = t[0], int(t[1])
    if not model.startswith("SPECDIFF"):
        return None
    if op == "try_u128" and n == 3 and impl == "ERR" and BOUND3 < int(t[2]) < 2**96:
        return "u32s3-tryfrom-u128-bound"
    if n == 0 and op in ("try_u64", "try_u128") and int(t[2]) == 0 and impl == "ERR":
        return "u32s0-tryfrom-zero"
    if n == 0 and op == "from_u32" and int(t[2]) == 0 and impl == "PANIC":
        return "u32s0-tryfrom-zero"
    return None


# ------------------------------------------------------------------ extraction cross-check (Coq's VM against the oracle)
VM_OPS = {"add": "u32s_add", "sub": "u32s_sub", "mul": "u32s_mul", "div": "u32s_div", "rem": "u32s_rem",
          "mul_two": "u32s_mul_two"}


def extra_checks(ctx):
    """A sample of arithmetic cases evaluated by `vm_compute` inside Coq (no extraction, no OCaml) must print what the
    extracted, zarith-mapped oracle prints."""
    import os
    import random
    import re
    import sys
    sys.path.insert(0, os.path.join(os.path.dirname(os.path.abspath(__file__)), ".."))
    import runner
    import vmcross
    info = {"vm_cross_check_sample": 0, "vm_cross_check_mismatches": 0}
    if not ctx.get("oracle"):
        return {"violations": [], "info": info}
    rng = random.Random(ctx["seed"] + 29)
    pool = []
    for k, c in cases("quick", rng):
        w = c.split()
        if w and w[0] in VM_OPS and all(re.fullmatch(r"\d+", a) for a in w[1:]):
            n = int(w[1])
            if len(w) - 2 == (n if w[0] == "mul_two" else 2 * n):
                pool.append(c)
    pool = sorted(set(pool))
    rng.shuffle(pool)
    per_op, sample = {}, []
    for c in pool:
        o = c.split()[0]
        if per_op.get(o, 0) < (50 if ctx["tier"] == "quick" else 300):
            per_op[o] = per_op.get(o, 0) + 1
            sample.append(c)
    items = []
    for i, c in enumerate(sample):
        w = c.split()
        n = int(w[1])
        xs = w[2:2 + n]
        ys = w[2 + n:2 + 2 * n]
        lst = lambda l: "[" + "; ".join(l) + "]"
        expr = "%s %s" % (VM_OPS[w[0]], lst(xs)) if w[0] == "mul_two" else "%s %s %s" % (VM_OPS[w[0]], lst(xs), lst(ys))
        items.append((str(i), expr, "optok"))
    got, err = vmcross.run(runner.COQ, "From TF Require Import Word U32s.", items)
    if got is None:
        return {"violations": [{"kind": "vm-cross-check-failed", "detail": err, "no_input": True}], "info": info}
    want, err, _ = runner.run_lines(ctx["oracle"], [], ["%d %s" % (i, c) for i, c in enumerate(sample)], 600)
    if want is None:
        return {"violations": [{"kind": "vm-cross-check-oracle-failed", "detail": err, "no_input": True}], "info": info}
    viol, bad = [], 0
    for i, c in enumerate(sample):
        x, y = want.get(str(i)), got.get(str(i))
        if x is not None and x.startswith("SPECDIFF"):
            continue
        if (x or "").strip() != (y or "").strip():
            bad += 1
            if len(viol) < 3:
                viol.append({"kind": "extraction-cross-check", "case": c, "impl": "extracted oracle: %s" % x,
                             "model": "Coq vm_compute: %s" % y, "no_input": True,
                             "why": "the extracted (zarith-mapped) model and the same Gallina term evaluated inside Coq disagree"})
    info["vm_cross_check_sample"] = len(sample)
    info["vm_cross_check_ops"] = per_op
    info["vm_cross_check_mismatches"] = bad
    return {"violations": viol, "info": info}
