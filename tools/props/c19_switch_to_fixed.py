#!/usr/bin/env python3
"""One-shot switch of the C19 proof files from the [CURRENT] tree (TryFrom<u128> for U32s<3> compares with
u64::MAX * u32::MAX: refutation + gap + partial theorem) to the [FIXED] tree (full theorem C19_try_from_u128).

Run once, after the guard has been repaired in /repo:   python3 tools/props/c19_switch_to_fixed.py [coq-dir]
It edits coq/proofs/U32sTryFromNow.v and coq/props/C19.v in place: the [CURRENT] blocks are deleted, the commented
[FIXED] blocks are uncommented (and un-indented, so that the runner sees `Theorem` / `Print Assumptions` at line start).
Also remove the `finding:` line with key u32s3-tryfrom-u128-bound from KNOWN_FINDINGS.txt (add a `fixed:` line)."""
import os
import sys

ROOT = sys.argv[1] if len(sys.argv) > 1 else os.path.join(os.path.dirname(os.path.abspath(__file__)), "..", "..", "coq")


def switch(path):
    out, mode = [], "keep"
    for ln in open(path).read().splitlines(True):
        if "[CURRENT] begin *)" in ln and ln.startswith("(* ="):
            mode = "drop"
            continue
        if "[CURRENT] end *)" in ln and ln.startswith("(* ="):
            mode = "keep"
            continue
        if "[FIXED] begin" in ln and ln.startswith("(* ="):
            mode = "unindent"
            continue
        if "[FIXED] end *)" in ln and ln.lstrip().startswith("="):
            mode = "keep"
            continue
        if mode == "drop":
            continue
        if mode == "unindent":
            ln = ln[2:] if ln.startswith("  ") else ln
        out.append(ln)
    if mode != "keep":
        raise SystemExit("unbalanced markers in " + path)
    open(path, "w").write("".join(out))


for f in ("proofs/U32sTryFromNow.v", "props/C19.v"):
    switch(os.path.join(ROOT, f))
    print("switched", f)
