"""C20 - Digest and element conversions are lossless, order-preserving and strict."""
ID = "C20"
GEN_TAGS = ["BFieldGen"]
PROOF_TARGETS = ["proofs/DigestConvProofs.vo"]
PROPS_FILE = "props/C20.v"
EXTRACT = "extract/ExtractC20.vo"
ORACLE = ("gen_c20", "c20.ml")
HARNESS = "c20"
PROFILES = ["release", "checked"]
RUN_TIMEOUT = {"quick": 300, "thorough": 1500}

P = 2**64 - 2**32 + 1
U64 = 2**64

TRUSTED = [
    "Coq 8.16.1 kernel and its bytecode VM (vm_compute only for the concrete witness of the refutation and the Examples); no native_compute",
    "value-level view of BFieldElement: an element is its canonical value in [0,p), `new` reduces mod p, `value` returns it (that is property C01, proved there about the regenerated Montgomery code; P is taken from coq/gen/BFieldGen.v)",
    "hand-written model coq/model/DigestConv.v of digest.rs / the conversion impls of b_field_element.rs and x_field_element.rs, tied to the code by the correspondence run only (nothing of C20 is machine-translated)",
    "external code modelled by its documented behaviour: u64::from_str (optional '+', ASCII digits, overflow and empty are errors), u64 Display and `{:>020}`, str::split / join, hex 0.4.3 encode/encode_upper/decode, to_le_bytes/from_le_bytes, num_bigint::BigUint as non-negative Z, Iterator::cmp (lexicographic), serde_json (at the level of JSON values: string / integer literal / array / null / bool) and bincode 1.3 serialize/deserialize (fixed 8-byte little-endian u64, arrays without length prefix, trailing bytes ignored)",
    "extraction: ExtrOcamlBasic + ExtrOcamlZBigInt, OCaml 4.13.1, zarith 1.12",
    "correspondence harness (harness/src/bin/c20.rs), oracle driver (ocaml/c20.ml, incl. its independent zarith spec of big / cmp / round trips), case generator (tools/props/c20.py)",
    "derived PartialEq/Eq on Digest/BFieldElement are structural on canonical Montgomery words (C01_repr_unique)",
]
ASSUMPTIONS = [
    "&str arguments are valid UTF-8 (Rust type invariant); the model works on their bytes",
    "elements are built through the value-level API (`new`), not from_raw_u64 (C01 assumption)",
    "BFieldElement's own Display (`-k` for the last 256 values, zero padding) is pretty-printing pinned by the test suite, not the canonical decimal form; the element-level decimal round trip is stated for value().to_string()",
    "JSON inputs are restricted to strings, integer literals (no `-0`, no leading zeros, no fraction/exponent), arrays of integer literals, null, booleans",
]
RULE = ("boundary-directed: special u64 values (0, 1, 256, 257, 10^19-1, 10^19, p-257, p-256, p-1, p, p+1, 2^64-1 ...) in each of the "
        "five positions for every encoder / round trip; byte arrays and hex strings with an element equal to p-1, p, p+1, 2^64-1 in "
        "each position; wrong lengths; malformed hex and decimal strings; big integers around p^k and 2^320; ordering on all pairs "
        "of a grid and ties in the most significant elements; JSON and bincode forms; plus seeded random. non-trivial = every case; "
        "distinct = distinct case text")

SPECIAL = [0, 1, 9, 10, 255, 256, 257, 2**32 - 1, 2**32, 10**19 - 1, 10**19, P - 2**32, P - 258, P - 257, P - 256, P - 255,
           P - 2, P - 1, P, P + 1, P + 256, 2**64 - 2, 2**64 - 1]
DIGEST_OPS = ["to_bytes", "bytes_rt", "to_hex", "hex_rt", "to_string", "display_rt", "to_big", "big_rt", "ser_json", "json_rt",
              "ser_bincode", "bincode_rt", "reversed", "to_vec", "digest_to_xfe"]
BFE_OPS = ["bfe_to_bytes", "bfe_bytes_rt", "bfe_to_string", "bfe_dec_rt", "bfe_ser_json", "bfe_json_rt", "bfe_ser_bincode",
           "bfe_bincode_rt"]


def hx(b):
    """whitespace-free encoding of a byte string / str"""
    if isinstance(b, str):
        b = b.encode("utf-8")
    return b.hex() if b else "-"


def le8(v):
    return int(v).to_bytes(8, "little")


def dbytes(vals):
    return b"".join(le8(v) for v in vals)


def dstr(vals):
    return " ".join(str(v) for v in vals)


def finding_key(case, impl, model):
    """No known finding: the Display defect (key digest-display-negative-form) was repaired in /repo (e310cb2)."""
    return None


def cases(tier, rng):
    out = []
    big = tier == "thorough"

    def rv():
        c = rng.random()
        if c < 0.25:
            return rng.choice(SPECIAL)
        if c < 0.35:
            return rng.randrange(P - 300, P)
        if c < 0.45:
            return rng.randrange(0, 300)
        if c < 0.5:
            return rng.randrange(P, U64)
        return rng.randrange(0, P)

    def rcanon():
        return rv() % P

    def rdigest():
        return [rv() for _ in range(5)]

    # ---------------- special values in each of the five positions, every encoder and round trip
    bases = [[0, 0, 0, 0, 0], [1, 2, 3, 4, 5], [rng.randrange(257, P - 256) for _ in range(5)]]
    for pos in range(5):
        for v in SPECIAL:
            for base in bases:
                d = list(base)
                d[pos] = v
                for op in DIGEST_OPS:
                    out.append(("boundary-position", "%s %s" % (op, dstr(d))))
    for v in (0, 1, P - 1, P, 2**64 - 1, P - 256, P - 257, 256, 257):
        d = [v] * 5
        for op in DIGEST_OPS:
            out.append(("boundary-all-positions", "%s %s" % (op, dstr(d))))

    # ---------------- byte arrays / bincode / hex with a boundary element in each position
    for pos in range(5):
        for v in (P - 1, P, P + 1, 2**64 - 1, 2**63, 0):
            for base in ([0] * 5, [7, P - 1, 2**32, 1, P - 2]):
                d = list(base)
                d[pos] = v
                raw = dbytes(d)
                out.append(("bytes-boundary-element", "from_bytes " + hx(raw)))
                out.append(("bincode-boundary-element", "de_bincode " + hx(raw)))
                h = raw.hex()
                out.append(("hex-boundary-element", "from_hex " + hx(h)))
                out.append(("hex-boundary-element", "from_hex " + hx(h.upper())))
                out.append(("json-boundary-element", "de_json s:" + hx(h)))
    # ---------------- wrong lengths
    for n in (0, 1, 7, 8, 9, 16, 32, 39, 41, 47, 48, 79, 80, 81, 255):
        raw = bytes(rng.randrange(0, 200) for _ in range(n))
        zero = bytes(n)
        for r in (raw, zero):
            out.append(("bytes-wrong-length", "from_bytes " + hx(r)))
            out.append(("bincode-length", "de_bincode " + hx(r)))
            out.append(("hex-wrong-length", "from_hex " + hx(r.hex())))
            out.append(("bfe-bytes-length", "bfe_from_bytes " + hx(r)))
            out.append(("bfe-bincode-length", "bfe_de_bincode " + hx(r)))
    # bincode: 40 canonical bytes followed by trailing bytes, and exactly 40
    good = dbytes([1, 2, 3, 4, P - 1])
    for extra in (b"", b"\x00", b"\xff" * 8, b"\x01" * 40):
        out.append(("bincode-length", "de_bincode " + hx(good + extra)))
        out.append(("bytes-wrong-length", "from_bytes " + hx(good + extra)))
    # ---------------- hex: case, invalid digits, odd length, prefixes
    goodhex = dbytes([0xabcdef0123456789 % P, 0xfedcba9876543210 % P, 0xa1b2c3d4e5f60718, 0x0f0e0d0c0b0a0908, P - 1]).hex()
    mixed = "".join(c.upper() if i % 3 == 0 else c for i, c in enumerate(goodhex))
    variants = [goodhex, goodhex.upper(), mixed, goodhex[:-1], goodhex[1:], goodhex + "0", goodhex + "00", goodhex[:-2],
                "0x" + goodhex, "0x" + goodhex[2:], goodhex[:-1] + "g", "g" + goodhex[1:], goodhex[:40] + "G" + goodhex[41:],
                goodhex[:-1] + " ", " " + goodhex[1:], goodhex[:10] + "-" + goodhex[11:], goodhex[:10] + "+" + goodhex[11:],
                goodhex[:10] + "/" + goodhex[11:], goodhex[:10] + ":" + goodhex[11:], goodhex[:10] + "@" + goodhex[11:],
                goodhex[:10] + "`" + goodhex[11:], goodhex[:10] + "é" + goodhex[12:], goodhex + "\n", "", "0", "00",
                "zz" * 40, goodhex * 2]
    for v in variants:
        out.append(("hex-malformed", "from_hex " + hx(v)))
        out.append(("json-hex-malformed", "de_json s:" + hx(v)))
    # try_from_hex takes AsRef<[u8]>: bytes that are not UTF-8
    out.append(("hex-malformed", "from_hex " + hx(goodhex.encode()[:-1] + b"\xff")))
    out.append(("hex-malformed", "from_hex " + hx(b"\x80" + goodhex.encode()[1:])))
    # every single byte value as the first / last hex digit (quick: a sample)
    for c in (range(256) if big else list(range(40, 75)) + list(range(94, 106)) + [0, 127, 128, 255]):
        out.append(("hex-digit-sweep", "from_hex " + hx(bytes([c]) + goodhex.encode()[1:])))
        out.append(("hex-digit-sweep", "from_hex " + hx(goodhex.encode()[:-1] + bytes([c]))))

    # ---------------- decimal strings
    def s5(fields):
        return ",".join(fields)
    ok = ["1", "2", "3", "4", "5"]
    strs = [s5(ok), s5(ok[:4]), s5(ok + ["6"]), "", ",", ",,,,", ",,,,,", "1,,3,4,5", s5(ok) + ",", "," + s5(ok),
            s5(["+1"] + ok[1:]), s5(["+"] + ok[1:]), s5(["++1"] + ok[1:]), s5(["+-1"] + ok[1:]), s5(["-1"] + ok[1:]),
            s5(["-0"] + ok[1:]), s5(["-"] + ok[1:]), s5(["1+"] + ok[1:]), s5(["+0"] * 5),
            s5(["001"] + ok[1:]), s5(["0" * 30 + "7"] + ok[1:]), s5(["0" * 19 + "1"] * 5), s5(["00000000000000000000"] * 5),
            s5([" 1"] + ok[1:]), s5(["1 "] + ok[1:]), "1, 2,3,4,5", "1 ,2,3,4,5", "1,2,3,4,5 ", " 1,2,3,4,5", "1,2,3,4,5\n", "\t1,2,3,4,5",
            "1;2;3;4;5", "1 2 3 4 5", "1.0,2,3,4,5", "1e3,2,3,4,5", "0x10,2,3,4,5", "1_000,2,3,4,5", "a,b,c,d,e",
            "١,2,3,4,5", "１,2,3,4,5", "1，2，3，4，5", "1,2,3,4,é",
            s5([str(P - 1)] * 5), s5([str(P)] + ok[1:]), s5(ok[:4] + [str(P)]), s5([str(P + 1)] + ok[1:]),
            s5([str(2**64 - 1)] + ok[1:]), s5([str(2**64)] + ok[1:]), s5([str(2**64 + 1)] + ok[1:]), s5(ok[:2] + [str(2**64)] + ok[3:]),
            s5([str(10**20)] + ok[1:]), s5(["9" * 30] + ok[1:]), s5([str(2**64 * 10)] + ok[1:]), s5([str(2**65 + 5)] + ok[1:]),
            s5(["18446744069414584321"] * 5), s5(["18446744069414584320"] * 5), s5(["018446744069414584320"] * 5),
            s5(["+18446744069414584320"] * 5), s5(["+18446744069414584321"] * 5),
            s5([str(P - 1)] * 4), s5([str(P - 1)] * 6), s5(["0"] * 5), s5(["0"] * 4), s5(["0"] * 6), "0", "5", str(P),
            # an error in a field and a wrong count at the same time
            s5(["x"] + ok), s5(ok + ["x"]), s5([str(P)] * 7),
            s5(["1"] * 100)]
    for pos in range(5):
        for tok in ("", "+", "-1", "+7", "007", " 7", "7 ", str(P - 1), str(P), str(2**64 - 1), str(2**64), "0" * 25, "1" * 21,
                    "00000000000000000257", "-256", "x"):
            f = list(ok)
            f[pos] = tok
            strs.append(s5(f))
    for t in strs:
        out.append(("str-grammar", "from_str " + hx(t)))
    for tok in ("", "+", "-", "+0", "-0", "0", "00", "+00", "1", "+1", "++1", "+-1", "-1", "1+", " 1", "1 ", "1\n", "0x1", "1e1", "1.0",
                "1_0", "١", "１", str(P - 1), str(P), str(P + 1), "+" + str(P - 1), "+" + str(P), "0" + str(P - 1),
                "0" * 40 + str(P - 1), "0" * 40 + str(P), str(2**64 - 1), str(2**64), str(2**64 + 1), "18446744073709551620",
                "28446744073709551615", "99999999999999999999", "100000000000000000000", "9" * 40, "00000000000000000257",
                "-256", "256", "257", ",", "1,2"):
        out.append(("bfe-str-grammar", "bfe_from_str " + hx(tok)))

    # ---------------- big integers
    bigs = [0, 1, P - 1, P, P + 1, 2**64 - 1, 2**64, 2**320 - 1, 2**320, 2**320 + 1, 2**319, 2**321, 2**384, 2**640, P**6, P**10,
            (P - 1) * (1 + P + P**2 + P**3 + P**4), 10**96, 10**97]
    for k in range(1, 7):
        bigs += [P**k - 1, P**k, P**k + 1, 2 * P**k, P**k * (P - 1), P**k * (P - 1) + 1]
    for k in range(5):
        bigs += [(P - 1) * P**k, P**5 + P**k, P**5 - P**k]
    for n in sorted(set(bigs)):
        out.append(("big-boundary", "from_big %d" % n))
    for _ in range(3000 if big else 300):
        c = rng.random()
        if c < 0.4:
            n = rng.randrange(0, P**5)
        elif c < 0.6:
            n = rng.randrange(P**5, 2**320)
        elif c < 0.8:
            n = P**5 + rng.randrange(-1000, 1000)
        else:
            n = sum(rcanon() * P**i for i in range(5))
        out.append(("big-random", "from_big %d" % n))

    # ---------------- order
    # ties in the most significant elements: equal in positions > i, different in position i, adversarial below
    for i in range(5):
        for lo, hi in ((0, 1), (P - 2, P - 1), (0, P - 1), (2**32 - 1, 2**32), (5, 5)):
            for low_a, low_b in ((0, P - 1), (P - 1, 0), (3, 3)):
                a = [low_a] * i + [lo] + [7] * (4 - i)
                b = [low_b] * i + [hi] + [7] * (4 - i)
                out.append(("order-ties", "cmp %s %s" % (dstr(a), dstr(b))))
                out.append(("order-ties", "cmp %s %s" % (dstr(b), dstr(a))))
    # non-canonical arguments are the same digest as their reductions
    out.append(("order-ties", "cmp %s %s" % (dstr([P, P + 1, 0, 0, 0]), dstr([0, 1, 0, 0, 0]))))
    out.append(("order-ties", "cmp %s %s" % (dstr([0, 0, 0, 0, P]), dstr([0, 0, 0, 0, 0]))))
    import itertools
    grid2 = [list(t) for t in itertools.product((0, P - 1), repeat=5)]
    grid3 = [list(t) + [0, 0] for t in itertools.product((0, 1, P - 1), repeat=3)] + \
            [[0, 0] + list(t) for t in itertools.product((0, 1, P - 1), repeat=3)]
    grids = [grid2, grid3]
    if big:
        grids.append([list(t) for t in itertools.product((0, 1, P - 1), repeat=5)])
    for g in grids:
        for a in g:
            for b in g:
                out.append(("order-grid", "cmp %s %s" % (dstr(a), dstr(b))))
    for _ in range(20000 if big else 1500):
        a = rdigest()
        b = list(a)
        c = rng.random()
        if c < 0.6:
            for j in range(rng.randrange(0, 5)):
                b[rng.randrange(5)] = rv()
        elif c < 0.8:
            k = rng.randrange(5)
            b[k] = (b[k] + rng.choice((-1, 1))) % U64
        else:
            b = rdigest()
        out.append(("order-random", "cmp %s %s" % (dstr(a), dstr(b))))

    # ---------------- Vec<BFieldElement>
    for n in (0, 1, 4, 5, 6, 10):
        out.append(("vec-length", "from_vec " + dstr([rv() for _ in range(n)])))
        out.append(("vec-length", "from_vec " + dstr([P] * n)))

    # ---------------- JSON documents
    docs = ["null", "true", "false", "n:0", "n:5", "n:-1", "n:%d" % (P - 1), "n:%d" % P, "n:%d" % (P + 1), "n:%d" % (2**64 - 1),
            "n:%d" % 2**64, "n:%d" % (2**64 + 1), "n:%d" % 10**30, "n:%d" % -(2**63), "n:%d" % (2**63),
            "a:", "a:1", "a:1,2,3,4,5", "a:0,0,0,0,0", "a:1,2,3,4,5,6", "a:%d,1,2,3,4" % P, "s:" + hx(""), "s:" + hx("5"),
            "s:" + hx("1,2,3,4,5"), "s:" + hx(goodhex), "s:" + hx(goodhex.upper()), "s:" + hx('"' + goodhex + '"'),
            "s:" + hx("\\" + goodhex[1:]), "s:" + hx(goodhex + "é"), "s:" + hx("\u0000" + goodhex[1:])]
    for dct in docs:
        out.append(("json-documents", "de_json " + dct))
        out.append(("json-documents", "bfe_de_json " + dct))

    # ---------------- BFieldElement
    for v in sorted(set(SPECIAL + [10**k for k in range(0, 20)] + [10**k - 1 for k in range(1, 20)] + list(range(250, 262)) +
                        list(range(P - 260, P + 3)))):
        for op in BFE_OPS:
            out.append(("bfe-boundary", "%s %d" % (op, v)))
        out.append(("bfe-boundary", "bfe_from_bytes " + hx(le8(v))))
        out.append(("bfe-boundary", "bfe_de_bincode " + hx(le8(v))))
        out.append(("bfe-boundary", "bfe_de_json n:%d" % v))
        out.append(("bfe-boundary", "bfe_from_str " + hx(str(v))))

    # ---------------- XFieldElement <-> Digest
    for z0 in (0, 1, P - 1, P, 2**64 - 1):
        for z1 in (0, 1, P - 1, P):
            for c in ([0, 0, 0], [1, 2, 3], [P - 1, P, P + 1]):
                out.append(("xfe-embedding", "digest_to_xfe %s %d %d" % (dstr(c), z0, z1)))
    for c in ([0, 0, 0], [1, 2, 3], [P - 1, P, P + 1], [2**64 - 1, 0, P - 1]):
        out.append(("xfe-embedding", "xfe_to_digest " + dstr(c)))
        out.append(("xfe-embedding", "xfe_rt " + dstr(c)))

    # ---------------- random
    nrand = 20000 if big else 1200
    for _ in range(nrand):
        d = rdigest()
        for op in DIGEST_OPS:
            out.append(("random-digest", "%s %s" % (op, dstr(d))))
    for _ in range(nrand):
        # random 40 bytes: mostly canonical elements, sometimes not
        d = [rv() for _ in range(5)]
        raw = dbytes(d)
        out.append(("random-bytes", "from_bytes " + hx(raw)))
        out.append(("random-bytes", "de_bincode " + hx(raw)))
        h = raw.hex()
        if rng.random() < 0.5:
            h = "".join(ch.upper() if rng.random() < 0.5 else ch for ch in h)
        if rng.random() < 0.15:
            i = rng.randrange(len(h))
            h = h[:i] + rng.choice("ghxz GZ-+,/:@`{") + h[i + 1:]
        if rng.random() < 0.1:
            h = h[:rng.randrange(len(h))]
        out.append(("random-hex", "from_hex " + hx(h)))
        # random decimal strings near the grammar
        fields = []
        for v in ([rv() for _ in range(rng.choice((5, 5, 5, 5, 4, 6, 1, 0, 7)))]):
            t = str(v)
            c = rng.random()
            if c < 0.1:
                t = "+" + t
            elif c < 0.2:
                t = "0" * rng.randrange(1, 25) + t
            elif c < 0.24:
                t = rng.choice((" ", "-", "", "x", "+-", "++")) + t
            elif c < 0.27:
                t = t + rng.choice((" ", "-", "+", "x", "\n"))
            elif c < 0.3:
                t = str(v + 2**64 * rng.randrange(1, 3))
            fields.append(t)
        out.append(("random-str", "from_str " + hx(",".join(fields))))
        v = rv()
        for op in BFE_OPS:
            out.append(("random-bfe", "%s %d" % (op, v)))
        out.append(("random-bfe", "bfe_from_bytes " + hx(le8(v))))
        out.append(("random-bfe", "bfe_de_json n:%d" % (v + rng.choice((0, 0, 0, 2**64, -2**64)))))
        out.append(("random-xfe", "digest_to_xfe %s %d %d" % (dstr([rv(), rv(), rv()]), rng.choice((0, 0, P, rv())), rng.choice((0, 0, P, rv())))))
    return out
