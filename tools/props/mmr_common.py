"""Shared case generators for the MMR properties C05, C11, C12 (one oracle `ocaml/mmr.ml`, one harness
binary `mmr`).  A `hist` case is a whole operation history:

  a<k>[+] / A<k>[+]   append leaf Atom k; tracked proofs go through batch_update_from_append (a) or one
                      by one through update_from_append (A); `+` = keep the returned proof as tracked
  m<i>:<k> M.. n..    mutate leaf i (MmrAccumulator::mutate_leaf); tracked proofs through
                      batch_update_from_leaf_mutation (m) / update_from_leaf_mutation each (M) /
                      batch_update_from_batch_leaf_mutation with one mutation (n)
  b<i,..>:<k,..>      Mmr::batch_mutate_leaf_and_update_mps           (mutations are popped: last first)
  B<i,..>:<k,..>      batch_update_from_batch_leaf_mutation for the proofs, mutate_leaf one by one for the peaks
  t<i> / T<i>         start tracking leaf i (proof from the specification) at the end / the front
  u<pos>              stop tracking position pos
  w<i,..>:<k,..>:<k,..>:<tweak>   verify_batch_update(expected peaks, appended, mutations) with a tweak
After every op both sides print leaf count, peaks, bagged digest, `modified` positions, every tracked
proof and its verification verdict (histories of more than 24 ops print a checksum per op)."""

SPECIAL = (5, 999999, 424242, 777777)


class Hist:
    """Builds a history while mirroring count / leaf values / number of tracked proofs."""

    def __init__(self, rng):
        self.rng = rng
        self.ops = []
        self.vals = []
        self.tracked = []
        self.fresh = 10000 + rng.randrange(0, 500) * 1000
        self.cap = rng.choice((2, 4, 6, 6, 10))   # bound on tracked proofs (cost of the oracle's spec checks)

    def val(self, i=None):
        r = self.rng.random()
        if i is not None and r < 0.2:
            return self.vals[i]            # mutation that keeps the old value
        if r < 0.3:
            return self.rng.randrange(0, 4)  # repeated small values: equal leafs at different places
        self.fresh += 1
        return self.fresh

    def n(self):
        return len(self.vals)

    def append(self, kind=None, track=None):
        kind = kind or self.rng.choice("aaA")
        k = self.val()
        track = (self.rng.random() < 0.25 and len(self.tracked) < self.cap) if track is None else track
        self.ops.append("%s%d%s" % (kind, k, "+" if track else ""))
        self.vals.append(k)
        if track:
            self.tracked.append(self.n() - 1)

    def mutate(self, i=None, kind=None):
        i = self.rng.randrange(self.n()) if i is None else i
        kind = kind or self.rng.choice("mMn")
        k = self.val(i)
        self.ops.append("%s%d:%d" % (kind, i, k))
        self.vals[i] = k

    def related(self, size):
        """index set with siblings / cousins (shared ancestors) of a random leaf"""
        n = self.n()
        base = self.rng.randrange(n)
        cand = [base ^ 1, base ^ 2, base ^ 3, base ^ 4, base ^ 7, base ^ 8, base + 1, base - 1, n - 1, 0]
        cand = [c for c in cand if 0 <= c < n and c != base]
        self.rng.shuffle(cand)
        out = [base]
        for c in cand:
            if len(out) >= size:
                break
            if c not in out:
                out.append(c)
        while len(out) < size and len(out) < n:
            c = self.rng.randrange(n)
            if c not in out:
                out.append(c)
        self.rng.shuffle(out)
        return out

    def batch(self, idxs=None, kind=None):
        n = self.n()
        if idxs is None:
            size = min(n, self.rng.choice((1, 2, 2, 3, 3, 4, 6)))
            idxs = self.related(size) if self.rng.random() < 0.6 else self.rng.sample(range(n), size)
        kind = kind or self.rng.choice("bbB")
        ks = [self.val(i) for i in idxs]
        self.ops.append("%s%s:%s" % (kind, ",".join(map(str, idxs)) or "-", ",".join(map(str, ks)) or "-"))
        for i, k in zip(idxs, ks):
            self.vals[i] = k

    def track(self, i=None, front=None):
        i = self.rng.randrange(self.n()) if i is None else i
        front = (self.rng.random() < 0.4) if front is None else front
        if len(self.tracked) >= self.cap + 2:
            self.untrack()
        self.ops.append("%s%d" % ("T" if front else "t", i))
        if front:
            self.tracked.insert(0, i)
        else:
            self.tracked.append(i)

    def untrack(self):
        if self.tracked:
            pos = self.rng.randrange(len(self.tracked))
            self.ops.append("u%d" % pos)
            del self.tracked[pos]

    def vbu(self, tweak=None, idxs=None, napp=None):
        n = self.n()
        if idxs is None:
            size = min(n, self.rng.choice((0, 1, 2, 2, 3)))
            idxs = self.related(size) if (size and self.rng.random() < 0.5) else self.rng.sample(range(n), size)
        ks = [self.val(i) for i in idxs]
        napp = self.rng.choice((0, 0, 1, 2, 3)) if napp is None else napp
        apps = [self.val() for _ in range(napp)]
        tweak = tweak or self.rng.choice(("ok", "ok", "order", "peak%d" % self.rng.randrange(8), "swapv", "dup", "oob",
                                          "appp", "appm", "bp"))
        j = lambda l: ",".join(map(str, l)) or "-"
        self.ops.append("w%s:%s:%s:%s" % (j(idxs), j(ks), j(apps), tweak))

    def line(self):
        return "hist " + " ".join(self.ops)


def random_history(rng, nops, steer=False, track_bias=0.12):
    h = Hist(rng)
    target = None
    while len(h.ops) < nops:
        n = h.n()
        if steer and target is None and rng.random() < 0.3:
            k = rng.randrange(1, 9)
            target = 2 ** k - 1 if 2 ** k - 1 >= n else None
        if target is not None:
            if n < target:
                h.append()
                continue
            # at 2^k - 1: make sure something is tracked, then carry
            if not h.tracked and n:
                h.track()
            h.append()
            target = None
            continue
        r = rng.random()
        if n == 0 or r < 0.38:
            h.append()
        elif r < 0.53:
            h.mutate()
        elif r < 0.70:
            h.batch()
        elif r < 0.70 + track_bias:
            h.track()
        elif r < 0.86:
            h.untrack() if h.tracked else h.track()
        else:
            h.vbu()
    return h.line()


def subsets(items, maxsize):
    from itertools import combinations
    for s in range(maxsize + 1):
        for c in combinations(items, s):
            yield list(c)


def small_scope(rng, counts, mut_max, trk_max, trk_sample=None, mut_sample=None, kinds="bB"):
    """for every leaf count and every tracked subset one history: n appends, the tracked subset in a random
    hand-over order, then every mutation subset (as one batch op each, alternating routines)."""
    out = []
    for n in counts:
        tsets = list(subsets(range(n), trk_max))
        if trk_sample is not None and len(tsets) > trk_sample:
            tsets = [tsets[0]] + rng.sample(tsets[1:], trk_sample - 1)
        for ts in tsets:
            h = Hist(rng)
            for _ in range(n):
                h.append(kind="a", track=False)
            ts = list(ts)
            rng.shuffle(ts)
            for i in ts:
                h.track(i, front=False)
            msets = [m for m in subsets(range(n), mut_max) if m]
            if mut_sample is not None and len(msets) > mut_sample:
                msets = rng.sample(msets, mut_sample)
            for q, ms in enumerate(msets):
                ms = list(ms)
                rng.shuffle(ms)
                h.batch(idxs=ms, kind=kinds[q % len(kinds)])
            if n and len(h.ops) > n:
                out.append(h.line())
    return out


def popcount(x):
    return bin(x).count("1")


def syn_counts(rng, big):
    """leaf counts for synthetic accumulators (nothing is materialised): bit patterns up to 2^63 - 1"""
    cs = set()
    for k in range(0, 63):
        cs.add(2 ** k)
        cs.add(2 ** (k + 1) - 1)
    for k, j in ((40, 35), (62, 60), (62, 33), (50, 34), (34, 33), (62, 1), (61, 48), (55, 54)):
        cs.add(2 ** k + 2 ** j - 1)
        cs.add(2 ** k + 2 ** j)
    cs |= {2 ** 63 - 1, 2 ** 63 - 2, 2 ** 62 + 2 ** 60, 2 ** 55, 0x2AAAAAAAAAAAAAAA, 0x5555555555555555,
           2 ** 33 - 1, 2 ** 34 - 1, 2 ** 40 + 2 ** 35 - 1, 3, 7, 11, 12, 1}
    for _ in range(60 if big else 12):
        hi = rng.randrange(0, 2 ** 29)
        t = rng.randrange(33, 50)
        cs.add((hi << (t + 1)) | (2 ** t - 1))          # >= 33 trailing ones below a zero bit, random high part
        cs.add(rng.randrange(1, 2 ** 63))
        cs.add(rng.randrange(2 ** 49, 2 ** 63))
    return sorted(c for c in cs if 0 < c < 2 ** 63)


def syn_index_sets(rng, n):
    """index sets (1..3 distinct leaves) for an n-leaf synthetic MMR"""
    cand = {0, n - 1, n // 2, n - (n & -n), max(0, n - (n & -n) - 1)}
    top = 1 << (n.bit_length() - 1)
    cand |= {top - 1, top % n}
    for t in (1, 2, 31, 32, 33, 40, 48, 55):
        if 2 ** t <= n:
            cand.add(n - 2 ** t)
            cand.add((n - 2 ** t) ^ 1 if ((n - 2 ** t) ^ 1) < n else n - 2 ** t)
    # XOR with the count just below a power of two
    for m in range(1, 64):
        i = n ^ (2 ** m - 1)
        if 0 <= i < n:
            cand.add(i)
    cand = sorted(c for c in cand if 0 <= c < n)
    sets = []
    for c in cand:
        sets.append([c])
    for _ in range(4):
        a = rng.choice(cand)
        rel = [a ^ 1, a ^ 2, a ^ 3, a ^ (1 << 32), a ^ (1 << 33), a + 1, rng.choice(cand), rng.randrange(n)]
        rel = [x for x in rel if 0 <= x < n and x != a]
        rng.shuffle(rel)
        s = [a]
        for x in rel:
            if x not in s and len(s) < rng.choice((2, 3)):
                s.append(x)
        sets.append(s)
    return sets


def syn_cases(rng, big, ops):
    out = []
    for n in syn_counts(rng, big):
        sets = syn_index_sets(rng, n)
        if not big and len(sets) > 6:
            sets = rng.sample(sets, 6)
        for s in sets:
            for op in ops:
                if op == "a" and n + 1 >= 2 ** 63:
                    continue
                out.append(("synthetic-" + {"v": "verify", "a": "append-update", "m": "mutate", "b": "batch-mutate",
                                            "w": "verify_batch_update", "wx": "verify_batch_update"}[op],
                            "syn %d %s %s" % (n, ",".join(map(str, s)), op)))
    # appends on accumulators without tracked proofs (calculate_new_peaks_from_append at all-ones counts etc.)
    for n in syn_counts(rng, big):
        if n + 1 < 2 ** 63:
            out.append(("synthetic-append-update", "syn %d - a" % n))
    return out
