"""Shared case-construction helpers for C07 and C17 (polynomial case lines; see harness/src/bin/c07.rs)."""
P = 2**64 - 2**32 + 1
GRID = [0, 1, 2, 3, P - 1, P - 2, 2**32, 2**32 - 1, 2**32 + 1, P - 2**32, (P - 1) // 2, (P + 1) // 2, 2**63, 7, 256, 257,
        P - 256, P - 257, 0xffffffff00000000]
W = {"b": 1, "x": 3}


def coef(rng, f, nonzero=False):
    """one coefficient of field f as a list of canonical values"""
    while True:
        c = []
        for _ in range(W[f]):
            r = rng.random()
            if r < 0.25:
                c.append(rng.choice(GRID))
            elif r < 0.35:
                c.append(0)
            else:
                c.append(rng.randrange(P))
        if f == "x" and rng.random() < 0.15:
            c = [c[0], 0, 0]          # a lifted base-field element
        if not nonzero or any(c):
            return c


def poly(rng, f, deg, sparse=False):
    """coefficient list (list of value lists) of a polynomial of exactly this degree; deg = -1: zero"""
    if deg < 0:
        return []
    cs = []
    for _ in range(deg):
        if sparse and rng.random() < 0.7:
            cs.append([0] * W[f])
        else:
            cs.append(coef(rng, f))
    cs.append(coef(rng, f, nonzero=True))
    return cs


def grp(cs, k=0, borrowed=False):
    """polynomial group: storage descriptor + flattened values"""
    return " ".join(["%s%d" % ("b" if borrowed else "o", k)] + [str(v) for c in cs for v in c])


def sc(c):
    return " ".join(str(v) for v in c)


def zeros(f, n):
    return [[0] * W[f] for _ in range(n)]
