"""tip5_py.py - helpers for the C02 / C15 case generators: Tip5 on field VALUES in plain Python (forward and
inverse), used only to ENGINEER inputs (pull a desired S-box output / squeezed block back to an input state) and
to compute the suite's pinned vectors.  It is not an oracle: the comparison is always implementation vs the
extracted Coq model."""
import re

P = 2**64 - 2**32 + 1
R = 2**64
RINV = pow(R, -1, P)
D7 = pow(7, -1, P - 1)          # x -> x^D7 inverts x -> x^7


def _read_tables():
    import os
    repo = os.environ.get("VERIF_REPO", "/repo")
    src = open(os.path.join(repo, "twenty-first/src/math/tip5.rs")).read()
    tab = re.search(r"LOOKUP_TABLE: \[u8; 256\] = \[(.*?)\];", src, re.S).group(1)
    tab = [int(x) for x in re.findall(r"\d+", tab)]
    rc = re.search(r"ROUND_CONSTANTS: \[BFieldElement; NUM_ROUNDS \* STATE_SIZE\] = \[(.*?)\];", src, re.S).group(1)
    rc = [int(x) for x in re.findall(r"BFieldElement::new\((\d+)\)", rc)]
    col = re.search(r"MDS_MATRIX_FIRST_COLUMN: \[i64; STATE_SIZE\] = \[(.*?)\];", src, re.S).group(1)
    col = [int(x) for x in re.findall(r"\d+", col)]
    return tab, rc, col


try:
    TABLE, RC, COL = _read_tables()
    assert len(TABLE) == 256 and len(RC) == 80 and len(COL) == 16 and sorted(TABLE) == list(range(256))
except Exception:  # the generator then falls back to classes that do not need the tables
    TABLE, RC, COL = None, None, None
INV_TABLE = None
if TABLE:
    INV_TABLE = [0] * 256
    for i, t in enumerate(TABLE):
        INV_TABLE[t] = i


def mont(v):
    return v * R % P


def val(w):
    return w * RINV % P


def map_bytes(w, table):
    return sum(table[(w >> (8 * i)) & 255] << (8 * i) for i in range(8))


def sbox(st):
    return [val(map_bytes(mont(v), TABLE)) for v in st[:4]] + [pow(v, 7, P) for v in st[4:]]


def sbox_inv(st):
    return [val(map_bytes(mont(v), INV_TABLE)) for v in st[:4]] + [pow(v, D7, P) for v in st[4:]]


def mds(st):
    return [sum(COL[(i - j) % 16] * st[j] for j in range(16)) % P for i in range(16)]


def _mat_inv():
    n = 16
    a = [[COL[(i - j) % 16] % P for j in range(n)] + [1 if i == k else 0 for k in range(n)] for i in range(n)]
    for c in range(n):
        piv = next(r for r in range(c, n) if a[r][c])
        a[c], a[piv] = a[piv], a[c]
        inv = pow(a[c][c], -1, P)
        a[c] = [x * inv % P for x in a[c]]
        for r in range(n):
            if r != c and a[r][c]:
                f = a[r][c]
                a[r] = [(x - f * y) % P for x, y in zip(a[r], a[c])]
    return [row[n:] for row in a]


_MINV = None


def mds_inv(st):
    global _MINV
    if _MINV is None:
        _MINV = _mat_inv()
    return [sum(_MINV[i][j] * st[j] for j in range(16)) % P for i in range(16)]


def round_(i, st):
    return [(a + c) % P for a, c in zip(mds(sbox(st)), RC[16 * i:16 * i + 16])]


def round_inv(i, st):
    return sbox_inv(mds_inv([(a - c) % P for a, c in zip(st, RC[16 * i:16 * i + 16])]))


def perm(st):
    for i in range(5):
        st = round_(i, st)
    return st


def perm_inv(st):
    for i in reversed(range(5)):
        st = round_inv(i, st)
    return st


def hash10(inp):
    return perm(list(inp) + [1] * 6)[:5]


def pullback_words(words):
    """values of a state whose S-box OUTPUT has exactly the given (canonical) Montgomery words"""
    assert all(0 <= w < P for w in words)
    return sbox_inv([val(w) for w in words])


def lane_words(st_values):
    """the raw words entering the MDS layer for a given input state (values)"""
    return [mont(v) for v in sbox(st_values)]


def lane_sums(words):
    """the integer sums s = sum_j col[(r-j) mod 16] * word_j of mds_generated, per lane"""
    return [sum(COL[(r - j) % 16] * words[j] for j in range(16)) for r in range(16)]


def lane_class(words):
    """which branches of the recombination the given MDS input words reach: set of labels"""
    out = set()
    for s in lane_sums(words):
        s_hi, s_lo = s >> 64, s & (R - 1)
        t = s_lo + s_hi * 0xffffffff
        if t >= R:
            out.add("over")
            t = t - R + 0xffffffff
        if t >= P:
            out.add("noncanonical")
    return out
