#!/bin/bash
# refall.sh [ID ...] : run the check of property ID against every stored harmless rewrite harmless/ID/patchK.diff
# (scratch copies of /repo and /verif, see mutrun.sh); prints one line per patch: QUIET / the VIOLATION line.
cd "$(dirname "$0")/.."
ids="$@"; [ -z "$ids" ] && ids=$(ls harmless | grep '^C')
for id in $ids; do
  for p in harmless/$id/patch*.diff; do
    out=$(tools/mutrun.sh $p $id 2>&1)
    v=$(echo "$out" | grep -E "^VIOLATION|PATCH DOES NOT APPLY" | head -1)
    echo "$id $(basename $p): ${v:-QUIET}"
  done
done
