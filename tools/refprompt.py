#!/usr/bin/env python3
"""Print the prompt for a sub-agent that writes HARMLESS rewrites: property text + its scratch worktree, nothing from /verif."""
import json, os, sys
pid, wt = sys.argv[1], sys.argv[2]
hint = sys.argv[3] if len(sys.argv) > 3 else ""
tpl = open(os.path.join(os.path.dirname(os.path.abspath(__file__)), 'refprompt_template.txt')).read()
for l in open('/verif/properties.jsonl'):
    p = json.loads(l)
    if p['id'] == pid:
        s = tpl.replace('{WT}', wt).replace('{ID}', pid).replace('{TITLE}', p['title'])
        s = s.replace('{STATEMENT}', p['statement']).replace('{QUANT}', p['quantifier']['text']).replace('{FILES}', ', '.join(p['anchors']['files']))
        if hint:
            s += "\nFocus for this particular task: " + hint + "\n"
        print(s)
