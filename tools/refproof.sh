#!/bin/bash
# refproof.sh <patch.diff> <make target> [...] : translator + proofs only, against a scratch copy of /repo with the
# patch applied and a scratch copy of /verif's tools and coq (no harness, no oracle).  For iterating on translator / proof
# robustness against harmless rewrites.
set -u
PATCH=$(readlink -f "$1"); shift
W=/tmp/refproof.$$
mkdir -p $W/verif
git -C /repo worktree add -q --detach $W/repo HEAD || exit 2
( cd $W/repo && git apply "$PATCH" ) || { echo "PATCH DOES NOT APPLY"; git -C /repo worktree remove --force $W/repo; rm -rf $W; exit 2; }
rsync -a /verif/tools /verif/coq /verif/golden $W/verif/
cd $W/verif
VERIF_REPO=$W/repo python3 tools/rs2v.py > $W/tr.log 2>&1
cat coq/gen/REPORT.txt 2>/dev/null | head -20
for f in coq/gen/*.v; do cmp -s $f golden/$(basename $f) || echo "DRIFT $(basename $f)"; done
cd coq && [ -f Makefile.coq ] || coq_makefile -f _CoqProject -o Makefile.coq > /dev/null
for t in "$@"; do
  timeout 1500 make -f Makefile.coq -j8 $t 2>&1 | grep -vE "^COQC|^COQDEP|is up to date" | head -30
  echo "make $t -> ${PIPESTATUS[0]}"
done
[ -n "${KEEP:-}" ] && echo "kept $W" || { git -C /repo worktree remove --force $W/repo; rm -rf $W; }
