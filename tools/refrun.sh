#!/bin/bash
# refrun.sh <ID> [<ID> ...] : run the check of property ID against each HARMLESS rewrite /tmp/ref/<ID>_h/OUT/patchK.diff
# (scratch copies of /repo and /verif, see mutrun.sh).  A harmless rewrite must NOT produce a VIOLATION line with a
# concrete input; one verdict line per patch is appended to /tmp/ref/results.txt.
for id in "$@"; do
  for k in 1 2 3; do
    p=/tmp/ref/${id}_h/OUT/patch$k.diff
    [ -f "$p" ] || continue
    log=/tmp/ref/run_${id}_$k.log
    /verif/tools/mutrun.sh "$p" $id > $log 2>&1
    v=$(grep -E "^VIOLATION|PATCH DOES NOT APPLY" $log | head -1)
    c=$(grep -E "^\[check\]" $log | head -1)
    echo "$id patch$k: ${v:-QUIET} | $c" >> /tmp/ref/results.txt
  done
done
