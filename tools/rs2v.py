#!/usr/bin/env python3
"""rs2v.py - translator from a typed, loop-free subset of Rust to Gallina (Tie 1 of DESIGN.md).

It reads the *current* sources under /repo and writes coq/gen/*.v:
  * constants and tables (phf maps, const arrays, integer consts),
  * straight-line integer functions as compositions of the operations of coq/lib/Word.v,
    together with a companion  <fn>_ok  : bool  collecting the side conditions under which no
    unchecked operator overflows, no shift amount is out of range and no assert! fails.

The translator refuses (raises Untranslatable with the source span) rather than guess.
Everything is emitted write-if-changed so that `make` stays incremental.
"""
import os
import re
import sys

REPO = os.environ.get("VERIF_REPO", "/repo")
OUT = os.path.join(os.path.dirname(os.path.abspath(__file__)), "..", "coq", "gen")

WIDTH = {"u8": 8, "u16": 16, "u32": 32, "u64": 64, "u128": 128, "usize": 64,
         "i8": 8, "i16": 16, "i32": 32, "i64": 64, "i128": 128, "isize": 64}
SIGNED = {"i8", "i16", "i32", "i64", "i128", "isize"}


class Untranslatable(Exception):
    pass


# ------------------------------------------------------------------ lexer
TOK = re.compile(r"""
    (?P<ws>\s+|//[^\n]*|/\*.*?\*/)
  | (?P<num>0x[0-9a-fA-F_]+(?:[ui](?:8|16|32|64|128|size))?|[0-9][0-9_]*(?:[ui](?:8|16|32|64|128|size))?)
  | (?P<life>'[A-Za-z_][A-Za-z0-9_]*(?!'))
  | (?P<id>[A-Za-z_][A-Za-z0-9_]*!?)
  | (?P<str>"(?:[^"\\]|\\.)*")
  | (?P<op>\.\.=|<<=|>>=|\.\.|::|->|=>|==|!=|<=|>=|&&|\|\||<<|>>|\+=|-=|\*=|/=|%=|\^=|&=|\|=|[-+*/%^&|!<>=.,;:(){}\[\]#?@])
""", re.X | re.S)


def lex(src):
    pos, out = 0, []
    while pos < len(src):
        m = TOK.match(src, pos)
        if not m:
            raise Untranslatable("lex error at %r" % src[pos:pos + 30])
        pos = m.end()
        k = m.lastgroup
        if k == "ws":
            continue
        out.append((k, m.group(k)))
    out.append(("eof", ""))
    return out


# ------------------------------------------------------------------ parser (Pratt)
BINPREC = {"*": 11, "/": 11, "%": 11, "+": 10, "-": 10, "<<": 9, ">>": 9, "&": 8, "^": 7, "|": 6,
           "==": 5, "!=": 5, "<": 5, ">": 5, "<=": 5, ">=": 5, "&&": 4, "||": 3}


class Parser:
    def __init__(self, toks):
        self.t, self.i = toks, 0

    def peek(self, k=0):
        return self.t[self.i + k]

    def next(self):
        tok = self.t[self.i]
        self.i += 1
        return tok

    def accept(self, val):
        if self.peek()[1] == val and self.peek()[0] != "str":
            self.i += 1
            return True
        return False

    def expect(self, val):
        if not self.accept(val):
            raise Untranslatable("expected %r, got %r" % (val, self.peek()[1]))

    def ty(self):
        if self.accept("&"):
            self.accept("mut")
            return self.ty()
        if self.accept("("):
            parts = []
            while not self.accept(")"):
                parts.append(self.ty())
                self.accept(",")
            return ("tuple", parts)
        if self.accept("["):
            el = self.ty()
            n = None
            if self.accept(";"):
                n = self.expr()
            self.expect("]")
            return ("array", el, n)
        name = self.next()[1]
        while self.accept("::"):
            name += "::" + self.next()[1]
        if self.accept("<"):
            depth = 1
            while depth:
                v = self.next()[1]
                depth += (v == "<") - (v == ">") - 2 * (v == ">>")
        return name

    def block(self):
        self.expect("{")
        stmts, final = [], None
        while not self.accept("}"):
            if self.accept(";"):
                continue
            if self.peek()[1] == "#":  # attribute
                self.next()
                self.expect("[")
                depth = 1
                while depth:
                    v = self.next()[1]
                    depth += (v == "[") - (v == "]")
                continue
            if self.peek()[1] in ("let", "const"):
                self.next()
                pat = self.pattern()
                ty = None
                if self.accept(":"):
                    ty = self.ty()
                self.expect("=")
                e = self.expr()
                self.expect(";")
                stmts.append(("let", pat, ty, e))
                continue
            e = self.expr()
            if self.accept(";"):
                stmts.append(("expr", e))
            elif self.peek()[1] == "}":
                final = e
            elif e[0] in ("if", "block", "match"):
                stmts.append(("expr", e))
            else:
                raise Untranslatable("statement syntax near %r" % (self.peek()[1],))
        return ("block", stmts, final)

    def pattern(self):
        if self.accept("("):
            parts = []
            while not self.accept(")"):
                parts.append(self.pattern())
                self.accept(",")
            return ("ptuple", parts)
        if self.accept("["):
            parts = []
            while not self.accept("]"):
                parts.append(self.pattern())
                self.accept(",")
            return ("parray", parts)
        self.accept("mut")
        k, v = self.next()
        if k != "id":
            raise Untranslatable("pattern %r" % v)
        return ("pvar", v)

    def expr(self, prec=0):
        lhs = self.unary()
        while True:
            k, v = self.peek()
            if v == "as" and k == "id":
                if 12 < prec:
                    break
                self.next()
                lhs = ("cast", lhs, self.ty())
                continue
            if k == "op" and v in BINPREC and BINPREC[v] >= max(prec, 1):
                if BINPREC[v] < prec:
                    break
                self.next()
                rhs = self.expr(BINPREC[v] + 1)
                lhs = ("bin", v, lhs, rhs)
                continue
            break
        return lhs

    def unary(self):
        k, v = self.peek()
        if k == "op" and v in ("!", "-", "*", "&"):
            self.next()
            if v == "&":
                self.accept("mut")
            e = self.unary_cast()
            return e if v in ("*", "&") else ("un", v, e)
        return self.postfix()

    def unary_cast(self):
        # operand of a unary operator: unary binds tighter than `as`
        return self.unary()

    def args(self, close=")"):
        out = []
        while not self.accept(close):
            out.append(self.expr())
            self.accept(",")
        return out

    def postfix(self):
        e = self.primary()
        while True:
            if self.accept("."):
                k, v = self.next()
                if k == "num":
                    e = ("field", e, v)
                elif self.peek()[1] == "(":
                    self.next()
                    e = ("mcall", e, v, self.args())
                elif self.peek()[1] == "::":  # turbofish
                    raise Untranslatable("turbofish")
                else:
                    e = ("field", e, v)
            elif self.peek()[1] == "[" and self.peek()[0] == "op":
                self.next()
                idx = self.expr()
                self.expect("]")
                e = ("index", e, idx)
            elif self.peek()[1] == "?" and self.peek()[0] == "op":
                raise Untranslatable("? operator")
            else:
                return e

    def primary(self):
        k, v = self.next()
        if k == "num":
            m = re.match(r"(0x[0-9a-fA-F_]+|[0-9][0-9_]*?)((?:[ui](?:8|16|32|64|128|size))?)$", v)
            return ("lit", int(m.group(1).replace("_", ""), 0), m.group(2) or None)
        if k == "op" and v == "(":
            if self.accept(")"):
                return ("tuple", [])
            e = self.expr()
            if self.accept(","):
                parts = [e] + self.args()
                return ("tuple", parts)
            self.expect(")")
            return ("paren", e)
        if k == "op" and v == "[":
            parts = []
            while not self.accept("]"):
                parts.append(self.expr())
                if self.accept(";"):
                    n = self.expr()
                    self.expect("]")
                    return ("repeat", parts[0], n)
                self.accept(",")
            return ("array", parts)
        if k == "op" and v == "{":
            self.i -= 1
            return self.block()
        if k == "id":
            if v == "if":
                c = self.expr_nostruct()
                a = self.block()
                b = None
                if self.accept("else"):
                    if self.peek()[1] == "if":
                        b = ("block", [], self.primary())
                    else:
                        b = self.block()
                return ("if", c, a, b)
            if v == "match":
                scrut = self.expr_nostruct()
                self.expect("{")
                arms = []
                while not self.accept("}"):
                    pat = self.match_pat()
                    guard = None
                    if self.accept("if"):
                        guard = self.expr()
                    self.expect("=>")
                    body = self.expr()
                    self.accept(",")
                    arms.append((pat, guard, body))
                return ("match", scrut, arms)
            if v == "return":
                if self.peek()[1] in (";", "}"):
                    return ("return", None)
                return ("return", self.expr())
            if v in ("true", "false"):
                return ("bool", v == "true")
            if v in ("while", "loop", "for"):
                raise Untranslatable("loop")
            if v.endswith("!"):
                # macro: capture balanced argument tokens
                open_ = self.next()[1]
                close = {"(": ")", "[": "]", "{": "}"}[open_]
                start = self.i
                depth = 1
                while depth:
                    t = self.next()[1]
                    depth += (t == open_) - (t == close)
                return ("macro", v, self.t[start:self.i - 1])
            name = v
            while self.peek()[1] == "::":
                self.next()
                if self.peek()[1] == "<":
                    raise Untranslatable("generic path")
                name += "::" + self.next()[1]
            if self.peek()[1] == "(" and self.peek()[0] == "op":
                self.next()
                return ("call", name, self.args())
            return ("path", name)
        raise Untranslatable("unexpected token %r" % v)

    def expr_nostruct(self):
        return self.expr()

    def match_pat(self):
        k, v = self.peek()
        if v == "_":
            self.next()
            return ("wild",)
        if k == "num":
            lo = self.primary()
            if self.accept(".."):
                if self.peek()[1] in ("=>", "if"):
                    return ("from", lo)
                hi = self.primary()
                return ("range", lo, hi, False)
            if self.accept("..="):
                hi = self.primary()
                return ("range", lo, hi, True)
            return ("plit", lo)
        raise Untranslatable("match pattern %r" % v)


# ------------------------------------------------------------------ source access
def read(path):
    with open(os.path.join(REPO, path)) as f:
        return f.read()


def strip_tests(src):
    m = re.search(r"^#\[cfg\(test\)\]\s*\n(?:pub )?mod \w+ \{", src, re.M)
    return src[:m.start()] if m else src


def find_fn(src, name, nth=0):
    """Return (params_src, ret_src, body_src) of the nth `fn name` in src."""
    hits = [m for m in re.finditer(r"\bfn\s+%s\s*(?:<[^>]*>)?\s*\(" % re.escape(name), src)]
    if len(hits) <= nth:
        raise Untranslatable("function %s not found" % name)
    m = hits[nth]
    i = m.end()
    depth = 1
    while depth:
        depth += (src[i] == "(") - (src[i] == ")")
        i += 1
    params = src[m.end():i - 1]
    j = src.index("{", i)
    ret = src[i:j].strip()
    ret = ret[2:].strip() if ret.startswith("->") else ""
    k = j + 1
    depth = 1
    while depth:
        c = src[k]
        if c == "/" and src[k + 1] == "/":
            k = src.index("\n", k)
            continue
        depth += (c == "{") - (c == "}")
        k += 1
    return params, ret, src[j:k]


def find_in(src, header_re):
    """Return the source of the balanced-brace block following header_re (e.g. an impl)."""
    m = re.search(header_re, src)
    if not m:
        raise Untranslatable("header %s not found" % header_re)
    j = src.index("{", m.end() - 1)
    k = j + 1
    depth = 1
    while depth:
        c = src[k]
        if c == "/" and src[k + 1] == "/":
            k = src.index("\n", k)
            continue
        depth += (c == "{") - (c == "}")
        k += 1
    return src[j:k]


# ------------------------------------------------------------------ emission
def zlit(n):
    return str(n) if n >= 0 else "(%d)" % n


class Ctx:
    """Translation context: constants, known functions, fresh names."""

    def __init__(self):
        self.consts = {}    # rust path -> (coq name, type)
        self.funcs = {}     # rust call path -> (coq name, [param types], ret type, has_ok)
        self.bfe_ops = None  # names for operators on the 'bfe' pseudo type

    def add_const(self, paths, coq, ty):
        for p in paths:
            self.consts[p] = (coq, ty)

    def add_func(self, paths, coq, ptys, rty, has_ok=True):
        for p in paths:
            self.funcs[p] = (coq, ptys, rty, has_ok)


def conj(cs):
    cs = [c for c in cs if c != "true"]
    if not cs:
        return "true"
    return "(" + " && ".join(cs) + ")"


class FnTranslator:
    def __init__(self, ctx, name):
        self.ctx, self.name = ctx, name
        self.n = 0

    # returns (value_str, type, ok_str)
    def ex(self, e, env, hint=None):
        k = e[0]
        if k == "paren":
            return self.ex(e[1], env, hint)
        if k == "lit":
            ty = e[2] or hint
            if ty is None:
                raise Untranslatable("%s: cannot type literal %d" % (self.name, e[1]))
            if ty == "bfe":
                raise Untranslatable("literal as bfe")
            return zlit(e[1]), ty, "true"
        if k == "bool":
            return ("true" if e[1] else "false"), "bool", "true"
        if k == "path":
            n = e[1]
            if n in env:
                return env[n][0], env[n][1], "true"
            if n in self.ctx.consts:
                c, ty = self.ctx.consts[n]
                return c, ty, "true"
            m = re.match(r"([ui](?:8|16|32|64|128|size))::(BITS|MAX|MIN)$", n)
            if m:
                t, what = m.groups()
                w = WIDTH[t]
                if what == "BITS":
                    return str(w), "u32", "true"
                if what == "MAX":
                    return zlit(2 ** (w - 1) - 1 if t in SIGNED else 2 ** w - 1), t, "true"
                return zlit(-2 ** (w - 1) if t in SIGNED else 0), t, "true"
            raise Untranslatable("%s: unknown name %s" % (self.name, n))
        if k == "field":
            v, ty, ok = self.ex(e[1], env)
            if ty == "bfe" and e[2] == "0":
                return v, "u64", ok
            if ty == "xfe" and e[2] == "coefficients":
                return v, ("array3", "bfe"), ok
            if isinstance(ty, tuple) and ty[0] == "tuple":
                raise Untranslatable("tuple field access")
            raise Untranslatable("%s: field .%s on %s" % (self.name, e[2], ty))
        if k == "cast":
            v, ty, ok = self.ex(e[1], env, None if e[1][0] != "lit" else e[2])
            to = e[2]
            if to not in WIDTH:
                raise Untranslatable("cast to %s" % to)
            if ty == "bool":
                return "(b2z %s)" % v, to, ok
            if ty not in WIDTH:
                raise Untranslatable("cast from %s" % (ty,))
            if to in SIGNED:
                # widening unsigned->signed or signed->wider signed is the identity
                if (ty not in SIGNED and WIDTH[ty] < WIDTH[to]) or (ty in SIGNED and WIDTH[ty] <= WIDTH[to]):
                    return v, to, ok
                return "(scast %d %s)" % (WIDTH[to], v), to, ok
            if ty not in SIGNED and WIDTH[ty] <= WIDTH[to]:
                return v, to, ok
            return "(ucast %d %s)" % (WIDTH[to], v), to, ok
        if k == "un":
            if e[1] == "!":
                v, ty, ok = self.ex(e[2], env, hint)
                if ty == "bool":
                    return "(negb %s)" % v, ty, ok
                if ty in SIGNED:
                    raise Untranslatable("! on signed")
                return "(wnot %d %s)" % (WIDTH[ty], v), ty, ok
            if e[1] == "-":
                v, ty, ok = self.ex(e[2], env, hint)
                if ty == "bfe":
                    return "(%s %s)" % (self.ctx.bfe_ops["neg"], v), ty, ok
                raise Untranslatable("unary minus on %s" % ty)
        if k == "bin":
            return self.binop(e, env, hint)
        if k == "tuple":
            parts = [self.ex(p, env) for p in e[1]]
            return ("(" + ", ".join(p[0] for p in parts) + ")",
                    ("tuple", tuple(p[1] for p in parts)), conj([p[2] for p in parts]))
        if k == "array":
            parts = [self.ex(p, env, hint[1] if isinstance(hint, tuple) else None) for p in e[1]]
            return ("[" + "; ".join(p[0] for p in parts) + "]",
                    ("array", parts[0][1] if parts else None), conj([p[2] for p in parts]))
        if k == "if":
            c, cty, cok = self.ex(e[1], env)
            if cty != "bool":
                raise Untranslatable("if condition type")
            if e[3] is None:
                raise Untranslatable("%s: if without else in value position" % self.name)
            a, aty, aok = self.blk(e[2], env, hint)
            b, bty, bok = self.blk(e[3], env, hint or aty)
            if aty != bty:
                raise Untranslatable("%s: if arms %s vs %s" % (self.name, aty, bty))
            return ("(if %s then %s else %s)" % (c, a, b), aty,
                    conj([cok, "(if %s then %s else %s)" % (c, aok, bok)]))
        if k == "block":
            return self.blk(e, env, hint)
        if k == "match":
            return self.match(e, env, hint)
        if k == "call":
            return self.call(e, env, hint)
        if k == "mcall":
            return self.mcall(e, env, hint)
        raise Untranslatable("%s: expression kind %s" % (self.name, k))

    def is_untyped_lit(self, e):
        while e[0] == "paren":
            e = e[1]
        if e[0] == "lit" and e[2] is None:
            return True
        if e[0] == "bin" and e[1] in ("+", "-", "*", "<<", ">>", "&", "|", "^"):
            if e[1] in ("<<", ">>"):
                return self.is_untyped_lit(e[2])
            return self.is_untyped_lit(e[2]) and self.is_untyped_lit(e[3])
        if e[0] == "un":
            return self.is_untyped_lit(e[2])
        return False

    def binop(self, e, env, hint):
        op, a, b = e[1], e[2], e[3]
        if op in ("&&", "||"):
            va, ta, oa = self.ex(a, env)
            vb, tb, ob = self.ex(b, env)
            if op == "&&":
                return "(%s && %s)" % (va, vb), "bool", conj([oa, "(if %s then %s else true)" % (va, ob)])
            return "(%s || %s)" % (va, vb), "bool", conj([oa, "(if %s then true else %s)" % (va, ob)])
        if op in ("<<", ">>"):
            va, ta, oa = self.ex(a, env, hint)
            vb, tb, ob = self.ex(b, env, "u32")
            if ta in SIGNED:
                raise Untranslatable("shift of signed")
            w = WIDTH[ta]
            sok = "(shift_ok %d %s)" % (w, vb)
            if op == "<<":
                return "(wshl %d %s %s)" % (w, va, vb), ta, conj([oa, ob, sok])
            return "(wshr %s %s)" % (va, vb), ta, conj([oa, ob, sok])
        cmpop = op in ("==", "!=", "<", ">", "<=", ">=")
        h = None if cmpop else hint
        if self.is_untyped_lit(a) and not self.is_untyped_lit(b):
            vb, tb, ob = self.ex(b, env, h)
            va, ta, oa = self.ex(a, env, tb)
        else:
            va, ta, oa = self.ex(a, env, h)
            vb, tb, ob = self.ex(b, env, ta)
        if ta != tb:
            raise Untranslatable("%s: operand types %s %s %s" % (self.name, ta, op, tb))
        ok = [oa, ob]
        if cmpop:
            if ta == "bfe" or ta == "bool":
                if op == "==":
                    f = "(%s =? %s)" if ta == "bfe" else "(Bool.eqb %s %s)"
                    return f % (va, vb), "bool", conj(ok)
                if op == "!=":
                    f = "(negb (%s =? %s))" if ta == "bfe" else "(negb (Bool.eqb %s %s))"
                    return f % (va, vb), "bool", conj(ok)
                raise Untranslatable("ordering on %s" % ta)
            z = {"==": "(%s =? %s)", "!=": "(negb (%s =? %s))", "<": "(%s <? %s)", ">": "(%s >? %s)",
                 "<=": "(%s <=? %s)", ">=": "(%s >=? %s)"}[op]
            return z % (va, vb), "bool", conj(ok)
        if ta == "bfe":
            nm = {"+": "add", "-": "sub", "*": "mul"}.get(op)
            if nm is None:
                raise Untranslatable("bfe operator %s" % op)
            f = self.ctx.bfe_ops[nm]
            return "(%s %s %s)" % (f, va, vb), "bfe", conj(ok + ["(%s_ok %s %s)" % (f, va, vb)])
        if ta == "bool":
            z = {"&": "(%s && %s)", "|": "(%s || %s)", "^": "(xorb %s %s)"}[op]
            return z % (va, vb), "bool", conj(ok)
        w = WIDTH[ta]
        if op in ("&", "|", "^"):
            if ta in SIGNED:
                raise Untranslatable("bit operator on signed")
            f = {"&": "Z.land", "|": "Z.lor", "^": "Z.lxor"}[op]
            return "(%s %s %s)" % (f, va, vb), ta, conj(ok)
        if ta in SIGNED:
            if op == "+":
                return "(%s + %s)" % (va, vb), ta, conj(ok + ["(sadd_ok %d %s %s)" % (w, va, vb)])
            if op == "-":
                return "(%s - %s)" % (va, vb), ta, conj(ok + ["(ssub_ok %d %s %s)" % (w, va, vb)])
            raise Untranslatable("signed operator %s" % op)
        if op == "+":
            return "(wadd %d %s %s)" % (w, va, vb), ta, conj(ok + ["(add_ok %d %s %s)" % (w, va, vb)])
        if op == "-":
            return "(wsub %d %s %s)" % (w, va, vb), ta, conj(ok + ["(sub_ok %s %s)" % (va, vb)])
        if op == "*":
            return "(wmul %d %s %s)" % (w, va, vb), ta, conj(ok + ["(mul_ok %d %s %s)" % (w, va, vb)])
        if op == "/":
            return "(%s / %s)" % (va, vb), ta, conj(ok + ["(negb (%s =? 0))" % vb])
        if op == "%":
            return "(%s mod %s)" % (va, vb), ta, conj(ok + ["(negb (%s =? 0))" % vb])
        raise Untranslatable("operator %s" % op)

    def call(self, e, env, hint):
        name, args = e[1], e[2]
        if name in ("Self", "BFieldElement") and len(args) == 1:
            v, ty, ok = self.ex(args[0], env, "u64")
            if ty != "u64":
                raise Untranslatable("BFieldElement(..) of %s" % ty)
            return v, "bfe", ok
        if name in getattr(self.ctx, "xfe_ctors", ()) and len(args) == 1 and args[0][0] == "array" and len(args[0][1]) == 3:
            parts = [self.ex(p_, env, "bfe") for p_ in args[0][1]]
            if any(p_[1] != "bfe" for p_ in parts):
                raise Untranslatable("%s: XFieldElement::new of non-bfe" % self.name)
            return "(" + ", ".join(p_[0] for p_ in parts) + ")", "xfe", conj([p_[2] for p_ in parts])
        m = re.match(r"([ui](?:8|16|32|64|128|size))::from$", name)
        if m and len(args) == 1:
            v, ty, ok = self.ex(args[0], env)
            to = m.group(1)
            if ty == "bool":
                return "(b2z %s)" % v, to, ok
            if ty in WIDTH and (WIDTH[ty] < WIDTH[to] or ty == to) and ((ty in SIGNED) <= (to in SIGNED)):
                return v, to, ok
            raise Untranslatable("%s of %s" % (name, ty))
        if name in self.ctx.funcs:
            coq, ptys, rty, has_ok = self.ctx.funcs[name]
            if len(ptys) != len(args):
                raise Untranslatable("%s: arity of %s" % (self.name, name))
            vs, oks = [], []
            for a, pt in zip(args, ptys):
                v, ty, ok = self.ex(a, env, pt)
                if ty != pt:
                    raise Untranslatable("%s: argument type %s for %s in %s" % (self.name, ty, pt, name))
                vs.append(v)
                oks.append(ok)
            if has_ok:
                oks.append("(%s_ok %s)" % (coq, " ".join(vs)))
            if not vs:
                return coq, rty, conj(oks)
            return "(%s %s)" % (coq, " ".join(vs)), rty, conj(oks)
        raise Untranslatable("%s: call to %s" % (self.name, name))

    def mcall(self, e, env, hint):
        recv, m, args = e[1], e[2], e[3]
        v, ty, ok = self.ex(recv, env, hint if m.startswith(("wrapping_", "overflowing_")) else None)
        if ty == "bfe":
            if m in ("raw_u64",) and not args:
                return v, "u64", ok
            key = "bfe." + m
            if key in self.ctx.funcs:
                coq, ptys, rty, has_ok = self.ctx.funcs[key]
                vs, oks = [v], [ok]
                for a, pt in zip(args, ptys[1:]):
                    av, aty, aok = self.ex(a, env, pt)
                    vs.append(av)
                    oks.append(aok)
                if has_ok:
                    oks.append("(%s_ok %s)" % (coq, " ".join(vs)))
                return "(%s %s)" % (coq, " ".join(vs)), rty, conj(oks)
            raise Untranslatable("%s: bfe method %s" % (self.name, m))
        if ty not in WIDTH:
            raise Untranslatable("%s: method %s on %s" % (self.name, m, ty))
        w = WIDTH[ty]
        if ty in SIGNED:
            raise Untranslatable("method %s on signed" % m)
        if m in ("wrapping_add", "wrapping_sub", "wrapping_mul", "overflowing_add", "overflowing_sub"):
            av, aty, aok = self.ex(args[0], env, ty)
            if aty != ty:
                raise Untranslatable("%s: %s operand %s vs %s" % (self.name, m, aty, ty))
            f = {"wrapping_add": "wadd", "wrapping_sub": "wsub", "wrapping_mul": "wmul",
                 "overflowing_add": "ovf_add", "overflowing_sub": "ovf_sub"}[m]
            rty = ty if m.startswith("wrapping") else ("tuple", (ty, "bool"))
            return "(%s %d %s %s)" % (f, w, v, av), rty, conj([ok, aok])
        if m == "leading_zeros":
            return "(leading_zeros %d %s)" % (w, v), "u32", ok
        if m == "trailing_zeros":
            return "(trailing_zeros %d %s)" % (w, v), "u32", ok
        if m == "count_ones":
            return "(count_ones %s)" % v, "u32", ok
        if m == "ilog2":
            return "(ilog2 %s)" % v, "u32", conj([ok, "(0 <? %s)" % v])
        if m == "pow":
            av, aty, aok = self.ex(args[0], env, "u32")
            return "(wrap %d (%s ^ %s))" % (w, v, av), ty, conj([ok, aok, "(%s ^ %s <? 2 ^ %d)" % (v, av, w)])
        if m == "is_power_of_two":
            return "((0 <? %s) && (count_ones %s =? 1))" % (v, v), "bool", ok
        if m == "next_power_of_two":
            return "(next_pow2 %s)" % v, ty, conj([ok, "(next_pow2 %s <? 2 ^ %d)" % (v, w)])
        raise Untranslatable("%s: integer method %s" % (self.name, m))

    def match(self, e, env, hint):
        v, ty, ok = self.ex(e[1], env)
        if ty not in WIDTH:
            raise Untranslatable("match on %s" % (ty,))
        x = "m%d" % self.n
        self.n += 1
        env2 = dict(env)

        def arm_cond(pat):
            if pat[0] == "wild":
                return "true"
            if pat[0] == "from":
                return "(%s <=? %s)" % (zlit(pat[1][1]), x)
            if pat[0] == "plit":
                return "(%s =? %s)" % (x, zlit(pat[1][1]))
            if pat[0] == "range":
                hi = "(%s <=? %s)" if pat[3] else "(%s <? %s)"
                return "((%s <=? %s) && %s)" % (zlit(pat[1][1]), x, hi % (x, zlit(pat[2][1])))
            raise Untranslatable("pattern")
        val, okv, rty = None, None, None
        for pat, guard, body in reversed(e[2]):
            bv, bty, bok = self.ex(body, env2, hint or rty)
            if rty is not None and bty != rty:
                raise Untranslatable("match arm types")
            rty = bty
            c = arm_cond(pat)
            gpre = "true"
            if guard is not None:
                gv, gty, gok = self.ex(guard, env2)
                if gok != "true":
                    gpre = "(if %s then %s else true)" % (c, gok)   # the guard is evaluated when the pattern matches
                c = "(%s && %s)" % (c, gv)
            if val is None:
                if c != "true":
                    raise Untranslatable("%s: non-exhaustive match (last arm must be `_`)" % self.name)
                val, okv = bv, bok
            else:
                val = "(if %s then %s else %s)" % (c, bv, val)
                okv = conj([gpre, "(if %s then %s else %s)" % (c, bok, okv)])
        return ("(let %s := %s in %s)" % (x, v, val), rty,
                conj([ok, "(let %s := %s in %s)" % (x, v, okv)]))

    def bind(self, pat, ty, env):
        """returns coq pattern string and updates env"""
        if pat[0] == "pvar":
            nm = pat[1]
            coq = nm if nm != "_" else "_"
            if nm.startswith("_") and nm != "_":
                coq = "u" + nm
            env[nm] = (coq, ty)
            return coq
        if pat[0] == "ptuple":
            if not (isinstance(ty, tuple) and ty[0] == "tuple" and len(ty[1]) == len(pat[1])):
                raise Untranslatable("%s: tuple pattern against %s" % (self.name, ty))
            if len(pat[1]) != 2:
                raise Untranslatable("tuple pattern arity")
            return "'(" + ", ".join(self.bind(p, t, env) for p, t in zip(pat[1], ty[1])) + ")"
        if pat[0] == "parray":
            if not (isinstance(ty, tuple) and ty[0] == "array3" and len(pat[1]) == 3):
                raise Untranslatable("%s: array pattern against %s" % (self.name, ty))
            return "'(" + ", ".join(self.bind(p, ty[1], env) for p in pat[1]) + ")"
        raise Untranslatable("pattern %s" % (pat,))

    def blk(self, b, env, hint=None):
        """block -> (value, type, ok). Handles lets, asserts and early return in `if`."""
        stmts, final = b[1], b[2]
        env = dict(env)
        return self.seq(list(stmts), final, env, hint)

    def seq(self, stmts, final, env, hint):
        if not stmts:
            if final is None:
                raise Untranslatable("%s: block without value" % self.name)
            if final[0] == "return":
                return self.ex(final[1], env, hint)
            return self.ex(final, env, hint)
        s, rest = stmts[0], stmts[1:]
        if s[0] == "let":
            v, ty, ok = self.ex(s[3], env, s[2])
            if s[2] is not None and s[2] != ty and not isinstance(s[2], tuple):
                raise Untranslatable("%s: let annotation %s vs %s" % (self.name, s[2], ty))
            env2 = dict(env)
            p = self.bind(s[1], ty, env2)
            rv, rty, rok = self.seq(rest, final, env2, hint)
            return ("(let %s := %s in\n  %s)" % (p, v, rv), rty,
                    conj([ok, "(let %s := %s in\n  %s)" % (p, v, rok)]) if rok != "true" else ok)
        if s[0] == "expr":
            e = s[1]
            if e[0] == "macro" and e[1] in ("assert!", "debug_assert!"):
                toks = e[2]
                # condition = tokens up to first top-level comma
                depth, cut = 0, len(toks)
                for i, (k, v) in enumerate(toks):
                    if k == "op" and v in "([{":
                        depth += 1
                    elif k == "op" and v in ")]}":
                        depth -= 1
                    elif k == "op" and v == "," and depth == 0:
                        cut = i
                        break
                cond = Parser(list(toks[:cut]) + [("eof", "")]).expr()
                cv, cty, cok = self.ex(cond, env)
                rv, rty, rok = self.seq(rest, final, env, hint)
                return rv, rty, conj([cok, cv, rok])
            if e[0] == "if" and e[3] is None and self.returns(e[2]):
                cv, cty, cok = self.ex(e[1], env)
                av, aty, aok = self.blk(self.unreturn(e[2]), env, hint)
                rv, rty, rok = self.seq(rest, final, env, hint or aty)
                if aty != rty:
                    raise Untranslatable("%s: early return type %s vs %s" % (self.name, aty, rty))
                return ("(if %s then %s else\n  %s)" % (cv, av, rv), rty,
                        conj([cok, "(if %s then %s else\n  %s)" % (cv, aok, rok)]))
            if e[0] == "return" and not rest and final is None:
                return self.ex(e[1], env, hint)
        raise Untranslatable("%s: statement %s" % (self.name, s[0] if s[0] != "expr" else s[1][0]))

    @staticmethod
    def returns(block):
        st, fin = block[1], block[2]
        if fin is not None and fin[0] == "return":
            return True
        return bool(st) and st[-1][0] == "expr" and st[-1][1][0] == "return" and fin is None

    @staticmethod
    def unreturn(block):
        st, fin = block[1], block[2]
        if fin is not None and fin[0] == "return":
            return ("block", st, fin[1])
        return ("block", st[:-1], st[-1][1][1])


def parse_params(psrc, self_ty):
    toks = lex(psrc)
    p = Parser(toks)
    out = []
    while p.peek()[0] != "eof":
        if p.accept("&"):
            p.accept("mut")
        p.accept("mut")
        name = p.next()[1]
        if name == "self":
            out.append(("self", self_ty))
        else:
            p.expect(":")
            out.append((name, p.ty()))
        p.accept(",")
    return out


def coq_ty(ty):
    if ty == "bool":
        return "bool"
    if isinstance(ty, tuple) and ty[0] == "tuple":
        return "(" + " * ".join(coq_ty(t) for t in ty[1]) + ")"
    if ty == "xfe":
        return "(Z * Z * Z)"
    return "Z"


def norm_ty(t):
    if isinstance(t, tuple) and t[0] == "tuple":
        return ("tuple", tuple(norm_ty(x) for x in t[1]))
    if t in ("Self", "BFieldElement"):
        return "bfe"
    return t


def translate_fn(ctx, src, rust_name, coq_name, self_ty=None, nth=0, call_paths=()):
    psrc, ret, body = find_fn(src, rust_name, nth)
    params = [(n, norm_ty(t)) for n, t in parse_params(psrc, self_ty)]
    rty = norm_ty(Parser(lex(ret)).ty()) if ret else None
    blk = Parser(lex(body)).block()
    ft = FnTranslator(ctx, rust_name)
    env = {}
    names = []
    for n, t in params:
        cn = n if n != "self" else "self_"
        env[n] = (cn, t)
        names.append(cn)
    v, ty, ok = ft.blk(blk, env, rty)
    if rty is not None and ty != rty:
        raise Untranslatable("%s: return type %s vs declared %s" % (rust_name, ty, rty))
    args = " ".join("(%s : %s)" % (n, coq_ty(t)) for n, (_, t) in zip(names, params))
    txt = "Definition %s %s : %s :=\n  %s.\n\n" % (coq_name, args, coq_ty(ty), v)
    txt += "Definition %s_ok %s : bool :=\n  %s.\n\n" % (coq_name, args, ok)
    ctx.add_func(call_paths, coq_name, [t for _, t in params], ty)
    return txt


# ------------------------------------------------------------------ constant evaluation
def const_eval(src_expr, consts):
    """Evaluate a Rust constant integer expression (u64 wrap-free subset) in Python."""
    e = Parser(lex(src_expr)).expr()

    def ev(e):
        k = e[0]
        if k == "lit":
            return e[1]
        if k == "paren":
            return ev(e[1])
        if k == "path":
            if e[1] in consts:
                return consts[e[1]]
            raise Untranslatable("const %s" % e[1])
        if k == "bin":
            a, b = ev(e[2]), ev(e[3])
            return {"+": a + b, "-": a - b, "*": a * b, "<<": a << b, ">>": a >> b,
                    "/": a // b if b else 0, "&": a & b, "|": a | b}[e[1]]
        if k == "cast":
            return ev(e[1]) % (1 << WIDTH[e[2]])
        raise Untranslatable("const expr %s" % k)
    return ev(e)


def find_const(src, name):
    m = re.search(r"\bconst\s+%s\s*:\s*([^=]+?)=\s*(.*?);" % re.escape(name), src, re.S)
    if not m:
        raise Untranslatable("const %s not found" % name)
    return m.group(1).strip(), m.group(2).strip()


def int_list(src_fragment):
    return [int(x.replace("_", ""), 0) for x in
            re.findall(r"(?<![A-Za-z_\d])(0x[0-9a-fA-F_]+|\d[\d_]*)(?:u64|u32|u8|u16)?(?![\dA-Za-z_])",
                       src_fragment)]


def coq_zlist(xs, per=4):
    rows = ["; ".join(str(x) for x in xs[i:i + per]) for i in range(0, len(xs), per)]
    return "[" + ";\n   ".join(rows) + "]"


# ------------------------------------------------------------------ output
HEADER = ("(* GENERATED by tools/rs2v.py from %s - do not edit. *)\n"
          "From Coq Require Import ZArith Bool List.\nFrom TF Require Import Word.\n"
          "Import ListNotations.\nOpen Scope Z_scope.\nOpen Scope bool_scope.\n\n")


def write_if_changed(path, txt):
    try:
        with open(path) as f:
            if f.read() == txt:
                return False
    except FileNotFoundError:
        pass
    os.makedirs(os.path.dirname(path), exist_ok=True)
    with open(path, "w") as f:
        f.write(txt)
    return True


# ------------------------------------------------------------------ modules (tools/gen/gen_*.py)
def load_modules():
    import importlib.util
    d = os.path.join(os.path.dirname(os.path.abspath(__file__)), "gen")
    mods = []
    for f in sorted(os.listdir(d)):
        if f.startswith("gen_") and f.endswith(".py"):
            spec = importlib.util.spec_from_file_location(f[:-3], os.path.join(d, f))
            m = importlib.util.module_from_spec(spec)
            spec.loader.exec_module(m)
            mods.append(m)
    return mods


def main():
    report = []
    for m in load_modules():
        try:
            m.generate(report)
        except Untranslatable as ex:
            report.append((m.__name__, "*", str(ex)))
        except Exception as ex:  # a translator crash is reported, never fatal for other modules
            report.append((m.__name__, "*", "translator error: %r" % (ex,)))
    txt = "".join("UNTRANSLATABLE %s %s: %s\n" % r for r in report)
    write_if_changed(os.path.join(OUT, "REPORT.txt"), txt)
    sys.stdout.write(txt)
    return 0


if __name__ == "__main__":
    sys.modules.setdefault("rs2v", sys.modules["__main__"])
    sys.exit(main())
