#!/bin/bash
# runall.sh [tier] : run every registered check once (sequentially), print one summary line per property.
cd "$(dirname "$0")/.."
tier=${1:-quick}
for i in 01 02 03 04 05 06 07 08 09 10 11 12 13 14 15 16 17 18 19 20; do
  out=$(timeout 7200 ./check C$i --tier $tier 2>&1); rc=$?
  echo "C$i rc=$rc $(echo "$out" | grep -E "\[check\]" | tail -1) $(echo "$out" | grep -cE "^VIOLATION") violation-lines $(echo "$out" | grep -cE "^KNOWN-FINDING") known-finding-lines"
done
