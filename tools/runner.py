#!/usr/bin/env python3
"""runner.py - common machinery of ./check (see DESIGN.md sections 1.3, 1.4, 4).

A property module (tools/props/cXX.py) defines:
  ID            "C01"
  PROOF_TARGETS list of coq .vo targets (relative to coq/) holding the lemmas
  PROPS_FILE    "props/C01.v" (only Theorem ... exact ... Qed. + Print Assumptions)
  EXTRACT       "extract/ExtractC01.vo" or None
  ORACLE        ("gen_c01", "c01.ml") or None  -> ocaml/gen_c01/model.ml + ocaml/c01.ml
  HARNESS       "c01"  (sub-command of the Rust harness) or None
  PROFILES      ["release"] or ["release", "checked"]
  cases(tier, rng) -> list of (klass, "op args...") ; ids are assigned by the runner
  compare(case, impl, model) -> None if they agree, else a short reason   (optional; default: string equality)
  finding_key(case, impl, model) -> key string for KNOWN_FINDINGS matching (optional)
  nontrivial(case) -> bool (optional)
  extra_checks(ctx) -> list of violation dicts (optional; for checks that are not case-based)
  TRUSTED, ASSUMPTIONS lists of strings
"""
import fcntl
import hashlib
import json
import os
import random
import re
import subprocess
import sys
import time

ROOT = os.path.normpath(os.path.join(os.path.dirname(os.path.abspath(__file__)), ".."))
COQ = os.path.join(ROOT, "coq")
OCAML = os.path.join(ROOT, "ocaml")
HARNESS = os.path.join(ROOT, "harness")
CACHE = os.path.join(ROOT, ".cache")
REPO = os.environ.get("VERIF_REPO", "/repo")

ALLOWED_AXIOMS = {
    # axioms declared by Coq's standard library that a theorem may depend on (named in the trusted base)
    "functional_extensionality_dep", "proof_irrelevance", "classic", "eq_rect_eq", "Eqdep.Eq_rect_eq.eq_rect_eq",
    "JMeq_eq", "propositional_extensionality",
}
FORBIDDEN = re.compile(r"\b(Admitted|admit|Axiom|Parameter|Conjecture|Admit Obligations|bypass_check|"
                       r"Unset Guard Checking|Unset Positivity Checking|Unset Universe Checking)\b|type-in-type|impredicative-set")


def sh(cmd, cwd=None, timeout=None, env=None, stdin=None):
    e = dict(os.environ)
    e.update({"CARGO_NET_OFFLINE": "true"})
    if env:
        e.update(env)
    t0 = time.time()
    try:
        p = subprocess.run(cmd, cwd=cwd, timeout=timeout, env=e, input=stdin, stdout=subprocess.PIPE,
                           stderr=subprocess.STDOUT, shell=isinstance(cmd, str))
        return p.returncode, p.stdout.decode("utf-8", "replace"), time.time() - t0
    except subprocess.TimeoutExpired as ex:
        out = (ex.stdout or b"").decode("utf-8", "replace")
        return 124, out + "\nTIMEOUT", time.time() - t0


class Lock:
    def __init__(self, name="build.lock"):
        os.makedirs(CACHE, exist_ok=True)
        self.path = os.path.join(CACHE, name)

    def __enter__(self):
        self.f = open(self.path, "w")
        fcntl.flock(self.f, fcntl.LOCK_EX)
        return self

    def __exit__(self, *a):
        fcntl.flock(self.f, fcntl.LOCK_UN)
        self.f.close()


def log(msg):
    sys.stderr.write("[check] %s\n" % msg)
    sys.stderr.flush()


# ------------------------------------------------------------------ build steps
def regenerate():
    rc, out, _ = sh([sys.executable, os.path.join(ROOT, "tools", "rs2v.py")], timeout=300)
    rep = os.path.join(COQ, "gen", "REPORT.txt")
    untr = open(rep).read().strip().splitlines() if os.path.exists(rep) else []
    rc2, out2, _ = sh([sys.executable, os.path.join(ROOT, "tools", "coqproject.py")], timeout=120)
    if rc2 != 0:
        raise RuntimeError("coqproject failed: " + out2)
    return untr


def gen_drift():
    """Compare coq/gen with coq/gen_golden; return list of differing files."""
    g, gg = os.path.join(COQ, "gen"), os.path.join(ROOT, "golden")
    diff = []
    if not os.path.isdir(gg):
        return diff
    for f in sorted(set(os.listdir(g)) | set(os.listdir(gg))):
        if not f.endswith(".v"):
            continue
        a = open(os.path.join(g, f)).read() if os.path.exists(os.path.join(g, f)) else None
        b = open(os.path.join(gg, f)).read() if os.path.exists(os.path.join(gg, f)) else None
        if a != b:
            diff.append(f)
    return diff


def coq_make(targets, timeout=3000):
    if not targets:
        return 0, "", 0.0
    return sh(["make", "-f", "Makefile.coq", "-j16"] + list(targets), cwd=COQ, timeout=timeout)


def coq_props(props_file, timeout=2400):
    """Compile the props file directly so that Print Assumptions output is captured on every run."""
    rc, out, dt = sh(["coqc", "-Q", ".", "TF", "-w",
                      "-notation-overridden,-deprecated-hint-without-locality,-deprecated-instance-without-locality,"
                      "-ambiguous-paths,-deprecated-syntactic-definition", props_file], cwd=COQ, timeout=timeout)
    return rc, out, dt


def parse_assumptions(props_src, out):
    """Return (theorems, per-theorem axioms dict). Output of each `Print Assumptions` is in order."""
    thms = re.findall(r"^(?:Theorem|Lemma)\s+(\w+)", props_src, re.M)
    printed = re.findall(r"^Print Assumptions\s+(\w+)\s*\.", props_src, re.M)
    blocks = re.split(r"(?=^Closed under the global context|^Axioms:)", out, flags=re.M)
    blocks = [b for b in blocks if b.startswith("Closed under") or b.startswith("Axioms:")]
    res = {}
    for name, blk in zip(printed, blocks):
        if blk.startswith("Closed under"):
            res[name] = []
        else:
            res[name] = re.findall(r"^([\w.']+)\s*:", blk[len("Axioms:"):], re.M)
    return thms, printed, res


def static_scan():
    bad = []
    for d in ("lib", "model", "spec", "proofs", "props", "extract", "gen"):
        p = os.path.join(COQ, d)
        if not os.path.isdir(p):
            continue
        for f in sorted(os.listdir(p)):
            if not f.endswith(".v"):
                continue
            src = open(os.path.join(p, f)).read()
            src_nc = re.sub(r"\(\*.*?\*\)", "", src, flags=re.S)
            for m in FORBIDDEN.finditer(src_nc):
                bad.append("%s/%s: %s" % (d, f, m.group(0)))
            if re.search(r"^\s*(Variable|Hypothesis|Variables|Hypotheses)\b", src_nc, re.M):
                # allowed only inside a Section: crude check = a Section keyword occurs before it
                first = re.search(r"^\s*(Variable|Hypothesis|Variables|Hypotheses)\b", src_nc, re.M).start()
                if "Section" not in src_nc[:first]:
                    bad.append("%s/%s: Variable outside Section" % (d, f))
    return bad


def cargo_build(profile, binname, timeout=1500):
    lock_src = os.path.join(REPO, "Cargo.lock")
    lock_dst = os.path.join(HARNESS, "Cargo.lock")
    if not os.path.exists(lock_dst):
        import shutil
        shutil.copy(lock_src, lock_dst)
    cmd = ["cargo", "build", "--offline", "--profile", profile, "--bin", binname]
    env = {"RUSTFLAGS": "--cfg twenty_first_verif"}
    rc, out, dt = sh(cmd, cwd=HARNESS, timeout=timeout, env=env)
    sub = "release" if profile == "release" else profile
    tdir = os.environ.get("CARGO_TARGET_DIR") or os.path.join(HARNESS, "target")
    return rc, out, os.path.join(tdir, sub, binname), dt


def ocaml_build(gen_dir, driver, timeout=600):
    d = os.path.join(OCAML, gen_dir)
    exe = os.path.join(d, "oracle")
    srcs = [os.path.join(d, "model.mli"), os.path.join(d, "model.ml"), os.path.join(OCAML, driver)]
    stamp = os.path.join(d, "oracle.stamp")
    h = hashlib.sha256()
    for s_ in srcs:
        h.update(open(s_, "rb").read())
    dig = h.hexdigest()
    if os.path.exists(exe) and os.path.exists(stamp) and open(stamp).read() == dig:
        return 0, "", exe, 0.0
    # copy the driver next to the model so that object files stay in the gen dir
    drv = os.path.join(d, "driver.ml")
    open(drv, "w").write(open(os.path.join(OCAML, driver)).read())
    rc, out, dt = sh(["ocamlfind", "ocamlopt", "-inline", "100",
                      "-package", "zarith", "-linkpkg", "-w", "-a", "-I", d,
                      os.path.join(d, "model.mli"), os.path.join(d, "model.ml"), drv, "-o", exe], cwd=d, timeout=timeout)
    if rc == 0:
        open(stamp, "w").write(dig)
    return rc, out, exe, dt


# ------------------------------------------------------------------ running
def run_lines(exe, args, lines, timeout, env=None):
    data = ("\n".join(lines) + "\n").encode()
    e = dict(os.environ)
    if env:
        e.update(env)
    t0 = time.time()
    try:
        p = subprocess.run([exe] + args, input=data, stdout=subprocess.PIPE, stderr=subprocess.PIPE, timeout=timeout,
                           env=e, preexec_fn=lambda: __import__("resource").setrlimit(
                               __import__("resource").RLIMIT_STACK, (-1, -1)))
    except subprocess.TimeoutExpired as ex:
        # keep what was answered before the deadline: the harness answers in input order and flushes every line, so the
        # first case without an answer is the one that did not return
        part = {}
        for ln in (ex.stdout or b"").decode("utf-8", "replace").splitlines():
            i = ln.find(" ")
            if i > 0:
                part[ln[:i]] = ln[i + 1:]
        run_lines.partial = part
        return None, "timeout after %ss" % timeout, time.time() - t0
    res = {}
    for ln in p.stdout.decode("utf-8", "replace").splitlines():
        i = ln.find(" ")
        if i < 0:
            res[ln] = ""
        else:
            res[ln[:i]] = ln[i + 1:]
    err = p.stderr.decode("utf-8", "replace")[-2000:] if p.returncode != 0 else ""
    return res, err, time.time() - t0


def run_each_in_own_process(exe, lines, budget_s, env=None, cap=20000, workers=16, per_case_timeout=120):
    """Every line as the ONLY input of a process of its own (process-global state of the library - lazily initialised
    statics, global caches - in its initial condition for each case).  A deterministic stride sample when there are more
    than `cap` lines; stops submitting when the time budget is used up.  Returns {id: output} for the cases that ran."""
    import concurrent.futures
    e = dict(os.environ)
    if env:
        e.update(env)
    step = max(1, (len(lines) + cap - 1) // cap)
    todo = lines[::step]
    t0 = time.time()
    res = {}
    timed_out = []
    run_each_in_own_process.timed_out = timed_out

    def one(ln):
        if time.time() - t0 > budget_s:
            return None
        try:
            p = subprocess.run([exe], input=(ln + "\n").encode(), stdout=subprocess.PIPE, stderr=subprocess.DEVNULL,
                               timeout=per_case_timeout, env=e)
        except subprocess.TimeoutExpired:
            timed_out.append(ln.split(" ", 1)[0])
            return None
        outl = p.stdout.decode("utf-8", "replace").splitlines()
        out = outl[0] if outl else ""
        i = out.find(" ")
        if not out:
            return (ln.split(" ", 1)[0], None)
        return (out[:i], out[i + 1:]) if i >= 0 else (out, "")

    with concurrent.futures.ThreadPoolExecutor(max_workers=workers) as ex:
        for r in ex.map(one, todo):
            if r is not None and r[1] is not None:
                res[r[0]] = r[1]
    return res, len(todo), time.time() - t0


def known_findings():
    p = os.path.join(ROOT, "KNOWN_FINDINGS.txt")
    out = []
    if os.path.exists(p):
        for ln in open(p):
            m = re.match(r"finding:\s*property=(\w+)\s+key=(\S+)\s*(.*)", ln.strip())
            if m:
                out.append((m.group(1), m.group(2), m.group(3)))
    return out


def write_json(path, obj):
    os.makedirs(os.path.dirname(path), exist_ok=True)
    tmp = path + ".tmp"
    with open(tmp, "w") as f:
        json.dump(obj, f, indent=1, sort_keys=False)
        f.write("\n")
    os.replace(tmp, path)


def main_check(mod, argv):
    import argparse
    ap = argparse.ArgumentParser()
    ap.add_argument("--tier", default=os.environ.get("VERIF_TIER", "quick"))
    ap.add_argument("--replay", default=None)
    a = ap.parse_args(argv)
    tier = a.tier if a.tier in ("quick", "thorough") else "quick"
    seed = int(os.environ.get("VERIF_SEED", "20260930") or 20260930)
    t_start = time.time()
    pid = mod.ID
    ev_path = os.path.join(ROOT, "evidence", pid + ".json")
    replay_dir = os.path.join(ROOT, "evidence", "replay")
    os.makedirs(replay_dir, exist_ok=True)
    violations = []          # dicts with 'replay' payloads
    coqchk_info = None
    notes = []
    proof_broken = []        # names of theorems / files that no longer check
    discharged, obligations = 0, 0
    axioms_seen = {}
    checker_cmds = []

    with Lock():
        untr = regenerate()
        drift = gen_drift()
        mine_untr = [u for u in untr if any(tag in u for tag in getattr(mod, "GEN_TAGS", []))]
        if mine_untr:
            proof_broken.append("translator: " + "; ".join(mine_untr))
        # 1. model + extraction (must not depend on proofs)
        model_ok = True
        if getattr(mod, "EXTRACT", None):
            os.makedirs(os.path.join(OCAML, mod.ORACLE[0]), exist_ok=True)
            rc, out, dt = coq_make([mod.EXTRACT])
            checker_cmds.append("make -f Makefile.coq %s" % mod.EXTRACT)
            if rc != 0:
                model_ok = False
                proof_broken.append("model/extraction does not compile: " + out.strip().splitlines()[-3:].__str__())
        # 2. proofs
        rc, out, dt = coq_make(mod.PROOF_TARGETS)
        checker_cmds.append("make -f Makefile.coq -j16 " + " ".join(mod.PROOF_TARGETS))
        props_files = [mod.PROPS_FILE] + list(getattr(mod, "EXTRA_PROPS_FILES", []))
        props_srcs = {pf: open(os.path.join(COQ, pf)).read() for pf in props_files}
        thms = [t for pf in props_files for t in re.findall(r"^(?:Theorem|Lemma)\s+(\w+)", props_srcs[pf], re.M)]
        obligations = len(thms)
        if rc != 0:
            tail = "\n".join(out.strip().splitlines()[-12:])
            proof_broken.append("proof build failed:\n" + tail)
        else:
            for pf in props_files:
                rc, out, dt = coq_props(pf)
                checker_cmds.append("coqc -Q . TF " + pf)
                if rc != 0:
                    tail = "\n".join(out.strip().splitlines()[-12:])
                    proof_broken.append("props file %s failed:\n" % pf + tail)
                    continue
                thms_f, printed, ax_f = parse_assumptions(props_srcs[pf], out)
                axioms_seen.update(ax_f)
                for t in thms_f:
                    if t not in ax_f:
                        proof_broken.append("no Print Assumptions output for " + t)
                        continue
                    bad = [x for x in ax_f[t] if x.split(".")[-1] not in ALLOWED_AXIOMS and x not in ALLOWED_AXIOMS]
                    if bad:
                        proof_broken.append("theorem %s depends on non-allowed axioms %s" % (t, bad))
                    else:
                        discharged += 1
        bad = static_scan()
        if bad:
            proof_broken.append("forbidden constructs: " + "; ".join(bad[:10]))
        coqchk_info = None
        coqchk_snap = None
        if tier == "thorough" and not proof_broken:
            # independent re-check of the compiled props modules and everything they depend on: the compiled files are
            # snapshotted here (under the build lock) and coqchk runs on the snapshot AFTER the lock is released, so that a
            # ten-minute coqchk does not block every other check
            import shutil
            import tempfile
            coqchk_snap = tempfile.mkdtemp(prefix="coqchk_", dir=CACHE)
            for dp, dn, fn in os.walk(COQ):
                rel = os.path.relpath(dp, COQ)
                for f in fn:
                    if f.endswith(".vo"):
                        os.makedirs(os.path.join(coqchk_snap, rel), exist_ok=True)
                        shutil.copy2(os.path.join(dp, f), os.path.join(coqchk_snap, rel, f))
        # 2b. fallback for the failing-input search: when the regenerated model of this property does not build
        # (translator refused a function, or the regenerated file no longer compiles), rebuild the executable model
        # from the golden copy of the generated files (the model of the last tree on which everything checked), so
        # that the correspondence can still look for a concrete input on which the changed code leaves the property.
        used_golden = False
        if getattr(mod, "EXTRACT", None) and (not model_ok or mine_untr):
            import shutil
            gdir = os.path.join(ROOT, "golden")
            tags = getattr(mod, "GEN_TAGS", [])
            copied = []
            for f in sorted(os.listdir(gdir)) if os.path.isdir(gdir) else []:
                if f.endswith(".v") and any(f.startswith(t) for t in tags):
                    shutil.copy(os.path.join(gdir, f), os.path.join(COQ, "gen", f))
                    copied.append(f)
            if copied:
                rc, out, dt = coq_make([mod.EXTRACT])
                if rc == 0:
                    model_ok = True
                    used_golden = True
                    notes.append("executable model rebuilt from golden/%s because the regenerated one does not build" % ",".join(copied))
        # 3. implementation harness + oracle
        exes = {}
        if getattr(mod, "HARNESS", None):
            for prof in mod.PROFILES:
                rc, out, exe, dt = cargo_build(prof, mod.HARNESS)
                if rc != 0:
                    tail = "\n".join(out.strip().splitlines()[-25:])
                    violations.append({"kind": "harness-build-failed", "profile": prof, "detail": tail,
                                       "no_input": True})
                else:
                    exes[prof] = exe
        oracle = None
        if getattr(mod, "ORACLE", None) and model_ok:
            rc, out, oracle, dt = ocaml_build(*mod.ORACLE)
            if rc != 0:
                proof_broken.append("oracle build failed: " + out[-1500:])
                oracle = None

    if coqchk_snap:
        import shutil
        modnames = ["TF." + pf[:-2].replace("/", ".") for pf in [mod.PROPS_FILE] + list(getattr(mod, "EXTRA_PROPS_FILES", []))]
        modname = " ".join(modnames)
        rc, out, dt = sh(["coqchk", "-silent", "-o", "-Q", ".", "TF"] + modnames, cwd=coqchk_snap, timeout=3600)
        shutil.rmtree(coqchk_snap, ignore_errors=True)
        checker_cmds.append("coqchk -silent -o -Q . TF " + modname)
        m = re.search(r"\* Axioms:(.*?)\n\s*\n\s*\*", out, re.S)
        axl = [a.strip() for a in (m.group(1).strip().splitlines() if m else []) if a.strip() and a.strip() != "<none>"]
        coqchk_info = {"rc": rc, "axioms": axl, "wall_s": round(dt, 1)}
        if rc == 124 and out.rstrip().endswith("TIMEOUT"):
            # the independent re-checker did not finish within the hour (it needs 10-25 minutes on an idle machine; seen once,
            # with the machine at load 80-100): no verdict from coqchk.  The kernel check (coqc, above) stands; recorded in
            # the evidence, not reported as a broken proof
            coqchk_info["timed_out"] = True
            notes.append("coqchk did not finish within 3600 s (no verdict from the re-checker; coqc's check stands)")
        elif rc != 0:
            proof_broken.append("coqchk failed: " + "\n".join(out.strip().splitlines()[-8:]))
        else:
            badax = [a for a in axl if a.split(".")[-1] not in ALLOWED_AXIOMS]
            if badax or "type-in-type: <none>" not in out.replace("relying on ", "") or "positivity is assumed: <none>" not in out:
                proof_broken.append("coqchk reports non-allowed context: axioms=%s" % axl)

    # 4. cases
    rng = random.Random(seed)
    corpus = []
    cdir = os.path.join(ROOT, "corpus", pid)
    if os.path.isdir(cdir):
        for f in sorted(os.listdir(cdir)):
            for ln in open(os.path.join(cdir, f)):
                ln = ln.strip()
                if ln and not ln.startswith("#"):
                    corpus.append(("corpus", ln))
    if a.replay:
        rp = json.load(open(a.replay))
        gen = [("replay", rp["case"])] if "case" in rp else []
    else:
        gen = corpus + list(mod.cases(tier, rng))
    cases = [("%d" % i, k, c) for i, (k, c) in enumerate(gen)]
    lines = ["%s %s" % (i, c) for i, k, c in cases]
    by_class = {}
    for _, k, _ in cases:
        by_class[k] = by_class.get(k, 0) + 1
    impl_out = {}
    partial_profiles = {}
    model_out = None
    run_to = getattr(mod, "RUN_TIMEOUT", {"quick": 600, "thorough": 3000})[tier]
    if lines and getattr(mod, "HARNESS", None):
        hang_found = False
        for prof, exe in exes.items():
            if hang_found:
                break
            res, err, dt = run_lines(exe, [], lines, run_to, getattr(mod, "ENV", None))
            if res is None:
                part = getattr(run_lines, "partial", None) or {}
                stuck = next(((k, c) for i, k, c in cases if i not in part), None)
                if stuck is not None and part:
                    # re-run the suspect alone with a short deadline to tell "this case does not return" from "the batch
                    # as a whole was too slow"
                    alone, _, _ = run_lines(exe, [], ["0 " + stuck[1]], 120, getattr(mod, "ENV", None))
                    if alone is None:
                        violations.append({"kind": "impl-vs-model", "case": stuck[1], "class": stuck[0], "profile": prof,
                                           "impl": "NO ANSWER within 120 s (alone)", "model": "(not consulted)",
                                           "why": "the implementation does not return on this case (batch timeout after %d "
                                                  "answered cases; confirmed alone)" % len(part)})
                        hang_found = True
                        continue
                    # the first unanswered case returns when run alone: look among ALL unanswered cases for one that does
                    # not (each in a process of its own, 16 at a time, 45 s each)
                    un = [(i, k, c) for i, k, c in cases if i not in part]
                    _, _, _ = run_each_in_own_process(exe, ["%s %s" % (i, c) for i, k, c in un], 300,
                                                      getattr(mod, "ENV", None), cap=4000, per_case_timeout=45)
                    slow = set(getattr(run_each_in_own_process, "timed_out", []))
                    for i, k, c in un:
                        if i in slow:
                            violations.append({"kind": "impl-vs-model", "case": c, "class": k, "profile": prof,
                                               "impl": "NO ANSWER within 45 s (alone, in a process of its own)",
                                               "model": "(not consulted)",
                                               "why": "the implementation does not return on this case in 45 s (the batch timed out "
                                                      "after %d answered cases; %d unanswered cases were then run one by one, %d of "
                                                      "them did not answer)" % (len(part), len(un), len(slow))})
                            hang_found = True
                            break
                    if hang_found:
                        continue
                violations.append({"kind": "harness-timeout", "profile": prof, "detail": err, "no_input": True})
            else:
                impl_out[prof] = res
        # third pass: the release binary again with every case in a thread of its own (thread-local state of the library
        # in its initial condition for each case; the passes above see the state the preceding cases left behind)
        if "release" in exes and getattr(mod, "FRESH_THREAD", True) and not hang_found:
            env2 = dict(getattr(mod, "ENV", None) or {})
            env2["TFH_FRESH_THREAD"] = "1"
            res, err, dt = run_lines(exes["release"], [], lines, run_to, env2)
            if res is None:
                notes.append("fresh-thread pass timed out: " + str(err)[:200])
            else:
                impl_out["release/fresh-thread"] = res
        # fourth pass: every case (a stride sample above 20000) as the only input of a process of its own: process-global
        # state of the library in its initial condition; partial by construction (time budget), missing ids are skipped
        if "release" in exes and getattr(mod, "FRESH_PROCESS", True) and not hang_found:
            fp_res, fp_n, fp_dt = run_each_in_own_process(exes["release"], lines, 60 if tier == "quick" else 400,
                                                          getattr(mod, "ENV", None))
            partial_profiles["release/fresh-process"] = {"submitted": fp_n, "completed": len(fp_res), "wall_s": round(fp_dt, 1)}
            impl_out["release/fresh-process"] = fp_res
    if lines and oracle:
        model_out, err, dt = run_lines(oracle, [], lines, run_to)
        if model_out is None:
            proof_broken.append("oracle timed out")
    # 5. compare
    kf = [k for k in known_findings() if k[0] == pid]
    kf_hit = {}
    mismatches = 0
    compare = getattr(mod, "compare", None)
    fkey = getattr(mod, "finding_key", None)
    samples = []
    distinct = set()
    nontrivial = getattr(mod, "nontrivial", lambda c: True)
    for i, k, c in cases:
        if nontrivial(c):
            distinct.add(c)
        m = model_out.get(i) if model_out is not None else None
        for prof, res in impl_out.items():
            r = res.get(i)
            if r is None and prof in partial_profiles:
                continue
            if r is None:
                why = "implementation produced no output (crash/abort?)"
            elif m is None:
                if model_out is None:
                    continue
                why = "oracle produced no output"
            elif compare:
                why = compare(c, r, m)
            else:
                why = None if r == m else "implementation and model/spec differ"
            if why is None:
                continue
            key = fkey(c, r, m) if fkey else None
            hit = [f for f in kf if key is not None and f[1] == key]
            if hit:
                kf_hit.setdefault(key, [hit[0][2], 0, c])
                kf_hit[key][1] += 1
                continue
            mismatches += 1
            if len(violations) < 20:
                violations.append({"kind": "impl-vs-model", "case": c, "class": k, "profile": prof,
                                   "impl": r, "model": m, "why": why})
        if len(samples) < 6 and m is not None and impl_out:
            if i in ("0",) or rng.random() < 6.0 / max(1, len(cases)):
                samples.append({"case": c, "impl": next(iter(impl_out.values())).get(i), "model": m})
    if not samples and cases:
        i, k, c = cases[0]
        samples.append({"case": c, "impl": next(iter(impl_out.values())).get(i) if impl_out else None,
                        "model": model_out.get(i) if model_out else None})
    # 5b. failing-input search escalation: something no longer checks, but the quick case set found no concrete input:
    # run the thorough generator (more boundary classes, 10^5..10^6 random cases) as the search, release profile only.
    search_info = None
    if proof_broken and not a.replay and tier == "quick" and not [v for v in violations if not v.get("no_input")] \
            and oracle and exes and os.environ.get("VERIF_NO_ESCALATE") != "1":
        t_s = time.time()
        srng = random.Random(seed + 1)
        sgen = list(mod.cases("thorough", srng))
        scases = [("s%d" % i, k, c) for i, (k, c) in enumerate(sgen)]
        slines = ["%s %s" % (i, c) for i, k, c in scases]
        prof = "release" if "release" in exes else next(iter(exes))
        s_to = getattr(mod, "RUN_TIMEOUT", {"quick": 600, "thorough": 3000})["thorough"]
        sres, err, dt = run_lines(exes[prof], [], slines, s_to, getattr(mod, "ENV", None))
        smod, err2, dt2 = run_lines(oracle, [], slines, s_to)
        found = 0
        if sres is not None and smod is not None:
            for i, k, c in scases:
                r, m = sres.get(i), smod.get(i)
                if r is None or m is None:
                    continue
                why = compare(c, r, m) if compare else (None if r == m else "implementation and model/spec differ")
                if why is None:
                    continue
                key = fkey(c, r, m) if fkey else None
                if key is not None and [f for f in kf if f[1] == key]:
                    continue
                found += 1
                mismatches += 1
                if len(violations) < 20:
                    violations.append({"kind": "impl-vs-model", "case": c, "class": k, "profile": prof, "impl": r,
                                       "model": m, "why": why, "found_by": "search escalation (thorough generator)"})
        search_info = {"cases": len(scases), "found": found, "wall_s": round(time.time() - t_s, 1),
                       "completed": sres is not None and smod is not None}
    extra = getattr(mod, "extra_checks", None)
    extra_info = {}
    if extra:
        ctx = {"tier": tier, "seed": seed, "exes": exes, "oracle": oracle, "rng": rng, "kf": kf, "kf_hit": kf_hit,
               "root": ROOT}
        ev_extra = extra(ctx)
        violations.extend(ev_extra.get("violations", []))
        extra_info = ev_extra.get("info", {})
    # 6. verdict
    rc_final = 0
    out_lines = []
    for key, (desc, n, c) in kf_hit.items():
        out_lines.append("KNOWN-FINDING: property=%s key=%s %s (%d case(s), e.g. `%s`)" % (pid, key, desc, n, c))
    real = [v for v in violations if not v.get("no_input")]
    noinput = [v for v in violations if v.get("no_input")]
    if real:
        v = real[0]
        path = os.path.join(replay_dir, "%s_%d.json" % (pid, int(time.time())))
        write_json(path, dict(v, property=pid, seed=seed, tier=tier, proof_broken=proof_broken, all=real[:20]))
        out_lines.append("VIOLATION property=%s replay=%s" % (pid, path))
        rc_final = 1
    elif proof_broken or noinput:
        path = os.path.join(replay_dir, "%s_%d.json" % (pid, int(time.time())))
        write_json(path, {"property": pid, "kind": "proof-or-correspondence-broken", "no_longer_checks": proof_broken,
                          "other": noinput, "gen_drift": drift, "seed": seed, "tier": tier,
                          "searched_cases": len(cases)})
        out_lines.append("VIOLATION property=%s replay=%s no-failing-input-found" % (pid, path))
        rc_final = 1
    wall = time.time() - t_start
    trusted = list(getattr(mod, "TRUSTED", []))
    ax = sorted({x for v in axioms_seen.values() for x in v})
    ev = {
        "property_id": pid, "tier": tier, "seed": seed, "level": "proof",
        "coverage": {
            "obligations": obligations, "discharged": discharged,
            "checker_cmd": " && ".join(checker_cmds) if checker_cmds else "make",
            "trusted_base": trusted + ["axioms reported by Print Assumptions: " + (", ".join(ax) if ax else "none (Closed under the global context)")],
            "theorems": sorted(axioms_seen.keys()),
            "evaluations": len(cases) * max(1, len(impl_out)),
            "distinct_nontrivial": len(distinct),
            "rule": getattr(mod, "RULE", "boundary-directed and seeded random cases; a case is non-trivial if the property module says so; distinct = distinct case text"),
            "samples": samples,
            "correspondence": {"cases": len(cases), "by_class": by_class, "profiles": list(impl_out.keys()), "partial_profiles": partial_profiles,
                               "mismatches": mismatches, "oracle": bool(model_out is not None)},
            "translator": {"untranslatable": untr, "drift_from_golden": drift},
            "proof_broken": proof_broken,
            "model_from_golden_copy": used_golden,
            "search_escalation": search_info,
            "coqchk": coqchk_info,
            "known_findings_hit": {k: v[1] for k, v in kf_hit.items()},
        },
        "assumptions": list(getattr(mod, "ASSUMPTIONS", [])),
        "wall_s": round(wall, 2),
        "violations": len(real) + (1 if (not real and (proof_broken or noinput)) else 0),
    }
    ev["coverage"].update(extra_info)
    write_json(ev_path, ev)
    for ln in out_lines:
        print(ln)
    log("%s tier=%s cases=%d mismatches=%d obligations=%d discharged=%d wall=%.1fs" %
        (pid, tier, len(cases), mismatches, obligations, discharged, wall))
    return rc_final
