#!/bin/bash
# setup: clean full build of the Coq development, both harness profiles and all oracles. Offline.
set -u
cd "$(dirname "$0")/.."
export CARGO_NET_OFFLINE=true
mkdir -p .cache evidence/replay
python3 tools/rs2v.py || true
for d in ocaml/gen_*; do :; done
python3 - <<'PY'
import os,re
# create the oracle output directories named in extraction files
for f in os.listdir('coq/extract'):
    for m in re.finditer(r'Extraction "\.\./ocaml/([^/]+)/', open(os.path.join('coq/extract',f)).read()):
        os.makedirs(os.path.join('ocaml',m.group(1)),exist_ok=True)
PY
python3 tools/coqproject.py
( cd coq && timeout 3000 make -f Makefile.coq -j16 -k 2>&1 | tail -40 )
[ -f harness/Cargo.lock ] || cp /repo/Cargo.lock harness/Cargo.lock
( cd harness && RUSTFLAGS="--cfg twenty_first_verif" cargo build --offline --profile release --bins --keep-going 2>&1 | tail -5 )
( cd harness && RUSTFLAGS="--cfg twenty_first_verif" cargo build --offline --profile checked --bins --keep-going 2>&1 | tail -5 )
exit 0
